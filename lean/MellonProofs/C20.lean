/-
  C20 — Degenerate and dirty inputs are sanitised or refused, never propagated.
  Property theorems only (helpers: ValidateLemmas.lean, LinalgProofs.lean).  The statements are about
  the exact model `Mellon.Validate` (extended floats `XF`, Python value syntax `PyVal`), for every
  input of any size, and about `chol?` / `mle` at α = ℝ.
-/
import MellonProofs.ValidateLemmas
import MellonProofs.ValidateLemmasK
import MellonProofs.LinalgProofs

namespace Mellon.C20
open Mellon Mellon.Validate Mellon.Validate.Outcome

/-! ### nearest-neighbour distance sanitation (`validate_nn_distances`) -/

/-- Accepted ⇒ same length, every output finite and positive, valid entries unchanged, every invalid
    entry replaced by `m`, the smallest valid distance (a valid entry that no valid entry is below). -/
theorem nn_sanitise {xs ys : List XF} {o : Bool} (h : validateNN (some xs) o = ok (some ys)) :
    ys.length = xs.length ∧ (∀ y ∈ ys, y.finPos = true) ∧
    ∃ m, m ∈ xs ∧ m.finPos = true ∧ (∀ v ∈ xs, v.finPos = true → v.lt m = false) ∧
      ∀ i (hi : i < xs.length) (hj : i < ys.length),
        (xs[i].finPos = true → ys[i] = xs[i]) ∧ (xs[i].finPos = false → ys[i] = m) := by
  obtain ⟨m, hm, hmp, hmin, rfl⟩ := validateNN_ok h
  refine ⟨by simp, ?_, m, hm, hmp, hmin, ?_⟩
  · intro y hy
    obtain ⟨x, _, rfl⟩ := List.mem_map.mp hy
    cases hx : x.finPos <;> simp [hx, hmp]
  · intro i hi hj
    simp only [List.getElem_map]
    constructor <;> intro hx <;> simp [hx]

/-- No valid distance at all (this includes the empty array) ⇔ refused with ValueError. -/
theorem nn_all_invalid_refused (xs : List XF) (o : Bool) :
    validateNN (some xs) o = valueError ↔ ∀ x ∈ xs, x.finPos = false :=
  validateNN_refused_iff xs o

/-- `validate_nn_distances` never fails in any other way. -/
theorem nn_total (xs : List XF) (o : Bool) :
    validateNN (some xs) o = valueError ∨ ∃ ys, validateNN (some xs) o = ok (some ys) :=
  validateNN_some_cases xs o

/-- Clean distances pass through untouched. -/
theorem nn_clean_identity (xs : List XF) (o : Bool) (hne : xs ≠ []) (h : ∀ x ∈ xs, x.finPos = true) :
    validateNN (some xs) o = ok (some xs) := by
  rcases validateNN_some_cases xs o with hr | ⟨ys, hy⟩
  · have := (validateNN_refused_iff xs o).mp hr
    obtain ⟨x, hx⟩ := List.exists_mem_of_ne_nil xs hne
    have h1 := h x hx; have h2 := this x hx; simp_all
  · obtain ⟨m, _, _, _, rfl⟩ := validateNN_ok hy
    rw [hy]
    congr 2
    conv_rhs => rw [← List.map_id xs]
    apply List.map_congr_left
    intro x hx; simp [h x hx]

theorem nn_none (o : Bool) :
    validateNN none o = if o then ok none else valueError := rfl

example : validateNN (some [.fin 2, .nan, .fin (1/2), .pinf, .fin 0, .fin (-3)]) false
    = ok (some [.fin 2, .fin (1/2), .fin (1/2), .fin (1/2), .fin (1/2), .fin (1/2)]) := by decide +kernel
example : validateNN (some [.nan, .pinf, .ninf, .fin 0, .fin (-1)]) false = valueError := by decide +kernel

/-! ### scalar validators: accepted ⇒ postcondition, and refusal tables -/

/-- `validate_positive_float`: an accepted value is a float that is positive and not NaN — and finite
    unless `allow_inf=True` was asked for (or it is `None` when optional). -/
theorem positive_float_post {v r : PyVal} {o ai : Bool} (h : validatePositiveFloat v o ai = ok r) :
    (r = .none ∧ v = .none ∧ o = true) ∨
      ∃ x, r = .float x ∧ x.pos = true ∧ x.isNan = false ∧ (ai = false → x.finPos = true) := by
  unfold validatePositiveFloat at h
  split at h
  · left; simp_all
  · right
    obtain ⟨x, _, hx⟩ := bind_eq_ok.mp h
    by_cases h1 : x.le0 = true
    · simp [h1] at hx
    · by_cases h2 : x.isNan = true
      · simp [h1, h2] at hx
      · by_cases h3 : (x.isInf && !ai) = true
        · simp [h1, h2, h3] at hx
        · simp only [h1, h2, h3, if_false, Bool.false_eq_true] at hx
          injection hx with hx
          refine ⟨x, hx.symm, pos_of_not_le0 (by simpa using h1) (by simpa using h2), by simpa using h2, ?_⟩
          intro hai
          subst hai
          cases x <;> simp_all [XF.isInf, XF.finPos, XF.le0, XF.isNan]

/-- Full strength: an accepted jitter / length scale / ls_factor / learning rate (`allow_inf=False`, the
    default) is a FINITE positive number. -/
theorem positive_float_finite {v : PyVal} {x : XF} {o : Bool}
    (h : validatePositiveFloat v o false = ok (.float x)) : x.finPos = true := by
  rcases positive_float_post h with ⟨h1, _, _⟩ | ⟨y, hy, _, _, hf⟩
  · cases h1
  · injection hy with hy; subst hy; exact hf rfl

/-- Refusal table of `validate_positive_float` (jitter, ls, ls_factor, init_learn_rate, ls_time …):
    None when required, NaN, non-positive numbers, `+inf` (unless allowed), ints beyond the double range,
    non-numeric strings, containers, arrays that are not 0-d, arbitrary objects — all ValueError. -/
theorem positive_float_refusals (o ai : Bool) :
    validatePositiveFloat .none false ai = valueError ∧
    (∀ x : XF, x.isNan = true → validatePositiveFloat (.float x) o ai = valueError) ∧
    (∀ x : XF, x.le0 = true → validatePositiveFloat (.float x) o ai = valueError) ∧
    validatePositiveFloat (.float .pinf) o false = valueError ∧
    validatePositiveFloat (.float .pinf) o true = ok (.float .pinf) ∧
    validatePositiveFloat (.bool false) o ai = valueError ∧
    (∀ i : Int, i ≤ 0 → validatePositiveFloat (.int i) o ai = valueError) ∧
    (∀ i : Int, floatOverflowBound.toNat ≤ i.natAbs → validatePositiveFloat (.int i) o ai = valueError) ∧
    (∀ s, validatePositiveFloat (.str s none) o ai = valueError) ∧
    (∀ s x, (x.le0 = true ∨ x.isNan = true) → validatePositiveFloat (.str s (some x)) o ai = valueError) ∧
    (∀ xs, validatePositiveFloat (.list xs) o ai = valueError) ∧
    validatePositiveFloat .obj o ai = valueError ∧
    (∀ lib shape data, ¬(shape = [] ∧ data.length = 1) →
        validatePositiveFloat (.arr lib shape data) o ai = valueError) := by
  refine ⟨rfl, ?_, ?_, ?_, ?_, ?_, ?_, ?_, ?_, ?_, ?_, ?_, ?_⟩
  · intro x hx; cases o <;> cases x <;> simp_all [validatePositiveFloat, floatCatch, Outcome.bind, pyFloat, XF.isNan, XF.le0]
  · intro x hx; cases o <;> simp [validatePositiveFloat, floatCatch, Outcome.bind, pyFloat, hx]
  · cases o <;> rfl
  · cases o <;> rfl
  · cases o <;> rfl
  · intro i hi
    rcases intToFloat_cases i with h | ⟨q, hq, _, hneg⟩
    · cases o <;> simp [validatePositiveFloat, floatCatch, Outcome.bind, pyFloat, h]
    · have : (XF.fin q).le0 = true := by simp [XF.le0, hneg hi]
      cases o <;> simp [validatePositiveFloat, floatCatch, Outcome.bind, pyFloat, hq, this]
  · intro i hi
    have : intToFloat i = internal := by
      unfold intToFloat; rw [if_neg (by omega)]
    cases o <;> simp [validatePositiveFloat, floatCatch, Outcome.bind, pyFloat, this]
  · intro s; cases o <;> rfl
  · intro s x hx
    cases o <;> rcases hx with hx | hx <;> simp [validatePositiveFloat, floatCatch, Outcome.bind, pyFloat, hx]
  · intro xs; cases o <;> rfl
  · cases o <;> rfl
  · intro lib shape data hsd
    have : pyFloat (.arr lib shape data) = typeError := by
      unfold pyFloat
      split <;> simp_all
    cases o <;> simp [validatePositiveFloat, floatCatch, Outcome.bind, this]

/-- Every float that is not a finite positive number (NaN, ±inf, zero, negative) is refused when a finite
    positive float is required. -/
theorem positive_float_refuses_nonfinite (x : XF) (o : Bool) (h : x.finPos = false) :
    validatePositiveFloat (.float x) o false = valueError := by
  cases x with
  | fin q =>
    have : (XF.fin q).le0 = true := by
      simp only [XF.finPos, decide_eq_false_iff_not, not_lt] at h
      simp [XF.le0, h]
    exact (positive_float_refusals o false).2.2.1 _ this
  | pinf => exact (positive_float_refusals o false).2.2.2.1
  | ninf => exact (positive_float_refusals o false).2.2.1 _ rfl
  | nan => exact (positive_float_refusals o false).2.1 _ rfl

/-- `validate_float_or_int` (rank): accepted ⇒ `None` (optional) or a bool/int returned as is (a NumPy / JAX
    integer scalar as the Python int of the same value) or a float that is not NaN. -/
theorem float_or_int_post {v r : PyVal} {o : Bool} (h : validateFloatOrInt v o = ok r) :
    (r = .none ∧ v = .none ∧ o = true) ∨ cleanNumber r := by
  unfold validateFloatOrInt at h
  split at h
  · left; simp_all
  · right
    split at h
    · rename_i hfi; exact nanCheck_post hfi h
    · split at h
      · exact nanCheck_post (v := .int _) rfl h
      · exact floatCheck_post h

/-- `validate_float_or_int` on a NumPy / JAX integer scalar (`numpy.int64(5)`, `numpy.uint8(3)`, a 0-d integer
    array of NumPy / JAX), whatever `optional`: `int(value)` followed by the int64 range check of
    `_isnan_scalar` — exactly what the Python int of the same value gets. -/
theorem float_or_int_npint (f : IntForm) (i : Int) (o : Bool) :
    validateFloatOrInt (.npint f i) o
      = (if -(2 ^ 63 : Int) ≤ i ∧ i < (2 ^ 63 : Int) then ok (.int i) else valueError) ∧
    validateFloatOrInt (.npint f i) o = validateFloatOrInt (.int i) o := by
  have h1 : validateFloatOrInt (.npint f i) o
      = (isnanScalar (.int i)).bind fun b => if b then valueError else ok (.int i) := by cases o <;> rfl
  have h2 : validateFloatOrInt (.int i) o
      = (isnanScalar (.int i)).bind fun b => if b then valueError else ok (.int i) := by cases o <;> rfl
  refine ⟨?_, h1.trans h2.symm⟩
  rw [h1]
  show ((if -(2 ^ 63 : Int) ≤ i ∧ i < (2 ^ 63 : Int) then (ok false : Outcome Bool) else valueError).bind _) = _
  split <;> rfl

/-- **Integer scalars stay integers.**  An accepted integer input — a Python int, or a NumPy / JAX integer
    scalar of any integer dtype (NumPy scalar object, 0-d NumPy array, 0-d JAX array) — comes back as the
    Python int of the same value, never as a float (so an integer `rank` keeps meaning "this many
    directions" and is not read as the fraction `>= 1.0` = "no rank reduction"); a float input comes back
    as that float.  Integers are accepted exactly inside the int64 range. -/
theorem float_or_int_keeps_integers (o : Bool) :
    (∀ i : Int, -(2 ^ 63 : Int) ≤ i → i < (2 ^ 63 : Int) → validateFloatOrInt (.int i) o = ok (.int i)) ∧
    (∀ (f : IntForm) (i : Int), -(2 ^ 63 : Int) ≤ i → i < (2 ^ 63 : Int) →
        validateFloatOrInt (.npint f i) o = ok (.int i)) ∧
    (∀ (i : Int) (r : PyVal), validateFloatOrInt (.int i) o = ok r → r = .int i) ∧
    (∀ (f : IntForm) (i : Int) (r : PyVal), validateFloatOrInt (.npint f i) o = ok r → r = .int i) ∧
    (∀ x : XF, x.isNan = false → validateFloatOrInt (.float x) o = ok (.float x)) ∧
    (∀ (x : XF) (r : PyVal), validateFloatOrInt (.float x) o = ok r → r = .float x) := by
  have hint : ∀ i : Int, validateFloatOrInt (.int i) o
      = (if -(2 ^ 63 : Int) ≤ i ∧ i < (2 ^ 63 : Int) then ok (.int i) else valueError) := by
    intro i
    rw [← (float_or_int_npint .npScalar i o).2]; exact (float_or_int_npint .npScalar i o).1
  have hflt : ∀ x : XF, validateFloatOrInt (.float x) o = if x.isNan then valueError else ok (.float x) := by
    intro x; cases o <;> rfl
  refine ⟨?_, ?_, ?_, ?_, ?_, ?_⟩
  · intro i h1 h2; rw [hint, if_pos ⟨h1, h2⟩]
  · intro f i h1 h2; rw [(float_or_int_npint f i o).1, if_pos ⟨h1, h2⟩]
  · intro i r h
    rw [hint] at h
    split at h
    · injection h with h; exact h.symm
    · cases h
  · intro f i r h
    rw [(float_or_int_npint f i o).1] at h
    split at h
    · injection h with h; exact h.symm
    · cases h
  · intro x hx; rw [hflt, hx]; rfl
  · intro x r h
    rw [hflt] at h
    split at h
    · cases h
    · injection h with h; exact h.symm

example : validateFloatOrInt (.npint .npScalar 5) true = ok (.int 5) := by rfl
example : validateFloatOrInt (.npint (.arr0 .jax) (-3)) false = ok (.int (-3)) := by rfl
example : validateFloatOrInt (.npint (.arr0 .np) (2 ^ 63 + 5)) true = valueError := by rfl
-- a float dtype (0-d array holding 5.0) is not an integer scalar: it stays a float, as before
example : validateFloatOrInt (.arr .np [] [.fin 5]) true = ok (.float (.fin 5)) := by rfl

/-- The other scalar validators are unchanged: they convert a NumPy / JAX integer scalar with `float()`
    (`validate_float`: mu; `validate_positive_float`: jitter, ls, …), so it comes back as the nearest double;
    `validate_positive_int` refuses it (it is no instance of `int`). -/
theorem integer_scalar_other_validators (f : IntForm) (i : Int) (o ai : Bool) (x : XF) (h : intToFloat i = ok x) :
    validateFloat (.npint f i) o = ok (.float x) ∧
    validatePositiveFloat (.npint f i) o ai = (if 0 < i then ok (.float x) else valueError) ∧
    validatePositiveInt (.npint f i) o = valueError := by
  rcases intToFloat_cases i with hi | ⟨q, hq, hpos, hneg⟩
  · rw [hi] at h; cases h
  · have hx : x = .fin q := (Outcome.ok.inj (hq.symm.trans h)).symm
    subst hx
    have hfc : floatCatch (.npint f i) = ok (.fin q) := by
      simp only [floatCatch, pyFloat, hq]
    have e1 : validateFloatNan (.npint f i) o
        = (floatCatch (.npint f i)).bind fun x => if x.isNan then valueError else ok (.float x) := by
      cases f with
      | npScalar => rfl
      | arr0 lib => cases lib <;> rfl
    have e2 : validatePositiveFloat (.npint f i) o ai
        = (floatCatch (.npint f i)).bind fun x =>
            if x.le0 then valueError else if x.isNan then valueError
            else if x.isInf && !ai then valueError else ok (.float x) := by cases o <;> rfl
    refine ⟨?_, ?_, by cases o <;> rfl⟩
    · unfold validateFloat; rw [e1, hfc]; rfl
    · rw [e2, hfc]
      by_cases hi : 0 < i
      · have h0 : ¬ q ≤ 0 := not_le.mpr (hpos hi)
        simp [Outcome.bind, XF.le0, XF.isNan, XF.isInf, hi, h0]
      · have h0 : q ≤ 0 := hneg (by omega)
        simp [Outcome.bind, XF.le0, hi, h0]

example : intToFloat 5 = ok (.fin 5) ∧ intToFloat (2 ^ 53 + 1) = ok (.fin (2 ^ 53)) := by decide +kernel
example : validateFloat (.npint (.arr0 .jax) 5) true = ok (.float (.fin 5)) :=
  (integer_scalar_other_validators _ 5 true false _ (by decide +kernel)).1

theorem float_or_int_refusals (o : Bool) :
    validateFloatOrInt .none false = valueError ∧
    (∀ x : XF, x.isNan = true → validateFloatOrInt (.float x) o = valueError) ∧
    (∀ s, validateFloatOrInt (.str s none) o = valueError) ∧
    (∀ s, validateFloatOrInt (.str s (some .nan)) o = valueError) ∧
    (∀ xs, validateFloatOrInt (.list xs) o = valueError) ∧
    validateFloatOrInt .obj o = valueError ∧
    (∀ lib shape data, ¬(shape = [] ∧ data.length = 1) →
        validateFloatOrInt (.arr lib shape data) o = valueError) ∧
    -- a NumPy / JAX integer scalar outside the int64 range (a `uint64` above 2^63 − 1): `int(value)` is a Python
    -- int that `_isnan_scalar` refuses
    (∀ (f : IntForm) (i : Int), ¬ (-(2 ^ 63 : Int) ≤ i ∧ i < (2 ^ 63 : Int)) →
        validateFloatOrInt (.npint f i) o = valueError) := by
  refine ⟨rfl, ?_, ?_, ?_, ?_, ?_, ?_, ?_⟩
  · intro x hx; cases o <;> simp [validateFloatOrInt, floatCatch, Outcome.bind, PyVal.isFloatOrInt, isnanScalar, hx]
  · intro s; cases o <;> rfl
  · intro s; cases o <;> rfl
  · intro xs; cases o <;> rfl
  · cases o <;> rfl
  · intro lib shape data hsd
    have : pyFloat (.arr lib shape data) = typeError := by
      unfold pyFloat
      split <;> simp_all
    cases o <;> simp [validateFloatOrInt, floatCatch, Outcome.bind, PyVal.isFloatOrInt, this]
  · intro f i hi
    rw [(float_or_int_npint f i o).1, if_neg hi]

/-- `validate_float` (mu, mu_dim, mu_dens): an accepted value is `None` (optional) or a number that is not NaN
    and — unless `allow_inf=True` was asked for — not infinite either. -/
theorem validate_float_post {v r : PyVal} {o ai : Bool} (h : validateFloat v o ai = ok r) :
    (r = .none ∧ v = .none ∧ o = true) ∨ (cleanNumber r ∧ (ai = false → finiteNumber r)) := by
  unfold validateFloat at h
  obtain ⟨r0, h0, h1⟩ := bind_eq_ok.mp h
  obtain ⟨hr, hfin⟩ := infCheck_ok h1
  subst hr
  rcases validateFloatNan_post h0 with hn | hc
  · exact Or.inl hn
  · refine Or.inr ⟨hc, ?_⟩
    intro hai
    cases r with
    | float x => exact ⟨by simpa [cleanNumber] using hc, hfin hai x rfl⟩
    | bool b => trivial
    | int i => trivial
    | _ => simp [cleanNumber] at hc

/-- **Full strength** (hunt H3, A1): where a finite float is required (`allow_inf=False`, the default: mu, mu_dim,
    mu_dens) an accepted float is a finite rational — neither NaN nor ±inf. -/
theorem validate_float_finite {v : PyVal} {x : XF} {o : Bool}
    (h : validateFloat v o false = ok (.float x)) : ∃ q : Rat, x = .fin q := by
  rcases validate_float_post h with ⟨h1, _, _⟩ | ⟨_, hf⟩
  · cases h1
  · obtain ⟨h1, h2⟩ := hf rfl
    exact fin_of_not_nan_inf h1 h2

/-- `allow_inf=True` (only `derivatives.derivative`, for an evaluation point) is the validator without the
    infinity test. -/
theorem validate_float_allow_inf (v : PyVal) (o : Bool) : validateFloat v o true = validateFloatNan v o := by
  unfold validateFloat
  cases h : validateFloatNan v o <;> simp [Outcome.bind, infCheck_allow]

theorem validate_float_refusals (o ai : Bool) :
    validateFloat .none false ai = valueError ∧
    (∀ x : XF, x.isNan = true → validateFloat (.float x) o ai = valueError) ∧
    (∀ s, validateFloat (.str s none) o ai = valueError) ∧
    (∀ s, validateFloat (.str s (some .nan)) o ai = valueError) ∧
    (∀ xs, validateFloat (.list xs) o ai = valueError) ∧
    validateFloat .obj o ai = valueError ∧
    (∀ lib shape, validateFloat (.arr lib shape [.nan]) o ai = valueError) ∧
    (∀ shape data, data.length ≠ 1 → validateFloat (.arr .jax shape data) o ai = valueError) := by
  refine ⟨rfl, ?_, ?_, ?_, ?_, ?_, ?_, ?_⟩
  · intro x hx; simp [validateFloat, validateFloatNan_float, hx, Outcome.bind]
  · intro s; rfl
  · intro s; rfl
  · intro xs; rfl
  · rfl
  · intro lib shape
    cases lib
    · cases shape <;> simp [validateFloat, validateFloatNan, floatCatch, Outcome.bind, squeezeJax1, PyVal.isFloatOrInt, pyFloat, XF.isNan]
    · simp [validateFloat, validateFloatNan, floatCatch, Outcome.bind, squeezeJax1, PyVal.isFloatOrInt, pyFloat, XF.isNan]
  · intro shape data hd
    have hs : squeezeJax1 (.arr .jax shape data) = .arr .jax shape data := by
      unfold squeezeJax1; split <;> simp_all
    have : pyFloat (.arr .jax shape data) = typeError := by
      unfold pyFloat; split <;> simp_all
    simp [validateFloat, validateFloatNan, floatCatch, Outcome.bind, hs, PyVal.isFloatOrInt, this]

/-- **±inf is refused where a finite float is required** (hunt H3, A1: `FunctionEstimator(mu=inf)` was accepted
    and every fitted value was NaN): the floats `+inf` / `-inf`, the strings `'inf'` / `'-inf'` (whatever text
    CPython's `float()` turns into an infinity) and 0-d / one-element arrays holding an infinity. -/
theorem validate_float_refuses_inf (o : Bool) :
    (∀ x : XF, x.isInf = true → validateFloat (.float x) o false = valueError) ∧
    (∀ s (x : XF), x.isInf = true → validateFloat (.str s (some x)) o false = valueError) ∧
    (∀ lib (x : XF), x.isInf = true → validateFloat (.arr lib [] [x]) o false = valueError) ∧
    (∀ x : XF, x.isInf = true → validateFloat (.float x) o true = ok (.float x)) := by
  refine ⟨?_, ?_, ?_, ?_⟩
  · intro x hx
    cases x <;> simp_all [XF.isInf, validateFloat, validateFloatNan_float, XF.isNan, Outcome.bind, infCheck]
  · intro s x hx
    cases x <;> simp_all [XF.isInf, validateFloat, validateFloatNan, squeezeJax1, PyVal.isFloatOrInt, floatCatch,
      pyFloat, XF.isNan, Outcome.bind, infCheck]
  · intro lib x hx
    cases lib <;> cases x <;> simp_all [XF.isInf, validateFloat, validateFloatNan, squeezeJax1, PyVal.isFloatOrInt,
      floatCatch, pyFloat, XF.isNan, Outcome.bind, infCheck]
  · intro x hx
    cases x <;> simp_all [XF.isInf, validateFloat, validateFloatNan_float, XF.isNan, Outcome.bind, infCheck]

example : validateFloat (.float .pinf) true = valueError ∧ validateFloat (.str "-inf" (some .ninf)) false = valueError ∧
    validateFloat (.float (.fin 3)) false = ok (.float (.fin 3)) ∧ validateFloat (.float .ninf) false true = ok (.float .ninf) :=
  ⟨rfl, rfl, rfl, rfl⟩

/-- `validate_positive_int` (n_landmarks, n_iter, k): accepted ⇒ the value itself, a bool or a
    non-negative int (zero is accepted: the test in the code is `value < 0`). -/
theorem positive_int_post {v r : PyVal} {o : Bool} (h : validatePositiveInt v o = ok r) :
    r = v ∧ ((v = .none ∧ o = true) ∨ (∃ b, v = .bool b) ∨ ∃ i : Int, v = .int i ∧ 0 ≤ i) := by
  cases v with
  | none =>
    cases o
    · cases h
    · injection h with h; exact ⟨h.symm, Or.inl ⟨rfl, rfl⟩⟩
  | bool b =>
    have : validatePositiveInt (.bool b) o = ok (.bool b) := by cases o <;> rfl
    rw [this] at h; injection h with h
    exact ⟨h.symm, Or.inr (Or.inl ⟨b, rfl⟩)⟩
  | int i =>
    have : validatePositiveInt (.int i) o = if i < 0 then valueError else ok (.int i) := by cases o <;> rfl
    rw [this] at h
    by_cases hi : i < 0
    · simp [hi] at h
    · simp only [hi, if_false] at h
      injection h with h
      exact ⟨h.symm, Or.inr (Or.inr ⟨i, rfl, by omega⟩)⟩
  | _ => cases o <;> cases h

/-- Everything that is not None-when-optional, a bool or a non-negative int is refused (floats,
    numeric strings, numpy integers, arrays …). -/
theorem positive_int_refusals {v : PyVal} {o : Bool} (h1 : ¬ (v = .none ∧ o = true)) (h2 : ∀ b, v ≠ .bool b)
    (h3 : ∀ i : Int, v = .int i → i < 0) : validatePositiveInt v o = valueError := by
  cases v with
  | none => cases o <;> simp_all [validatePositiveInt]
  | bool b => exact absurd rfl (h2 b)
  | int i =>
    have : validatePositiveInt (.int i) o = if i < 0 then valueError else ok (.int i) := by cases o <;> rfl
    rw [this, if_pos (h3 i rfl)]
  | _ => cases o <;> rfl

/-- `validate_bool`: accepted ⇔ a genuine bool (or None when optional); everything else, including
    ints and strings, is a TypeError — wrongly typed flags are refused. -/
theorem bool_post {v r : PyVal} {o : Bool} (h : validateBool v o = ok r) :
    r = v ∧ ((v = .none ∧ o = true) ∨ ∃ b, v = .bool b) := by
  cases v with
  | none =>
    cases o
    · cases h
    · injection h with h; exact ⟨h.symm, Or.inl ⟨rfl, rfl⟩⟩
  | bool b =>
    injection h with h
    exact ⟨h.symm, Or.inr ⟨b, rfl⟩⟩
  | _ => cases h

theorem bool_refusals {v : PyVal} {o : Bool} (h1 : ¬ (v = .none ∧ o = true)) (h2 : ∀ b, v ≠ .bool b) :
    validateBool v o = typeError := by
  cases v with
  | none => cases o <;> simp_all [validateBool]
  | bool b => exact absurd rfl (h2 b)
  | _ => rfl

/-- `validate_string`: accepted ⇔ a str that is one of the choices (when choices are given). -/
theorem string_post {v r : PyVal} {choices : List String} (h : validateString v choices = ok r) :
    r = v ∧ ∃ s n, v = .str s n ∧ (choices = [] ∨ s ∈ choices) := by
  cases v with
  | str s n =>
    rw [validateString_str] at h
    by_cases hc : choices ≠ [] ∧ s ∉ choices
    · simp [hc] at h
    · rw [if_neg hc] at h
      injection h with h
      refine ⟨h.symm, s, n, rfl, ?_⟩
      by_cases hn : choices = []
      · exact Or.inl hn
      · right; by_contra hs; exact hc ⟨hn, hs⟩
  | _ => cases h

/-- Unknown option strings are refused with ValueError, non-strings with TypeError. -/
theorem string_refusals (choices : List String) :
    (∀ s n, choices ≠ [] → s ∉ choices → validateString (.str s n) choices = valueError) ∧
    (∀ v, (∀ s n, v ≠ .str s n) → validateString v choices = typeError) := by
  constructor
  · intro s n hne hs
    rw [validateString_str, if_pos ⟨hne, hs⟩]
  · intro v hv
    cases v with
    | str s n => exact absurd rfl (hv s n)
    | _ => rfl

/-- `validate_float_or_iterable_numerical` (`d` of the density estimators: `positive=True`; `sigma` of the
    FunctionEstimator: `positive=True, allow_inf=True`): an accepted scalar or array has no NaN entry
    (hunt H3, A2: `nan < 0` is false, so NaN used to pass), no infinite entry unless `allow_inf`, and no
    negative entry when `positive`. -/
theorem foin_post {v r : PyVal} {o p ai : Bool} (h : validateFloatOrIterable v o p ai = ok r) :
    (r = .none ∧ v = .none ∧ o = true) ∨
    (∃ x, r = .float x ∧ x.isNan = false ∧ (ai = false → x.isInf = false) ∧ (p = true → x.lt0 = false)) ∨
      ∃ shape data, r = .arr .jax shape data ∧
        ∀ x ∈ data, x.isNan = false ∧ (ai = false → x.isInf = false) ∧ (p = true → x.lt0 = false) := by
  unfold validateFloatOrIterable at h
  split at h
  · left; simp_all
  · right
    split at h
    · left
      obtain ⟨x, _, hx⟩ := bind_eq_ok.mp h
      by_cases h1 : x.isNan = true
      · simp [h1] at hx
      · rw [if_neg h1] at hx
        by_cases h2 : (x.isInf && !ai) = true
        · simp [h2] at hx
        · rw [if_neg h2] at hx
          by_cases h3 : (p && x.lt0) = true
          · simp [h3] at hx
          · rw [if_neg h3] at hx
            injection hx with hx
            refine ⟨x, hx.symm, by simpa using h1, ?_, ?_⟩
            · intro hai; subst hai; simpa using h2
            · intro hp; subst hp; simpa using h3
    · right
      split at h
      · cases h
      · split at h
        · obtain ⟨a, _, ha⟩ := bind_eq_ok.mp h
          by_cases h1 : a.2.any XF.isNan = true
          · simp [h1] at ha
          · rw [if_neg h1] at ha
            by_cases h2 : (!ai && a.2.any XF.isInf) = true
            · simp [h2] at ha
            · rw [if_neg h2] at ha
              by_cases h3 : (p && a.2.any XF.lt0) = true
              · simp [h3] at ha
              · rw [if_neg h3] at ha
                injection ha with ha
                refine ⟨a.1, a.2, ha.symm, ?_⟩
                intro x hx
                refine ⟨?_, ?_, ?_⟩
                · cases hh : x.isNan
                  · rfl
                  · exact absurd (List.any_eq_true.mpr ⟨x, hx, hh⟩) h1
                · intro hai; subst hai
                  cases hh : x.isInf
                  · rfl
                  · exact absurd (by simpa using List.any_eq_true.mpr ⟨x, hx, hh⟩) h2
                · intro hp; subst hp
                  cases hh : x.lt0
                  · rfl
                  · exact absurd (by simpa using List.any_eq_true.mpr ⟨x, hx, hh⟩) h3
        · cases h

/-- **Full strength for `d`** (`positive=True`, `allow_inf=False`): every accepted entry is a finite rational
    that is not negative. -/
theorem foin_d_finite {v r : PyVal} {o : Bool} (h : validateFloatOrIterable v o true false = ok r) :
    (r = .none ∧ v = .none ∧ o = true) ∨ (∃ q : Rat, r = .float (.fin q) ∧ 0 ≤ q) ∨
      ∃ shape data, r = .arr .jax shape data ∧ ∀ x ∈ data, ∃ q : Rat, x = .fin q ∧ 0 ≤ q := by
  have key : ∀ x : XF, x.isNan = false → x.isInf = false → x.lt0 = false → ∃ q : Rat, x = .fin q ∧ 0 ≤ q := by
    intro x h1 h2 h3
    obtain ⟨q, rfl⟩ := fin_of_not_nan_inf h1 h2
    exact ⟨q, rfl, by simpa [XF.lt0] using h3⟩
  rcases foin_post h with hn | ⟨x, hr, h1, h2, h3⟩ | ⟨shape, data, hr, hall⟩
  · exact Or.inl hn
  · obtain ⟨q, rfl, hq⟩ := key x h1 (h2 rfl) (h3 rfl)
    exact Or.inr (Or.inl ⟨q, hr, hq⟩)
  · refine Or.inr (Or.inr ⟨shape, data, hr, ?_⟩)
    intro x hx
    obtain ⟨h1, h2, h3⟩ := hall x hx
    exact key x h1 (h2 rfl) (h3 rfl)

theorem foin_refusals (o p ai : Bool) :
    validateFloatOrIterable .none false p ai = typeError ∧
    (∀ s n, validateFloatOrIterable (.str s n) o p ai = typeError) ∧
    validateFloatOrIterable .obj o p ai = typeError ∧
    (∀ x : XF, x.lt0 = true → validateFloatOrIterable (.float x) o true ai = valueError) ∧
    (∀ lib shape data, (∃ x ∈ data, XF.lt0 x = true) →
        validateFloatOrIterable (.arr lib shape data) o true ai = valueError) := by
  refine ⟨by cases p <;> rfl, ?_, by cases o <;> rfl, ?_, ?_⟩
  · intro s n; cases o <;> rfl
  · intro x hx
    cases x <;> cases o <;> cases ai <;>
      simp_all [validateFloatOrIterable, PyVal.isFloatOrInt, pyFloat, catchOverflow, Outcome.bind, XF.lt0, XF.isNan, XF.isInf]
  · intro lib shape data hx
    have : data.any XF.lt0 = true := List.any_eq_true.mpr hx
    have e : validateFloatOrIterable (.arr lib shape data) o true ai
        = if data.any XF.isNan then valueError
          else if !ai && data.any XF.isInf then valueError
          else if true && data.any XF.lt0 then valueError else ok (arrVal (shape, data)) := by
      cases o <;> simp [validateFloatOrIterable, PyVal.isFloatOrInt, PyVal.isIterable, toArr, PyVal.hasNone, toArrCore,
        catchOverflow, Outcome.bind]
    rw [e, this]
    repeat (first | rfl | split)

/-- **NaN is refused** (hunt H3, A2) — the scalar `nan`, a 0-d / one-element NaN array, any array (per-cell `d` or
    `sigma`) with a NaN entry — whatever `optional`, `positive`, `allow_inf`; and an **infinite** value (`d=inf`
    gave all-NaN densities as well) is refused unless `allow_inf=True`. -/
theorem foin_refuses_nan_inf (o p ai : Bool) :
    (∀ x : XF, x.isNan = true → validateFloatOrIterable (.float x) o p ai = valueError) ∧
    (∀ lib shape data, (∃ x ∈ data, XF.isNan x = true) →
        validateFloatOrIterable (.arr lib shape data) o p ai = valueError) ∧
    (∀ x : XF, x.isInf = true → validateFloatOrIterable (.float x) o p false = valueError) ∧
    (∀ lib shape data, (∃ x ∈ data, XF.isInf x = true) →
        validateFloatOrIterable (.arr lib shape data) o p false = valueError) := by
  have earr : ∀ lib shape data (ai : Bool), validateFloatOrIterable (.arr lib shape data) o p ai
      = if data.any XF.isNan then valueError
        else if !ai && data.any XF.isInf then valueError
        else if p && data.any XF.lt0 then valueError else ok (arrVal (shape, data)) := by
    intro lib shape data ai
    cases o <;> simp [validateFloatOrIterable, PyVal.isFloatOrInt, PyVal.isIterable, toArr, PyVal.hasNone, toArrCore,
      catchOverflow, Outcome.bind]
  refine ⟨?_, ?_, ?_, ?_⟩
  · intro x hx
    cases o <;> simp [validateFloatOrIterable, PyVal.isFloatOrInt, pyFloat, catchOverflow, Outcome.bind, hx]
  · intro lib shape data hx
    rw [earr, List.any_eq_true.mpr hx]; rfl
  · intro x hx
    cases x <;> cases o <;>
      simp_all [validateFloatOrIterable, PyVal.isFloatOrInt, pyFloat, catchOverflow, Outcome.bind, XF.isNan, XF.isInf]
  · intro lib shape data hx
    rw [earr, List.any_eq_true.mpr hx]
    repeat (first | rfl | split)

example : validateFloatOrIterable (.float .nan) true true = valueError ∧
    validateFloatOrIterable (.arr .np [] [.nan]) true true = valueError ∧
    validateFloatOrIterable (.arr .np [3] [.fin 2, .nan, .fin 2]) true true = valueError ∧
    validateFloatOrIterable (.float .pinf) true true = valueError ∧
    validateFloatOrIterable (.arr .np [2] [.pinf, .fin 1]) false true true = ok (.arr .jax [2] [.pinf, .fin 1]) ∧
    validateFloatOrIterable (.float (.fin 2)) true true = ok (.float (.fin 2)) := ⟨rfl, rfl, rfl, rfl, rfl, rfl⟩

/-- `validate_array`: accepted ⇒ `None` (optional) or a jax array whose number of dimensions is one of
    the requested ones. -/
theorem array_post {v r : PyVal} {o : Bool} {nd : Option (List Nat)} (h : validateArray v o nd = ok r) :
    (r = .none ∧ v = .none ∧ o = true) ∨
      ∃ shape data, r = .arr .jax shape data ∧ ∀ ds, nd = some ds → shape.length ∈ ds := by
  unfold validateArray at h
  split at h
  · left; cases o <;> simp_all
  · right
    simp only at h
    obtain ⟨a, _, ha⟩ := bind_eq_ok.mp h
    split at ha
    · injection ha with ha
      exact ⟨a.1, a.2, ha.symm, by intro ds hd; cases hd⟩
    · rename_i ds
      by_cases hc : a.1.length ∈ ds
      · have hc' : ds.contains a.1.length = true := List.contains_iff_mem.mpr hc
        rw [if_pos hc'] at ha
        injection ha with ha
        refine ⟨a.1, a.2, ha.symm, ?_⟩
        intro ds' hd; injection hd with hd; subst hd
        exact hc
      · have hc' : ¬ (ds.contains a.1.length = true) := fun h => hc (List.contains_iff_mem.mp h)
        rw [if_neg hc'] at ha
        cases ha

/-- scalars, None-when-required and arbitrary objects are a TypeError; a wrong number of dimensions is a
    ValueError. -/
theorem array_refusals (o : Bool) (nd : Option (List Nat)) :
    validateArray .none false nd = typeError ∧
    (∀ b, validateArray (.bool b) o nd = typeError) ∧
    (∀ i, validateArray (.int i) o nd = typeError) ∧
    (∀ x, validateArray (.float x) o nd = typeError) ∧
    validateArray .obj o nd = typeError ∧
    (∀ lib shape data ds, shape.length ∉ ds → validateArray (.arr lib shape data) o (some ds) = valueError) := by
  refine ⟨rfl, fun _ => rfl, fun _ => rfl, fun _ => rfl, rfl, ?_⟩
  intro lib shape data ds hds
  simp [validateArray, PyVal.isIterable, toArr, PyVal.hasNone, toArrCore, catchOverflow, Outcome.bind, hds]

/-- `validate_1d`: an accepted value is a 1-D jax array (a scalar becomes a one-element array). -/
theorem validate1d_post {v r : PyVal} (h : validate1d v = ok r) : ∃ n data, r = .arr .jax [n] data := by
  unfold validate1d at h
  obtain ⟨a, _, ha⟩ := bind_eq_ok.mp h
  split at ha
  · injection ha with ha; exact ⟨1, a.2, ha.symm⟩
  · rename_i n hs
    injection ha with ha
    refine ⟨n, a.2, ?_⟩
    rw [← ha]; simp [arrVal, hs]
  · cases ha

/-! ### `ensure_2d` and the feature-count check -/

theorem ensure2d_spec :
    ensure2d [] = [1, 1] ∧ (∀ n, ensure2d [n] = [n, 1]) ∧
    (∀ s : List Nat, 2 ≤ s.length → ensure2d s = s) ∧ (∀ s : List Nat, 2 ≤ (ensure2d s).length) ∧
    (∀ s : List Nat, (ensure2d s).foldl (· * ·) 1 = s.foldl (· * ·) 1) ∧
    (∀ s : List Nat, ensure2d (ensure2d s) = ensure2d s) := by
  refine ⟨rfl, fun _ => rfl, ?_, ?_, ?_, ?_⟩
  · intro s hs
    match s, hs with
    | a :: b :: t, _ => rfl
  · intro s
    match s with
    | [] => simp [ensure2d]
    | [a] => simp [ensure2d]
    | a :: b :: t => simp [ensure2d]
  · intro s
    match s with
    | [] => rfl
    | [a] => simp [ensure2d]
    | a :: b :: t => rfl
  · intro s
    match s with
    | [] => rfl
    | [a] => rfl
    | a :: b :: t => rfl

/-- Whatever passes the call-time checks of `Predictor.mean` / `covariance` / `mean_covariance` /
    `uncertainty` is at least 2-D and has exactly the number of features the predictor was trained on. -/
theorem feature_check_post {x nz : PyVal} {nf : Nat} {miss : Bool} {s : List Nat} :
    (predictorMeanInput x nz nf miss = ok s → 2 ≤ s.length ∧ s.getD 1 0 = nf) ∧
    (predictorCovInput x nf = ok s → 2 ≤ s.length ∧ s.getD 1 0 = nf) := by
  constructor
  · intro h
    unfold predictorMeanInput at h
    obtain ⟨xv, _, h⟩ := bind_eq_ok.mp h
    obtain ⟨nb, _, h⟩ := bind_eq_ok.mp h
    obtain ⟨s', hs', h⟩ := bind_eq_ok.mp h
    have : s = s' := by
      split at h
      · split at h
        · cases h
        · injection h with h; exact h.symm
      · injection h with h; exact h.symm
    subst this
    exact featureCheck_ok hs'
  · intro h
    unfold predictorCovInput at h
    obtain ⟨xv, _, h⟩ := bind_eq_ok.mp h
    exact featureCheck_ok h

/-- A query whose (2-D) feature count differs from the training data is refused with ValueError by
    `mean` (whatever the bool `normalize`) and by `covariance / mean_covariance / uncertainty`. -/
theorem feature_mismatch_refused (lib : Lib) (shape : List Nat) (data : List XF) (nf : Nat) (b miss : Bool)
    (h : (ensure2d shape).getD 1 0 ≠ nf) :
    predictorMeanInput (.arr lib shape data) (.bool b) nf miss = valueError ∧
    predictorCovInput (.arr lib shape data) nf = valueError := by
  have hne : ((ensure2d shape).getD 1 0 != nf) = true := by simpa using h
  have hf : featureCheck shape nf = valueError := by unfold featureCheck; rw [if_pos hne]
  constructor
  · simp only [predictorMeanInput, validateArray_arr, Outcome.bind, validateBool, arrShape, hf]
  · simp only [predictorCovInput, validateArray_arr, Outcome.bind, arrShape, hf]

/-- In particular a 1-D query is one column: accepted by a single-feature predictor only. -/
theorem feature_check_1d (lib : Lib) (n nf : Nat) (data : List XF) :
    predictorCovInput (.arr lib [n] data) nf = if nf = 1 then ok [n, 1] else valueError := by
  simp only [predictorCovInput, validateArray_arr, Outcome.bind, arrShape, featureCheck, ensure2d]
  by_cases h : nf = 1
  · subst h; simp
  · have : ((1 : Nat) != nf) = true := by simp; omega
    simp [h, this]

/-- A `normalize` flag that is not a bool is a TypeError; scalars / None as query are a TypeError. -/
theorem predictor_call_refusals (lib : Lib) (shape : List Nat) (data : List XF) (nf : Nat) (miss : Bool) :
    (∀ nz, (∀ b, nz ≠ .bool b) → predictorMeanInput (.arr lib shape data) nz nf miss = typeError) ∧
    (∀ nz, predictorMeanInput .none nz nf miss = typeError) ∧
    (∀ x nz, predictorMeanInput (.float x) nz nf miss = typeError) ∧
    predictorCovInput .none nf = typeError := by
  refine ⟨?_, fun _ => rfl, fun _ _ => rfl, rfl⟩
  intro nz hnz
  have : validateBool nz false = typeError := by
    cases nz with
    | bool b => exact absurd rfl (hnz b)
    | _ => rfl
  simp only [predictorMeanInput, validateArray_arr, Outcome.bind, this]

/-! ### non-positive-definite covariance is refused, never a NaN factor -/

/-- `chol?` (Cholesky followed by the implementation's NaN test) succeeds only with strictly positive
    pivots, and then the factor has a strictly positive diagonal, is lower triangular and reproduces
    the matrix: no NaN factor is ever handed on. -/
theorem chol_nan_refused {n : Nat} (A : Mat ℝ n n) :
    (∀ L, chol? A = some L → IsCholOf L A ∧ ∀ i, i < n → 0 < cholPivot A L i) ∧
    ((∃ i, i < n ∧ ¬ 0 < cholPivot A (chol A) i) → chol? A = none) := by
  constructor
  · intro L h
    refine ⟨chol?_spec h, ?_⟩
    unfold chol? at h
    simp only at h
    split at h
    · rename_i hall
      have hL : chol A = L := by simpa using h
      subst hL
      intro i hi
      have := (allBelow_iff n _).mp hall i hi
      simpa using this
    · cases h
  · rintro ⟨i, hi, hp⟩
    unfold chol?
    simp only
    split
    · rename_i hall
      have := (allBelow_iff n _).mp hall i hi
      exact absurd (by simpa using this) hp
    · rfl

/-! ### the nearest-neighbour MLE is well defined on sanitised distances -/

/-- For a positive distance and positive dimension every logarithm in `util.mle` has a positive
    argument, and the model's `mle` is the documented real number. -/
theorem mle_finite (r d : ℝ) (hr : 0 < r) (hd : 0 < d) :
    0 < Real.Gamma (d / 2 + 1) ∧ 0 < Real.pi ∧ 0 < r ∧
    mle r d = Real.log (Real.Gamma (d / 2 + 1)) - d / 2 * Real.log Real.pi - d * Real.log r := by
  refine ⟨Real.Gamma_pos_of_pos (by positivity), Real.pi_pos, hr, ?_⟩
  have h2 : (2.0 : ℝ) = 2 := by norm_num
  simp only [mle, lgamma_real, log_real, pi_real, h2]

example : ∃ r d : ℝ, 0 < r ∧ 0 < d := ⟨1, 2, by norm_num, by norm_num⟩

/-! ### no internal errors (clean failure) -/

/-- **Full strength**: whatever the value — including Python ints outside int64 or beyond the double
    range, at any nesting depth — every validator either returns a value or raises ValueError / TypeError;
    no other exception class escapes. -/
theorem validators_no_internal (v : PyVal) (o p ai : Bool) (choices : List String) (nd : Option (List Nat)) :
    (validateFloatOrInt v o).isInternal = false ∧ (validatePositiveFloat v o ai).isInternal = false ∧
    (validateFloat v o ai).isInternal = false ∧ (validatePositiveInt v o).isInternal = false ∧
    (validateBool v o).isInternal = false ∧ (validateString v choices).isInternal = false ∧
    (validateFloatOrIterable v o p ai).isInternal = false ∧ (validateArray v o nd).isInternal = false ∧
    (validate1d v).isInternal = false ∧ (validateK v).isInternal = false := by
  have hpi : (validatePositiveInt v o).isInternal = false ∧ (validatePositiveInt v false).isInternal = false := by
    constructor <;> (unfold validatePositiveInt; split <;> first | rfl | (split <;> rfl))
  refine ⟨?_, ?_, ?_, hpi.1, ?_, ?_, ?_, ?_, ?_, ?_⟩
  · unfold validateFloatOrInt
    split
    · rfl
    · split
      · rename_i hfi; exact nanCheck_noInternal hfi
      · split
        · exact nanCheck_noInternal (v := .int _) rfl
        · exact floatCheck_noInternal v
  · unfold validatePositiveFloat
    split
    · rfl
    · refine bind_isInternal (floatCatch_noInternal v) ?_
      intro x _
      split
      · rfl
      · split
        · rfl
        · split <;> rfl
  · unfold validateFloat
    exact bind_isInternal (validateFloatNan_noInternal v o) (fun r _ => infCheck_noInternal ai r)
  · unfold validateBool
    split <;> first | rfl | (split <;> rfl)
  · unfold validateString
    split
    · split <;> rfl
    · rfl
  · unfold validateFloatOrIterable
    split
    · rfl
    · split
      · refine bind_isInternal (catchOverflow_noInternal _) ?_
        intro x _; repeat (first | rfl | split)
      · split
        · rfl
        · split
          · refine bind_isInternal (catchOverflow_noInternal _) ?_
            intro a _; repeat (first | rfl | split)
          · rfl
  · unfold validateArray
    split
    · split <;> rfl
    · simp only
      refine bind_isInternal ?_ ?_
      · split
        · rfl
        · split
          · exact catchOverflow_noInternal _
          · rfl
      · intro a _
        split
        · rfl
        · split <;> rfl
  · unfold validate1d
    refine bind_isInternal (catchOverflow_noInternal _) ?_
    intro a _
    split <;> rfl
  · unfold validateK
    refine bind_isInternal hpi.2 ?_
    intro r _
    split <;> first | rfl | (split <;> rfl)

/-- The former counter-example witnesses (ints outside int64 / beyond the double range raised
    OverflowError before the repair) are now refused with ValueError. -/
theorem big_ints_refused :
    (validateFloatOrInt (.npint .npScalar (2 ^ 63)) true).isValueError = true ∧
    (validateFloatOrInt (.int (2 ^ 63)) false).isValueError = true ∧
    (validateFloat (.int (2 ^ 63)) false).isValueError = true ∧
    (validateFloatOrInt (.int (-(2 ^ 63) - 1)) true).isValueError = true ∧
    (validatePositiveFloat (.int (2 ^ 1024)) false false).isValueError = true ∧
    (validateFloatOrIterable (.int (2 ^ 1024)) true true).isValueError = true ∧
    (validateArray (.list [.int (2 ^ 1024)]) false none).isValueError = true ∧
    (validate1d (.int (-(2 ^ 1024)))).isValueError = true := by
  refine ⟨by decide +kernel, by decide +kernel, by decide +kernel, by decide +kernel, by decide +kernel,
    by decide +kernel, by decide +kernel, by decide +kernel⟩

/-- ints outside the int64 range are refused by `validate_float_or_int` / `validate_float` (rank, mu, …). -/
theorem int64_overflow_refused (i : Int) (h : ¬ (-(2 ^ 63 : Int) ≤ i ∧ i < (2 ^ 63 : Int))) (o : Bool) :
    validateFloatOrInt (.int i) o = valueError ∧ validateFloat (.int i) o = valueError := by
  have h1 : isnanScalar (.int i) = valueError := by
    show (if -(2 ^ 63 : Int) ≤ i ∧ i < (2 ^ 63 : Int) then (ok false : Outcome Bool) else valueError) = valueError
    rw [if_neg h]
  constructor
  · cases o <;> simp [validateFloatOrInt, PyVal.isFloatOrInt, h1, Outcome.bind]
  · simp [validateFloat, validateFloatNan, squeezeJax1, PyVal.isFloatOrInt, h1, Outcome.bind]

/-! ### option strings and the constructor -/

/-- `GaussianProcessType.from_string`: accepted ⇒ `None` or one of the five documented types; an unknown
    name is a ValueError. -/
theorem gp_from_string_post {v r : PyVal} (h : gpFromString v = ok r) :
    (r = .none ∧ v = .none) ∨ (∃ t, v = .enum t ∧ r = v) ∨ ∃ s n g, v = .str s n ∧ r = .enum g ∧ g ∈ gpTypeNames := by
  unfold gpFromString at h
  split at h
  · left; injection h with h; exact ⟨h.symm, rfl⟩
  · right; left; rename_i t; injection h with h; exact ⟨t, rfl, h.symm⟩
  · right; right
    rename_i s n
    simp only at h
    split at h
    · rename_i g hg
      injection h with h
      exact ⟨s, n, g, rfl, h.symm, List.mem_of_find?_eq_some hg⟩
    · split at h
      · rename_i g hg
        injection h with h
        exact ⟨s, n, g, rfl, h.symm, List.mem_of_find?_eq_some hg⟩
      · cases h
  · cases h

/-- **Full strength**: `from_string` never fails with anything but ValueError … -/
theorem gp_from_string_no_internal (v : PyVal) : (gpFromString v).isInternal = false := by
  cases v with
  | str s n =>
    unfold gpFromString
    simp only
    split
    · rfl
    · split <;> rfl
  | _ => rfl

/-- … and a gp_type that is neither None, nor a member, nor a str (`gp_type=3`, `True`, a list, …: the
    former AttributeError) is refused with ValueError. -/
theorem gp_from_string_refusals (v : PyVal) (h1 : v ≠ .none) (h2 : ∀ t, v ≠ .enum t) (h3 : ∀ s n, v ≠ .str s n) :
    gpFromString v = valueError := by
  cases v with
  | none => exact absurd rfl h1
  | enum t => exact absurd rfl (h2 t)
  | str s n => exact absurd rfl (h3 s n)
  | _ => rfl

example : gpFromString (.int 3) = valueError ∧ gpFromString (.bool true) = valueError := ⟨rfl, rfl⟩

example : gpFromString (.str "Full Nystroem" none) = ok (.enum "full_nystroem") := by rfl
example : gpFromString (.str "sparse" none) = ok (.enum "sparse_cholesky") := by rfl
example : gpFromString (.str "bogus" none) = valueError := by rfl

/-- An accepted constructor call is exactly a call in which every validator, in source order, accepted
    its argument; the stored attributes are the validators' results. -/
theorem ctor_ok {a c : CtorArgs} (h : densityCtor a = ok c) :
    validatePositiveInt a.nLandmarks true = ok c.nLandmarks ∧
    validateFloatOrInt a.rank true = ok c.rank ∧
    validatePositiveFloat a.jitter false = ok c.jitter ∧
    validateArray a.landmarks true none = ok c.landmarks ∧
    gpFromString a.gpType = ok c.gpType ∧
    ctorNN a.nnDistances = ok c.nnDistances ∧
    validateFloat a.mu true = ok c.mu ∧
    validatePositiveFloat a.ls true true = ok c.ls ∧
    validatePositiveFloat a.lsFactor false true = ok c.lsFactor ∧
    validateArray a.lp true none = ok c.lp ∧
    validateArray a.l true none = ok c.l ∧
    validateFloatOrIterable a.d true true = ok c.d ∧
    validateArray a.initialValue true none = ok c.initialValue ∧
    validateString a.optimizer optimizerChoices = ok c.optimizer ∧
    validatePositiveInt a.nIter false = ok c.nIter ∧
    validatePositiveFloat a.initLearnRate false = ok c.initLearnRate ∧
    validateBool a.predictorWithUncertainty false = ok c.predictorWithUncertainty ∧
    validateBool a.jit false = ok c.jit ∧
    validateBool a.checkRank true = ok c.checkRank ∧
    validateString a.dMethod dMethodChoices = ok c.dMethod := by
  unfold densityCtor at h
  simp only [Bind.bind, Pure.pure] at h
  obtain ⟨v1, h1, h⟩ := bind_eq_ok.mp h
  obtain ⟨v2, h2, h⟩ := bind_eq_ok.mp h
  obtain ⟨v3, h3, h⟩ := bind_eq_ok.mp h
  obtain ⟨v4, h4, h⟩ := bind_eq_ok.mp h
  obtain ⟨v5, h5, h⟩ := bind_eq_ok.mp h
  obtain ⟨v6, h6, h⟩ := bind_eq_ok.mp h
  obtain ⟨v7, h7, h⟩ := bind_eq_ok.mp h
  obtain ⟨v8, h8, h⟩ := bind_eq_ok.mp h
  obtain ⟨v9, h9, h⟩ := bind_eq_ok.mp h
  obtain ⟨v10, h10, h⟩ := bind_eq_ok.mp h
  obtain ⟨v11, h11, h⟩ := bind_eq_ok.mp h
  obtain ⟨v12, h12, h⟩ := bind_eq_ok.mp h
  obtain ⟨v13, h13, h⟩ := bind_eq_ok.mp h
  obtain ⟨v14, h14, h⟩ := bind_eq_ok.mp h
  obtain ⟨v15, h15, h⟩ := bind_eq_ok.mp h
  obtain ⟨v16, h16, h⟩ := bind_eq_ok.mp h
  obtain ⟨v17, h17, h⟩ := bind_eq_ok.mp h
  obtain ⟨v18, h18, h⟩ := bind_eq_ok.mp h
  obtain ⟨v19, h19, h⟩ := bind_eq_ok.mp h
  obtain ⟨v20, h20, h⟩ := bind_eq_ok.mp h
  injection h with h
  subst h
  exact ⟨h1, h2, h3, h4, h5, h6, h7, h8, h9, h10, h11, h12, h13, h14, h15, h16, h17, h18, h19, h20⟩

theorem ctorNN_post {v r : PyVal} (h : ctorNN v = ok r) :
    (r = .none ∧ v = .none) ∨ ∃ lib shape data, r = .arr lib shape data ∧ ∀ x ∈ data, x.finPos = true := by
  unfold ctorNN at h
  obtain ⟨a, ha, h⟩ := bind_eq_ok.mp h
  split at h
  · left
    injection h with h
    rcases array_post ha with ⟨_, hv, _⟩ | ⟨s, d, hs, _⟩
    · exact ⟨h.symm, hv⟩
    · cases hs
  · right
    rename_i lib shape data
    obtain ⟨r', hr', h⟩ := bind_eq_ok.mp h
    split at h
    · rename_i data'
      injection h with h
      have := validateNN_ok hr'
      obtain ⟨m, _, hmp, _, rfl⟩ := this
      refine ⟨lib, shape, _, h.symm, ?_⟩
      intro y hy
      obtain ⟨x, _, rfl⟩ := List.mem_map.mp hy
      cases hx : x.finPos <;> simp [hx, hmp]
    · cases h
  · cases h

/-- What an accepted constructor call guarantees about the stored attributes: jitter and
    init_learn_rate are FINITE positive floats, ls_factor (and ls when given) positive floats (possibly `+inf`); rank carries no NaN,
    mu neither NaN nor ±inf; `d` (when given) consists of finite non-negative numbers; the flags
    are genuine bools; optimizer and d_method are known option strings; gp_type is None or a
    GaussianProcessType; n_landmarks / n_iter are non-negative ints; stored nn_distances are all finite and
    positive. -/
theorem ctor_post {a c : CtorArgs} (h : densityCtor a = ok c) :
    (∃ x, c.jitter = .float x ∧ x.finPos = true) ∧
    (∃ x, c.lsFactor = .float x ∧ x.pos = true) ∧
    (∃ x, c.initLearnRate = .float x ∧ x.finPos = true) ∧
    (c.ls = .none ∨ ∃ x, c.ls = .float x ∧ x.pos = true) ∧
    (c.rank = .none ∨ cleanNumber c.rank) ∧ (c.mu = .none ∨ finiteNumber c.mu) ∧
    (c.d = .none ∨ (∃ q : Rat, c.d = .float (.fin q) ∧ 0 ≤ q) ∨
      ∃ shape data, c.d = .arr .jax shape data ∧ ∀ x ∈ data, ∃ q : Rat, x = .fin q ∧ 0 ≤ q) ∧
    (∃ b, c.predictorWithUncertainty = .bool b) ∧ (∃ b, c.jit = .bool b) ∧
    (c.checkRank = .none ∨ ∃ b, c.checkRank = .bool b) ∧
    (∃ s n, c.optimizer = .str s n ∧ s ∈ optimizerChoices) ∧
    (∃ s n, c.dMethod = .str s n ∧ s ∈ dMethodChoices) ∧
    (c.gpType = .none ∨ ∃ g, c.gpType = .enum g) ∧
    (c.nnDistances = .none ∨ ∃ lib shape data, c.nnDistances = .arr lib shape data ∧ ∀ x ∈ data, x.finPos = true) := by
  obtain ⟨_, h2, h3, _, h5, h6, h7, h8, h9, _, _, h12, _, h14, _, h16, h17, h18, h19, h20⟩ := ctor_ok h
  refine ⟨?_, ?_, ?_, ?_, ?_, ?_, ?_, ?_, ?_, ?_, ?_, ?_, ?_, ?_⟩
  · rcases positive_float_post h3 with ⟨_, _, ho⟩ | ⟨x, hr, _, _, hf⟩
    · cases ho
    · exact ⟨x, hr, hf rfl⟩
  · rcases positive_float_post h9 with ⟨_, _, ho⟩ | ⟨x, hr, hp, _, _⟩
    · cases ho
    · exact ⟨x, hr, hp⟩
  · rcases positive_float_post h16 with ⟨_, _, ho⟩ | ⟨x, hr, _, _, hf⟩
    · cases ho
    · exact ⟨x, hr, hf rfl⟩
  · rcases positive_float_post h8 with ⟨hr, _, _⟩ | ⟨x, hr, hp, _, _⟩
    · exact Or.inl hr
    · exact Or.inr ⟨x, hr, hp⟩
  · rcases float_or_int_post h2 with ⟨hr, _, _⟩ | hx
    · exact Or.inl hr
    · exact Or.inr hx
  · rcases validate_float_post h7 with ⟨hr, _, _⟩ | ⟨_, hx⟩
    · exact Or.inl hr
    · exact Or.inr (hx rfl)
  · rcases foin_d_finite h12 with ⟨hr, _, _⟩ | hx | hx
    · exact Or.inl hr
    · exact Or.inr (Or.inl hx)
    · exact Or.inr (Or.inr hx)
  · obtain ⟨hr, hv⟩ := bool_post h17
    rcases hv with ⟨_, ho⟩ | ⟨b, hb⟩
    · cases ho
    · exact ⟨b, hr.trans hb⟩
  · obtain ⟨hr, hv⟩ := bool_post h18
    rcases hv with ⟨_, ho⟩ | ⟨b, hb⟩
    · cases ho
    · exact ⟨b, hr.trans hb⟩
  · obtain ⟨hr, hv⟩ := bool_post h19
    rcases hv with ⟨hn, _⟩ | ⟨b, hb⟩
    · exact Or.inl (hr.trans hn)
    · exact Or.inr ⟨b, hr.trans hb⟩
  · obtain ⟨hr, s, n, hv, hs⟩ := string_post h14
    refine ⟨s, n, hr.trans hv, ?_⟩
    rcases hs with hs | hs
    · cases hs
    · exact hs
  · obtain ⟨hr, s, n, hv, hs⟩ := string_post h20
    refine ⟨s, n, hr.trans hv, ?_⟩
    rcases hs with hs | hs
    · cases hs
    · exact hs
  · rcases gp_from_string_post h5 with ⟨hr, _⟩ | ⟨t, hv, hr⟩ | ⟨_, _, g, _, hr, _⟩
    · exact Or.inl hr
    · exact Or.inr ⟨t, hr.trans hv⟩
    · exact Or.inr ⟨g, hr⟩
  · rcases ctorNN_post h6 with ⟨hr, _⟩ | hx
    · exact Or.inl hr
    · exact Or.inr hx

/-- Every float that is not positive (NaN, −inf, zero, negative) is refused whatever `allow_inf` says; `+inf`
    is accepted exactly when `allow_inf=True` (the constant-kernel limit of a length scale). -/
theorem positive_float_refuses_nonpos (x : XF) (o ai : Bool) (h : x.pos = false) :
    validatePositiveFloat (.float x) o ai = valueError := by
  cases x with
  | fin q =>
    have : (XF.fin q).le0 = true := by
      simp only [XF.pos, decide_eq_false_iff_not, not_lt] at h
      simp [XF.le0, h]
    exact (positive_float_refusals o ai).2.2.1 _ this
  | pinf => simp [XF.pos] at h
  | ninf => exact (positive_float_refusals o ai).2.2.1 _ (by simp [XF.le0])
  | nan => exact (positive_float_refusals o ai).2.1 _ (by simp [XF.isNan])

/-- Construction-time refusals: an unknown optimizer or d_method string, a non-string option, a flag that
    is not a bool, a jitter / init_learn_rate that is not a finite positive number (NaN, ±inf, zero, negative), a
    ls / ls_factor that is not positive (NaN, −inf, zero, negative; `+inf` is the constant-kernel limit and legal), a NaN rank or mu, a gp_type that is no str / member / None, or nn_distances without a single valid entry — none of them constructs. -/
theorem ctor_refuses (a : CtorArgs) :
    ((∀ s n, a.optimizer = .str s n → s ∉ optimizerChoices) → (densityCtor a).isOk = false) ∧
    ((∀ s n, a.dMethod = .str s n → s ∉ dMethodChoices) → (densityCtor a).isOk = false) ∧
    ((∀ b, a.jit ≠ .bool b) → (densityCtor a).isOk = false) ∧
    ((∀ b, a.predictorWithUncertainty ≠ .bool b) → (densityCtor a).isOk = false) ∧
    ((∀ b, a.checkRank ≠ .bool b) → a.checkRank ≠ .none → (densityCtor a).isOk = false) ∧
    ((∃ x, a.jitter = .float x ∧ x.finPos = false) → (densityCtor a).isOk = false) ∧
    ((∃ x, a.ls = .float x ∧ x.pos = false) → (densityCtor a).isOk = false) ∧
    ((∃ x, a.lsFactor = .float x ∧ x.pos = false) → (densityCtor a).isOk = false) ∧
    ((∃ x, a.initLearnRate = .float x ∧ x.finPos = false) → (densityCtor a).isOk = false) ∧
    ((∀ s n, a.gpType ≠ .str s n) → (∀ t, a.gpType ≠ .enum t) → a.gpType ≠ .none → (densityCtor a).isOk = false) ∧
    (a.rank = .float .nan → (densityCtor a).isOk = false) ∧
    ((∃ x, a.mu = .float x ∧ (x.isNan = true ∨ x.isInf = true)) → (densityCtor a).isOk = false) ∧
    ((∃ x, a.d = .float x ∧ (x.isNan = true ∨ x.isInf = true)) → (densityCtor a).isOk = false) ∧
    ((∃ lib shape data, a.d = .arr lib shape data ∧ ∃ x ∈ data, x.isNan = true ∨ x.isInf = true) →
        (densityCtor a).isOk = false) ∧
    ((∃ lib shape data, a.nnDistances = .arr lib shape data ∧ ∀ x ∈ data, x.finPos = false) →
        (densityCtor a).isOk = false) := by
  have key : ∀ {P : Prop}, (∀ c, densityCtor a = ok c → P) → ¬ P → (densityCtor a).isOk = false := by
    intro P hP hn
    cases hc : densityCtor a with
    | ok c => exact absurd (hP c hc) hn
    | _ => rfl
  refine ⟨?_, ?_, ?_, ?_, ?_, ?_, ?_, ?_, ?_, ?_, ?_, ?_, ?_, ?_, ?_⟩
  · intro hs
    refine key (P := ∃ r, validateString a.optimizer optimizerChoices = ok r)
      (fun c hc => ⟨_, (ctor_ok hc).2.2.2.2.2.2.2.2.2.2.2.2.2.1⟩) ?_
    rintro ⟨r, hr⟩
    obtain ⟨_, s, n, hv, hm⟩ := string_post hr
    rcases hm with hm | hm
    · cases hm
    · exact hs s n hv hm
  · intro hs
    refine key (P := ∃ r, validateString a.dMethod dMethodChoices = ok r)
      (fun c hc => ⟨_, (ctor_ok hc).2.2.2.2.2.2.2.2.2.2.2.2.2.2.2.2.2.2.2⟩) ?_
    rintro ⟨r, hr⟩
    obtain ⟨_, s, n, hv, hm⟩ := string_post hr
    rcases hm with hm | hm
    · cases hm
    · exact hs s n hv hm
  · intro hb
    refine key (P := ∃ r, validateBool a.jit false = ok r)
      (fun c hc => ⟨_, (ctor_ok hc).2.2.2.2.2.2.2.2.2.2.2.2.2.2.2.2.2.1⟩) ?_
    rintro ⟨r, hr⟩
    rcases (bool_post hr).2 with ⟨_, ho⟩ | ⟨b, hv⟩
    · cases ho
    · exact hb b hv
  · intro hb
    refine key (P := ∃ r, validateBool a.predictorWithUncertainty false = ok r)
      (fun c hc => ⟨_, (ctor_ok hc).2.2.2.2.2.2.2.2.2.2.2.2.2.2.2.2.1⟩) ?_
    rintro ⟨r, hr⟩
    rcases (bool_post hr).2 with ⟨_, ho⟩ | ⟨b, hv⟩
    · cases ho
    · exact hb b hv
  · intro hb hn
    refine key (P := ∃ r, validateBool a.checkRank true = ok r)
      (fun c hc => ⟨_, (ctor_ok hc).2.2.2.2.2.2.2.2.2.2.2.2.2.2.2.2.2.2.1⟩) ?_
    rintro ⟨r, hr⟩
    rcases (bool_post hr).2 with ⟨hv, _⟩ | ⟨b, hv⟩
    · exact hn hv
    · exact hb b hv
  · rintro ⟨x, hxa, hx⟩
    refine key (P := ∃ r, validatePositiveFloat a.jitter false false = ok r)
      (fun c hc => ⟨_, (ctor_ok hc).2.2.1⟩) ?_
    rintro ⟨r, hr⟩
    rw [hxa, positive_float_refuses_nonfinite x false hx] at hr; cases hr
  · rintro ⟨x, hxa, hx⟩
    refine key (P := ∃ r, validatePositiveFloat a.ls true true = ok r)
      (fun c hc => ⟨_, (ctor_ok hc).2.2.2.2.2.2.2.1⟩) ?_
    rintro ⟨r, hr⟩
    rw [hxa, positive_float_refuses_nonpos x true true hx] at hr; cases hr
  · rintro ⟨x, hxa, hx⟩
    refine key (P := ∃ r, validatePositiveFloat a.lsFactor false true = ok r)
      (fun c hc => ⟨_, (ctor_ok hc).2.2.2.2.2.2.2.2.1⟩) ?_
    rintro ⟨r, hr⟩
    rw [hxa, positive_float_refuses_nonpos x false true hx] at hr; cases hr
  · rintro ⟨x, hxa, hx⟩
    refine key (P := ∃ r, validatePositiveFloat a.initLearnRate false false = ok r)
      (fun c hc => ⟨_, (ctor_ok hc).2.2.2.2.2.2.2.2.2.2.2.2.2.2.2.1⟩) ?_
    rintro ⟨r, hr⟩
    rw [hxa, positive_float_refuses_nonfinite x false hx] at hr; cases hr
  · intro h3 h2 h1
    refine key (P := ∃ r, gpFromString a.gpType = ok r) (fun c hc => ⟨_, (ctor_ok hc).2.2.2.2.1⟩) ?_
    rintro ⟨r, hr⟩
    rw [gp_from_string_refusals a.gpType h1 h2 h3] at hr; cases hr
  · intro hr
    refine key (P := ∃ r, validateFloatOrInt a.rank true = ok r) (fun c hc => ⟨_, (ctor_ok hc).2.1⟩) ?_
    rintro ⟨r, h⟩
    rw [hr, (float_or_int_refusals true).2.1 .nan rfl] at h; cases h
  · rintro ⟨x, hm, hx⟩
    refine key (P := ∃ r, validateFloat a.mu true = ok r) (fun c hc => ⟨_, (ctor_ok hc).2.2.2.2.2.2.1⟩) ?_
    rintro ⟨r, h⟩
    rw [hm] at h
    rcases hx with hx | hx
    · rw [(validate_float_refusals true false).2.1 x hx] at h; cases h
    · rw [(validate_float_refuses_inf true).1 x hx] at h; cases h
  · rintro ⟨x, hd, hx⟩
    refine key (P := ∃ r, validateFloatOrIterable a.d true true = ok r)
      (fun c hc => ⟨_, (ctor_ok hc).2.2.2.2.2.2.2.2.2.2.2.1⟩) ?_
    rintro ⟨r, h⟩
    rw [hd] at h
    rcases hx with hx | hx
    · rw [(foin_refuses_nan_inf true true false).1 x hx] at h; cases h
    · rw [(foin_refuses_nan_inf true true false).2.2.1 x hx] at h; cases h
  · rintro ⟨lib, shape, data, hd, x, hxm, hx⟩
    refine key (P := ∃ r, validateFloatOrIterable a.d true true = ok r)
      (fun c hc => ⟨_, (ctor_ok hc).2.2.2.2.2.2.2.2.2.2.2.1⟩) ?_
    rintro ⟨r, h⟩
    rw [hd] at h
    rcases hx with hx | hx
    · rw [(foin_refuses_nan_inf true true false).2.1 lib shape data ⟨x, hxm, hx⟩] at h; cases h
    · rw [(foin_refuses_nan_inf true true false).2.2.2 lib shape data ⟨x, hxm, hx⟩] at h; cases h
  · rintro ⟨lib, shape, data, hnn, hbad⟩
    refine key (P := ∃ r, ctorNN a.nnDistances = ok r) (fun c hc => ⟨_, (ctor_ok hc).2.2.2.2.2.1⟩) ?_
    rintro ⟨r, h⟩
    rw [hnn] at h
    have : validateNN (some data) true = valueError := (validateNN_refused_iff data true).mpr hbad
    simp [ctorNN, validateArray, PyVal.isIterable, toArr, PyVal.hasNone, toArrCore, catchOverflow, Outcome.bind, arrVal, this] at h

/-! ### repairs after hunt H3: `k >= 1`, the normalisation target, the k-NN distance matrix -/

/-- `DimensionalityEstimator(k=…)` (hunt H3, B3: `k=0` passed `validate_positive_int` and `fit` raised IndexError):
    accepted ⇔ an int `>= 1` (or `True`, which is the int 1); the value is stored unchanged. -/
theorem k_post {v r : PyVal} (h : validateK v = ok r) :
    r = v ∧ ((∃ i : Int, v = .int i ∧ 1 ≤ i) ∨ v = .bool true) := by
  unfold validateK at h
  obtain ⟨r0, h0, h1⟩ := bind_eq_ok.mp h
  obtain ⟨hr, hv⟩ := positive_int_post h0
  subst hr
  rcases hv with ⟨_, ho⟩ | ⟨b, hb⟩ | ⟨i, hi, _⟩
  · cases ho
  · subst hb
    cases b
    · simp at h1
    · simp only [if_true] at h1
      injection h1 with h1
      exact ⟨h1.symm, Or.inr rfl⟩
  · subst hi
    simp only at h1
    by_cases hi : i < 1
    · simp [hi] at h1
    · rw [if_neg hi] at h1
      injection h1 with h1
      exact ⟨h1.symm, Or.inl ⟨i, rfl, by omega⟩⟩

theorem k_refusals :
    (∀ i : Int, i < 1 → validateK (.int i) = valueError) ∧ validateK (.bool false) = valueError ∧
    validateK .none = valueError ∧ (∀ x, validateK (.float x) = valueError) ∧
    (∀ f i, validateK (.npint f i) = valueError) ∧ (∀ s n, validateK (.str s n) = valueError) := by
  refine ⟨?_, rfl, rfl, fun _ => rfl, fun _ _ => rfl, fun _ _ => rfl⟩
  intro i hi
  by_cases h0 : i < 0
  · simp [validateK, validatePositiveInt, h0, Outcome.bind]
  · simp [validateK, validatePositiveInt, h0, hi, Outcome.bind]

example : validateK (.int 0) = valueError ∧ validateK (.int 1) = ok (.int 1) ∧ validateK (.int 10) = ok (.int 10) :=
  ⟨rfl, rfl, rfl⟩

/-- `validate_normalize_per_time_point` (hunt H3, B3: the only flag that was never validated —
    `np.bool_(True)` crashed `fit` with IndexError): accepted ⇒ the stored target is `None`, a genuine Python
    bool, a dict or a sized container — never a NumPy boolean or another scalar; a NumPy / JAX boolean scalar is
    stored as the Python bool of the same truth value; every other scalar and every str is a TypeError; nothing else
    can happen. -/
theorem normalize_post {v r : NormVal} (h : validateNormalize v = ok r) :
    (r = .none ∨ (∃ b, r = .bool b) ∨ r = .dict ∨ ∃ n, r = .sized n) ∧
    (∀ b, v = .npbool b → r = .bool b) ∧ ((∀ b, v ≠ .npbool b) → r = v) := by
  cases v <;> simp_all [validateNormalize]
  all_goals (subst h; simp)

theorem normalize_refusals :
    validateNormalize .scalar = typeError ∧ validateNormalize .str = typeError ∧
    (∀ v, (validateNormalize v).isInternal = false) ∧
    (∀ v, validateNormalize v = typeError ∨ ∃ r, validateNormalize v = ok r) := by
  refine ⟨rfl, rfl, ?_, ?_⟩
  · intro v; cases v <;> rfl
  · intro v; cases v <;> simp [validateNormalize]

example : validateNormalize (.npbool true) = ok (.bool true) ∧ validateNormalize (.sized 2) = ok (.sized 2) := ⟨rfl, rfl⟩

/-- The k-NN distance matrix of the `DimensionalityEstimator` (hunt H3, A3: it was never sanitised) goes through the
    same function as the nearest-neighbour distances, applied to the flattened matrix: `sanitiseDistances` IS
    `validateNN` on `rows.flatten`.  So (corollary of `nn_sanitise`) an accepted matrix keeps its size, every
    entry — in particular the first column, which becomes `nn_distances` — is finite and positive, valid entries are
    unchanged and every invalid one is the smallest valid entry of the whole matrix; and (corollary of
    `nn_all_invalid_refused`) it is refused exactly when no entry of any row is valid. -/
theorem distances_sanitise (rows : List (List XF)) :
    (∀ ys, sanitiseDistances rows = ok ys →
      validateNN (some rows.flatten) false = ok (some ys) ∧ ys.length = rows.flatten.length ∧
      (∀ y ∈ ys, y.finPos = true) ∧
      ∃ m, m ∈ rows.flatten ∧ m.finPos = true ∧ (∀ v ∈ rows.flatten, v.finPos = true → v.lt m = false) ∧
        ∀ i (hi : i < rows.flatten.length) (hj : i < ys.length),
          ((rows.flatten)[i].finPos = true → ys[i] = (rows.flatten)[i]) ∧
          ((rows.flatten)[i].finPos = false → ys[i] = m)) ∧
    (sanitiseDistances rows = valueError ↔ ∀ row ∈ rows, ∀ x ∈ row, x.finPos = false) ∧
    (sanitiseDistances rows).isInternal = false := by
  have hcases := nn_total rows.flatten false
  refine ⟨?_, ?_, ?_⟩
  · intro ys h
    rcases hcases with hv | ⟨zs, hz⟩
    · simp [sanitiseDistances, hv, Outcome.bind] at h
    · have : zs = ys := by simpa [sanitiseDistances, hz, Outcome.bind] using h
      subst this
      exact ⟨hz, nn_sanitise hz⟩
  · have e : sanitiseDistances rows = valueError ↔ validateNN (some rows.flatten) false = valueError := by
      rcases hcases with hv | ⟨zs, hz⟩
      · simp [sanitiseDistances, hv, Outcome.bind]
      · simp [sanitiseDistances, hz, Outcome.bind]
    rw [e, nn_all_invalid_refused]
    constructor
    · intro h row hrow x hx
      exact h x (List.mem_flatten.mpr ⟨row, hrow, hx⟩)
    · intro h x hx
      obtain ⟨row, hrow, hxr⟩ := List.mem_flatten.mp hx
      exact h row hrow x hxr
  · rcases hcases with hv | ⟨zs, hz⟩
    · simp [sanitiseDistances, hv, Outcome.bind]
    · simp [sanitiseDistances, hz, Outcome.bind]

-- one duplicated cell: the zero distance of the pair is replaced by the smallest valid entry of the matrix
example : sanitiseDistances [[.fin 0, .fin 2], [.fin 0, .fin 3], [.fin 1, .fin 2]]
    = ok [.fin 1, .fin 2, .fin 1, .fin 3, .fin 1, .fin 2] := by decide +kernel
example : sanitiseDistances [[.fin 0, .nan], [.pinf, .fin (-1)]] = valueError := by decide +kernel

example : (densityCtor {}).isOk = true := by decide +kernel
example : (densityCtor { optimizer := .str "sgd" none }).isOk = false := by decide +kernel
example : (densityCtor { jit := .int 1 }).isOk = false := by decide +kernel

end Mellon.C20
