/-
  C03 — The inference objective is the documented Bayesian model, with the documented defaults.
  Property theorems only (helpers in InferenceLemmas.lean).  All statements are about the model
  `MellonModel/Inference.lean` at α = ℝ, for every size `n, m, k`, every data set, every `z`.

  Vocabulary (InferenceLemmas): `ballVol d = π^{d/2}/Γ(d/2+1)`,
  `nnDensityV V ρ d r = ρ·d·V·r^{d−1}·exp(−ρ·V·r^d)`, `nnDensity ρ d = nnDensityV (ballVol d) ρ d`,
  `poissonPmf λ j = e^{−λ} λ^j / j!`, `stdNormalLogpdf m z = Σ_{k<m} log φ(z_k)` with Mathlib's
  `gaussianPDFReal 0 1`.
-/
import MellonProofs.InferenceLemmas

open Finset

namespace Mellon.C03
open Mellon

/-! ### the loss of the density estimator -/

/-- `transform(z) = L z + mu`. -/
theorem transform_eq {n m : ℕ} (mu : ℝ) (L : Mat ℝ n m) (z : Vector ℝ m) {i : ℕ} (hi : i < n) :
    (transform mu L z).nth i = ∑ k ∈ range m, L.el i k * z.nth k + mu := by
  unfold transform
  rw [nth_vecOfFn]; simp only [hi, if_true, nsum_eq_sum]

/-- `_normal(k)` with `k` = the number of latent variables is the standard normal log-density. -/
theorem prior_eq {m : ℕ} (z : Vector ℝ m) : normalLogpdf m z = stdNormalLogpdf m z.nth := by
  unfold normalLogpdf
  rw [normalLogpdfOf_eq, sumSq_eq, stdNormalLogpdf_eq]

/-- A scalar `d` is broadcast, a per-cell `d` is read cell by cell. -/
theorem dim_get {n : ℕ} (d0 : ℝ) (v : Vector ℝ n) (i : ℕ) :
    (DimArg.scalar d0 : DimArg ℝ n).get i = d0 ∧ (DimArg.cells v).get i = v.nth i := ⟨rfl, rfl⟩

/-- **The loss is minus the documented log-posterior**: for every `z`,
    `loss z = −( log N(z;0,I) + Σᵢ log p(rᵢ | ρᵢ = exp((Lz+μ)ᵢ), dᵢ) )` with
    `p(r|ρ,d) = ρ·d·V_d·r^{d−1}·exp(−ρ·V_d·r^d)`; scalar or per-cell `d`. -/
theorem loss_eq {n m : ℕ} (r : Vector ℝ n) (d : DimArg ℝ n) (mu : ℝ) (L : Mat ℝ n m) (z : Vector ℝ m)
    (hr : ∀ i, i < n → 0 < r.nth i) (hd : ∀ i, i < n → 0 < d.get i) :
    lossFunc r d mu L m z
      = -(stdNormalLogpdf m z.nth
          + ∑ i ∈ range n, Real.log (nnDensity (Real.exp (∑ k ∈ range m, L.el i k * z.nth k + mu))
                                        (d.get i) (r.nth i))) := by
  unfold lossFunc nnLoglik
  rw [prior_eq, nsum_eq_sum]
  congr 2
  apply Finset.sum_congr rfl
  intro i hi
  have hi' := Finset.mem_range.mp hi
  rw [nnTerm_eq_log_density (hr i hi') (hd i hi'), transform_eq mu L z hi']

/-- With a `k` other than the number of latent variables the loss moves by a parameter-free
    constant only (`_normal(k)` uses `k` in the normalisation alone). -/
theorem loss_k_shift {n m : ℕ} (r : Vector ℝ n) (d : DimArg ℝ n) (mu : ℝ) (L : Mat ℝ n m) (k : ℕ)
    (z : Vector ℝ m) :
    lossFunc r d mu L k z = lossFunc r d mu L m z + ((k : ℝ) - m) / 2 * Real.log (2 * Real.pi) := by
  unfold lossFunc normalLogpdf
  rw [normalLogpdfOf_eq, normalLogpdfOf_eq]
  ring

/-! ### the nearest-neighbour density -/

/-- `∫₀^∞ ρ·d·V·r^{d−1}·exp(−ρ·V·r^d) dr = 1` for every intensity, dimension and ball constant. -/
theorem nn_density_integral {V ρ d : ℝ} (hV : 0 < V) (hρ : 0 < ρ) (hd : 0 < d) :
    ∫ r in Set.Ioi (0 : ℝ), nnDensityV V ρ d r = 1 := nnDensityV_integral hV hρ hd

/-- In particular with the Euclidean ball constant `V_d = π^{d/2}/Γ(d/2+1)` of the code. -/
theorem nn_density_integral_ball {ρ d : ℝ} (hρ : 0 < ρ) (hd : 0 < d) :
    ∫ r in Set.Ioi (0 : ℝ), nnDensity ρ d r = 1 := nnDensityV_integral (ballVol_pos hd) hρ hd

theorem nn_density_pos {ρ d r : ℝ} (hρ : 0 < ρ) (hd : 0 < d) (hr : 0 < r) : 0 < nnDensity ρ d r := by
  unfold nnDensity nnDensityV
  have := ballVol_pos hd
  have := Real.rpow_pos_of_pos hr (d - 1)
  positivity

/-- `util.mle` is the documented closed form. -/
theorem mle_closed_form (r d : ℝ) :
    mle r d = Real.log (Real.Gamma (d / 2 + 1)) - (d / 2) * Real.log Real.pi - d * Real.log r := by
  unfold mle
  simp only [log_real, lgamma_real, pi_real, lit2]

/-- The MLE density is one cell per volume of the ball through the nearest neighbour. -/
theorem mle_density {r d : ℝ} (hr : 0 < r) (hd : 0 < d) :
    Real.exp (mle r d) = 1 / (ballVol d * r ^ d) := by
  rw [mle_eq_neg_logV, nnLogV_eq hr hd, Real.exp_neg, Real.exp_log, one_div]
  have := ballVol_pos hd
  have := Real.rpow_pos_of_pos hr d
  positivity

/-- **The likelihood of one cell is maximised exactly at the closed-form MLE**:
    `u ↦ log p(r | e^u, d)` attains its maximum at `u = mle r d` and nowhere else. -/
theorem mle_argmax {r d : ℝ} (hr : 0 < r) (hd : 0 < d) (u : ℝ) :
    Real.log (nnDensity (Real.exp u) d r) ≤ Real.log (nnDensity (Real.exp (mle r d)) d r)
    ∧ (Real.log (nnDensity (Real.exp u) d r) = Real.log (nnDensity (Real.exp (mle r d)) d r) ↔ u = mle r d) := by
  rw [← nnTerm_eq_log_density hr hd, ← nnTerm_eq_log_density hr hd]
  exact ⟨nnTerm_le_max r d u, nnTerm_eq_max_iff r d u⟩

/-- The maximal log-likelihood of one cell is `log(d/r) − 1`. -/
theorem mle_max_value {r d : ℝ} (hr : 0 < r) (hd : 0 < d) :
    Real.log (nnDensity (Real.exp (mle r d)) d r) = Real.log d - Real.log r - 1 := by
  rw [← nnTerm_eq_log_density hr hd]
  unfold nnTerm
  rw [mle_eq_neg_logV]
  simp only [exp_real, neg_add_cancel, Real.exp_zero]
  unfold nnLogVdr nnLogV
  simp only [log_real]
  ring

/-! ### the k-nearest-neighbour Poisson model of the dimensionality estimator -/

/-- `jnp.sort` stand-in: a sorted permutation. -/
theorem sort_spec (l : List ℝ) : (sortAsc l).Perm l ∧ (sortAsc l).Pairwise (· ≤ ·) :=
  ⟨sortAsc_perm l, sortAsc_sorted l⟩

/-- **The k-NN likelihood is the Poisson model plus a parameter-free constant**: with
    `λᵢⱼ = ρᵢ·V_{dᵢ}·sᵢⱼ^{dᵢ}` the expected number of cells inside the ball through the `j`-th
    nearest neighbour (`sᵢ` = sorted row `i`, `ρᵢ = exp(log_densᵢ)`),
    `_poisson = Σᵢ Σⱼ log Poisson(j; λᵢⱼ) + n·log k!`.
    The constant arises because the code subtracts `gammaln(j) = log (j−1)!` where the pmf has
    `log j!`. -/
theorem poisson_eq {n k : ℕ} (dist : Mat ℝ n k) (dims ld : Vector ℝ n)
    (hdist : ∀ i, i < n → ∀ a ∈ rowList dist i, 0 < a) (hdims : ∀ i, i < n → 0 < dims.nth i) :
    poissonLoglik dist dims ld
      = (∑ i ∈ range n, ∑ j ∈ range k,
          Real.log (poissonPmf (Real.exp (ld.nth i) * ballVol (dims.nth i)
                                  * (sortAsc (rowList dist i)).getD j 0 ^ (dims.nth i)) (j + 1)))
        + n * Real.log (k.factorial : ℝ) := by
  unfold poissonLoglik
  rw [nsum_eq_sum]
  have hrow : ∀ i, i < n → ∀ j, j < k → 0 < (sortAsc (rowList dist i)).getD j 0 := by
    intro i hi j hj
    have hlen : (sortAsc (rowList dist i)).length = k := by
      rw [sortAsc_length]; unfold rowList; simp [hi]
    have hj' : j < (sortAsc (rowList dist i)).length := by omega
    have hmem : (sortAsc (rowList dist i)).getD j 0 ∈ sortAsc (rowList dist i) := by
      rw [List.getD_eq_getElem?_getD, List.getElem?_eq_getElem hj', Option.getD_some]
      exact List.getElem_mem hj'
    exact hdist i hi _ (mem_sortAsc.mp hmem)
  have hterm : ∀ i ∈ range n,
      (nsum k fun j => poissonTerm (dims.nth i) (ld.nth i) ((sortAsc (rowList dist i)).getD j 0) (j + 1))
        = (∑ j ∈ range k, Real.log (poissonPmf (Real.exp (ld.nth i) * ballVol (dims.nth i)
                                  * (sortAsc (rowList dist i)).getD j 0 ^ (dims.nth i)) (j + 1)))
          + Real.log (k.factorial : ℝ) := by
    intro i hi
    have hi' := Finset.mem_range.mp hi
    rw [nsum_eq_sum, ← sum_log_succ k, ← Finset.sum_add_distrib]
    apply Finset.sum_congr rfl
    intro j hj
    exact poissonTerm_eq (hdims i hi') (hrow i hi' j (Finset.mem_range.mp hj)) j
  rw [Finset.sum_congr rfl hterm, Finset.sum_add_distrib, Finset.sum_const, Finset.card_range, nsmul_eq_mul]

/-- **The dimensionality loss** for `z` of shape `(2, m)`: dimensions `dᵢ = exp((L z₀ + μ_dim)ᵢ)`,
    log-densities `(L z₁ + μ_dens)ᵢ`, and
    `loss z = −( log N(z;0,I_{2m}) + Σᵢⱼ log Poisson(j; λᵢⱼ) ) − n·log k! − ((2m − k')/2)·log 2π`
    where `k'` is the argument handed to `_normal` (the estimator passes `initial_value.shape[0] = 2`,
    so the last constant is `(m−1)·log 2π`).  Both constants are free of `z`. -/
theorem dim_loss_eq {n kk m : ℕ} (dist : Mat ℝ n kk) (muDim muDens : ℝ) (L : Mat ℝ n m) (k' : ℕ)
    (z : Mat ℝ 2 m) (hdist : ∀ i, i < n → ∀ a ∈ rowList dist i, 0 < a) :
    dimLossFunc dist muDim muDens L k' z
      = -((stdNormalLogpdf m (fun j => z.el 0 j) + stdNormalLogpdf m (fun j => z.el 1 j))
          + ∑ i ∈ range n, ∑ j ∈ range kk,
              Real.log (poissonPmf
                (Real.exp (∑ c ∈ range m, L.el i c * z.el 1 c + muDens)
                  * ballVol (Real.exp (∑ c ∈ range m, L.el i c * z.el 0 c + muDim))
                  * (sortAsc (rowList dist i)).getD j 0 ^ (Real.exp (∑ c ∈ range m, L.el i c * z.el 0 c + muDim)))
                (j + 1)))
        - n * Real.log (kk.factorial : ℝ)
        - ((2 * m : ℝ) - k') / 2 * Real.log (2 * Real.pi) := by
  unfold dimLossFunc
  simp only
  have hz0 : ∀ c, (z.nthD 0 (vecOfFn fun _ => (0 : ℝ))).nth c = z.el 0 c := by
    intro c; unfold Mat.el; simp [Vector.nthD]
  have hz1 : ∀ c, (z.nthD 1 (vecOfFn fun _ => (0 : ℝ))).nth c = z.el 1 c := by
    intro c; unfold Mat.el; simp [Vector.nthD]
  have hdims : ∀ i, i < n → (dimTransform muDim muDens L z).1.nth i
      = Real.exp (∑ c ∈ range m, L.el i c * z.el 0 c + muDim) := by
    intro i hi
    unfold dimTransform
    simp only
    rw [nth_vecOfFn]; simp only [hi, if_true]
    rw [exp_real, transform_eq muDim L _ hi]
    simp only [hz0]
  have hdens : ∀ i, i < n → (dimTransform muDim muDens L z).2.nth i
      = ∑ c ∈ range m, L.el i c * z.el 1 c + muDens := by
    intro i hi
    unfold dimTransform
    simp only
    rw [transform_eq muDens L _ hi]
    simp only [hz1]
  rw [poisson_eq dist _ _ hdist (fun i hi => by rw [hdims i hi]; exact Real.exp_pos _)]
  rw [normalLogpdfOf_eq, nsum_eq_sum, stdNormalLogpdf_eq, stdNormalLogpdf_eq]
  have hss : ∑ a ∈ range 2, nsum m (fun j => z.el a j * z.el a j)
      = ∑ j ∈ range m, z.el 0 j * z.el 0 j + ∑ j ∈ range m, z.el 1 j * z.el 1 j := by
    rw [Finset.sum_range_succ, Finset.sum_range_one, nsum_eq_sum, nsum_eq_sum]
  rw [hss]
  have hsum : ∀ i ∈ range n, ∀ j ∈ range kk,
      Real.log (poissonPmf (Real.exp ((dimTransform muDim muDens L z).2.nth i)
          * ballVol ((dimTransform muDim muDens L z).1.nth i)
          * (sortAsc (rowList dist i)).getD j 0 ^ ((dimTransform muDim muDens L z).1.nth i)) (j + 1))
      = Real.log (poissonPmf
          (Real.exp (∑ c ∈ range m, L.el i c * z.el 1 c + muDens)
            * ballVol (Real.exp (∑ c ∈ range m, L.el i c * z.el 0 c + muDim))
            * (sortAsc (rowList dist i)).getD j 0 ^ (Real.exp (∑ c ∈ range m, L.el i c * z.el 0 c + muDim)))
          (j + 1)) := by
    intro i hi j _
    rw [hdims i (Finset.mem_range.mp hi), hdens i (Finset.mem_range.mp hi)]
  rw [Finset.sum_congr rfl (fun i hi => Finset.sum_congr rfl (hsum i hi))]
  ring


/-- **The loss of the estimator**: `DimensionalityEstimator._compute_loss_func` hands `_normal` the size `2m` of the latent
    array (repaired defect: it used to pass `shape[0] = 2`), so the prior is the `2m`-dimensional standard normal and
    `loss z = −( log N(z;0,I_{2m}) + Σᵢⱼ log Poisson(j; λᵢⱼ) ) − n·log k!` — the documented model up to one constant free of
    `z`. -/
theorem dim_loss_eq_estimator {n kk m : ℕ} (dist : Mat ℝ n kk) (muDim muDens : ℝ) (L : Mat ℝ n m)
    (z : Mat ℝ 2 m) (hdist : ∀ i, i < n → ∀ a ∈ rowList dist i, 0 < a) :
    dimLossFunc dist muDim muDens L (2 * m) z
      = -((stdNormalLogpdf m (fun j => z.el 0 j) + stdNormalLogpdf m (fun j => z.el 1 j))
          + ∑ i ∈ range n, ∑ j ∈ range kk,
              Real.log (poissonPmf
                (Real.exp (∑ c ∈ range m, L.el i c * z.el 1 c + muDens)
                  * ballVol (Real.exp (∑ c ∈ range m, L.el i c * z.el 0 c + muDim))
                  * (sortAsc (rowList dist i)).getD j 0 ^ (Real.exp (∑ c ∈ range m, L.el i c * z.el 0 c + muDim)))
                (j + 1)))
        - n * Real.log (kk.factorial : ℝ) := by
  rw [dim_loss_eq dist muDim muDens L (2 * m) z hdist]
  push_cast
  ring

/-! ### defaults -/

/-- **Length scale**: `compute_ls = e³ · (geometric mean of the nn distances)`, and the estimator
    multiplies by `ls_factor`. -/
theorem compute_ls_eq {n : ℕ} (r : Vector ℝ n) (hr : ∀ i, i < n → 0 < r.nth i) (lsFactor : ℝ) :
    computeLs r = Real.exp 3 * (∏ i ∈ range n, r.nth i) ^ ((1 : ℝ) / n)
    ∧ estimatorLs r lsFactor = Real.exp 3 * (∏ i ∈ range n, r.nth i) ^ ((1 : ℝ) / n) * lsFactor := by
  have h := computeLs_eq r hr
  exact ⟨h, by unfold estimatorLs; rw [h]⟩

/-- The values whose percentile is taken: the per-cell MLE log-densities. -/
theorem mle_list {n : ℕ} (r : Vector ℝ n) (d : DimArg ℝ n) :
    (mleVec r d).toList = (List.range n).map fun i => mle (r.nth i) (d.get i) := by
  unfold mleVec; rw [toList_vecOfFn]

/-- **mu**: with `s` the ascending MLE log-densities, `lo = ⌊(n−1)/100⌋`, `hi = ⌈(n−1)/100⌉`
    and `w = ((n−1) mod 100)/100` (i.e. position `0.01·(n−1) = lo + w`),
    `mu = (1−w)·s[lo] + w·s[hi] − 10`: the linearly interpolated 1st percentile, minus 10. -/
theorem compute_mu_eq {n : ℕ} (r : Vector ℝ n) (d : DimArg ℝ n) :
    let vals := (List.range n).map fun i => mle (r.nth i) (d.get i)
    let s := sortAsc vals
    let lo := (n - 1) / 100
    let hi := if (n - 1) % 100 = 0 then lo else lo + 1
    let w : ℝ := (((n - 1) % 100 : ℕ) : ℝ) / 100
    s.Perm vals ∧ s.Pairwise (· ≤ ·) ∧ computeMu r d = (1 - w) * s.getD lo 0 + w * s.getD hi 0 - 10 := by
  intro vals s lo hi w
  refine ⟨sortAsc_perm vals, sortAsc_sorted vals, ?_⟩
  unfold computeMu
  rw [quantile01_eq, mle_list, lit10]
  have hlen : vals.length = n := by simp [vals]
  rw [hlen]
  ring

/-- `mu + 10` lies between the two order statistics it interpolates. -/
theorem compute_mu_between {n : ℕ} (hn : 0 < n) (r : Vector ℝ n) (d : DimArg ℝ n) :
    let s := sortAsc ((List.range n).map fun i => mle (r.nth i) (d.get i))
    let lo := (n - 1) / 100
    let hi := if (n - 1) % 100 = 0 then lo else lo + 1
    s.getD lo 0 - 10 ≤ computeMu r d ∧ computeMu r d ≤ s.getD hi 0 - 10 := by
  intro s lo hi
  obtain ⟨_, hsorted, hmu⟩ := compute_mu_eq r d
  have hlen : s.length = n := by simp [s, sortAsc_length]
  have hw0 : (0 : ℝ) ≤ (((n - 1) % 100 : ℕ) : ℝ) / 100 := by positivity
  have hw1 : (((n - 1) % 100 : ℕ) : ℝ) / 100 ≤ 1 := by
    have : (n - 1) % 100 < 100 := Nat.mod_lt _ (by norm_num)
    have : (((n - 1) % 100 : ℕ) : ℝ) ≤ 100 := by exact_mod_cast le_of_lt this
    linarith
  have hhi : hi < s.length := by
    rw [hlen]; simp only [hi, lo]
    split <;> omega
  have hle : lo ≤ hi := by simp only [hi]; split <;> omega
  have hmono := sorted_getD_mono hsorted hle hhi
  rw [hmu]
  constructor <;> nlinarith

/-- **d**: the number of features (`1` for a 1-D array); the density estimator refuses more than 50. -/
theorem compute_d_eq (n f : ℕ) (rest : List ℕ) :
    computeD (n :: f :: rest) = f ∧ computeD [n] = 1 ∧ computeD [] = 1
    ∧ (estimatorD (n :: f :: rest) = (if f > 50 then .error "ValueError:d>50" else .ok f)) := by
  refine ⟨by simp [computeD], by simp [computeD], by simp [computeD], ?_⟩
  simp [estimatorD, computeD]

/-! ### the starting point: ridge regression of `L z ≈ MLE − mu` -/

/-- `compute_initial_value` regresses the target `mle(nn, d) − mu`. -/
theorem initial_value_target {n m : ℕ} (r : Vector ℝ n) (d : DimArg ℝ n) (mu : ℝ) (L : Mat ℝ n m) :
    computeInitialValue r d mu L = ridgeInit L (vecOfFn fun i => mle (r.nth i) (d.get i) - mu) := rfl

/-- The start value solves the normal equations `(LᵀL + I) z = Lᵀ t`. -/
theorem ridge_init_normal_eq {n m : ℕ} {L : Mat ℝ n m} {t : Vector ℝ n} {z0 : Vector ℝ m}
    (h : ridgeInit L t = some z0) {a : ℕ} (ha : a < m) :
    (∑ i ∈ range n, L.el i a * (∑ b ∈ range m, L.el i b * z0.nth b)) + z0.nth a
      = ∑ i ∈ range n, L.el i a * t.nth i := ridgeInit_normal_eq h ha

/-- **The start value minimises the ridge objective** `‖Lz − t‖² + ‖z‖²`: for every `z'` the
    objective exceeds the one at `z0` by exactly `‖L(z'−z0)‖² + ‖z'−z0‖² ≥ 0`. -/
theorem ridge_init_min {n m : ℕ} {L : Mat ℝ n m} {t : Vector ℝ n} {z0 : Vector ℝ m}
    (h : ridgeInit L t = some z0) (z' : ℕ → ℝ) :
    (∑ i ∈ range n, ((∑ b ∈ range m, L.el i b * z' b) - t.nth i) ^ 2 + ∑ b ∈ range m, z' b ^ 2)
      - (∑ i ∈ range n, ((∑ b ∈ range m, L.el i b * z0.nth b) - t.nth i) ^ 2 + ∑ b ∈ range m, z0.nth b ^ 2)
      = ∑ i ∈ range n, (∑ b ∈ range m, L.el i b * (z' b - z0.nth b)) ^ 2
        + ∑ b ∈ range m, (z' b - z0.nth b) ^ 2
    ∧ 0 ≤ ∑ i ∈ range n, (∑ b ∈ range m, L.el i b * (z' b - z0.nth b)) ^ 2
        + ∑ b ∈ range m, (z' b - z0.nth b) ^ 2 := by
  refine ⟨ridge_objective_diff n m (fun i b => L.el i b) (fun i => t.nth i) (fun b => z0.nth b) z'
    (fun a ha => ridgeInit_normal_eq h ha), ?_⟩
  apply add_nonneg <;> exact Finset.sum_nonneg fun _ _ => sq_nonneg _

/-- **The start value always exists** over ℝ: `LᵀL + I` is symmetric positive definite, so the
    Cholesky factorisation of the normal equations cannot meet a non-positive pivot. -/
theorem ridge_init_exists {n m : ℕ} (L : Mat ℝ n m) (t : Vector ℝ n) : ∃ z0, ridgeInit L t = some z0 :=
  ridgeInit_isSome L t

/-- Existence and minimality together, with no hypothesis: there is a start value and it minimises
    the ridge objective. -/
theorem ridge_init_exists_min {n m : ℕ} (L : Mat ℝ n m) (t : Vector ℝ n) :
    ∃ z0, ridgeInit L t = some z0 ∧ ∀ z' : ℕ → ℝ,
      (∑ i ∈ range n, ((∑ b ∈ range m, L.el i b * z0.nth b) - t.nth i) ^ 2 + ∑ b ∈ range m, z0.nth b ^ 2)
        ≤ (∑ i ∈ range n, ((∑ b ∈ range m, L.el i b * z' b) - t.nth i) ^ 2 + ∑ b ∈ range m, z' b ^ 2) := by
  obtain ⟨z0, h⟩ := ridgeInit_isSome L t
  refine ⟨z0, h, fun z' => ?_⟩
  obtain ⟨hd, hn⟩ := ridge_init_min h z'
  linarith

/-- The minimiser is unique: a `z'` with the same objective value coincides with `z0`. -/
theorem ridge_init_unique {n m : ℕ} {L : Mat ℝ n m} {t : Vector ℝ n} {z0 : Vector ℝ m}
    (h : ridgeInit L t = some z0) (z' : ℕ → ℝ)
    (heq : (∑ i ∈ range n, ((∑ b ∈ range m, L.el i b * z' b) - t.nth i) ^ 2 + ∑ b ∈ range m, z' b ^ 2)
      ≤ (∑ i ∈ range n, ((∑ b ∈ range m, L.el i b * z0.nth b) - t.nth i) ^ 2 + ∑ b ∈ range m, z0.nth b ^ 2))
    {b : ℕ} (hb : b < m) : z' b = z0.nth b := by
  obtain ⟨hdiff, _⟩ := ridge_init_min h z'
  have h1 : 0 ≤ ∑ i ∈ range n, (∑ b ∈ range m, L.el i b * (z' b - z0.nth b)) ^ 2 :=
    Finset.sum_nonneg fun _ _ => sq_nonneg _
  have h2 : ∑ b ∈ range m, (z' b - z0.nth b) ^ 2 ≤ 0 := by linarith
  have h3 : ∀ b ∈ range m, 0 ≤ (z' b - z0.nth b) ^ 2 := fun _ _ => sq_nonneg _
  have h4 := (Finset.sum_eq_zero_iff_of_nonneg h3).mp (le_antisymm h2 (Finset.sum_nonneg h3)) b
    (Finset.mem_range.mpr hb)
  have := pow_eq_zero_iff (two_ne_zero) |>.mp h4
  linarith

/-! ### nearest-neighbour distances -/

/-- The distance the model (and, by contract, the tree) reports is the Euclidean distance. -/
theorem eucl_eq (x y : List ℝ) : eucl x y = Real.sqrt (sqdist x y) := by
  unfold eucl; rw [sqrt_real, sqd_eq_sqdist]

/-- `compute_distances(x, k)[i]` is the first `k` entries of the ascending distances to the other
    cells. -/
theorem knn_spec {n d : ℕ} (X : Mat ℝ n d) (k i : ℕ) :
    ∃ s : List ℝ, s.Perm (othersDist X i) ∧ s.Pairwise (· ≤ ·) ∧ knnDistances X k i = s.take k :=
  ⟨sortAsc (othersDist X i), sortAsc_perm _, sortAsc_sorted _, rfl⟩

/-- The tree refuses `k + 1 > n` neighbours (`ValueError`), otherwise every cell gets `k` distances. -/
theorem knn_outcome {n d : ℕ} (X : Mat ℝ n d) (k : ℕ) :
    (n ≤ k → computeDistances? X k = none)
    ∧ (k < n → ∃ rows, computeDistances? X k = some rows ∧ rows.length = n
        ∧ ∀ i, i < n → (knnDistances X k i).length = k) := by
  constructor
  · intro h; simp [computeDistances?, h]
  · intro h
    refine ⟨(List.range n).map fun i => knnDistances X k i,
      by simp [computeDistances?, Nat.not_le.mpr h], by simp, ?_⟩
    intro i hi
    unfold knnDistances
    rw [List.length_take, sortAsc_length, othersDist_length X hi]
    omega

/-- **`nn_distances[i]` is the true distance to the closest other cell**: it is attained at some
    `j ≠ i` and no other cell is closer. -/
theorem nn_is_min {n d : ℕ} (X : Mat ℝ n d) {i : ℕ} (hi : i < n) (hn : 2 ≤ n) :
    (∃ j, j < n ∧ j ≠ i ∧ nnDistance X i = eucl (rowList X i) (rowList X j))
    ∧ ∀ j, j < n → j ≠ i → nnDistance X i ≤ eucl (rowList X i) (rowList X j) := by
  unfold nnDistance knnDistances
  rw [take_one_getD]
  set s := sortAsc (othersDist X i) with hs
  have hlen : s.length = n - 1 := by rw [hs, sortAsc_length, othersDist_length X hi]
  have hpos : 0 < s.length := by omega
  have hmem : s.getD 0 0 ∈ s := by
    rw [List.getD_eq_getElem?_getD, List.getElem?_eq_getElem hpos, Option.getD_some]
    exact List.getElem_mem hpos
  constructor
  · obtain ⟨j, hj, hji, he⟩ := (mem_othersDist X i _).mp (mem_sortAsc.mp hmem)
    exact ⟨j, hj, hji, he.symm⟩
  · intro j hj hji
    apply sorted_head_le (sortAsc_sorted _)
    exact mem_sortAsc.mpr ((mem_othersDist X i _).mpr ⟨j, hj, hji, rfl⟩)

/-! ### non-vacuity -/

/-- The hypotheses of `loss_eq` are satisfiable (two cells, one latent variable). -/
example : ∃ (r : Vector ℝ 2) (d : DimArg ℝ 2), (∀ i, i < 2 → 0 < r.nth i) ∧ (∀ i, i < 2 → 0 < d.get i) :=
  ⟨vecOfFn fun _ => 1, .scalar 2, by intro i hi; rw [nth_vecOfFn]; simp [hi], by intro i _; norm_num [DimArg.get]⟩

/-- `ridgeInit` does return a value: `L = (1)`, `t = (2)` gives `(LᵀL+I) z = 2z = 2`. -/
example : ∃ z0, ridgeInit (n := 1) (m := 1) (Mat.ofFn fun _ _ => (1 : ℝ)) (vecOfFn fun _ => 2) = some z0 := by
  have hp : 0 < cholPivot (ridgeGram (n := 1) (m := 1) (Mat.ofFn fun _ _ => (1 : ℝ)))
      (chol (ridgeGram (n := 1) (m := 1) (Mat.ofFn fun _ _ => (1 : ℝ)))) 0 := by
    unfold cholPivot
    rw [ridgeGram_el _ (by norm_num) (by norm_num)]
    simp [nsum]
  unfold ridgeInit chol?
  simp [allBelow, hp]

/-- `nn_is_min` applies to any data set with at least two cells. -/
example : ∃ (_X : Mat ℝ 2 1) (i : ℕ), i < 2 ∧ 2 ≤ 2 := ⟨Mat.ofFn fun i _ => i, 0, by norm_num, le_refl _⟩

end Mellon.C03
