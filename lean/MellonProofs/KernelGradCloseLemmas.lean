/-
  MellonProofs.KernelGradCloseLemmas — how far the coded gradient (guard `1e-12`) can be from the
  exact one, for every expression tree (helper of C11).

  `Cov.devBound c x y` is the sum of the absolute contributions of the distance-based leaves,
  propagated through the tree with absolute values of the operand values.  Then, in every direction,
    |⟨kGrad c x y − kGradE 0 c x y, u⟩| ≤ 1e-6 · ⟨devBound c x y, |u|⟩.
-/
import MellonProofs.KernelGradZeroLemmas

namespace Mellon

def absL (u : List ℝ) : List ℝ := u.map fun a => |a|

@[simp] theorem absL_length (u : List ℝ) : (absL u).length = u.length := by simp [absL]

theorem abs_dot_le (v u : List ℝ) : |dot v u| ≤ dot (absL v) (absL u) := by
  induction v generalizing u with
  | nil => simp [absL]
  | cons a as ih =>
    cases u with
    | nil => simp [absL]
    | cons b bs =>
      have h := ih bs
      simp only [absL, List.map_cons, dot_cons] at h ⊢
      calc |a * b + dot as bs| ≤ |a * b| + |dot as bs| := abs_add_le _ _
        _ ≤ |a| * |b| + dot (as.map fun a => |a|) (bs.map fun a => |a|) := by
            rw [abs_mul]; linarith

theorem dot_absL_nonneg (v u : List ℝ) : 0 ≤ dot (absL v) (absL u) :=
  le_trans (abs_nonneg _) (abs_dot_le v u)

theorem getD_absL (u : List ℝ) (i : Nat) : (absL u).getD i 0 = |u.getD i 0| := by
  simp only [absL, List.getD_eq_getElem?_getD, List.getElem?_map]
  cases u[i]? <;> simp

theorem select_absL (ad : ActiveDims) (u : List ℝ) : select ad (absL u) = absL (select ad u) := by
  by_cases hn : ad = .none
  · subst hn; rfl
  · cases hi : ad.indices u.length with
    | none =>
      rw [select_of_invalid hn (by rw [absL_length]; exact hi), select_of_invalid hn hi]; rfl
    | some is =>
      rw [select_of_indices hn (by rw [absL_length]; exact hi), select_of_indices hn hi]
      simp only [absL, List.map_map]
      apply List.map_congr_left
      intro i _
      exact getD_absL u i

/-- Sum of absolute leaf contributions (exact-division values), propagated through the tree. -/
noncomputable def Cov.devBound : Cov ℝ → List ℝ → List ℝ → List ℝ
  | .matern32 ls ad, x, y => expand ad y.length (absL ((Cov.matern32 ls .none).kGradE 0 (select ad x) (select ad y)))
  | .matern52 ls ad, x, y => expand ad y.length (absL ((Cov.matern52 ls .none).kGradE 0 (select ad x) (select ad y)))
  | .expquad ls ad, x, y => expand ad y.length (absL ((Cov.expquad ls .none).kGradE 0 (select ad x) (select ad y)))
  | .exponential ls ad, x, y =>
    expand ad y.length (absL ((Cov.exponential ls .none).kGradE 0 (select ad x) (select ad y)))
  | .ratquad a ls ad, x, y => expand ad y.length (absL ((Cov.ratquad a ls .none).kGradE 0 (select ad x) (select ad y)))
  | .linear _ ad, _, y => expand ad y.length (List.replicate (select ad y).length 0)
  | .add l r ad, x, y =>
    expand ad y.length (List.zipWith (· + ·) (l.devBound (select ad x) (select ad y)) (r.devBound (select ad x) (select ad y)))
  | .addC l _ ad, x, y => expand ad y.length (l.devBound (select ad x) (select ad y))
  | .mul l r ad, x, y =>
    let xs := select ad x; let ys := select ad y
    expand ad y.length (List.zipWith (fun bl br => bl * |r.k xs ys| + |l.k xs ys| * br) (l.devBound xs ys) (r.devBound xs ys))
  | .mulC l c ad, x, y => expand ad y.length ((l.devBound (select ad x) (select ad y)).map fun b => b * |c|)
  | .pow l p ad, x, y =>
    let xs := select ad x; let ys := select ad y
    expand ad y.length ((l.devBound xs ys).map fun b =>
      |if (¬ (0 < l.k xs ys) ∧ ¬ (l.k xs ys < 0)) ∧ p < 1 then 0 else p * (l.k xs ys) ^ (p - 1)| * b)

/-- A radial leaf written on its own columns: `kGradE e (leaf ad) x y = expand ad d (kGradE e (leaf none) xs ys)`. -/
theorem radial_leaf_unfold (c : Cov ℝ) (hc : c.isRadial = true) (x y : List ℝ) :
    ∃ c0 : Cov ℝ, c0.isRadial = true ∧ c0.ad = .none
      ∧ (∀ e', c.kGradE e' x y = expand c.ad y.length (c0.kGradE e' (select c.ad x) (select c.ad y)))
      ∧ c.devBound x y = expand c.ad y.length (absL (c0.kGradE 0 (select c.ad x) (select c.ad y))) := by
  cases c with
  | matern32 ls ad => exact ⟨.matern32 ls .none, rfl, rfl, fun e' => by simp [Cov.kGradE, select_none, expand_none, Cov.ad], rfl⟩
  | matern52 ls ad => exact ⟨.matern52 ls .none, rfl, rfl, fun e' => by simp [Cov.kGradE, select_none, expand_none, Cov.ad], rfl⟩
  | expquad ls ad => exact ⟨.expquad ls .none, rfl, rfl, fun e' => by simp [Cov.kGradE, select_none, expand_none, Cov.ad], rfl⟩
  | exponential ls ad => exact ⟨.exponential ls .none, rfl, rfl, fun e' => by simp [Cov.kGradE, select_none, expand_none, Cov.ad], rfl⟩
  | ratquad a ls ad => exact ⟨.ratquad a ls .none, rfl, rfl, fun e' => by simp [Cov.kGradE, select_none, expand_none, Cov.ad], rfl⟩
  | linear ls ad => simp [Cov.isRadial] at hc
  | add l r ad => simp [Cov.isRadial] at hc
  | addC l c ad => simp [Cov.isRadial] at hc
  | mul l r ad => simp [Cov.isRadial] at hc
  | mulC l c ad => simp [Cov.isRadial] at hc
  | pow l p ad => simp [Cov.isRadial] at hc

theorem one_sub_guard_le (x y : List ℝ) (h : x.length = y.length) :
    |distance x y / (distance x y + distEps) - 1| ≤ 1e-6 := by
  obtain ⟨hlo, hhi⟩ := guard_bounds x y h
  rw [abs_sub_comm, abs_of_nonneg (by linarith)]
  have : (1:ℝ) - 1 / (1 + 1e-6) ≤ 1e-6 := by norm_num
  linarith

/-- The deviation of a radial leaf, in every direction. -/
theorem radial_close (c : Cov ℝ) (hc : c.isRadial = true) (x y u : List ℝ) (hxy : x.length = y.length)
    (hu : u.length = y.length) :
    |dot (c.kGradE distEps x y) u - dot (c.kGradE 0 x y) u| ≤ 1e-6 * dot (c.devBound x y) (absL u) := by
  obtain ⟨c0, hc0, had0, hG, hB⟩ := radial_leaf_unfold c hc x y
  have hs := select_length_eq c.ad x y hxy
  have hus := select_length_eq c.ad u y hu
  rw [hG distEps, hG 0, hB, dot_expand_select c.ad y u _ hu, dot_expand_select c.ad y u _ hu,
    dot_expand_select c.ad y (absL u) _ (by rw [absL_length]; exact hu), select_absL]
  have hγ := kGradE_radial_dot distEps (le_of_lt distEps_pos) c0 hc0 (select c.ad x) (select c.ad y)
    (select c.ad u) hs hus
  rw [hγ]
  have hg : guardFactor distEps c0 (select c.ad x) (select c.ad y)
      = distance (select c.ad x) (select c.ad y) / (distance (select c.ad x) (select c.ad y) + distEps) := by
    simp [guardFactor, had0, select_none]
  rw [hg]
  set V := dot (c0.kGradE 0 (select c.ad x) (select c.ad y)) (select c.ad u) with hV
  set γ := distance (select c.ad x) (select c.ad y) / (distance (select c.ad x) (select c.ad y) + distEps)
  have h1 : γ * V - V = (γ - 1) * V := by ring
  rw [h1, abs_mul]
  have h2 := one_sub_guard_le (select c.ad x) (select c.ad y) hs
  have h3 := abs_dot_le (c0.kGradE 0 (select c.ad x) (select c.ad y)) (select c.ad u)
  exact mul_le_mul h2 h3 (abs_nonneg _) (by norm_num)

theorem devBound_length (c : Cov ℝ) (x y : List ℝ) (hxy : x.length = y.length)
    (hwf : c.WF y.length = true) : (c.devBound x y).length = y.length := by
  induction c generalizing x y with
  | matern32 ls ad =>
    obtain ⟨is, hi⟩ := wf_leaf_indices hwf
    simp only [Cov.devBound]
    apply expand_length ad _ _ hi
    rw [absL_length, kGradE_length 0 _ _ _ (select_length_eq ad x y hxy) rfl, select_length_of_indices ad y hi]
  | matern52 ls ad =>
    obtain ⟨is, hi⟩ := wf_leaf_indices hwf
    simp only [Cov.devBound]
    apply expand_length ad _ _ hi
    rw [absL_length, kGradE_length 0 _ _ _ (select_length_eq ad x y hxy) rfl, select_length_of_indices ad y hi]
  | expquad ls ad =>
    obtain ⟨is, hi⟩ := wf_leaf_indices hwf
    simp only [Cov.devBound]
    apply expand_length ad _ _ hi
    rw [absL_length, kGradE_length 0 _ _ _ (select_length_eq ad x y hxy) rfl, select_length_of_indices ad y hi]
  | exponential ls ad =>
    obtain ⟨is, hi⟩ := wf_leaf_indices hwf
    simp only [Cov.devBound]
    apply expand_length ad _ _ hi
    rw [absL_length, kGradE_length 0 _ _ _ (select_length_eq ad x y hxy) rfl, select_length_of_indices ad y hi]
  | ratquad a ls ad =>
    obtain ⟨is, hi⟩ := wf_leaf_indices hwf
    simp only [Cov.devBound]
    apply expand_length ad _ _ hi
    rw [absL_length, kGradE_length 0 _ _ _ (select_length_eq ad x y hxy) rfl, select_length_of_indices ad y hi]
  | linear ls ad =>
    obtain ⟨is, hi⟩ := wf_leaf_indices hwf
    simp only [Cov.devBound]
    apply expand_length ad _ _ hi
    rw [List.length_replicate, select_length_of_indices ad y hi]
  | add l r ad ihl ihr =>
    obtain ⟨is, hi, hl, hr⟩ := wf_pair hwf
    have hw := select_length_of_indices ad y hi
    have hs := select_length_eq ad x y hxy
    simp only [Cov.devBound]
    apply expand_length ad _ _ hi
    rw [List.length_zipWith, ihl _ _ hs (hw ▸ hl), ihr _ _ hs (hw ▸ hr), hw]; simp
  | addC l c ad ih =>
    obtain ⟨is, hi, hl⟩ := wf_single hwf
    have hw := select_length_of_indices ad y hi
    have hs := select_length_eq ad x y hxy
    simp only [Cov.devBound]
    apply expand_length ad _ _ hi
    rw [ih _ _ hs (hw ▸ hl), hw]
  | mul l r ad ihl ihr =>
    obtain ⟨is, hi, hl, hr⟩ := wf_pair hwf
    have hw := select_length_of_indices ad y hi
    have hs := select_length_eq ad x y hxy
    simp only [Cov.devBound]
    apply expand_length ad _ _ hi
    rw [List.length_zipWith, ihl _ _ hs (hw ▸ hl), ihr _ _ hs (hw ▸ hr), hw]; simp
  | mulC l c ad ih =>
    obtain ⟨is, hi, hl⟩ := wf_single hwf
    have hw := select_length_of_indices ad y hi
    have hs := select_length_eq ad x y hxy
    simp only [Cov.devBound]
    apply expand_length ad _ _ hi
    rw [List.length_map, ih _ _ hs (hw ▸ hl), hw]
  | pow l p ad ih =>
    obtain ⟨is, hi, hl⟩ := wf_single hwf
    have hw := select_length_of_indices ad y hi
    have hs := select_length_eq ad x y hxy
    simp only [Cov.devBound]
    apply expand_length ad _ _ hi
    rw [List.length_map, ih _ _ hs (hw ▸ hl), hw]

/-- **Every tree.**  In every direction the coded gradient (guard `1e-12`) is within
    `1e-6 · ⟨devBound, |u|⟩` of the exact-division gradient, i.e. of the true directional derivative. -/
theorem kGradE_close (c : Cov ℝ) (x y u : List ℝ) (hxy : x.length = y.length) (hu : u.length = y.length)
    (hwf : c.WF y.length = true) :
    |dot (c.kGradE distEps x y) u - dot (c.kGradE 0 x y) u| ≤ 1e-6 * dot (c.devBound x y) (absL u) := by
  induction c generalizing x y u with
  | matern32 ls ad => exact radial_close _ rfl x y u hxy hu
  | matern52 ls ad => exact radial_close _ rfl x y u hxy hu
  | expquad ls ad => exact radial_close _ rfl x y u hxy hu
  | exponential ls ad => exact radial_close _ rfl x y u hxy hu
  | ratquad a ls ad => exact radial_close _ rfl x y u hxy hu
  | linear ls ad =>
    have h0 : dot ((Cov.linear ls ad).kGradE distEps x y) u - dot ((Cov.linear ls ad).kGradE 0 x y) u = 0 := by
      simp only [Cov.kGradE]; ring
    rw [h0, abs_zero]
    simp only [Cov.devBound]
    rw [dot_expand_select ad y (absL u) _ (by rw [absL_length]; exact hu), dot_replicate_zero]
    norm_num
  | add l r ad ihl ihr =>
    obtain ⟨is, hi, hl, hr⟩ := wf_pair hwf
    have hw := select_length_of_indices ad y hi
    have hs := select_length_eq ad x y hxy
    have hus := select_length_eq ad u y hu
    have hau : (absL u).length = y.length := by rw [absL_length]; exact hu
    have h1 := ihl _ _ _ hs hus (hw ▸ hl)
    have h2 := ihr _ _ _ hs hus (hw ▸ hr)
    simp only [Cov.kGradE, Cov.devBound]
    rw [dot_expand_select ad y u _ hu, dot_expand_select ad y u _ hu, dot_expand_select ad y (absL u) _ hau,
      select_absL,
      dot_zipWith_left (· + ·) 1 1 (by intro p q; ring) _ _ _
        (by rw [kGradE_length _ l _ _ hs (hw ▸ hl), kGradE_length _ r _ _ hs (hw ▸ hr)]),
      dot_zipWith_left (· + ·) 1 1 (by intro p q; ring) _ _ _
        (by rw [kGradE_length _ l _ _ hs (hw ▸ hl), kGradE_length _ r _ _ hs (hw ▸ hr)]),
      dot_zipWith_left (· + ·) 1 1 (by intro p q; ring) _ _ _
        (by rw [devBound_length l _ _ hs (hw ▸ hl), devBound_length r _ _ hs (hw ▸ hr)])]
    set a1 := dot (l.kGradE distEps (select ad x) (select ad y)) (select ad u)
    set a0 := dot (l.kGradE 0 (select ad x) (select ad y)) (select ad u)
    set b1 := dot (r.kGradE distEps (select ad x) (select ad y)) (select ad u)
    set b0 := dot (r.kGradE 0 (select ad x) (select ad y)) (select ad u)
    have e : 1 * a1 + 1 * b1 - (1 * a0 + 1 * b0) = (a1 - a0) + (b1 - b0) := by ring
    rw [e]
    calc |a1 - a0 + (b1 - b0)| ≤ |a1 - a0| + |b1 - b0| := abs_add_le _ _
      _ ≤ _ := by linarith
  | addC l c ad ih =>
    obtain ⟨is, hi, hl⟩ := wf_single hwf
    have hw := select_length_of_indices ad y hi
    have hs := select_length_eq ad x y hxy
    have hus := select_length_eq ad u y hu
    have hau : (absL u).length = y.length := by rw [absL_length]; exact hu
    have h1 := ih _ _ _ hs hus (hw ▸ hl)
    simp only [Cov.kGradE, Cov.devBound]
    rw [dot_expand_select ad y u _ hu, dot_expand_select ad y u _ hu, dot_expand_select ad y (absL u) _ hau,
      select_absL]
    exact h1
  | mul l r ad ihl ihr =>
    obtain ⟨is, hi, hl, hr⟩ := wf_pair hwf
    have hw := select_length_of_indices ad y hi
    have hs := select_length_eq ad x y hxy
    have hus := select_length_eq ad u y hu
    have hau : (absL u).length = y.length := by rw [absL_length]; exact hu
    have h1 := ihl _ _ _ hs hus (hw ▸ hl)
    have h2 := ihr _ _ _ hs hus (hw ▸ hr)
    simp only [Cov.kGradE, Cov.devBound]
    rw [dot_expand_select ad y u _ hu, dot_expand_select ad y u _ hu, dot_expand_select ad y (absL u) _ hau,
      select_absL,
      dot_zipWith_left _ (r.k (select ad x) (select ad y)) (l.k (select ad x) (select ad y))
        (by intro p q; ring) _ _ _
        (by rw [kGradE_length _ l _ _ hs (hw ▸ hl), kGradE_length _ r _ _ hs (hw ▸ hr)]),
      dot_zipWith_left _ (r.k (select ad x) (select ad y)) (l.k (select ad x) (select ad y))
        (by intro p q; ring) _ _ _
        (by rw [kGradE_length _ l _ _ hs (hw ▸ hl), kGradE_length _ r _ _ hs (hw ▸ hr)]),
      dot_zipWith_left _ |r.k (select ad x) (select ad y)| |l.k (select ad x) (select ad y)|
        (by intro p q; ring) _ _ _
        (by rw [devBound_length l _ _ hs (hw ▸ hl), devBound_length r _ _ hs (hw ▸ hr)])]
    set a1 := dot (l.kGradE distEps (select ad x) (select ad y)) (select ad u)
    set a0 := dot (l.kGradE 0 (select ad x) (select ad y)) (select ad u)
    set b1 := dot (r.kGradE distEps (select ad x) (select ad y)) (select ad u)
    set b0 := dot (r.kGradE 0 (select ad x) (select ad y)) (select ad u)
    set rk := r.k (select ad x) (select ad y)
    set lk := l.k (select ad x) (select ad y)
    have e : rk * a1 + lk * b1 - (rk * a0 + lk * b0) = rk * (a1 - a0) + lk * (b1 - b0) := by ring
    rw [e]
    have t1 : |rk * (a1 - a0)| ≤ |rk| * (1e-6 * dot (l.devBound (select ad x) (select ad y)) (absL (select ad u))) := by
      rw [abs_mul]; exact mul_le_mul_of_nonneg_left h1 (abs_nonneg _)
    have t2 : |lk * (b1 - b0)| ≤ |lk| * (1e-6 * dot (r.devBound (select ad x) (select ad y)) (absL (select ad u))) := by
      rw [abs_mul]; exact mul_le_mul_of_nonneg_left h2 (abs_nonneg _)
    calc |rk * (a1 - a0) + lk * (b1 - b0)| ≤ |rk * (a1 - a0)| + |lk * (b1 - b0)| := abs_add_le _ _
      _ ≤ _ := by linarith
  | mulC l c ad ih =>
    obtain ⟨is, hi, hl⟩ := wf_single hwf
    have hw := select_length_of_indices ad y hi
    have hs := select_length_eq ad x y hxy
    have hus := select_length_eq ad u y hu
    have hau : (absL u).length = y.length := by rw [absL_length]; exact hu
    have h1 := ih _ _ _ hs hus (hw ▸ hl)
    simp only [Cov.kGradE, Cov.devBound]
    rw [dot_expand_select ad y u _ hu, dot_expand_select ad y u _ hu, dot_expand_select ad y (absL u) _ hau,
      select_absL,
      dot_map_left (fun lg => lg * c) c (by intro gi; ring),
      dot_map_left (fun lg => lg * c) c (by intro gi; ring),
      dot_map_left (fun b => b * |c|) |c| (by intro gi; ring)]
    rw [← mul_sub, abs_mul]
    have := mul_le_mul_of_nonneg_left h1 (abs_nonneg c)
    linarith
  | pow l p ad ih =>
    obtain ⟨is, hi, hl⟩ := wf_single hwf
    have hw := select_length_of_indices ad y hi
    have hs := select_length_eq ad x y hxy
    have hus := select_length_eq ad u y hu
    have hau : (absL u).length = y.length := by rw [absL_length]; exact hu
    have h1 := ih _ _ _ hs hus (hw ▸ hl)
    simp only [Cov.kGradE, Cov.devBound, rpow_real]
    set C := if (¬ (0 < l.k (select ad x) (select ad y)) ∧ ¬ (l.k (select ad x) (select ad y) < 0)) ∧ p < 1
      then 0 else p * l.k (select ad x) (select ad y) ^ (p - 1) with hC
    have hmap : ∀ bg : ℝ, (if (¬ (0 < l.k (select ad x) (select ad y)) ∧ ¬ (l.k (select ad x) (select ad y) < 0)) ∧ p < 1
        then 0 else p * l.k (select ad x) (select ad y) ^ (p - 1) * bg) = C * bg := by
      intro bg; rw [hC]; split_ifs <;> ring
    rw [dot_expand_select ad y u _ hu, dot_expand_select ad y u _ hu, dot_expand_select ad y (absL u) _ hau,
      select_absL,
      dot_map_left _ C hmap,
      dot_map_left _ C hmap,
      dot_map_left (fun b => |C| * b) |C| (by intro gi; ring)]
    rw [← mul_sub, abs_mul]
    have := mul_le_mul_of_nonneg_left h1 (abs_nonneg C)
    linarith

theorem absL_basis (d j : Nat) : absL (basis d j) = basis d j := by
  simp only [absL, basis, List.map_map]
  apply List.map_congr_left
  intro i _
  by_cases h : i = j <;> simp [h]

/-- Entrywise form of `kGradE_close`. -/
theorem kGradE_close_entry (c : Cov ℝ) (x y : List ℝ) (j : Nat) (hxy : x.length = y.length)
    (hwf : c.WF y.length = true) :
    |(c.kGradE distEps x y).getD j 0 - (c.kGradE 0 x y).getD j 0| ≤ 1e-6 * (c.devBound x y).getD j 0 := by
  have h := kGradE_close c x y (basis y.length j) hxy (basis_length _ _) hwf
  rwa [absL_basis, dot_basis _ _ _ (kGradE_length _ c x y hxy hwf),
    dot_basis _ _ _ (kGradE_length _ c x y hxy hwf), dot_basis _ _ _ (devBound_length c x y hxy hwf)] at h

end Mellon
