/-
  MellonProofs.KernelLemmas — helper lemmas about `dot`, `distance`, the radial profiles.
-/
import MellonProofs.Real
import MellonModel.Kernel

namespace Mellon

@[simp] theorem lit2 : (2.0 : ℝ) = 2 := by norm_num
@[simp] theorem lit3 : (3.0 : ℝ) = 3 := by norm_num
@[simp] theorem lit5 : (5.0 : ℝ) = 5 := by norm_num
@[simp] theorem lit1 : (1.0 : ℝ) = 1 := by norm_num

theorem distEps_pos : 0 < (distEps : ℝ) := by unfold distEps; norm_num
theorem distEps_eq : (distEps : ℝ) = 1e-12 := rfl

/-! ### dot products -/

theorem dot_comm (x y : List ℝ) : dot x y = dot y x := by
  induction x generalizing y with
  | nil => cases y <;> simp [dot]
  | cons a as ih =>
    cases y with
    | nil => simp [dot]
    | cons b bs => simp [dot, ih bs, mul_comm]

theorem dot_self_nonneg (x : List ℝ) : 0 ≤ dot x x := by
  induction x with
  | nil => simp [dot]
  | cons a as ih => simp only [dot]; nlinarith [mul_self_nonneg a]

/-- `‖x − y‖²` for lists of equal length. -/
def sqdist : List ℝ → List ℝ → ℝ
  | a :: as, b :: bs => (a - b) ^ 2 + sqdist as bs
  | _, _ => 0

theorem sqdist_nonneg (x y : List ℝ) : 0 ≤ sqdist x y := by
  induction x generalizing y with
  | nil => cases y <;> simp [sqdist]
  | cons a as ih =>
    cases y with
    | nil => simp [sqdist]
    | cons b bs => simp only [sqdist]; nlinarith [ih bs, sq_nonneg (a - b)]

theorem sqdist_comm (x y : List ℝ) : sqdist x y = sqdist y x := by
  induction x generalizing y with
  | nil => cases y <;> simp [sqdist]
  | cons a as ih =>
    cases y with
    | nil => simp [sqdist]
    | cons b bs => simp only [sqdist, ih bs]; ring

theorem sqdist_self (x : List ℝ) : sqdist x x = 0 := by
  induction x with
  | nil => simp [sqdist]
  | cons a as ih => simp [sqdist, ih]

/-- The expanded form used by `util.distance` is the squared Euclidean distance. -/
theorem dot_expand (x y : List ℝ) (h : x.length = y.length) :
    dot x x - 2 * dot x y + dot y y = sqdist x y := by
  induction x generalizing y with
  | nil => cases y <;> simp_all [dot, sqdist]
  | cons a as ih =>
    cases y with
    | nil => simp at h
    | cons b bs =>
      have h' : as.length = bs.length := by simpa using h
      have := ih bs h'
      simp only [dot, sqdist]
      linear_combination this

/-- Without the length hypothesis the expanded form is still non-negative (Cauchy–Schwarz is not
    needed: the shorter list is a prefix problem).  We only need it for equal lengths. -/
theorem distance_eq (x y : List ℝ) (h : x.length = y.length) :
    distance x y = Real.sqrt (sqdist x y + distEps) := by
  unfold distance
  rw [sqrt_real, lit2, dot_expand x y h]
  congr 1
  exact max_eq_left (by have := sqdist_nonneg x y; have := distEps_pos; linarith)

theorem distance_symm (x y : List ℝ) : distance x y = distance y x := by
  unfold distance
  rw [dot_comm x y, lit2]
  congr 2
  ring

theorem distance_nonneg (x y : List ℝ) : 0 ≤ distance x y := by
  unfold distance; rw [sqrt_real]; exact Real.sqrt_nonneg _

theorem distance_pos (x y : List ℝ) (h : x.length = y.length) : 0 < distance x y := by
  rw [distance_eq x y h]
  exact Real.sqrt_pos.mpr (by have := sqdist_nonneg x y; have := distEps_pos; linarith)

theorem distance_self (x : List ℝ) : distance x x = Real.sqrt distEps := by
  rw [distance_eq x x rfl, sqdist_self, zero_add]

/-! ### radial profiles: values in (0, 1] -/

theorem matern32Profile_eq (ls dist : ℝ) :
    matern32Profile ls dist
      = (1 + Real.sqrt 3 * dist / ls) * Real.exp (-(Real.sqrt 3 * dist / ls)) := by
  simp [matern32Profile, add_comm]

theorem matern52Profile_eq (ls dist : ℝ) :
    matern52Profile ls dist
      = (1 + Real.sqrt 5 * dist / ls + 5 * dist ^ 2 / (3 * ls ^ 2))
          * Real.exp (-(Real.sqrt 5 * dist / ls)) := by
  simp only [matern52Profile, sqrt_real, exp_real, lit5, lit3]
  congr 1
  have h5 : Real.sqrt 5 * Real.sqrt 5 = 5 := Real.mul_self_sqrt (by norm_num)
  by_cases hls : ls = 0
  · subst hls; simp
  · field_simp
    nlinarith [h5]

theorem expquadProfile_eq (ls dist : ℝ) :
    expquadProfile ls dist = Real.exp (-(dist ^ 2 / (2 * ls ^ 2))) := by
  simp only [expquadProfile, exp_real, lit2]
  congr 1
  by_cases hls : ls = 0
  · subst hls; simp
  · field_simp

theorem exponentialProfile_eq (ls dist : ℝ) :
    exponentialProfile ls dist = Real.exp (-(dist / (2 * ls))) := by
  simp only [exponentialProfile, exp_real, lit2]
  congr 1
  by_cases hls : ls = 0
  · subst hls; simp
  · field_simp

theorem ratquadProfile_eq (alpha ls dist : ℝ) :
    ratquadProfile alpha ls dist = (1 + dist ^ 2 / (2 * alpha * ls ^ 2)) ^ (-alpha) := by
  simp only [ratquadProfile, rpow_real, lit2]
  congr 1
  by_cases hls : ls = 0
  · subst hls; simp
  · by_cases ha : alpha = 0
    · subst ha; simp
    · field_simp; ring

private theorem one_add_mul_exp_neg_le {r : ℝ} (hr : 0 ≤ r) : (1 + r) * Real.exp (-r) ≤ 1 := by
  have h1 : 1 + r ≤ Real.exp r := by linarith [Real.add_one_le_exp r]
  have hpos : 0 < Real.exp (-r) := Real.exp_pos _
  calc (1 + r) * Real.exp (-r) ≤ Real.exp r * Real.exp (-r) := by
        exact mul_le_mul_of_nonneg_right h1 (le_of_lt hpos)
    _ = 1 := by rw [← Real.exp_add]; simp

theorem matern32Profile_range {ls dist : ℝ} (hls : 0 < ls) (hd : 0 ≤ dist) :
    0 < matern32Profile ls dist ∧ matern32Profile ls dist ≤ 1 := by
  rw [matern32Profile_eq]
  have hr : 0 ≤ Real.sqrt 3 * dist / ls := by positivity
  exact ⟨by positivity, one_add_mul_exp_neg_le hr⟩

theorem matern52Profile_range {ls dist : ℝ} (hls : 0 < ls) (hd : 0 ≤ dist) :
    0 < matern52Profile ls dist ∧ matern52Profile ls dist ≤ 1 := by
  have hr : 0 ≤ Real.sqrt 5 * dist / ls := by positivity
  set r := Real.sqrt 5 * dist / ls with hrdef
  have hform : matern52Profile ls dist = (r + r * r / 3 + 1) * Real.exp (-r) := by
    simp [matern52Profile, hrdef]
  rw [hform]
  refine ⟨by positivity, ?_⟩
  have h1 : r + r * r / 3 + 1 ≤ Real.exp r := by
    have := Real.quadratic_le_exp_of_nonneg hr
    nlinarith [mul_self_nonneg r]
  have hpos : 0 < Real.exp (-r) := Real.exp_pos _
  calc (r + r * r / 3 + 1) * Real.exp (-r) ≤ Real.exp r * Real.exp (-r) :=
        mul_le_mul_of_nonneg_right h1 (le_of_lt hpos)
    _ = 1 := by rw [← Real.exp_add]; simp

theorem expquadProfile_range {ls dist : ℝ} (_hls : 0 < ls) (_hd : 0 ≤ dist) :
    0 < expquadProfile ls dist ∧ expquadProfile ls dist ≤ 1 := by
  rw [expquadProfile_eq]
  refine ⟨Real.exp_pos _, ?_⟩
  rw [Real.exp_le_one_iff]
  have : 0 ≤ dist ^ 2 / (2 * ls ^ 2) := by positivity
  linarith

theorem exponentialProfile_range {ls dist : ℝ} (hls : 0 < ls) (hd : 0 ≤ dist) :
    0 < exponentialProfile ls dist ∧ exponentialProfile ls dist ≤ 1 := by
  rw [exponentialProfile_eq]
  refine ⟨Real.exp_pos _, ?_⟩
  rw [Real.exp_le_one_iff]
  have : 0 ≤ dist / (2 * ls) := by positivity
  linarith

theorem ratquadProfile_range {alpha ls dist : ℝ} (ha : 0 < alpha) (hls : 0 < ls) (_hd : 0 ≤ dist) :
    0 < ratquadProfile alpha ls dist ∧ ratquadProfile alpha ls dist ≤ 1 := by
  rw [ratquadProfile_eq]
  have hb : 1 ≤ 1 + dist ^ 2 / (2 * alpha * ls ^ 2) := by
    have : 0 ≤ dist ^ 2 / (2 * alpha * ls ^ 2) := by positivity
    linarith
  refine ⟨Real.rpow_pos_of_pos (by linarith) _, ?_⟩
  exact Real.rpow_le_one_of_one_le_of_nonpos hb (by linarith)

/-- Every kernel expression is symmetric in its two arguments. -/
theorem cov_k_symm (c : Cov ℝ) (x y : List ℝ) : c.k x y = c.k y x := by
  induction c generalizing x y with
  | matern32 ls ad => simp only [Cov.k, distance_symm]
  | matern52 ls ad => simp only [Cov.k, distance_symm]
  | expquad ls ad => simp only [Cov.k, distance_symm]
  | exponential ls ad => simp only [Cov.k, distance_symm]
  | ratquad a ls ad => simp only [Cov.k, distance_symm]
  | linear ls ad => simp only [Cov.k, dot_comm]
  | add l r ad ihl ihr => simp only [Cov.k]; rw [ihl, ihr]
  | addC l c ad ih => simp only [Cov.k]; rw [ih]
  | mul l r ad ihl ihr => simp only [Cov.k]; rw [ihl, ihr]
  | mulC l c ad ih => simp only [Cov.k]; rw [ih]
  | pow l p ad ih => simp only [Cov.k]; rw [ih]

end Mellon
