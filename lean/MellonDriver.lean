import MellonDriver.Core
import MellonDriver.Kernel
import MellonDriver.Cond
import MellonDriver.Decomp
