import MellonDriver.Core
import MellonDriver.Kernel
import MellonDriver.Cond
import MellonDriver.Decomp
import MellonDriver.Rank
import MellonDriver.Params
