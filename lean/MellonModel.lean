import MellonModel.Scalar
import MellonModel.Linalg
import MellonModel.Kernel
import MellonModel.Conditional
import MellonModel.Decomp
