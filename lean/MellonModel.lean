import MellonModel.Scalar
import MellonModel.Linalg
import MellonModel.Kernel
import MellonModel.Conditional
import MellonModel.Decomp
import MellonModel.Rank
import MellonModel.Params
