import MellonModel.Scalar
import MellonModel.Linalg
