/-
  Line-protocol driver for the executable (Float) instantiation of the model.
  One request per input line, one reply per output line.  Floats travel as the decimal value of
  their IEEE-754 bit pattern (exact in both directions).
-/
import MellonModel
open Mellon

/-! ### token reader -/

structure Rd where
  toks : Array String
  pos : Nat := 0

abbrev P := StateT Rd (Except String)

def tok : P String := do
  let s ← get
  if h : s.pos < s.toks.size then
    set { s with pos := s.pos + 1 }
    return s.toks[s.pos]
  else throw "eof"

def pNat : P Nat := do
  let t ← tok
  match t.toNat? with
  | some n => return n
  | none => throw s!"nat? {t}"

def pInt : P Int := do
  let t ← tok
  match t.toInt? with
  | some n => return n
  | none => throw s!"int? {t}"

def pOptInt : P (Option Int) := do
  let t ← tok
  if t == "N" then return none
  match t.toInt? with
  | some n => return some n
  | none => throw s!"optint? {t}"

def pFlt : P Float := do
  let n ← pNat
  return Float.ofBits n.toUInt64

def pBool : P Bool := do
  let t ← tok
  if t == "T" then return true else if t == "F" then return false else throw s!"bool? {t}"

def pVec (n : Nat) : P (Vector Float n) := do
  let mut a : Array Float := Array.mkEmpty n
  for _ in [0:n] do
    a := a.push (← pFlt)
  if h : a.size = n then return ⟨a, h⟩ else throw "vec size"

def pMat (n m : Nat) : P (Mat Float n m) := do
  let mut a : Array (Vector Float m) := Array.mkEmpty n
  for _ in [0:n] do
    a := a.push (← pVec m)
  if h : a.size = n then return ⟨a, h⟩ else throw "mat size"

def pList {β : Type} (p : P β) : P (List β) := do
  let k ← pNat
  let mut l : List β := []
  for _ in [0:k] do
    l := (← p) :: l
  return l.reverse

def pAD : P ActiveDims := do
  let t ← tok
  match t with
  | "AN" => return .none
  | "AI" => return .idx (← pInt)
  | "AL" => return .list (← pList pInt)
  | "AM" => return .mask (← pList pBool)
  | "AS" => return .slice (← pOptInt) (← pOptInt) (← pOptInt)
  | _ => throw s!"ad? {t}"

partial def pCov : P (Cov Float) := do
  let t ← tok
  match t with
  | "M32" => return .matern32 (← pFlt) (← pAD)
  | "M52" => return .matern52 (← pFlt) (← pAD)
  | "EQ" => return .expquad (← pFlt) (← pAD)
  | "EX" => return .exponential (← pFlt) (← pAD)
  | "RQ" => return .ratquad (← pFlt) (← pFlt) (← pAD)
  | "LIN" => return .linear (← pFlt) (← pAD)
  | "ADD" => return .add (← pCov) (← pCov) (← pAD)
  | "ADDC" => return .addC (← pCov) (← pFlt) (← pAD)
  | "MUL" => return .mul (← pCov) (← pCov) (← pAD)
  | "MULC" => return .mulC (← pCov) (← pFlt) (← pAD)
  | "POW" => return .pow (← pCov) (← pFlt) (← pAD)
  | _ => throw s!"cov? {t}"

/-! ### output helpers -/

def fb (x : Float) : String := toString x.toBits.toNat

def outVec {n : Nat} (v : Vector Float n) : String :=
  " ".intercalate (v.toList.map fb)

def outMat {n m : Nat} (A : Mat Float n m) : String :=
  " ".intercalate (A.toList.map outVec)

def errName : CondErr → String
  | .noUncertaintyInput => "ValueError:noUncertaintyInput"
  | .bothSigmaAndFactor => "ValueError:bothSigmaAndFactor"
  | .notPosDef => "ValueError:notPosDef"
  | .noCovariance => "ValueError:noCovariance"
  | .noUncertainty => "ValueError:noUncertainty"
  | .internal => "Internal"

def pSigma (n : Nat) : P (Sigma Float n) := do
  let t ← tok
  match t with
  | "SN" => return .none
  | "SS" => return .scalar (← pFlt)
  | "SV" => return .vec (← pVec n)
  | _ => throw s!"sigma? {t}"

def pOptMat (n m : Nat) : P (Option (Mat Float n m)) := do
  let t ← tok
  match t with
  | "N" => return none
  | "Y" => return some (← pMat n m)
  | _ => throw s!"optmat? {t}"

def pOptAny : P (Option (AnyMat Float)) := do
  let t ← tok
  match t with
  | "N" => return none
  | "Y" =>
    let r ← pNat
    let c ← pNat
    return some ⟨r, c, ← pMat r c⟩
  | _ => throw s!"optany? {t}"

/-- Everything the harness asks of a built predictor state, for query matrix `Xq`. -/
def evalState {m d c q : Nat} (s : CondState Float m d c) (Xq : Mat Float q d) : String :=
  let mean := outMat (s.mean Xq)
  let part (name : String) (r : Except CondErr String) : String :=
    match r with
    | .ok v => s!"{name} ok {v}"
    | .error e => s!"{name} {errName e}"
  let w := outMat s.weights
  s!"ok | weights {w} | mean {mean} | " ++
    part "var" ((s.variance Xq).map outVec) ++ " | " ++
    part "cov" ((s.covariance Xq).map outMat) ++ " | " ++
    part "mvar" ((s.meanVariance Xq).map outVec) ++ " | " ++
    part "mcov" ((s.meanCovariance Xq).map outMat) ++ " | " ++
    part "unc" ((s.uncertainty Xq).map outMat) ++ " | " ++
    part "uncd" ((s.uncertaintyDiag Xq).map outVec)

def handle : P String := do
  let op ← tok
  match op with
  | "ping" => return "pong"
  | "cov" =>
    let c ← pCov
    let n ← pNat; let d ← pNat
    let X ← pMat n d
    let m ← pNat
    let Y ← pMat m d
    if !c.WF d then return "err wf"
    return "ok " ++ outMat (gram c X Y)
  | "covdiag" =>
    let c ← pCov
    let n ← pNat; let d ← pNat
    let X ← pMat n d
    if !c.WF d then return "err wf"
    return "ok " ++ outVec (gramDiag c X)
  | "kgrad" =>
    let c ← pCov
    let n ← pNat; let d ← pNat
    let X ← pMat n d
    let m ← pNat
    let Y ← pMat m d
    if !c.WF d then return "err wf"
    let rows := (List.range n).map fun i => (List.range m).map fun j =>
      " ".intercalate ((c.kGrad (X.row i) (Y.row j)).map fb)
    return "ok " ++ " ".intercalate (rows.map (" ".intercalate ·))
  | "dist" =>
    let n ← pNat; let d ← pNat
    let X ← pMat n d
    let m ← pNat
    let Y ← pMat m d
    let D : Mat Float n m := Mat.ofFn fun i j => distance (X.row i) (Y.row j)
    return "ok " ++ outMat D
  | "chol" =>
    let n ← pNat
    let A ← pMat n n
    match chol? A with
    | some L => return "ok " ++ outMat L
    | none => return "notpd"
  | "fullcond" =>
    let c ← pCov
    let n ← pNat; let d ← pNat
    let X ← pMat n d
    let cc ← pNat
    let Y ← pMat n cc
    let mu ← pFlt
    let Lg ← pOptMat n n
    let sigma ← pSigma n
    let jit ← pFlt
    let ycf ← pOptAny
    let yIsMean ← pBool
    let withUnc ← pBool
    let q ← pNat
    let Xq ← pMat q d
    if !c.WF d then return "err wf"
    match fullCondInit c X Y mu Lg sigma jit ycf yIsMean withUnc with
    | .error e => return errName e
    | .ok s => return evalState s Xq
  | "lmcond" =>
    let c ← pCov
    let n ← pNat; let d ← pNat
    let X ← pMat n d
    let m ← pNat
    let Xu ← pMat m d
    let cc ← pNat
    let Y ← pMat n cc
    let mu ← pFlt
    let sigma ← pSigma m
    let jit ← pFlt
    let ycf ← pOptAny
    let yIsMean ← pBool
    let withUnc ← pBool
    let q ← pNat
    let Xq ← pMat q d
    if !c.WF d then return "err wf"
    match lmCondInit c X Xu Y mu sigma jit ycf yIsMean withUnc with
    | .error e => return errName e
    | .ok s => return evalState s Xq
  | "lmcholcond" =>
    let c ← pCov
    let m ← pNat; let d ← pNat
    let Xu ← pMat m d
    let cc ← pNat
    let Z ← pMat m cc
    let mu ← pFlt
    let nObs ← pNat
    let Lg ← pOptMat m m
    let sigma ← pSigma m
    let jit ← pFlt
    let yIsMean ← pBool
    let withUnc ← pBool
    let q ← pNat
    let Xq ← pMat q d
    if !c.WF d then return "err wf"
    match lmCholCondInit c Xu Z mu nObs Lg sigma jit yIsMean withUnc with
    | .error e => return errName e
    | .ok s => return evalState s Xq
  | _ => throw s!"unknown op {op}"

def handleLine (line : String) : String :=
  let toks := (line.splitOn " ").filter (· ≠ "") |>.toArray
  match (handle.run { toks := toks }) with
  | .ok (r, _) => r
  | .error e => s!"bad-op {e}"

partial def loop (hin hout : IO.FS.Stream) : IO Unit := do
  let line ← hin.getLine
  if line.isEmpty then return ()
  let line := line.trimRight
  hout.putStrLn (handleLine line)
  hout.flush
  loop hin hout

def main : IO Unit := do
  loop (← IO.getStdin) (← IO.getStdout)
