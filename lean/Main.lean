/-
  Line-protocol driver for the executable (Float) instantiation of the model.
  One request per input line, one reply per output line.  Handlers live in MellonDriver/*.
-/
import MellonDriver.Core
import MellonDriver.Kernel
import MellonDriver.Cond
import MellonDriver.Decomp
import MellonDriver.Params
import MellonDriver.Rank
import MellonDriver.Inference
import MellonDriver.Optimize
import MellonDriver.Serial
import MellonDriver.Persist
import MellonDriver.TimeArgs
import MellonDriver.TimeNN
import MellonDriver.Validate
import MellonDriver.Staged
import MellonDriver.Deriv
open Mellon Drv

/-- All handlers, tried in order. -/
def handlers : List Handler := [handleKernel, handleCond, handleDecomp, handleRank, handleParams, handleInference, handleOptimize, handleSerial, handlePersist, handleTimeArgs, handleTimeNN, handleValidate, handleStaged, handleDeriv]

def handle : P String := do
  let op ← tok
  if op == "ping" then return "pong"
  match handlers.findSome? (fun h => h op) with
  | some p => p
  | none => throw s!"unknown op {op}"

def handleLine (line : String) : String :=
  let toks := (line.splitOn " ").filter (· ≠ "") |>.toArray
  match (handle.run { toks := toks }) with
  | .ok (r, _) => r
  | .error e => s!"bad-op {e}"

partial def loop (hin hout : IO.FS.Stream) : IO Unit := do
  let line ← hin.getLine
  if line.isEmpty then return ()
  hout.putStrLn (handleLine (line.trimAsciiEnd.toString))
  hout.flush
  loop hin hout

def main : IO Unit := do
  loop (← IO.getStdin) (← IO.getStdout)
