/-
  MellonDriver.Inference — ops of property C03:
    c03loss n m <r:n> <D> mu <L:n*m> k <z:m>              → ok loss
    c03nnll n <r:n> <D> <ld:n>                            → ok loglik
    c03mle  n <r:n> <D>                                   → ok mle[n]
    c03mu   n <r:n> <D>                                   → ok mu
    c03ls   n <r:n> lsFactor                              → ok compute_ls  compute_ls*ls_factor
    c03init n m <r:n> <D> mu <L:n*m>                      → ok z0[m] | Internal:chol
    c03ridge n m <L:n*m> <t:n>                            → ok z0[m] | Internal:chol
    c03nn   n d <X:n*d>                                   → ok nn[n] | ValueError:k>n
    c03knn  n d k <X:n*d>                                 → ok dist[n*k] | ValueError:k>n
    c03dimloss n kk m <dist:n*kk> muDim muDens <L:n*m> k <z:2*m> → ok loss
    c03pois n kk <dist:n*kk> <dims:n> <ld:n>              → ok loglik
    c03diminit n m <r:n> <D> muDim muDens <L:n*m>         → ok z0[2*m] | Internal:chol
    c03d    ndim <shape…>                                 → ok d | ValueError:d>50
  <D> is `S d` (scalar, broadcast) or `C d₀ … dₙ₋₁` (per cell).
-/
import MellonDriver.Core
import MellonModel.Inference
open Mellon

namespace Drv

def pDim (n : Nat) : P (DimArg Float n) := do
  let t ← tok
  match t with
  | "S" => return .scalar (← pFlt)
  | "C" => return .cells (← pVec n)
  | _ => throw s!"dim? {t}"

def outList (l : List Float) : String := " ".intercalate (l.map fb)

def handleInference : Handler := fun op =>
  match op with
  | "c03loss" => some do
    let n ← pNat; let m ← pNat
    let r ← pVec n; let d ← pDim n; let mu ← pFlt
    let L ← pMat n m; let k ← pNat; let z ← pVec m
    return "ok " ++ fb (lossFunc r d mu L k z)
  | "c03nnll" => some do
    let n ← pNat
    let r ← pVec n; let d ← pDim n; let ld ← pVec n
    return "ok " ++ fb (nnLoglik r d ld)
  | "c03mle" => some do
    let n ← pNat
    let r ← pVec n; let d ← pDim n
    return "ok " ++ outVec (mleVec r d)
  | "c03mu" => some do
    let n ← pNat
    let r ← pVec n; let d ← pDim n
    return "ok " ++ fb (computeMu r d)
  | "c03ls" => some do
    let n ← pNat
    let r ← pVec n; let f ← pFlt
    return "ok " ++ fb (computeLs r) ++ " " ++ fb (estimatorLs r f)
  | "c03init" => some do
    let n ← pNat; let m ← pNat
    let r ← pVec n; let d ← pDim n; let mu ← pFlt
    let L ← pMat n m
    match computeInitialValue r d mu L with
    | some z => return "ok " ++ outVec z
    | none => return "Internal:chol"
  | "c03ridge" => some do
    let n ← pNat; let m ← pNat
    let L ← pMat n m; let t ← pVec n
    match ridgeInit L t with
    | some z => return "ok " ++ outVec z
    | none => return "Internal:chol"
  | "c03nn" => some do
    let n ← pNat; let d ← pNat
    let X ← pMat n d
    if n ≤ 1 then return "ValueError:k>n"
    return "ok " ++ outList ((List.range n).map fun i => nnDistance X i)
  | "c03knn" => some do
    let n ← pNat; let d ← pNat; let k ← pNat
    let X ← pMat n d
    match computeDistances? X k with
    | some rows => return "ok " ++ " ".intercalate (rows.map outList)
    | none => return "ValueError:k>n"
  | "c03dimloss" => some do
    let n ← pNat; let kk ← pNat; let m ← pNat
    let dist ← pMat n kk; let muDim ← pFlt; let muDens ← pFlt
    let L ← pMat n m; let k ← pNat; let z ← pMat 2 m
    return "ok " ++ fb (dimLossFunc dist muDim muDens L k z)
  | "c03pois" => some do
    let n ← pNat; let kk ← pNat
    let dist ← pMat n kk; let dims ← pVec n; let ld ← pVec n
    return "ok " ++ fb (poissonLoglik dist dims ld)
  | "c03diminit" => some do
    let n ← pNat; let m ← pNat
    let r ← pVec n; let d ← pDim n; let muDim ← pFlt; let muDens ← pFlt
    let L ← pMat n m
    match computeInitialDims r d muDim muDens L with
    | some (a, b) => return "ok " ++ outVec a ++ " " ++ outVec b
    | none => return "Internal:chol"
  | "c03d" => some do
    let shape ← pList pNat
    match estimatorD shape with
    | .ok d => return s!"ok {d}"
    | .error e => return e
  | _ => none

end Drv
