/-
  MellonDriver.Validate — ops of property C20:
    xfrt, vnn, vfoi, vpf, vfl, vpi, vk, vbool, vnorm, vstr, vfoin, varr, v1d, vdist, ensure2d, predmean,
    predcov, gpfs, ctor, mle.
  Python values travel in a prefix token grammar (see `pPy`); floats as IEEE-754 bit patterns.
-/
import MellonDriver.Core
import MellonModel.Validate
open Mellon Mellon.Validate

namespace Drv.Vld

/-! ### exact float64 <-> XF -/

def xfOfBits (b : UInt64) : XF :=
  let n := b.toNat
  let neg := n / 2 ^ 63 == 1
  let e : Nat := (n / 2 ^ 52) % 2048
  let m : Nat := n % 2 ^ 52
  if e == 2047 then
    if m == 0 then (if neg then .ninf else .pinf) else .nan
  else
    let mant : Nat := if e == 0 then m else 2 ^ 52 + m
    let ex : Int := (if e == 0 then 1 else (e : Int)) - 1075
    let sm : Int := if neg then -(mant : Int) else (mant : Int)
    if ex ≥ 0 then .fin (mkRat (sm * 2 ^ ex.toNat) 1) else .fin (mkRat sm (2 ^ (-ex).toNat))

/-- Bit pattern of an `XF` that is exactly representable (everything the model outputs is). -/
def xfToBits (x : XF) : Nat :=
  match x with
  | .pinf => 2047 * 2 ^ 52
  | .ninf => 2 ^ 63 + 2047 * 2 ^ 52
  | .nan => 2047 * 2 ^ 52 + 2 ^ 51
  | .fin q =>
    if q.num == 0 then 0
    else
      let sign : Nat := if q.num < 0 then 2 ^ 63 else 0
      let num := q.num.natAbs
      let k := q.den.log2
      let l := num.log2
      let e : Int := (l : Int) - (k : Int)
      if e ≥ -1022 then
        let mant := if l ≤ 52 then num * 2 ^ (52 - l) else num / 2 ^ (l - 52)
        sign + (e + 1023).toNat * 2 ^ 52 + (mant - 2 ^ 52)
      else
        let frac := if k ≤ 1074 then num * 2 ^ (1074 - k) else num / 2 ^ (k - 1074)
        sign + frac

def pXF : P XF := do
  let n ← pNat
  return xfOfBits n.toUInt64

def outXF (x : XF) : String := toString (xfToBits x)

/-! ### Python values -/

def pStrV : P String := do
  let k ← pNat
  let mut cs : List Char := []
  for _ in [0:k] do
    cs := Char.ofNat (← pNat) :: cs
  return String.ofList cs.reverse

def pOptXF : P (Option XF) := do
  let t ← tok
  match t with
  | "N" => return none
  | "Y" => return some (← pXF)
  | _ => throw s!"optxf? {t}"

def pLib : P Lib := do
  let t ← tok
  match t with
  | "np" => return .np
  | "jax" => return .jax
  | _ => throw s!"lib? {t}"

def pXFs (k : Nat) : P (List XF) := do
  let mut l : List XF := []
  for _ in [0:k] do
    l := (← pXF) :: l
  return l.reverse

partial def pPy : P PyVal := do
  let t ← tok
  match t with
  | "N" => return .none
  | "B" => return .bool (← pBool)
  | "I" => return .int (← pInt)
  | "F" => return .float (← pXF)
  | "S" =>
    let s ← pStrV
    return .str s (← pOptXF)
  | "NI" =>
    -- NumPy / JAX integer scalar: `NI s <int>` numpy.integer instance, `NI np|jax <int>` 0-d integer array
    let f ← tok
    let form : IntForm ← (match f with
      | "s" => pure IntForm.npScalar
      | "np" => pure (IntForm.arr0 .np)
      | "jax" => pure (IntForm.arr0 .jax)
      | _ => throw s!"intform? {f}")
    return .npint form (← pInt)
  | "A" =>
    let lib ← pLib
    let shape ← pList pNat
    let data ← pXFs (shape.foldl (· * ·) 1)
    return .arr lib shape data
  | "SP" =>
    let r ← pNat
    let c ← pNat
    return .sparse r c (← pXFs (r * c))
  | "L" =>
    let k ← pNat
    let mut l : List PyVal := []
    for _ in [0:k] do
      l := (← pPy) :: l
    return .list l.reverse
  | "E" => return .enum (← pStrV)
  | "O" => return .obj
  | _ => throw s!"pyval? {t}"

def outStr (s : String) : String :=
  " ".intercalate (toString s.length :: s.toList.map fun c => toString c.toNat)

partial def outPy : PyVal → String
  | .none => "N"
  | .bool b => if b then "B T" else "B F"
  | .int i => s!"I {i}"
  | .float x => "F " ++ outXF x
  | .str s n => "S " ++ outStr s ++ (match n with | none => " N" | some x => " Y " ++ outXF x)
  | .npint f i => s!"NI {match f with | .npScalar => "s" | .arr0 .np => "np" | .arr0 .jax => "jax"} {i}"
  | .arr lib shape data =>
    " ".intercalate (["A", (match lib with | .np => "np" | .jax => "jax"), toString shape.length]
      ++ shape.map toString ++ data.map outXF)
  | .sparse r c data => " ".intercalate (["SP", toString r, toString c] ++ data.map outXF)
  | .list xs => " ".intercalate (["L", toString xs.length] ++ xs.map outPy)
  | .enum t => "E " ++ outStr t
  | .obj => "O"

def outOutcome {α : Type} (f : α → String) : Outcome α → String
  | .ok v => "ok " ++ f v
  | .valueError => "ValueError"
  | .typeError => "TypeError"
  | .internal => "Internal"

def outShape (s : List Nat) : String := " ".intercalate (toString s.length :: s.map toString)

def pOptNats : P (Option (List Nat)) := do
  let t ← tok
  match t with
  | "N" => return none
  | "Y" => return some (← pList pNat)
  | _ => throw s!"optnats? {t}"

def pCtorArgs : P CtorArgs := do
  let nLandmarks ← pPy
  let rank ← pPy
  let jitter ← pPy
  let landmarks ← pPy
  let gpType ← pPy
  let nnDistances ← pPy
  let mu ← pPy
  let ls ← pPy
  let lsFactor ← pPy
  let lp ← pPy
  let l ← pPy
  let d ← pPy
  let initialValue ← pPy
  let optimizer ← pPy
  let nIter ← pPy
  let initLearnRate ← pPy
  let pwu ← pPy
  let jit ← pPy
  let checkRank ← pPy
  let dMethod ← pPy
  return { nLandmarks, rank, jitter, landmarks, gpType, nnDistances, mu, ls, lsFactor, lp, l, d,
           initialValue, optimizer, nIter, initLearnRate, predictorWithUncertainty := pwu, jit,
           checkRank, dMethod }

def outCtorArgs (a : CtorArgs) : String :=
  " ".intercalate ([a.nLandmarks, a.rank, a.jitter, a.landmarks, a.gpType, a.nnDistances, a.mu, a.ls,
    a.lsFactor, a.lp, a.l, a.d, a.initialValue, a.optimizer, a.nIter, a.initLearnRate,
    a.predictorWithUncertainty, a.jit, a.checkRank, a.dMethod].map outPy)

def handleValidate : Handler := fun op =>
  match op with
  | "xfrt" => some do
    return "ok " ++ outXF (← pXF)
  | "vnn" => some do
    let optional ← pBool
    let t ← tok
    let d ← (match t with
      | "N" => pure none
      | "Y" => do let k ← pNat; pure (some (← pXFs k))
      | _ => throw s!"vnn? {t}")
    return outOutcome (fun r => match r with
      | none => "N"
      | some xs => " ".intercalate ("Y" :: toString xs.length :: xs.map outXF)) (validateNN d optional)
  | "vfoi" => some do
    let o ← pBool
    return outOutcome outPy (validateFloatOrInt (← pPy) o)
  | "vpf" => some do
    let o ← pBool
    let ai ← pBool
    return outOutcome outPy (validatePositiveFloat (← pPy) o ai)
  | "vfl" => some do
    let o ← pBool
    let ai ← pBool
    return outOutcome outPy (validateFloat (← pPy) o ai)
  | "vk" => some do
    return outOutcome outPy (validateK (← pPy))
  | "vnorm" => some do
    -- N | B T/F | NB T/F (NumPy / JAX boolean scalar) | D | S | Z <len> | X (other scalar)
    let t ← tok
    let v : NormVal ← (match t with
      | "N" => pure NormVal.none
      | "B" => do pure (NormVal.bool (← pBool))
      | "NB" => do pure (NormVal.npbool (← pBool))
      | "D" => pure NormVal.dict
      | "S" => pure NormVal.str
      | "Z" => do pure (NormVal.sized (← pNat))
      | "X" => pure NormVal.scalar
      | _ => throw s!"normval? {t}")
    return outOutcome (fun r => match r with
      | .none => "N"
      | .bool b => if b then "B T" else "B F"
      | .npbool b => if b then "NB T" else "NB F"
      | .dict => "D"
      | .str => "S"
      | .sized n => s!"Z {n}"
      | .scalar => "X") (validateNormalize v)
  | "vdist" => some do
    -- k-NN matrix: <rows> <cols> <rows*cols floats>
    let r ← pNat
    let c ← pNat
    let mut rows : List (List XF) := []
    for _ in [0:r] do
      rows := (← pXFs c) :: rows
    return outOutcome (fun ys => " ".intercalate (toString ys.length :: ys.map outXF)) (sanitiseDistances rows.reverse)
  | "vpi" => some do
    let o ← pBool
    return outOutcome outPy (validatePositiveInt (← pPy) o)
  | "vbool" => some do
    let o ← pBool
    return outOutcome outPy (validateBool (← pPy) o)
  | "vstr" => some do
    let choices ← pList pStrV
    return outOutcome outPy (validateString (← pPy) choices)
  | "vfoin" => some do
    let o ← pBool
    let pos ← pBool
    let ai ← pBool
    return outOutcome outPy (validateFloatOrIterable (← pPy) o pos ai)
  | "varr" => some do
    let o ← pBool
    let nd ← pOptNats
    return outOutcome outPy (validateArray (← pPy) o nd)
  | "v1d" => some do
    return outOutcome outPy (validate1d (← pPy))
  | "ensure2d" => some do
    let s ← pList pNat
    return "ok " ++ outShape (ensure2d s)
  | "predmean" => some do
    let x ← pPy
    let nz ← pPy
    let nf ← pNat
    let miss ← pBool
    return outOutcome outShape (predictorMeanInput x nz nf miss)
  | "predcov" => some do
    let x ← pPy
    let nf ← pNat
    return outOutcome outShape (predictorCovInput x nf)
  | "gpfs" => some do
    return outOutcome outPy (gpFromString (← pPy))
  | "ctor" => some do
    return outOutcome outCtorArgs (densityCtor (← pCtorArgs))
  | "mle" => some do
    let r ← pFlt
    let d ← pFlt
    return "ok " ++ fb (mle r d)
  | _ => none

end Drv.Vld

namespace Drv
export Drv.Vld (handleValidate)
end Drv
