/-
  MellonDriver.Persist — ops `predstate`, `predrtjson`, `predrtdict`, `predcopy`, `predfromdict`,
  `wsel`, `rsel`, `fileio`, `copyshare`, `verlt`, `upname`.

  A predictor travels as  `P <class-name hex> <k> (<attr-name hex> <pyval>)* <cov>`.
-/
import MellonDriver.Serial
import MellonModel.Persist
open Mellon

namespace Drv

def pPred : P Pred := do
  let t ← tok
  if t != "P" then throw s!"pred? {t}"
  let cn ← pStr
  match PredClass.ofName? cn with
  | none => throw s!"predclass? {cn}"
  | some cls =>
    let attrs ← pList (do let k ← pStr; let v ← pPy; return (k, v))
    let cov ← pCovP
    return ⟨cls, attrs, cov⟩

def outPred (p : Pred) : String :=
  " ".intercalate (["P", hexOfString p.cls.name, toString p.attrs.length]
    ++ p.attrs.map (fun (k, v) => hexOfString k ++ " " ++ outPy v) ++ [outCovP p.cov])

def outPredM (r : PyM Pred) : String :=
  match r with
  | .ok p => "ok " ++ outPred p
  | .error e => outErr e

def pOptStr : P (Option String) := do
  let t ← tok
  match t with
  | "N" => return none
  | "S" => return some (← pStr)
  | _ => throw s!"optstr? {t}"

def fmtTok : Fmt → String
  | .plain => "plain"
  | .gzip => "gzip"
  | .bz2 => "bz2"

/-- A minimal well-formed predictor for the file-selection ops (content is irrelevant there). -/
def tinyPred : Pred :=
  ⟨.full, [("_state_variables", .set []), ("n_input_features", .int 1), ("n_obs", .int 1)],
   .matern32 (.float 0x3ff0000000000000) .none⟩

def tinyMeta : Meta := ⟨"1.4.3", "D", "3"⟩

/-- Fresh ids for every mutable container of a value (arrays taken as NumPy arrays). -/
partial def labelPy : PyVal → Nat → LVal × Nat
  | .arr dt sh d, n => (.nparr n dt sh d, n + 1)
  | .dict kvs, n =>
    let (kvs', n') := kvs.foldl (fun (acc : List (String × LVal) × Nat) (kv : String × PyVal) =>
      let (v', m) := labelPy kv.2 acc.2
      (acc.1 ++ [(kv.1, v')], m)) ([], n + 1)
    (.dict n kvs', n')
  | .set xs, n => (.set n xs, n + 1)
  | .list xs, n =>
    let (xs', n') := xs.foldl (fun (acc : List LVal × Nat) (x : PyVal) =>
      let (x', m) := labelPy x acc.2
      (acc.1 ++ [x'], m)) ([], n + 1)
    (.list n xs', n')
  | v, n => (.atom v, n)

def handlePersist : Handler := fun op =>
  match op with
  | "predstate" => some do
    let m ← pMeta
    return outPyM (predGetState m (← pPred))
  | "predrtjson" => some do
    let m ← pMeta
    return outPredM (predRoundTripJson m (← pPred))
  | "predrtdict" => some do
    let m ← pMeta
    return outPredM (predRoundTripDict m (← pPred))
  | "predcopy" => some do
    let m ← pMeta
    return outPredM (predCopy m (← pPred))
  | "predfromdict" => some do return outPredM (predFromDict (← pPy))
  | "wsel" => some do
    let name ← pStr
    let isPath ← pBool
    let c ← pOptStr
    match writeSelect name.toList isPath c with
    | .ok (n, f) => return s!"ok {hexOfString (String.ofList n)} {fmtTok f}"
    | .error e => return outErr e
  | "rsel" => some do
    let name ← pStr
    let c ← pOptStr
    return "ok " ++ fmtTok (readSelect name.toList c)
  | "fileio" => some do
    let name ← pStr
    let isPath ← pBool
    let wc ← pOptStr
    let rname ← pStr
    let rc ← pOptStr
    match predToJsonFile idCodec tinyMeta [] tinyPred name.toList isPath wc with
    | .error e => return "write " ++ outErr e
    | .ok (fs, written) =>
      match predFromJsonFile idCodec fs rname.toList rc with
      | .ok _ => return s!"ok {hexOfString (String.ofList written)}"
      | .error e => return s!"read {outErr e} {hexOfString (String.ofList written)}"
  | "copyshare" => some do
    let v ← pPy
    let (lv, n) := labelPy v 0
    let (cv, _) := lv.copy n
    let shared := cv.ids.any fun i => lv.ids.contains i
    return s!"ok {bT shared}"
  | "verlt" => some do
    match versionLt14 (← pStr) with
    | some b => return "ok " ++ bT b
    | none => return "Unmodelled:version"
  | "upname" => some do return "ok " ++ hexOfString (upgradeClassName (← pStr))
  | _ => none

end Drv
