/-
  MellonDriver.Deriv — ops `pmean`, `pgrad`, `ptime`: the call value of a GP-mean predictor and the
  closed-form derivatives of it (model of `p(x)`, `p.gradient(x)`, `p.time_derivative(x, t)`,
  time-aware `p.gradient(x, t)`).

    pmean K <cov> mu n d <pts n×d> <w n> q <X q×d>      → q values of the call operator
    pgrad K <cov> mu n d <pts n×d> <w n> q <X q×d>      → q×d gradient rows        (K = P | E | T)
    ptime   <cov> mu n d <pts n×d> <w n> q <X q×(d-1)> <t q>
                                                       → q time derivatives, then q×(d-1) state gradients
-/
import MellonDriver.Kernel
import MellonModel.Deriv
open Mellon

namespace Drv

def pKind : P PredKind := do
  let t ← tok
  match t with
  | "P" => return .plain
  | "E" => return .exp
  | "T" => return .time
  | _ => throw s!"kind? {t}"

def rowsOf {n d : Nat} (X : Mat Float n d) : List (List Float) :=
  (List.range n).map fun i => X.row i

def pGPMean : P (GPMean Float × Nat) := do
  let c ← pCov
  let mu ← pFlt
  let n ← pNat; let d ← pNat
  let pts ← pMat n d
  let w ← pVec n
  return ({ cov := c, mu := mu, pts := rowsOf pts, weights := w.toList }, d)

def outRows (rows : List (List Float)) : String :=
  " ".intercalate (rows.map fun r => " ".intercalate (r.map fb))

def handleDeriv : Handler := fun op =>
  match op with
  | "pmean" => some do
    let kind ← pKind
    let (p, d) ← pGPMean
    let q ← pNat
    let X ← pMat q d
    if !p.cov.WF d then return "err wf"
    return "ok " ++ " ".intercalate ((rowsOf X).map fun x => fb (callOf kind p.mean x))
  | "pgrad" => some do
    let kind ← pKind
    let (p, d) ← pGPMean
    let q ← pNat
    let X ← pMat q d
    if !p.cov.WF d then return "err wf"
    return "ok " ++ outRows (p.gradient kind (rowsOf X))
  | "ptime" => some do
    let (p, d) ← pGPMean
    let q ← pNat
    if d = 0 then return "err width"
    let X ← pMat q (d - 1)
    let ts ← pVec q
    if !p.cov.WF d then return "err wf"
    let td := p.timeDerivative (rowsOf X) ts.toList
    let g := p.gradientTime (rowsOf X) ts.toList
    return "ok " ++ " ".intercalate (td.map fb) ++ " " ++ outRows g
  | _ => none

end Drv
