/-
  MellonDriver.TimeNN — ops `nnwithin`, `avgcount`, `tsest` (property C14).

  Tokens (in addition to those of MellonDriver.TimeArgs)
    darg    := DN | DS <float> | DV <count> <floats…>
    normarg := NO | NA | NS <L|J|T|P> <count> <floats…> | ND <count> (<key float> <value float>)*
  Time stamps are compared exactly: `floatKey` maps the IEEE-754 bit pattern of a (non-NaN) double to
  an integer with the same order and the same equality (−0.0 and +0.0 coincide).
-/
import MellonDriver.Core
import MellonDriver.TimeArgs
import MellonModel.TimeNN
open Mellon

namespace Drv

/-- Order- and equality-preserving integer code of a non-NaN double. -/
def floatKey (x : Float) : Int :=
  let b := x.toBits.toNat
  if b ≥ 2 ^ 63 then -((b - 2 ^ 63 : Nat) : Int) else (b : Int)

def pDArg : P (DArg Float) := do
  let t ← tok
  match t with
  | "DN" => return .none
  | "DS" => return .scalar (← pFlt)
  | "DV" => return .perCell (← pList pFlt)
  | _ => throw s!"darg? {t}"

def pSeqKind : P SeqKind := do
  let t ← tok
  match t with
  | "L" => return .list
  | "J" => return .jaxArray
  | "T" => return .tuple
  | "P" => return .numpyArray
  | _ => throw s!"seqkind? {t}"

def pNormArg : P (NormArg Float Int) := do
  let t ← tok
  match t with
  | "NO" => return .off
  | "NA" => return .avg
  | "NS" => return .seq (← pSeqKind) (← pList pFlt)
  | "ND" =>
    let es ← pList (do let k ← pFlt; let v ← pFlt; return (floatKey k, v))
    return .dict es
  | _ => throw s!"normarg? {t}"

def nnErrKind : NNErr → String
  | .timex e => errStr e
  | .noCells => "Internal:ZeroDivisionError:noCells"
  | .missingKey => "ValueError:missingKey"
  | .wrongLength => "ValueError:wrongLength"
  | .dNone => "TypeError:dNone"
  | .dNegative => "ValueError:dNegative"
  | .dLength => "ValueError:dLength"
  | .dZero => "Internal:ZeroDivisionError:dZero"
  | .singleton => "ValueError:singleton"
  | .indexError => "Internal:IndexError:indexError"

def outListT (l : List Float) : String := s!"{l.length} " ++ " ".intercalate (l.map fb)

def handleTimeNN : Handler := fun op =>
  match op with
  | "nnwithin" => some do
    let x ← pXArg
    let t ← pTimeArg
    let d ← pDArg
    let norm ← pNormArg
    match nnWithinTimePoints floatKey x t d norm with
    | .ok out => return "ok " ++ outListT out
    | .error e => return nnErrKind e
  | "avgcount" => some do
    let times ← pList pFlt
    let norm ← pNormArg
    match avgCellCount (times.map floatKey) norm with
    | .ok v => return "ok " ++ fb v
    | .error e => return nnErrKind e
  | "tsest" => some do
    -- merged training matrix, d, normalize_per_time_point, explicit nn_distances, ls_factor
    let n ← pNat; let c ← pNat
    let rows ← pRows n c
    let d ← pDArg
    let norm ← pNormArg
    let st ← tok
    let supplied ← match st with
      | "N" => pure none
      | "Y" => do let v ← pList pFlt; pure (some v)
      | _ => throw s!"supplied? {st}"
    let lsFactor ← pFlt
    let cells : Cells Float Int := cellsOf floatKey ⟨n, c, rows⟩
    let nn := tsNN cells d norm supplied
    let nnS := match nn with
      | .ok v => "ok " ++ outListT v
      | .error e => nnErrKind e
    let lsS := match nn with
      | .ok v => (match tsLs cells norm v lsFactor with
        | .ok l => "ok " ++ fb l
        | .error e => nnErrKind e)
      | .error e => nnErrKind e
    let nobsS := match avgCellCount cells.times norm with
      | .ok v => "ok " ++ fb v
      | .error e => nnErrKind e
    return s!"{nnS} ; {lsS} ; {nobsS}"
  | _ => none

end Drv
