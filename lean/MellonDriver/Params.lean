/-
  MellonDriver.Params — ops of C15 (all exact data).

    fromstr k c₁ … c_k                         → ok <gp> | ValueError:unknownGpType
    cnl <gp|N> n <m|N>                         → ok k                      (compute_n_landmarks)
    crank <gp|N>                               → ok F num den              (compute_rank)
    cgt nl <rank> n                            → ok <gp> | ValueError:…    (compute_gp_type)
    vparams <rank> <gp> n nl <m|N>             → ok | ValueError:…         (validate_params)
    clm <gp> n nl                              → ok N | ok m | ValueError:… (compute_landmarks rows)
    resolve <est> n <nl|N> <m|N> <rank> <gpin> <T|F> <opt> kept <sigma>
                                               → ok <gp> rows cols <cls> | ValueError:<why> | Internal

    <rank> = N | I r | F num den | NAN        <gpin> = N | E <gp> | S k c₁ … c_k
-/
import MellonDriver.Core
import MellonModel.Params
open Mellon

namespace Drv
namespace Prm

def gpName : GPType → String
  | .full => "full" | .fullNystroem => "full_nystroem" | .sparseCholesky => "sparse_cholesky"
  | .sparseNystroem => "sparse_nystroem" | .fixed => "fixed"

def pGp : P GPType := do
  let t ← tok
  match t with
  | "full" => return .full
  | "full_nystroem" => return .fullNystroem
  | "sparse_cholesky" => return .sparseCholesky
  | "sparse_nystroem" => return .sparseNystroem
  | "fixed" => return .fixed
  | _ => throw s!"gp? {t}"

def pOptGp : P (Option GPType) := do
  let s ← get
  if h : s.pos < s.toks.size then
    if s.toks[s.pos] == "N" then
      let _ ← tok
      return none
  return some (← pGp)

def pOptNat : P (Option Nat) := do
  let t ← tok
  if t == "N" then return none
  match t.toNat? with
  | some n => return some n
  | none => throw s!"optnat? {t}"

def pChars : P (List Char) := do
  let k ← pNat
  let mut l : List Char := []
  for _ in [0:k] do
    l := Char.ofNat (← pNat) :: l
  return l.reverse

def pRankIn : P RankIn := do
  let t ← tok
  match t with
  | "N" => return .none
  | "NAN" => return .nan
  | "I" => return .int (← pInt)
  | "NI" => return .npInt (← pInt)
  | "F" =>
    let num ← pInt
    let den ← pNat
    if den = 0 then throw "rank: zero denominator"
    return .flt (mkRat num den)
  | _ => throw s!"rank? {t}"

def pGpIn : P GpIn := do
  let t ← tok
  match t with
  | "N" => return .none
  | "E" => return .enum (← pGp)
  | "S" => return .str (← pChars)
  | _ => throw s!"gpin? {t}"

def pEst : P Est := do
  let t ← tok
  match t with
  | "density" => return .density
  | "dim" => return .dimensionality
  | "time" => return .timeSensitive
  | "function" => return .function
  | _ => throw s!"est? {t}"

def pOpt : P Opt := do
  let t ← tok
  match t with
  | "adam" => return .adam
  | "advi" => return .advi
  | "lbfgsb" => return .lbfgsb
  | _ => throw s!"opt? {t}"

def pSigma : P SigmaForm := do
  let t ← tok
  match t with
  | "scalar" => return .scalar
  | "negative" => return .negative
  | "vecN" => return .vecN
  | "vecL" => return .vecL (← pNat)
  | "mat" => return .matN (← pNat)
  | _ => throw s!"sigma? {t}"

def refusalName (r : Refusal) : String := (reprStr r).replace "Mellon.Refusal." ""

def clsName : PredFamily → String
  | .full => "Full" | .landmarks => "Landmarks" | .landmarksCholesky => "LandmarksCholesky"

def outExcept {β : Type} (f : β → String) : Except Refusal β → String
  | .ok v => ("ok " ++ f v).trimRight
  | .error e => "ValueError:" ++ refusalName e

def outOutcome : Outcome → String
  | .ok gp r c cls => s!"ok {gpName gp} {r} {c} {clsName cls}"
  | .refused e => "ValueError:" ++ refusalName e
  | .internal => "Internal"

def rankVOut : RankV → String
  | .int r => s!"I {r}"
  | .flt q => s!"F {q.num} {q.den}"

def optNatOut : Option Nat → String
  | none => "N"
  | some m => toString m

end Prm
open Prm in
def handleParams : Handler := fun op =>
  match op with
  | "fromstr" => some do
    let s ← pChars
    match fromString s with
    | some g => return "ok " ++ gpName g
    | none => return "ValueError:unknownGpType"
  | "cnl" => some do
    let gp ← pOptGp
    let n ← pNat
    let m ← pOptNat
    return s!"ok {computeNLandmarks gp n m}"
  | "crank" => some do
    let gp ← pOptGp
    return "ok " ++ rankVOut (computeRank gp)
  | "cgt" => some do
    let nl ← pInt
    let r ← pRankIn
    let n ← pInt
    return outExcept gpName (computeGpType nl r n)
  | "vparams" => some do
    let r ← pRankIn
    let gp ← pGp
    let n ← pNat
    let nl ← pInt
    let m ← pOptNat
    return outExcept (fun _ => "") (validateParamsPublic r gp n nl m)
  | "clm" => some do
    let gp ← pGp
    let n ← pNat
    let nl ← pNat
    return outExcept optNatOut (computeLandmarks gp n nl)
  | "resolve" => some do
    let est ← pEst
    let n ← pNat
    let nl ← pOptInt
    let m ← pOptNat
    let r ← pRankIn
    let gp ← pGpIn
    let unc ← pBool
    let opt ← pOpt
    let kept ← pNat
    let sg ← pSigma
    let cells ← pBool
    let cfg : Config := Config.mk est n nl m r gp unc opt kept sg cells
    return outOutcome (resolve cfg)
  | _ => none

end Drv
