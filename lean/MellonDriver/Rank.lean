/-
  MellonDriver.Rank — ops of C10.

    selrank Q n <num den>×n (I r | F num den)   → ok kept | ValueError     (exact rationals)
    selrank D n <bits>×n    (I r | F bits)      → ok kept | ValueError     (IEEE doubles)
    lowrank n p <V bits n×n> <s bits n>          → ok <L bits n×p>                    (L = V_p √S_p)

  Eigenvalues are given in DESCENDING order (the reverse of what `eigh` returns).
-/
import MellonDriver.Core
import MellonModel.Rank
open Mellon

namespace Drv
namespace Rnk

def pRat : P Rat := do
  let num ← pInt
  let den ← pNat
  if den = 0 then throw "rat: zero denominator"
  return mkRat num den

def pListN {β : Type} (n : Nat) (p : P β) : P (List β) := do
  let mut l : List β := []
  for _ in [0:n] do
    l := (← p) :: l
  return l.reverse

def outKept : Option Nat → String
  | some k => s!"ok {k}"
  | none => "ValueError"

end Rnk
open Rnk in
def handleRank : Handler := fun op =>
  match op with
  | "selrank" => some do
    let mode ← tok
    let n ← pNat
    match mode with
    | "Q" =>
      let s ← pListN n pRat
      let t ← tok
      match t with
      | "I" => return outKept (selectRank s (.int (← pInt)))
      | "F" => return outKept (selectRank s (.frac (← pRat)))
      | _ => throw s!"rank? {t}"
    | "D" =>
      let s ← pListN n pFlt
      let t ← tok
      match t with
      | "I" => return outKept (selectRank s (.int (← pInt)))
      | "F" => return outKept (selectRank s (.frac (← pFlt)))
      | _ => throw s!"rank? {t}"
    | _ => throw s!"mode? {mode}"
  | "lowrank" => some do
    let n ← pNat; let p ← pNat
    let V ← pMat n n
    let s ← pVec n
    return "ok " ++ outMat (lowRankFactor V s p)
  | _ => none

end Drv
