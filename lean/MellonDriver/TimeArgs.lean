/-
  MellonDriver.TimeArgs — ops `timex` (validate_time_x) and `tcall` (a call of a PredictorTime method
  through the multi_time wrapper).  For `tcall` the predictor family is instantiated with routines
  that *describe* what they were handed (routine name, flag, the merged matrix), so that the harness
  can evaluate the real family routine on exactly that matrix and compare.

  Tokens
    xarg     := XN | XS | XO <ndim> | XM <n> <c> <n*c floats>
    timearg  := TN | TI <int> | TF <float> | TA <shape> <data> | TL <shape> <data>
                 (<shape> = <rank> <dims…>, <data> = <count> <floats…>)
    timepass := PA | PP <timearg> | PK <timearg>
    multi    := MA | MS | M0 | MR <rowShape> <k> (<data>)*k
-/
import MellonDriver.Core
import MellonModel.TimeArgs
open Mellon

namespace Drv

instance : IntCast Float := ⟨Float.ofInt⟩

def pRows (n c : Nat) : P (List (List Float)) := do
  let mut rows : List (List Float) := []
  for _ in [0:n] do
    let mut r : List Float := []
    for _ in [0:c] do
      r := (← pFlt) :: r
    rows := r.reverse :: rows
  return rows.reverse

def pXArg : P (XArg Float) := do
  let t ← tok
  match t with
  | "XN" => return .none
  | "XS" => return .pyScalar
  | "XO" => return .other (← pNat)
  | "XV" => return .vec (← pList pFlt)
  | "XM" =>
    let n ← pNat; let c ← pNat
    return .mat n c (← pRows n c)
  | _ => throw s!"xarg? {t}"

def pTimeArg : P (TimeArg Float) := do
  let t ← tok
  match t with
  | "TN" => return .none
  | "TI" => return .pyInt (← pInt)
  | "TF" => return .pyFloat (← pFlt)
  | "TA" => return .array (← pList pNat) (← pList pFlt)
  | "TL" => return .pyList (← pList pNat) (← pList pFlt)
  | _ => throw s!"timearg? {t}"

def pTimePass : P (TimePass Float) := do
  let t ← tok
  match t with
  | "PA" => return .absent
  | "PP" => return .positional (← pTimeArg)
  | "PK" => return .keyword (← pTimeArg)
  | _ => throw s!"timepass? {t}"

def pMulti : P (MultiArg Float) := do
  let t ← tok
  match t with
  | "MA" => return .absent
  | "MS" => return .pyScalar
  | "M0" => return .arr0
  | "MR" =>
    let rs ← pList pNat
    return .arr rs (← pList (pList pFlt))
  | _ => throw s!"multi? {t}"

def pOptNat : P (Option Nat) := do
  let t ← tok
  if t == "N" then return none
  match t.toNat? with
  | some n => return some n
  | none => throw s!"optnat? {t}"

def pMeth : P Meth := do
  let t ← tok
  match t with
  | "mean" => return .mean
  | "covariance" => return .covariance
  | "mean_covariance" => return .meanCovariance
  | "uncertainty" => return .uncertainty
  | "time_derivative" => return .timeDerivative
  | "gradient" => return .gradient
  | "hessian" => return .hessian
  | "hessian_log_determinant" => return .hessianLogDet
  | _ => throw s!"meth? {t}"

def vkindStr : VKind → String
  | .xNdim => "xNdim" | .timesNdim => "timesNdim" | .timesCols => "timesCols" | .length => "length"
  | .missingTime => "missingTime" | .features => "features" | .bothTimeMulti => "bothTimeMulti"
  | .noNObs => "noNObs" | .vmapRank => "vmapRank"

def tkindStr : TKind → String
  | .xNone => "xNone" | .xNotIterable => "xNotIterable" | .timesNotIterable => "timesNotIterable"
  | .multiNotIterable => "multiNotIterable" | .missingArg => "missingArg"
  | .normalizeNotBool => "normalizeNotBool"

def errStr : Err → String
  | .value k => "ValueError:" ++ vkindStr k
  | .type k => "TypeError:" ++ tkindStr k

def rowsStr (rows : List (List Float)) : String :=
  let c := match rows with
    | r :: _ => r.length
    | [] => 0
  s!"{rows.length} {c} " ++ " ".intercalate (rows.map fun r => " ".intercalate (r.map fb))

def bstr (b : Bool) : String := if b then "T" else "F"

/-- A family whose routines describe their arguments. -/
def descFamily (nf : Nat) (nObsOk : Bool) : Family Float String where
  nFeatures := nf
  nObsOk := nObsOk
  mean := fun r => "mean - " ++ rowsStr r
  meanNormalized := fun r => "mean_normalized - " ++ rowsStr r
  covariance := fun d r => s!"covariance {bstr d} " ++ rowsStr r
  meanCovariance := fun d r => s!"mean_covariance {bstr d} " ++ rowsStr r
  uncertainty := fun d r => s!"uncertainty {bstr d} " ++ rowsStr r
  timeDerivative := fun r => "time_derivative - " ++ rowsStr r
  gradient := fun X t => "gradient - " ++ rowsStr (appendCol X t)
  hessian := fun X t => "hessian - " ++ rowsStr (appendCol X t)
  hessianLogDet := fun X t => "hessian_log_determinant - " ++ rowsStr (appendCol X t)

def handleTimeArgs : Handler := fun op =>
  match op with
  | "timex" => some do
    let x ← pXArg
    let t ← pTimeArg
    let nf ← pOptNat
    let cast ← pBool
    match validateTimeX x t nf cast with
    | .ok M => return s!"ok {M.n} {M.c} " ++ " ".intercalate (M.rows.map fun r => " ".intercalate (r.map fb))
    | .err e => return errStr e
  | "tcall" => some do
    let m ← pMeth
    let nt ← tok
    let normalize ← match nt with
      | "T" => pure (some true)
      | "F" => pure (some false)
      | "X" => pure none
      | _ => throw s!"normalize? {nt}"
    let diag ← pBool
    let nf ← pNat
    let nObsOk ← pBool
    let x ← pXArg
    let tp ← pTimePass
    let mt ← pMulti
    match call (descFamily nf nObsOk) m { normalize := normalize, diag := diag } x tp mt with
    | .ok (.single v) => return "ok single " ++ v
    | .ok (.stacked outs) => return s!"ok stacked {outs.length} " ++ " ; ".intercalate outs
    | .err e => return errStr e
  | _ => none

end Drv
