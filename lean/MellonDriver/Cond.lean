/-
  MellonDriver.Cond — ops `chol`, `fullcond`, `lmcond`, `lmcholcond`.
-/
import MellonDriver.Kernel
import MellonModel.Conditional
open Mellon

namespace Drv

def errName : CondErr → String
  | .noUncertaintyInput => "ValueError:noUncertaintyInput"
  | .bothSigmaAndFactor => "ValueError:bothSigmaAndFactor"
  | .notPosDef => "ValueError:notPosDef"
  | .noiseShape => "ValueError:noiseShape"
  | .noCovariance => "ValueError:noCovariance"
  | .noUncertainty => "ValueError:noUncertainty"
  | .internal => "Internal"

def pSigma (n : Nat) : P (Sigma Float n) := do
  let t ← tok
  match t with
  | "SN" => return .none
  | "SS" => return .scalar (← pFlt)
  | "SV" => return .vec (← pVec n)
  | _ => throw s!"sigma? {t}"

/-- The `sigma` argument of the landmark (DTC) family, typed by the number of CELLS `n`.  A vector travels with
    its length (`SVL len values…`); a vector of any other length than `n` cannot be expressed in the model and is
    returned as its length (`Sum.inr len`), for the handler to refuse. -/
def pSigmaCells (n : Nat) : P (Sigma Float n ⊕ Nat) := do
  let t ← tok
  match t with
  | "SN" => return .inl .none
  | "SS" => return .inl (.scalar (← pFlt))
  | "SVL" =>
    let len ← pNat
    if len = n then return .inl (.vec (← pVec n))
    else
      let _ ← pVec len
      return .inr len
  | _ => throw s!"sigma? {t}"

def pOptAny : P (Option (AnyMat Float)) := do
  let t ← tok
  match t with
  | "N" => return none
  | "Y" =>
    let r ← pNat
    let c ← pNat
    return some ⟨r, c, ← pMat r c⟩
  | _ => throw s!"optany? {t}"

/-- Everything the harness asks of a built predictor state, for query matrix `Xq`. -/
def evalState {m d c q : Nat} (s : CondState Float m d c) (Xq : Mat Float q d) : String :=
  let mean := outMat (s.mean Xq)
  let part (name : String) (r : Except CondErr String) : String :=
    match r with
    | .ok v => s!"{name} ok {v}"
    | .error e => s!"{name} {errName e}"
  let w := outMat s.weights
  s!"ok | weights {w} | mean {mean} | " ++
    part "var" ((s.variance Xq).map outVec) ++ " | " ++
    part "cov" ((s.covariance Xq).map outMat) ++ " | " ++
    part "mvar" ((s.meanVariance Xq).map outVec) ++ " | " ++
    part "mcov" ((s.meanCovariance Xq).map outMat) ++ " | " ++
    part "unc" ((s.uncertainty Xq).map outMat) ++ " | " ++
    part "uncd" ((s.uncertaintyDiag Xq).map outVec)

def handleCond : Handler := fun op =>
  match op with
  | "chol" => some do
    let n ← pNat
    let A ← pMat n n
    match chol? A with
    | some L => return "ok " ++ outMat L
    | none => return "notpd"
  | "fullcond" => some do
    let c ← pCov
    let n ← pNat; let d ← pNat
    let X ← pMat n d
    let cc ← pNat
    let Y ← pMat n cc
    let mu ← pFlt
    let Lg ← pOptMat n n
    let sigma ← pSigma n
    let jit ← pFlt
    let ycf ← pOptAny
    let yIsMean ← pBool
    let withUnc ← pBool
    let q ← pNat
    let Xq ← pMat q d
    if !c.WF d then return "err wf"
    match fullCondInit c X Y mu Lg sigma jit ycf yIsMean withUnc with
    | .error e => return errName e
    | .ok s => return evalState s Xq
  | "lmcond" => some do
    let c ← pCov
    let n ← pNat; let d ← pNat
    let X ← pMat n d
    let m ← pNat
    let Xu ← pMat m d
    let cc ← pNat
    let Y ← pMat n cc
    let mu ← pFlt
    let sigma? ← pSigmaCells n
    let jit ← pFlt
    let ycf ← pOptAny
    let yIsMean ← pBool
    let withUnc ← pBool
    let q ← pNat
    let Xq ← pMat q d
    if !c.WF d then return "err wf"
    match sigma? with
    | .inr _ =>
      -- a sigma vector whose length is not the number of cells: in the per-cell branch (`not y_is_mean`, no explicit
      -- factor) the implementation refuses it ("The per-cell `sigma` has … entries but there are … cells") once the
      -- landmark kernel has been factorised; outside that branch the case is not modelled.
      if !yIsMean && ycf.isNone then
        match getL c Xu jit Option.none with
        | .error e => return errName e
        | .ok _ => return errName .noiseShape
      else return "err sigma-length-not-modelled"
    | .inl sigma =>
      match lmCondInit c X Xu Y mu sigma jit ycf yIsMean withUnc with
      | .error e => return errName e
      | .ok s => return evalState s Xq
  | "lmcholcond" => some do
    let c ← pCov
    let m ← pNat; let d ← pNat
    let Xu ← pMat m d
    let cc ← pNat
    let Z ← pMat m cc
    let mu ← pFlt
    let nObs ← pNat
    let Lg ← pOptMat m m
    let sigma ← pSigma m
    let jit ← pFlt
    let yIsMean ← pBool
    let withUnc ← pBool
    let q ← pNat
    let Xq ← pMat q d
    if !c.WF d then return "err wf"
    match lmCholCondInit c Xu Z mu nObs Lg sigma jit yIsMean withUnc with
    | .error e => return errName e
    | .ok s => return evalState s Xq
  | _ => none

end Drv
