/-
  MellonDriver.Kernel — ops `cov`, `covdiag`, `kgrad`, `dist`.
-/
import MellonDriver.Core
import MellonModel.Kernel
open Mellon

namespace Drv

def pAD : P ActiveDims := do
  let t ← tok
  match t with
  | "AN" => return .none
  | "AI" => return .idx (← pInt)
  | "AL" => return .list (← pList pInt)
  | "AM" => return .mask (← pList pBool)
  | "AS" => return .slice (← pOptInt) (← pOptInt) (← pOptInt)
  | _ => throw s!"ad? {t}"

partial def pCov : P (Cov Float) := do
  let t ← tok
  match t with
  | "M32" => return .matern32 (← pFlt) (← pAD)
  | "M52" => return .matern52 (← pFlt) (← pAD)
  | "EQ" => return .expquad (← pFlt) (← pAD)
  | "EX" => return .exponential (← pFlt) (← pAD)
  | "RQ" => return .ratquad (← pFlt) (← pFlt) (← pAD)
  | "LIN" => return .linear (← pFlt) (← pAD)
  | "ADD" => return .add (← pCov) (← pCov) (← pAD)
  | "ADDC" => return .addC (← pCov) (← pFlt) (← pAD)
  | "MUL" => return .mul (← pCov) (← pCov) (← pAD)
  | "MULC" => return .mulC (← pCov) (← pFlt) (← pAD)
  | "POW" => return .pow (← pCov) (← pFlt) (← pAD)
  | _ => throw s!"cov? {t}"


def handleKernel : Handler := fun op =>
  match op with
  | "cov" => some do
    let c ← pCov
    let n ← pNat; let d ← pNat
    let X ← pMat n d
    let m ← pNat
    let Y ← pMat m d
    if !c.WF d then return "err wf"
    return "ok " ++ outMat (gram c X Y)
  | "covdiag" => some do
    let c ← pCov
    let n ← pNat; let d ← pNat
    let X ← pMat n d
    if !c.WF d then return "err wf"
    return "ok " ++ outVec (gramDiag c X)
  | "kgrad" => some do
    let c ← pCov
    let n ← pNat; let d ← pNat
    let X ← pMat n d
    let m ← pNat
    let Y ← pMat m d
    if !c.WF d then return "err wf"
    let rows := (List.range n).map fun i => (List.range m).map fun j =>
      " ".intercalate ((c.kGrad (X.row i) (Y.row j)).map fb)
    return "ok " ++ " ".intercalate (rows.map (" ".intercalate ·))
  | "dist" => some do
    let n ← pNat; let d ← pNat
    let X ← pMat n d
    let m ← pNat
    let Y ← pMat m d
    let D : Mat Float n m := Mat.ofFn fun i j => distance (X.row i) (Y.row j)
    return "ok " ++ outMat D
  | _ => none

end Drv
