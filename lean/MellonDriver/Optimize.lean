/-
  MellonDriver.Optimize — ops of property C17:
    c17wire <optimizer> <lossTok> <initTok> nIter <lrTok> <jit:T|F> <prevOptState|N>
        → ok pre=<…> std=<…|None> opt=<…|None> losses=<…>   |  ValueError:unknown-optimizer
      (symbolic run of `_run_inference`: the three solvers are stubs that echo their arguments)
    c17adam n m <r:n> <D> mu <L:n*m> k <z0:m> nIter lr
        → ok <losses:nIter> <params:m>      (minimize_adam on the density loss, analytic gradient)
    c17advistd m <mean:m> <log_std:m>  → ok <params:m> <std:m>     (`std = exp(log_std)`)
    c17adviinit m <x0:m>      → ok <mean:m> <log_std:m>
-/
import MellonDriver.Core
import MellonDriver.Inference
import MellonModel.Optimize
open Mellon

namespace Drv

def stubSolvers : Solvers String String String String String where
  adam := fun a =>
    let args := s!"({a.lossFunc},{a.initialValue},{a.nIter},{a.initLearnRate},{a.jit})"
    { preTransformation := "adam.pre" ++ args, optState := "adam.opt" ++ args, losses := ["adam.losses" ++ args] }
  advi := fun a =>
    let args := s!"({a.lossFunc},{a.initialValue},{a.nIter},{a.initLearnRate},{a.jit})"
    { preTransformation := "advi.pre" ++ args, preTransformationStd := "advi.std" ++ args,
      losses := ["advi.losses" ++ args] }
  lbfgsb := fun f z0 jit =>
    let args := s!"({f},{z0},{jit})"
    { preTransformation := "lbfgsb.pre" ++ args, optState := "lbfgsb.opt" ++ args, loss := "lbfgsb.loss" ++ args }

def optStr : Option String → String
  | some s => s
  | none => "None"

def handleOptimize : Handler := fun op =>
  match op with
  | "c17wire" => some do
    let name ← tok
    let f ← tok; let z0 ← tok; let nIter ← pNat; let lr ← tok; let jit ← pBool
    let prev ← tok
    let st : InferState String String String :=
      { preTransformation := none, preTransformationStd := none,
        optState := if prev == "N" then none else some prev, losses := none }
    let a : InferArgs String String String :=
      { lossFunc := f, initialValue := z0, nIter := nIter, initLearnRate := lr, jit := jit }
    match runInference stubSolvers (Optimizer.ofString name) a st with
    | .ok s =>
      let ls := match s.losses with
        | some l => "[" ++ ",".intercalate l ++ "]"
        | none => "None"
      return s!"ok pre={optStr s.preTransformation} std={optStr s.preTransformationStd} opt={optStr s.optState} losses={ls}"
    | .error e => return e
  | "c17adam" => some do
    let n ← pNat; let m ← pNat
    let r ← pVec n; let d ← pDim n; let mu ← pFlt
    let L ← pMat n m; let k ← pNat; let z0 ← pVec m
    let nIter ← pNat; let lr ← pFlt
    let res := adamOnDensityLoss r d mu L k z0 nIter lr
    return "ok " ++ outList res.losses ++ " " ++ outVec res.preTransformation
  | "c17advistd" => some do
    let m ← pNat
    let mean ← pVec m
    let ls ← pVec m
    -- `run_advi` from an optimiser whose final parameters are (mean, log_std): n_iter = 0, identity loop
    let res := runAdvi (S := Vector Float m × Vector Float m) (V := Float)
      (fun _ => (mean, ls)) (fun _ s => (s, 0.0)) id mean 0
    return "ok " ++ outVec res.preTransformation ++ " " ++ outVec res.preTransformationStd
  | "c17adviinit" => some do
    let m ← pNat
    let x0 ← pVec m
    let p := adviInit x0
    return "ok " ++ outVec p.1 ++ " " ++ outVec p.2
  | _ => none

end Drv
