/-
  MellonDriver.Serial — ops `ms`, `deser`, `jsonpass`, `rtjson`, `rtdict`, `covdict`, `covrtjson`,
  `covrtdict`, `covfromdict`, `pytoad`.

  Python values travel as prefix tokens:
    N | B T/F | I int | F bits | S hex | NI int | NF bits | NB T/F
    A dt rank dims… count elems…   (dt ∈ f i b; elems: bits / ints / T,F)
    SL v v v | D k (hexkey v)* | ST k v* | L k v* | T k v* | O hex
  strings are the hex of their UTF-8 bytes (`-` for the empty string).
-/
import MellonDriver.Kernel
import MellonModel.Serial
open Mellon

namespace Drv

def hexDigit (n : Nat) : Char := if n < 10 then Char.ofNat (48 + n) else Char.ofNat (87 + n)

def hexOfString (s : String) : String :=
  if s.isEmpty then "-" else
  String.ofList (s.toUTF8.toList.flatMap fun b => [hexDigit (b.toNat / 16), hexDigit (b.toNat % 16)])

def hexVal (c : Char) : Option Nat :=
  if '0' ≤ c ∧ c ≤ '9' then some (c.toNat - 48)
  else if 'a' ≤ c ∧ c ≤ 'f' then some (c.toNat - 87) else none

def bytesOfHex : List Char → Option (List UInt8)
  | [] => some []
  | a :: b :: r => do
    let x ← hexVal a
    let y ← hexVal b
    let rest ← bytesOfHex r
    return (UInt8.ofNat (16 * x + y)) :: rest
  | _ => none

def pStr : P String := do
  let t ← tok
  if t == "-" then return ""
  match bytesOfHex t.toList with
  | some bs =>
    match String.fromUTF8? (ByteArray.mk bs.toArray) with
    | some s => return s
    | none => throw s!"utf8? {t}"
  | none => throw s!"hex? {t}"

def pBits : P UInt64 := do
  let n ← pNat
  return n.toUInt64

def pDtype : P Dtype := do
  let t ← tok
  match t with
  | "f" => return .f64
  | "i" => return .i64
  | "b" => return .bool
  | _ => throw s!"dtype? {t}"

def pScalar (dt : Dtype) : P Scalar :=
  match dt with
  | .f64 => do return .f (← pBits)
  | .i64 => do return .i (← pInt)
  | .bool => do return .b (← pBool)

partial def pPy : P PyVal := do
  let t ← tok
  match t with
  | "N" => return .none
  | "B" => return .bool (← pBool)
  | "I" => return .int (← pInt)
  | "F" => return .float (← pBits)
  | "S" => return .str (← pStr)
  | "NI" => return .npInt (← pInt)
  | "NF" => return .npFloat (← pBits)
  | "NB" => return .npBool (← pBool)
  | "A" =>
    let dt ← pDtype
    let sh ← pList pNat
    let d ← pList (pScalar dt)
    return .arr dt sh d
  | "SL" => return .slice (← pPy) (← pPy) (← pPy)
  | "D" => return .dict (← pList (do let k ← pStr; let v ← pPy; return (k, v)))
  | "ST" => return .set (← pList pPy)
  | "L" => return .list (← pList pPy)
  | "T" => return .tuple (← pList pPy)
  | "O" => return .opaque (← pStr)
  | _ => throw s!"pyval? {t}"

def bT (b : Bool) : String := if b then "T" else "F"

def outScalar : Scalar → String
  | .f x => toString x.toNat
  | .i n => toString n
  | .b v => bT v

def dtTok : Dtype → String
  | .f64 => "f"
  | .i64 => "i"
  | .bool => "b"

partial def outPy : PyVal → String
  | .none => "N"
  | .bool b => "B " ++ bT b
  | .int i => s!"I {i}"
  | .float b => s!"F {b.toNat}"
  | .str s => "S " ++ hexOfString s
  | .npInt i => s!"NI {i}"
  | .npFloat b => s!"NF {b.toNat}"
  | .npBool b => "NB " ++ bT b
  | .arr dt sh d =>
    " ".intercalate (["A", dtTok dt, toString sh.length] ++ sh.map toString ++ [toString d.length] ++ d.map outScalar)
  | .slice a b c => " ".intercalate ["SL", outPy a, outPy b, outPy c]
  | .dict kvs => " ".intercalate (["D", toString kvs.length] ++ kvs.map fun (k, v) => hexOfString k ++ " " ++ outPy v)
  | .set xs => " ".intercalate (["ST", toString xs.length] ++ xs.map outPy)
  | .list xs => " ".intercalate (["L", toString xs.length] ++ xs.map outPy)
  | .tuple xs => " ".intercalate (["T", toString xs.length] ++ xs.map outPy)
  | .opaque s => "O " ++ hexOfString s

def outErr : PyErr → String
  | .valueError k => s!"ValueError:{k}"
  | .typeError k => s!"TypeError:{k}"
  | .internal n => s!"Internal:{n}"
  | .unmodelled w => s!"Unmodelled:{w}"

def outPyM (r : PyM PyVal) : String :=
  match r with
  | .ok v => "ok " ++ outPy v
  | .error e => outErr e

def optTok : Option Int → String
  | none => "N"
  | some z => toString z

def outAD : ActiveDims → String
  | .none => "AN"
  | .idx z => s!"AI {z}"
  | .list zs => " ".intercalate (["AL", toString zs.length] ++ zs.map toString)
  | .mask bs => " ".intercalate (["AM", toString bs.length] ++ bs.map bT)
  | .slice a b c => s!"AS {optTok a} {optTok b} {optTok c}"

/-- Kernel expressions whose parameters are Python values. -/
partial def pCovP : P (Cov PyVal) := do
  let t ← tok
  match t with
  | "M32" => return .matern32 (← pPy) (← pAD)
  | "M52" => return .matern52 (← pPy) (← pAD)
  | "EQ" => return .expquad (← pPy) (← pAD)
  | "EX" => return .exponential (← pPy) (← pAD)
  | "RQ" => return .ratquad (← pPy) (← pPy) (← pAD)
  | "LIN" => return .linear (← pPy) (← pAD)
  | "ADD" => return .add (← pCovP) (← pCovP) (← pAD)
  | "ADDC" => return .addC (← pCovP) (← pPy) (← pAD)
  | "MUL" => return .mul (← pCovP) (← pCovP) (← pAD)
  | "MULC" => return .mulC (← pCovP) (← pPy) (← pAD)
  | "POW" => return .pow (← pCovP) (← pPy) (← pAD)
  | _ => throw s!"cov? {t}"

def outCovP : Cov PyVal → String
  | .matern32 ls ad => s!"M32 {outPy ls} {outAD ad}"
  | .matern52 ls ad => s!"M52 {outPy ls} {outAD ad}"
  | .expquad ls ad => s!"EQ {outPy ls} {outAD ad}"
  | .exponential ls ad => s!"EX {outPy ls} {outAD ad}"
  | .ratquad a ls ad => s!"RQ {outPy a} {outPy ls} {outAD ad}"
  | .linear ls ad => s!"LIN {outPy ls} {outAD ad}"
  | .add l r ad => s!"ADD {outCovP l} {outCovP r} {outAD ad}"
  | .addC l c ad => s!"ADDC {outCovP l} {outPy c} {outAD ad}"
  | .mul l r ad => s!"MUL {outCovP l} {outCovP r} {outAD ad}"
  | .mulC l c ad => s!"MULC {outCovP l} {outPy c} {outAD ad}"
  | .pow l p ad => s!"POW {outCovP l} {outPy p} {outAD ad}"

def outCovM (r : PyM (Cov PyVal)) : String :=
  match r with
  | .ok c => "ok " ++ outCovP c
  | .error e => outErr e

def pMeta : P Meta := do
  return { version := ← pStr, date := ← pStr, python := ← pStr }

def handleSerial : Handler := fun op =>
  match op with
  | "ms" => some do return "ok " ++ outPy (makeSerializable (← pPy))
  | "deser" => some do return outPyM (deserialize (← pPy))
  | "jsonpass" => some do return outPyM (jsonPass idCodec (← pPy))
  | "rtjson" => some do return outPyM (roundTripJson (← pPy))
  | "rtdict" => some do return outPyM (roundTripDict (← pPy))
  | "wf" => some do
    let v ← pPy
    return s!"ok {bT (v.WF canonNaN)} {bT (v.WF id)}"
  | "norm" => some do
    let v ← pPy
    return s!"ok {outPy v.norm}"
  | "covdict" => some do
    let m ← pMeta
    return "ok " ++ outPy (covToDict m (← pCovP))
  | "covrtjson" => some do return outCovM (covRoundTripJson default (← pCovP))
  | "covrtdict" => some do return outCovM (covRoundTripDict default (← pCovP))
  | "covfromdict" => some do return outCovM (covFromDict (← pPy))
  | "pytoad" => some do
    match pyToAd (← pPy) with
    | some ad => return "ok " ++ outAD ad
    | none => return "none"
  | _ => none

end Drv
