/-
  MellonDriver.Staged — op `staged`: run a history of staged-API operations on the model, with the
  uninterpreted compute functions interpreted freely (first-order terms printed as strings: two values are
  equal in the free interpretation iff they are equal under every interpretation).
-/
import MellonDriver.Core
import MellonModel.Staged
open Mellon Mellon.Staged

namespace Drv

def allAttrs : List Attr :=
  [.nLandmarks, .rank, .gpType, .distances, .nnDistances, .d, .mu, .ls, .lsTime, .covFunc, .landmarks, .lp, .l,
   .initialValue, .transform, .lossFunc]

def attrName : Attr → String
  | .nLandmarks => "n_landmarks" | .rank => "rank" | .gpType => "gp_type" | .distances => "distances"
  | .nnDistances => "nn_distances" | .d => "d" | .mu => "mu" | .ls => "ls" | .lsTime => "ls_time"
  | .covFunc => "cov_func" | .landmarks => "landmarks" | .lp => "Lp" | .l => "L"
  | .initialValue => "initial_value" | .transform => "transform" | .lossFunc => "loss_func"

def pAttr : P Attr := do
  let t ← tok
  match allAttrs.find? (fun a => attrName a == t) with
  | some a => return a
  | none => throw s!"attr? {t}"

def showView (vw : Attr → Option String) : String :=
  ",".intercalate (allAttrs.map fun a => match vw a with | some v => v | none => "_")

/-- the free interpretation -/
def termFuns (noneAttrs : List Attr) (needsY : Bool) : Funs Attr String where
  F := fun a d vw => if noneAttrs.contains a then none else some s!"{attrName a}[{d}]({showView vw})"
  opt := fun vw => s!"opt({showView vw})"
  post := fun vw p => s!"post({showView vw};{p})"
  condNeedsY := fun _ => needsY
  cond := fun d vw p y => s!"cond[{d}]({showView vw};{p};{y.getD "_"})"

def pArg : P (Option Tok) := do
  let t ← tok
  match t with
  | "N" => return none
  | "J" => return some { id := 1, jax := true, content := 0 }
  | "P" => return some { id := 2, jax := false, content := 0 }
  | "O" => return some { id := 3, jax := true, content := 1 }
  | "Q" => return some { id := 4, jax := false, content := 1 }
  | "E" => return some { id := 5, jax := true, content := 2 }
  | _ => throw s!"arg? {t}"

def pOp : P Op := do
  let t ← tok
  match t with
  | "SX" => return .setX (← pArg)
  | "PR" => return .prepare (← pArg)
  | "RU" => return .run
  | "PC" => return .process (← pBool)
  | "FI" => return .fit (← pArg) (← pBool)
  | "PD" => return .predict
  | "FP" => return .fitPredict (← pArg) (← pBool)
  | _ => throw s!"op? {t}"

def outcomeName : Outcome → String
  | .ok => "ok"
  | .valueError => "ValueError"
  | .error => "Error"

def bit (b : Bool) : String := if b then "1" else "0"

def bitmap (s : State Attr String) : String :=
  String.join (allAttrs.map fun a => bit (s.cache a).isSome) ++ bit s.pre.isSome ++ bit s.fitted.isSome ++
    bit s.predictor.isSome ++ bit s.x.isSome

def cmp (v : Option String) (ref : Option String) : String :=
  match v with
  | none => "N"
  | some a => if some a == ref then "E" else "D"

def handleStaged : Handler := fun op =>
  match op with
  | "staged" => some do
    let pt ← tok
    let pl ← (match pt with
      | "D" => pure densityPipeline
      | "T" => pure timePipeline
      | "M" => pure dimensionalityPipeline
      | _ => throw s!"pipeline? {pt}")
    let given ← pList pAttr
    let noneAttrs ← pList pAttr
    let needsY ← pBool
    let seeds ← pList pAttr
    let ops ← pList pOp
    let fn := termFuns noneAttrs needsY
    let init : Cache Attr String := fun a => if given.contains a then some s!"given:{attrName a}" else none
    -- the one-shot reference on the unseeded constructor arguments, data set 0
    let ref := (step pl fn (initState init 1000) (.fit (some { id := 1, jax := true, content := 0 }) true)).2
    let init' := seed seeds init ref.cache
    let mut s := initState init' 100
    let mut out : List String := []
    for o in ops do
      let r := step pl fn s o
      s := r.2
      out := (outcomeName r.1 ++ ":" ++ bitmap s ++ ":" ++ cmp s.fitted ref.fitted ++ cmp s.predictor ref.predictor
              ++ cmp s.pre ref.pre) :: out
    return "ok " ++ bitmap (initState init' 100) ++ " " ++ " ".intercalate out.reverse
  | "stagedpipe" => some do
    -- the transcribed source facts of a pipeline: order of the `_prepare_attribute` calls and read-sets
    let pt ← tok
    let pl ← (match pt with
      | "D" => pure densityPipeline
      | "T" => pure timePipeline
      | "M" => pure dimensionalityPipeline
      | _ => throw s!"pipeline? {pt}")
    let names := fun (l : List Attr) => ",".intercalate (l.map attrName)
    let reads := ";".intercalate (pl.order.map fun a => attrName a ++ ":" ++ names (pl.reads a))
    return s!"ok order={names pl.order} reads={reads} opt={names pl.optReads} post={names pl.postReads} condreq={names pl.condReq} cond={names pl.condReads}"
  | _ => none

end Drv
