/-
  MellonDriver.Core — token reader and output helpers of the line protocol.
  Floats travel as the decimal value of their IEEE-754 bit pattern (exact in both directions).
-/
import MellonModel.Scalar
open Mellon

namespace Drv

/-! ### token reader -/

structure Rd where
  toks : Array String
  pos : Nat := 0

abbrev P := StateT Rd (Except String)

def tok : P String := do
  let s ← get
  if h : s.pos < s.toks.size then
    set { s with pos := s.pos + 1 }
    return s.toks[s.pos]
  else throw "eof"

def pNat : P Nat := do
  let t ← tok
  match t.toNat? with
  | some n => return n
  | none => throw s!"nat? {t}"

def pInt : P Int := do
  let t ← tok
  match t.toInt? with
  | some n => return n
  | none => throw s!"int? {t}"

def pOptInt : P (Option Int) := do
  let t ← tok
  if t == "N" then return none
  match t.toInt? with
  | some n => return some n
  | none => throw s!"optint? {t}"

def pFlt : P Float := do
  let n ← pNat
  return Float.ofBits n.toUInt64

def pBool : P Bool := do
  let t ← tok
  if t == "T" then return true else if t == "F" then return false else throw s!"bool? {t}"

def pVec (n : Nat) : P (Vector Float n) := do
  let mut a : Array Float := Array.mkEmpty n
  for _ in [0:n] do
    a := a.push (← pFlt)
  if h : a.size = n then return ⟨a, h⟩ else throw "vec size"

def pMat (n m : Nat) : P (Mat Float n m) := do
  let mut a : Array (Vector Float m) := Array.mkEmpty n
  for _ in [0:n] do
    a := a.push (← pVec m)
  if h : a.size = n then return ⟨a, h⟩ else throw "mat size"

def pList {β : Type} (p : P β) : P (List β) := do
  let k ← pNat
  let mut l : List β := []
  for _ in [0:k] do
    l := (← p) :: l
  return l.reverse

/-! ### output helpers -/

def fb (x : Float) : String := toString x.toBits.toNat

def outVec {n : Nat} (v : Vector Float n) : String :=
  " ".intercalate (v.toList.map fb)

def outMat {n m : Nat} (A : Mat Float n m) : String :=
  " ".intercalate (A.toList.map outVec)


def pOptMat (n m : Nat) : P (Option (Mat Float n m)) := do
  let t ← tok
  match t with
  | "N" => return none
  | "Y" => return some (← pMat n m)
  | _ => throw s!"optmat? {t}"

/-- A handler looks at the op name and either declines (`none`) or parses the rest of the line. -/
abbrev Handler := String → Option (P String)

end Drv
