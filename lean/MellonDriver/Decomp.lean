/-
  MellonDriver.Decomp — ops `fullrank`, `stdlowrank`, `nysfactor`, `modfactor`, `modinner`.
-/
import MellonDriver.Cond
import MellonModel.Decomp
open Mellon

namespace Drv

def handleDecomp : Handler := fun op =>
  match op with
  | "fullrank" => some do
    let c ← pCov
    let n ← pNat; let d ← pNat
    let X ← pMat n d
    let sigma ← pFlt
    let jit ← pFlt
    if !c.WF d then return "err wf"
    match fullRank c X sigma jit with
    | some L => return "ok " ++ outMat L
    | none => return "ValueError:notPosDef"
  | "stdlowrank" => some do
    let c ← pCov
    let n ← pNat; let d ← pNat
    let X ← pMat n d
    let m ← pNat
    let Xu ← pMat m d
    let Lp ← pOptMat m m
    let sigma ← pFlt
    let jit ← pFlt
    if !c.WF d then return "err wf"
    match standardLowRank c X Xu Lp sigma jit with
    | some L => return "ok " ++ outMat L
    | none => return "ValueError:notPosDef"
  | "nysfactor" => some do
    let n ← pNat; let p ← pNat
    let V ← pMat n p
    let s ← pVec p
    return "ok " ++ outMat (nystroemFactor V s)
  | "modinner" => some do
    let m ← pNat
    let R ← pMat m m
    let v ← pMat m m
    let s ← pVec m
    return "ok " ++ outMat (modifiedInner R v s)
  | "modfactor" => some do
    let n ← pNat; let m ← pNat; let p ← pNat
    let Q ← pMat n m
    let V ← pMat m p
    let S ← pVec p
    return "ok " ++ outMat (modifiedFactor Q V S)
  | _ => none

end Drv
