import json, sys, os, glob
sys.path.insert(0, '/verif/.pydeps')
import jsonschema
jsonschema.validate(json.load(open('/verif/MANIFEST.json')), json.load(open('/root/.vp/MANIFEST.schema.json')))
sch = json.load(open('/root/.vp/EVIDENCE.schema.json'))
for f in sorted(glob.glob('/verif/evidence/*.json')):
    jsonschema.validate(json.load(open(f)), sch)
    print("ok", os.path.basename(f))
print("manifest valid")
