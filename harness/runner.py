"""check <Cxx> --tier quick|thorough [--replay file]

Verdict protocol (DESIGN.md §2.5):
  exit 0  property held on everything explored (KNOWN-FINDING lines allowed)
  exit 1  `VIOLATION property=<id> replay=<path>` (… `no-failing-input-found` when only a theorem or
          the correspondence broke and the search found no failing input on the implementation)
  exit 2  infrastructure failure
"""
import os, sys, json, time, argparse, importlib, hashlib, traceback, subprocess
import numpy as np
from . import common
from .common import VERIF, Result, jsonable, from_jsonable

TRUSTED_BASE = [
    "Lean 4.33.0 kernel; Mathlib v4.33.0 as a library of kernel-checked theorems",
    "axioms allowed: propext, Classical.choice, Quot.sound (audited with #print axioms on every obligation)",
    "no sorry/admit/axiom/native_decide/bv_decide/implemented_by/unsafe (textual audit on every run)",
    "hand-written Lean model (lean/MellonModel); tie to /repo = this correspondence check (differential "
    "testing of the model's executable definitions against the implementation, seeded, sampled)",
    "theorems are about the model at alpha = R (or exact Int/Rat/XF data); float64 rounding, overflow, jit and "
    "summation order are modelled away",
]


def known_findings():
    p = os.path.join(VERIF, "known_findings.json")
    if not os.path.exists(p):
        return {"findings": [], "fixed": []}
    with open(p) as f:
        return json.load(f)


def repo_rev():
    try:
        rev = subprocess.run(["git", "-C", common.REPO, "rev-parse", "HEAD"], capture_output=True, text=True).stdout.strip()
        diff = subprocess.run(["git", "-C", common.REPO, "diff", "HEAD"], capture_output=True, text=True).stdout
        return rev, hashlib.sha1(diff.encode()).hexdigest()[:12] if diff else "clean"
    except Exception:
        return "unknown", "unknown"


def write_replay(pid, finding, seed, extra=None):
    os.makedirs(os.path.join(VERIF, "replays"), exist_ok=True)
    rev, dh = repo_rev()
    body = {"property": pid, "kind": finding.kind, "what": finding.what, "case": finding.case,
            "detail": finding.detail, "signature": finding.signature, "seed": seed,
            "repo_rev": rev, "repo_diff": dh,
            "how_to_rerun": f"cd /verif && ./check {pid} --replay <this file>"}
    if extra:
        body.update(extra)
    txt = json.dumps(body, default=jsonable, indent=1)
    h = hashlib.sha1(txt.encode()).hexdigest()[:12]
    path = os.path.join("replays", f"{pid}-{h}.json")
    with open(os.path.join(VERIF, path), "w") as f:
        f.write(txt)
    return path


def main(argv=None):
    ap = argparse.ArgumentParser()
    ap.add_argument("pid")
    ap.add_argument("--tier", default=os.environ.get("VERIF_TIER", "quick"), choices=["quick", "thorough"])
    ap.add_argument("--replay", default=None)
    ap.add_argument("--budget", type=float, default=None, help="wall-clock budget in seconds for generation")
    args = ap.parse_args(argv)
    pid = args.pid
    seed = int(os.environ.get("VERIF_SEED", "0"))
    t0 = time.time()
    try:
        return _main(pid, args, seed, t0)
    except SystemExit:
        raise
    except Exception:
        traceback.print_exc()
        print(f"INFRA-ERROR property={pid}", flush=True)
        return 2


def _main(pid, args, seed, t0):
    from . import lean_audit
    tier = args.tier
    mod = importlib.import_module(f"harness.props.{pid.lower()}")

    # 1-2. build + audit
    aud = lean_audit.audit(pid, thorough=(tier == "thorough"))
    proof_broken = []
    if not aud["driver_ok"]:
        proof_broken.append("Lean model/driver does not build")
    if not aud["build_ok"]:
        proof_broken.append(f"proof module {aud['module']} does not build")
    for n, why in aud["failed"].items():
        proof_broken.append(f"theorem {n}: {why}")
    for h in aud["hits"]:
        proof_broken.append(f"forbidden construct {h}")

    # 3-5. corpus + correspondence + oracle
    res = Result(pid)
    ctx = {"seed": seed, "tier": tier, "rng": np.random.default_rng(np.random.PCG64(seed)),
           "t0": t0, "budget": args.budget, "driver": None, "pid": pid}
    if aud["driver_ok"]:
        ctx["driver"] = common.Driver()
    payloads = []
    if hasattr(mod, "run_case"):
        # An exception that escapes a case from INSIDE the implementation (innermost frames in the library under test) is a
        # finding about the implementation on an input the check considers legal - not an infrastructure failure of the
        # check: report it as a violation with the case as replay.  (On the unchanged tree no case raises.)
        import traceback
        _orig_run_case = mod.run_case
        _repo_root = os.path.realpath(os.environ.get("MELLON_REPO", "/repo"))

        def _guarded_run_case(ctx_, res_, p_):
            n_before = len(res_.findings)
            nan_before = len(getattr(res_, "nan_devs", []))
            try:
                out_ = _orig_run_case(ctx_, res_, p_)
                nans = getattr(res_, "nan_devs", [])[nan_before:]
                if nans and len(res_.findings) == n_before:
                    res_.oracle_fail(f"a compared quantity is NaN (deviation '{nans[0]}'): the comparison cannot hold", p_,
                                     detail={"deviations": sorted(set(nans))}, signature=f"{pid}:nan-deviation:{nans[0]}")
                return out_
            except Exception as exc:  # noqa
                if len(res_.findings) > n_before:
                    # the case has already produced a finding (e.g. the implementation's state has the wrong shape) and a
                    # later oracle of the same case tripped over it: the finding stands, the rest of the case is skipped
                    res_.count("case_aborted_after_finding")
                    return None
                frames = traceback.extract_tb(exc.__traceback__)
                inner = [f for f in frames if os.path.realpath(f.filename).startswith(_repo_root + os.sep)]
                last_harness = max((i for i, f in enumerate(frames) if os.sep + "harness" + os.sep in f.filename), default=-1)
                if inner and frames.index(inner[-1]) > last_harness:
                    where = "%s:%s" % (os.path.relpath(inner[-1].filename, _repo_root), inner[-1].name)
                    res_.oracle_fail(f"the implementation raised {type(exc).__name__} on an input of the check ({where})",
                                     p_, detail={"error": str(exc)[:300], "where": where},
                                     signature=f"{pid}:impl-raises:{type(exc).__name__}:{inner[-1].name}")
                    return None
                if isinstance(exc, (RuntimeError, OSError, MemoryError)) and "driver" in str(exc).lower():
                    raise            # the model driver / the machine failed: infrastructure
                # An oracle of the check could not be evaluated on what the implementation returned (wrong shape, wrong
                # type, None ...).  No case raises on the unchanged tree (all seeds run so far), so this is reported as a
                # violation without a confirmed failing input rather than as an infrastructure failure: the case is the replay.
                hf = [f for f in frames if os.sep + "harness" + os.sep in f.filename]
                at = "%s:%d" % (os.path.basename(hf[-1].filename), hf[-1].lineno) if hf else "?"
                res_.corr_fail(f"an oracle could not be evaluated on the implementation's output "
                               f"({type(exc).__name__} at {at}: {str(exc)[:160]})", p_,
                               detail={"exception": type(exc).__name__, "at": at})
                res_.count("case_crashed")
                return None
        mod.run_case = _guarded_run_case
    if args.replay:
        with open(args.replay if os.path.isabs(args.replay) else os.path.join(VERIF, args.replay)) as f:
            rp = json.load(f)
        payloads = [from_jsonable(rp["case"])] if rp.get("case") is not None else []
        if hasattr(mod, "run_case"):
            for p in payloads:
                mod.run_case(ctx, res, p)
        else:
            mod.run(ctx, res)
    else:
        corpus_dir = os.path.join(VERIF, "corpus", pid)
        n_corpus = 0
        if os.path.isdir(corpus_dir) and hasattr(mod, "run_case"):
            for fn in sorted(os.listdir(corpus_dir)):
                with open(os.path.join(corpus_dir, fn)) as f:
                    mod.run_case(ctx, res, from_jsonable(json.load(f)["case"]))
                n_corpus += 1
        res.count("corpus_replayed", n_corpus)
        mod.run(ctx, res)
    if ctx["driver"] is not None:
        ctx["driver"].close()

    # 6. verdict
    kf = known_findings()
    known = {(k["property"], k["signature"]): k for k in kf.get("findings", [])}
    lines, violations, seen_known = [], [], {}
    oracle_new = [f for f in res.findings if f.kind == "oracle" and (pid, f.signature) not in known]
    oracle_known = [f for f in res.findings if f.kind == "oracle" and (pid, f.signature) in known]
    corr = [f for f in res.findings if f.kind == "corr"]
    for f in oracle_known:
        seen_known.setdefault(f.signature, f)
    for sig, f in seen_known.items():
        lines.append(f"KNOWN-FINDING: property={pid} {known[(pid, sig)]['what']}")
    if oracle_new:
        # one VIOLATION line per distinct signature
        bysig = {}
        for f in oracle_new:
            bysig.setdefault(f.signature or f.what, f)
        for f in bysig.values():
            path = write_replay(pid, f, seed)
            lines.append(f"VIOLATION property={pid} replay={path}")
            violations.append(f.what)
    elif corr or proof_broken:
        # the tie or a proof obligation broke and the search found no failing input
        f = corr[0] if corr else common.Finding("proof", "; ".join(proof_broken), None)
        path = write_replay(pid, f, seed, {"broken_obligations": proof_broken,
                                            "correspondence_disagreements": [c.what for c in corr[:20]],
                                            "note": "no input on which the property itself fails was found"})
        lines.append(f"VIOLATION property={pid} replay={path} no-failing-input-found")
        violations.append(f.what)

    # 7. evidence
    wall = time.time() - t0
    cov = {
        "obligations": len(aud["obligations"]),
        "discharged": len(aud["discharged"]),
        "checker_cmd": f"cd lean && lake build {aud['module']} && lake env lean <#print axioms of each obligation>"
                       + (" && lake env leanchecker " + aud["module"] if tier == "thorough" else ""),
        "trusted_base": TRUSTED_BASE + getattr(mod, "TRUSTED_EXTRA", []),
        "theorems": aud["obligations"],
        "theorems_failed": aud["failed"],
        "audit_cached": aud.get("cached", False),
        "leanchecker": aud.get("leanchecker"),
        "evaluations": res.evaluations,
        "distinct_nontrivial": len(res.nontrivial),
        "rule": res.rule or getattr(mod, "RULE", ""),
        "samples": res.samples[:6] if res.samples else [{"note": "no case generated"}],
        "input_distribution": res.dist,
        "max_rel_dev": res.max_dev,
        "exhaustive": bool(res.exhaustive),
        "partial_clauses": getattr(mod, "PARTIAL", []),
        "known_findings_seen": sorted(k for k in seen_known if k),
        "correspondence_disagreements": len(corr),
        "oracle_failures": len(oracle_new),
        "notes": res.notes[:20],
    }
    ev = {"property_id": pid, "tier": tier, "seed": seed, "level": "proof", "coverage": cov,
          "assumptions": getattr(mod, "ASSUMPTIONS", []), "wall_s": round(wall, 2),
          "violations": len(violations)}
    if not args.replay:
        os.makedirs(os.path.join(VERIF, "evidence"), exist_ok=True)
        with open(os.path.join(VERIF, "evidence", f"{pid}.json"), "w") as f:
            json.dump(ev, f, indent=1, default=jsonable)
    for l in lines:
        print(l, flush=True)
    print(f"[{pid}] tier={tier} seed={seed} theorems={len(aud['discharged'])}/{len(aud['obligations'])} "
          f"cases={res.evaluations} distinct={len(res.nontrivial)} corr_disagree={len(corr)} "
          f"oracle_fail={len(oracle_new)} known={len(seen_known)} wall={wall:.1f}s", flush=True)
    return 1 if violations else 0


if __name__ == "__main__":
    sys.exit(main())
