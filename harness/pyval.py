"""Python values <-> JSON-able "spec" <-> driver tokens <-> canonical comparable form.

spec (JSON-able, used in payloads / replay files):
  ["N"] | ["B", bool] | ["I", int] | ["F", bits] | ["S", str]
  ["NI", int, npdtype] | ["NF", bits_of_float64_value, npdtype] | ["NB", bool]
  ["A", lib, dt, shape, elems]     lib in {"np","jnp"}, dt in {"f","i","b"}, elems = bits / ints / bools (flat)
  ["SL", a, b, c] | ["D", [[key, v], ...]] | ["ST", [v, ...]] | ["L", [...]] | ["T", [...]] | ["O", name]

canonical form (hashable nested tuples; what is compared between implementation and model):
  ("N",) ("B",b) ("I",n) ("F",bits) ("S",s) ("NI",n) ("NF",bits) ("NB",b) ("A",dt,shape,elems)
  ("SL",a,b,c) ("D", sorted items) ("ST", sorted elements) ("L", items) ("T", items) ("O", name)
"""
import struct
import numpy as np

DT = {"f": "float64", "i": "int64", "b": "bool"}
DT_INV = {v: k for k, v in DT.items()}


def fbits(x):
    return struct.unpack("<Q", struct.pack("<d", float(x)))[0]


def unfbits(b):
    return struct.unpack("<d", struct.pack("<Q", int(b)))[0]


def is_nan_bits(b):
    return (b & 0x7FFFFFFFFFFFFFFF) > 0x7FF0000000000000


def canon_nan(b):
    return 0x7FF8000000000000 if is_nan_bits(b) else b


def hexs(s):
    return s.encode("utf-8").hex() if s else "-"


def unhexs(h):
    return "" if h == "-" else bytes.fromhex(h).decode("utf-8")


# ------------------------------------------------------------------ spec -> python object

def spec_to_py(sp):
    import jax.numpy as jnp
    t = sp[0]
    if t == "N":
        return None
    if t == "B":
        return bool(sp[1])
    if t == "I":
        return int(sp[1])
    if t == "F":
        return unfbits(sp[1])
    if t == "S":
        return str(sp[1])
    if t == "NI":
        return getattr(np, sp[2])(int(sp[1]))
    if t == "NF":
        return getattr(np, sp[2])(unfbits(sp[1]))
    if t == "NB":
        return np.bool_(sp[1])
    if t == "A":
        lib, dt, shape, elems = sp[1], sp[2], tuple(sp[3]), sp[4]
        if dt == "f":
            a = np.array([int(e) for e in elems], dtype=np.uint64).view(np.float64).reshape(shape)
        elif dt == "i":
            a = np.array([int(e) for e in elems], dtype=np.int64).reshape(shape)
        else:
            a = np.array([bool(e) for e in elems], dtype=bool).reshape(shape)
        return a if lib == "np" else jnp.asarray(a)
    if t == "SL":
        return slice(spec_to_py(sp[1]), spec_to_py(sp[2]), spec_to_py(sp[3]))
    if t == "D":
        return {k: spec_to_py(v) for k, v in sp[1]}
    if t == "ST":
        return {spec_to_py(v) for v in sp[1]}
    if t == "L":
        return [spec_to_py(v) for v in sp[1]]
    if t == "T":
        return tuple(spec_to_py(v) for v in sp[1])
    if t == "O":
        return {"bytes": b"ab", "complex": 1 + 2j, "frozenset": frozenset({1})}[sp[1]]
    raise ValueError(sp)


# ------------------------------------------------------------------ spec -> driver tokens

def spec_tokens(sp):
    t = sp[0]
    if t == "N":
        return "N"
    if t in ("B", "NB"):
        return f"{t} {'T' if sp[1] else 'F'}"
    if t in ("I", "NI"):
        return f"{t} {int(sp[1])}"
    if t in ("F", "NF"):
        return f"{t} {int(sp[1])}"
    if t == "S":
        return "S " + hexs(sp[1])
    if t == "A":
        dt, shape, elems = sp[2], sp[3], sp[4]
        if dt == "b":
            el = ["T" if e else "F" for e in elems]
        else:
            el = [str(int(e)) for e in elems]
        return " ".join(["A", dt, str(len(shape))] + [str(int(s)) for s in shape] + [str(len(el))] + el)
    if t == "SL":
        return " ".join(["SL", spec_tokens(sp[1]), spec_tokens(sp[2]), spec_tokens(sp[3])])
    if t == "D":
        return " ".join(["D", str(len(sp[1]))] + [hexs(k) + " " + spec_tokens(v) for k, v in sp[1]])
    if t in ("ST", "L", "T"):
        return " ".join([t, str(len(sp[1]))] + [spec_tokens(v) for v in sp[1]])
    if t == "O":
        return "O " + hexs(sp[1])
    raise ValueError(sp)


# ------------------------------------------------------------------ python object -> spec (what the object IS)

class Unsupported(Exception):
    pass


def py_to_spec(o):
    """Spec of an arbitrary Python object produced by the implementation (sets in iteration order)."""
    import jax
    if o is None:
        return ["N"]
    if isinstance(o, np.bool_):
        return ["NB", bool(o)]
    if isinstance(o, bool):
        return ["B", o]
    if isinstance(o, np.integer):
        return ["NI", int(o), o.dtype.name]
    if isinstance(o, np.floating):
        return ["NF", fbits(float(o)), o.dtype.name]
    if isinstance(o, int):
        return ["I", o]
    if isinstance(o, float):
        return ["F", fbits(o)]
    if isinstance(o, str):
        return ["S", o]
    if isinstance(o, (np.ndarray, jax.Array)):
        lib = "np" if isinstance(o, np.ndarray) else "jnp"
        a = np.asarray(o)
        name = a.dtype.name
        if name not in DT_INV:
            raise Unsupported("dtype " + name)
        dt = DT_INV[name]
        flat = np.ascontiguousarray(a).reshape(-1)
        if dt == "f":
            elems = [int(v) for v in flat.view(np.uint64)]
        elif dt == "i":
            elems = [int(v) for v in flat]
        else:
            elems = [bool(v) for v in flat]
        return ["A", lib, dt, [int(s) for s in a.shape], elems]
    if isinstance(o, slice):
        return ["SL", py_to_spec(o.start), py_to_spec(o.stop), py_to_spec(o.step)]
    if isinstance(o, dict):
        for k in o:
            if not isinstance(k, str):
                raise Unsupported("non-string key")
        return ["D", [[k, py_to_spec(v)] for k, v in o.items()]]
    if isinstance(o, set):
        return ["ST", [py_to_spec(v) for v in o]]
    if isinstance(o, list):
        return ["L", [py_to_spec(v) for v in o]]
    if isinstance(o, tuple):
        return ["T", [py_to_spec(v) for v in o]]
    return ["O", type(o).__name__]


# ------------------------------------------------------------------ canonical comparable form

def canon(sp):
    t = sp[0]
    if t == "N":
        return ("N",)
    if t in ("B", "I", "F", "S", "NB", "O"):
        return (t, sp[1])
    if t in ("NI", "NF"):
        return (t, sp[1])
    if t == "A":
        return ("A", sp[2], tuple(int(s) for s in sp[3]), tuple(sp[4]))
    if t == "SL":
        return ("SL", canon(sp[1]), canon(sp[2]), canon(sp[3]))
    if t == "D":
        return ("D", tuple(sorted(((k, canon(v)) for k, v in sp[1]), key=lambda kv: kv[0])))
    if t == "ST":
        return ("ST", tuple(sorted((canon(v) for v in sp[1]), key=repr)))
    if t in ("L", "T"):
        return (t, tuple(canon(v) for v in sp[1]))
    raise ValueError(sp)


def py_canon(o):
    return canon(py_to_spec(o))


# ------------------------------------------------------------------ driver tokens -> spec

class _Rd:
    def __init__(self, toks):
        self.t = toks
        self.i = 0

    def tok(self):
        v = self.t[self.i]
        self.i += 1
        return v


def _parse(r):
    t = r.tok()
    if t == "N":
        return ["N"]
    if t in ("B", "NB"):
        return [t, r.tok() == "T"]
    if t == "I":
        return ["I", int(r.tok())]
    if t == "NI":
        return ["NI", int(r.tok()), "int64"]
    if t == "F":
        return ["F", int(r.tok())]
    if t == "NF":
        return ["NF", int(r.tok()), "float64"]
    if t == "S":
        return ["S", unhexs(r.tok())]
    if t == "O":
        return ["O", unhexs(r.tok())]
    if t == "A":
        dt = r.tok()
        rank = int(r.tok())
        shape = [int(r.tok()) for _ in range(rank)]
        n = int(r.tok())
        raw = [r.tok() for _ in range(n)]
        elems = [x == "T" for x in raw] if dt == "b" else [int(x) for x in raw]
        return ["A", "jnp", dt, shape, elems]
    if t == "SL":
        return ["SL", _parse(r), _parse(r), _parse(r)]
    if t == "D":
        n = int(r.tok())
        out = []
        for _ in range(n):
            k = unhexs(r.tok())
            out.append([k, _parse(r)])
        return ["D", out]
    if t in ("ST", "L", "T"):
        n = int(r.tok())
        return [t, [_parse(r) for _ in range(n)]]
    raise ValueError("token " + t)


def tokens_to_spec(toks):
    r = _Rd(toks)
    sp = _parse(r)
    return sp, r.i


def reply_canon(reply):
    """Driver reply -> ('ok', canon) | ('err', class)."""
    if reply.startswith("ok "):
        sp, n = tokens_to_spec(reply.split()[1:])
        return ("ok", canon(sp))
    cls = reply.split(":")[0]
    if cls == "Internal":
        return ("err", reply.strip())
    return ("err", cls if cls in ("ValueError", "TypeError") else reply.strip())


# ------------------------------------------------------------------ independent equivalence (oracle side)

def equiv(a, b, through_json=True):
    """The property's notion of 'survives': same kind of value, NumPy scalars may come back as Python
    scalars of equal value, floats bit-identical (any NaN for a NaN when the value went through JSON
    text), arrays with equal dtype, shape and bits, sets/dicts compared as sets/dicts.  `a` is what
    came back, `b` the original.  Written against Python objects, independently of the Lean model."""
    import jax
    fb = (lambda x: canon_nan(fbits(x))) if through_json else fbits
    if b is None:
        return a is None
    if isinstance(b, (bool, np.bool_)):
        return isinstance(a, (bool, np.bool_)) and bool(a) == bool(b)
    if isinstance(b, (int, np.integer)):
        return isinstance(a, (int, np.integer)) and not isinstance(a, (bool, np.bool_)) and int(a) == int(b)
    if isinstance(b, (float, np.floating)):
        return isinstance(a, (float, np.floating)) and fb(a) == fb(b)
    if isinstance(b, str):
        return isinstance(a, str) and a == b
    if isinstance(b, (np.ndarray, jax.Array)):
        if not isinstance(a, (np.ndarray, jax.Array)):
            return False
        x, y = np.asarray(a), np.asarray(b)
        if x.dtype != y.dtype or x.shape != y.shape:
            return False
        if x.dtype.kind == "f":
            xb = np.ascontiguousarray(x, dtype=np.float64).reshape(-1).view(np.uint64)
            yb = np.ascontiguousarray(y, dtype=np.float64).reshape(-1).view(np.uint64)
            if through_json:
                return [canon_nan(int(v)) for v in xb] == [canon_nan(int(v)) for v in yb]
            return xb.tobytes() == yb.tobytes()
        return x.tobytes() == y.tobytes()
    if isinstance(b, slice):
        return isinstance(a, slice) and all(equiv(p, q, through_json) for p, q in
                                            zip((a.start, a.stop, a.step), (b.start, b.stop, b.step)))
    if isinstance(b, dict):
        return (isinstance(a, dict) and set(a.keys()) == set(b.keys())
                and all(equiv(a[k], b[k], through_json) for k in b))
    if isinstance(b, (set, frozenset)):
        if not isinstance(a, (set, frozenset)) or len(a) != len(b):
            return False
        rest = list(a)
        for y in b:
            for i, x in enumerate(rest):
                if equiv(x, y, through_json):
                    del rest[i]
                    break
            else:
                return False
        return True
    if isinstance(b, (list, tuple)):
        return (type(a) is type(b) and len(a) == len(b)
                and all(equiv(p, q, through_json) for p, q in zip(a, b)))
    return False


def only_json_types(o):
    if o is None or isinstance(o, (bool, int, float, str)):
        return type(o) in (type(None), bool, int, float, str)
    if type(o) is list:
        return all(only_json_types(v) for v in o)
    if type(o) is dict:
        return all(type(k) is str and only_json_types(v) for k, v in o.items())
    return False
