"""Regenerate the table of seeded changes in DESIGN.md (between the SEEDED-TABLE markers) from seeded/*/meta.json."""
import os, json, glob, re
from .common import VERIF

def main():
    rows = []
    for d in sorted(glob.glob(os.path.join(VERIF, "seeded", "*"))):
        m = json.load(open(os.path.join(d, "meta.json")))
        name = os.path.basename(d)
        summ = (m.get("summary") or "").replace("\n", " ").replace("|", "/")
        needs = (m.get("needs_to_manifest") or "").replace("\n", " ").replace("|", "/")
        sigs = sorted({re.sub(r"^.*replay=replays/|\.json.*$", "", l) for l in m.get("check_output", []) if "VIOLATION" in l})
        det = "yes" if m.get("detected") else "NO"
        if m.get("initially_missed"):
            det += " (after strengthening: " + m.get("strengthening", "").replace("|", "/") + ")"
        rows.append(f"| {name} | {m.get('property')} | {summ[:260]} | {needs[:200]} | {det} |")
    tab = ("| id | property | change | needs to manifest | caught by `./check <property>` |\n|---|---|---|---|---|\n" + "\n".join(rows))
    p = os.path.join(VERIF, "DESIGN.md")
    s = open(p).read()
    b, e = "<!-- SEEDED-TABLE-BEGIN -->", "<!-- SEEDED-TABLE-END -->"
    if b in s:
        s = s[:s.index(b) + len(b)] + "\n" + tab + "\n" + s[s.index(e):]
    else:
        s += ("\n### 12.5 Seeded changes (independent agents) and which check catches them\n\n"
              "Each change was produced by a fresh sub-agent that saw only the property's text and a scratch worktree, was\n"
              "confirmed here (demo exits 0 on the clean tree, 1 with the patch; relevant repo tests still pass) and is kept\n"
              "under `seeded/<id>/` (patch.diff, demo.py, meta.json incl. the check's output). Changes that a check missed at first\n"
              "led to the strengthening noted in the last column.\n\n" + b + "\n" + tab + "\n" + e + "\n")
    open(p, "w").write(s)
    print(len(rows), "rows")

if __name__ == "__main__":
    main()
