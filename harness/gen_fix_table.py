"""Regenerate the fix table of DESIGN.md §12.1 from known_findings.json (`fixed:` entries)."""
import json, os, re

ROOT = os.path.dirname(os.path.dirname(os.path.abspath(__file__)))
HEAD = "| property | fix commit | what failed before |"


def main():
    k = json.load(open(os.path.join(ROOT, "known_findings.json")))
    rows = []
    for e in k["fixed"]:
        m = re.match(r"fixed: property=(C\d+) (\w+) (.*)", e, re.S)
        rows.append("| %s | `%s` | %s |" % (m.group(1), m.group(2), m.group(3).replace("|", "\\|").replace("\n", " ")))
    p = os.path.join(ROOT, "DESIGN.md")
    lines = open(p).read().split("\n")
    i = lines.index(HEAD)
    j = i + 2
    while j < len(lines) and lines[j].startswith("|"):
        j += 1
    lines[i + 2:j] = rows
    open(p, "w").write("\n".join(lines))
    print("fix table: %d rows" % len(rows))


if __name__ == "__main__":
    main()
