"""Regenerate lean/obligations.json: every `theorem` declared in MellonProofs/Cxx.lean (namespace
Mellon.Cxx) is an obligation of property Cxx."""
import os, re, json
from .common import LEAN_DIR

def main():
    out = {}
    d = os.path.join(LEAN_DIR, "MellonProofs")
    for fn in sorted(os.listdir(d)):
        m = re.fullmatch(r"(C\d\d)\.lean", fn)
        if not m:
            continue
        pid = m.group(1)
        src = open(os.path.join(d, fn)).read()
        names = re.findall(r"^theorem\s+([A-Za-z_][A-Za-z0-9_'.]*)", src, re.M)
        out[pid] = {"module": f"MellonProofs.{pid}", "theorems": [f"Mellon.{pid}.{n}" for n in names]}
    # root import file of the proofs library: every file under MellonProofs/
    mods = sorted(fn[:-5] for fn in os.listdir(d) if fn.endswith(".lean"))
    with open(os.path.join(LEAN_DIR, "MellonProofs.lean"), "w") as f:
        f.write("".join(f"import MellonProofs.{m}\n" for m in mods))
    with open(os.path.join(LEAN_DIR, "obligations.json"), "w") as f:
        json.dump(out, f, indent=1)
    for k, v in out.items():
        print(k, len(v["theorems"]))

if __name__ == "__main__":
    main()
