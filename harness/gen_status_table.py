"""Regenerate the per-property status table in DESIGN.md (between STATUS-TABLE markers)."""
import os, json, importlib
from .common import VERIF, LEAN_DIR

def main():
    obl = json.load(open(os.path.join(LEAN_DIR, "obligations.json")))
    rows = []
    for i in range(1, 21):
        pid = f"C{i:02d}"
        mod = importlib.import_module(f"harness.props.{pid.lower()}")
        n = len(obl.get(pid, {}).get("theorems", []))
        partial = "; ".join(getattr(mod, "PARTIAL", [])) or "—"
        partial = partial.replace("|", "/").replace("\n", " ")
        rows.append(f"| {pid} | {n} | {partial[:420]} |")
    tab = "| id | theorems (all audited: axioms ⊆ propext, Classical.choice, Quot.sound) | clauses covered by the correspondence runs only / named hypotheses |\n|---|---|---|\n" + "\n".join(rows)
    p = os.path.join(VERIF, "DESIGN.md")
    s = open(p).read()
    b, e = "<!-- STATUS-TABLE-BEGIN -->", "<!-- STATUS-TABLE-END -->"
    if b in s:
        s = s[:s.index(b) + len(b)] + "\n" + tab + "\n" + s[s.index(e):]
    else:
        s += ("\n### 12.6 Status per property\n\nAll 20 properties are claimed at level `proof`; `MANIFEST.json` has no `not_applicable` entry. "
              "Theorem lists are in `lean/obligations.json` (generated from `lean/MellonProofs/Cxx.lean`); what each theorem says is in the "
              "file and summarised in `reports/REPORT_*.md` for the properties built by sub-agents.\n\n" + b + "\n" + tab + "\n" + e + "\n")
    open(p, "w").write(s)
    print("ok")

if __name__ == "__main__":
    main()
