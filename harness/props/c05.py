"""C05 — kernels compute their documented closed forms and are valid covariances."""
import time, itertools
import numpy as np
from ..common import (mellon, bits, unbits, cov_to_mellon, cov_to_mellon_ops, cov_tokens, cov_depth, cov_str, gen_cov, gen_ad,
                      gen_points, loguniform, LEAVES, STATIONARY, ad_indices, rel_err, totuple, fbit)
from .. import covoracle as co
from .. import gradoracle as go

RULE = ("cases = (kernel expression tree, point sets X, Y); generated from the Cov grammar (6 kernels, 5 operators, "
        "6 active_dims forms) x structured point sets (plain/clustered/near-duplicate/anisotropic, coincident rows, "
        "coordinates up to 1e2); distinct = distinct (tree, data) hash; non-trivial = at least one pair of rows whose "
        "kernel value is neither 0 nor 1 and tree width >= 1")
PARTIAL = ["strict positivity k>0 is a real-number statement: float64 underflows to 0 for r >~ 38 (checked as k >= 0)",
           "Gram PSD is proved in Lean for ExpQuad and Linear leaves and for every expression over PSD leaves (sums, "
           "products by the Schur product theorem, natural powers, non-negative scalars, active_dims): gram_psd_of_tree; for "
           "the Matern 3/2, 5/2, Exponential and RatQuad leaves (Bochner) and non-integer powers it is a named hypothesis, "
           "exercised numerically here (eigvalsh)"]
ASSUMPTIONS = ["JAX/XLA float64 evaluation of the kernels is compared with the model within the cancellation interval "
               "of xx-2xy+yy (covoracle.py)"]


def impl_cov(tree, X, Y):
    c = cov_to_mellon(tree)
    return np.asarray(c(X, Y), dtype=float), c


def model_cov(ctx, tree, X, Y):
    n, d = X.shape
    m = Y.shape[0]
    out = ctx["driver"].ask(f"cov {cov_tokens(tree)} {n} {d} {bits(X)} {m} {bits(Y)}")
    if not out.startswith("ok"):
        return out
    return unbits(out.split()[1:], (n, m))


def run_case(ctx, res, p):
    op = p["op"]
    if op == "cov":
        return case_cov(ctx, res, p)
    if op == "timecov":
        return case_timecov(ctx, res, p)
    raise ValueError(op)


def case_cov(ctx, res, p):
    tree = totuple(p["tree"])
    X, Y = np.asarray(p["X"], float), np.asarray(p["Y"], float)
    n, d = X.shape
    res.count("depth=%d" % cov_depth(tree))
    res.count("root=" + tree[0])
    res.count("ad=" + tree[-1][0])
    res.count("d=%d" % d if d <= 6 else "d>6")
    res.count("stream=" + p.get("stream", "?"))
    sample = {"op": "cov", "tree": cov_str(tree), "X_shape": list(X.shape), "Y_shape": list(Y.shape),
              "stream": p.get("stream")}
    try:
        K, c = impl_cov(tree, X, Y)
    except Exception as e:
        res.case(("cov", cov_str(tree), X.tobytes(), Y.tobytes()), False, sample)
        res.oracle_fail(f"kernel evaluation raised {type(e).__name__}: {e}", p, signature="C05:eval-raises")
        return
    nontrivial = bool(np.any((K != 0) & (K != 1)))
    res.case(("cov", cov_str(tree), X.tobytes(), Y.tobytes()), nontrivial, sample)
    lo, hi = go.value_interval(tree, X, Y)
    # --- property oracle 1: documented closed form / algebra / active dims
    ok = co.inside(K, lo, hi)
    if not np.all(ok):
        i, j = np.argwhere(~ok)[0]
        res.oracle_fail("kernel value outside the documented closed form", p,
                        detail={"i": int(i), "j": int(j), "impl": float(K[i, j]), "lo": float(lo[i, j]),
                                "hi": float(hi[i, j])}, signature="C05:closed-form")
    # --- the same tree written with the public operators (k + c, c * k, k ** p, ...) obeys the same closed form
    if tree[0] not in LEAVES:
        try:
            Kop = np.asarray(cov_to_mellon_ops(tree)(X, Y), dtype=float)
        except Exception as e:
            res.oracle_fail(f"operator-built kernel raised {type(e).__name__}: {e}", p, signature="C05:operator-raises")
            Kop = None
        if Kop is not None:
            okop = co.inside(Kop, lo, hi) if Kop.shape == K.shape else np.zeros((1, 1), bool)
            if not np.all(okop):
                i, j = np.argwhere(~okop)[0]
                res.oracle_fail("tree built with + * ** is not the pointwise sum/product/power of its operands on "
                                "their own active dimensions", p,
                                detail={"i": int(i), "j": int(j), "constructor_built": float(K[i, j]) if Kop.shape == K.shape else None,
                                        "operator_built": float(Kop[i, j]) if Kop.shape == K.shape else None},
                                signature="C05:operator-composition")
            res.count("operator_built=checked")
    # --- correspondence: model in the same interval and close to impl
    if ctx["driver"] is not None:
        Km = model_cov(ctx, tree, X, Y)
        if isinstance(Km, str):
            res.corr_fail(f"model refuses tree the implementation evaluates: {Km}", p)
        else:
            okm = co.inside(Km, lo, hi)
            width = (hi - lo) + 1e-13 * np.maximum(np.abs(hi), np.abs(lo)) + 1e-300
            dev = np.abs(Km - K) / width
            res.dev("cov_model_vs_impl_in_interval_widths", np.nanmax(dev) if dev.size else 0)
            if not np.all(okm) or np.nanmax(dev, initial=0) > 1.5:
                res.corr_fail("model and implementation kernel values differ", p,
                              detail={"max_dev_in_widths": float(np.nanmax(dev)),
                                      "model_inside": bool(np.all(okm))})
    # --- property oracle 2: symmetry, range, self covariance, diag, PSD, inactive dims (X against itself)
    Kxx, _ = impl_cov(tree, X, X)
    lo2, hi2 = go.value_interval(tree, X, X)
    w2 = (hi2 - lo2) + 1e-13 * np.maximum(np.abs(hi2), np.abs(lo2))
    if np.any(np.abs(Kxx - Kxx.T) > np.maximum(w2, w2.T) + 1e-300):
        res.oracle_fail("cov(X, X) is not symmetric", p, signature="C05:symmetry")
    dg = np.asarray(c.diag(X), float)
    if dg.shape != (n,) or np.any(np.abs(dg - np.diag(Kxx)) > np.diag(w2) + 1e-300):
        res.oracle_fail("cov.diag(X) differs from the diagonal of cov(X, X)", p, signature="C05:diag")
    if tree[0] in STATIONARY:
        if np.any(K < 0) or np.any(K > 1 + 1e-15):
            res.oracle_fail("stationary kernel value outside [0, 1]", p, signature="C05:range")
        ls = tree[2] if tree[0] == "RQ" else tree[1]
        # unit self covariance up to the regulariser: 1 - c*1e-12/ls^2 <= k(x,x) <= 1
        if np.any(np.diag(Kxx) > 1 + 1e-15) or np.any(np.diag(Kxx) < np.diag(lo2) - 1e-15):
            res.oracle_fail("self covariance not 1 (up to the regulariser)", p, signature="C05:self")
    if psd_expected(tree) and p.get("stream") == "sharp":
        ev = np.linalg.eigvalsh((Kxx + Kxx.T) / 2)
        tol = 1e-10 * max(1.0, np.max(np.abs(Kxx))) * n
        res.dev("min_eig_over_scale", max(0.0, -ev[0]) / max(1.0, np.max(np.abs(Kxx))))
        if ev[0] < -tol:
            res.oracle_fail("Gram matrix not positive semi-definite", p, detail={"min_eig": float(ev[0])},
                            signature="C05:psd")
    # inactive dimensions never influence a value (bitwise)
    reach = co.reachable_columns(tree, list(range(d)))
    inactive = [j for j in range(d) if j not in reach]
    res.count("inactive_cols=%d" % min(len(inactive), 3))
    if inactive:
        rng = np.random.default_rng(int(abs(X).sum() * 1e6) % (2 ** 32))
        X2, Y2 = X.copy(), Y.copy()
        X2[:, inactive] = rng.normal(size=(n, len(inactive))) * 50
        Y2[:, inactive] = rng.normal(size=(Y.shape[0], len(inactive))) * 50
        K2, _ = impl_cov(tree, X2, Y2)
        if K2.tobytes() != K.tobytes():
            res.oracle_fail("inactive dimensions influence the kernel value", p,
                            detail={"inactive": inactive, "max_abs_diff": float(np.max(np.abs(K2 - K)))},
                            signature="C05:inactive")


def psd_expected(t):
    """Trees for which positive semi-definiteness is claimed (sums/products with non-negative scalars;
    powers of PSD kernels are not PSD in general, so they are excluded)."""
    k = t[0]
    if k in LEAVES:
        return True
    if k in ("ADD", "MUL"):
        return psd_expected(t[1]) and psd_expected(t[2])
    if k in ("ADDC", "MULC"):
        return psd_expected(t[1]) and t[2] >= 0
    return False


def case_timecov(ctx, res, p):
    m = mellon()
    kind, ls, lst = p["kind"], float(p["ls"]), float(p["ls_time"])
    X, Y = np.asarray(p["X"], float), np.asarray(p["Y"], float)
    curry = {"M32": m.cov.Matern32, "M52": m.cov.Matern52, "EQ": m.cov.ExpQuad, "EX": m.cov.Exponential,
             "LIN": m.cov.Linear}[kind]
    from mellon.parameters import compute_cov_func
    c = compute_cov_func(curry, ls, lst)
    K = np.asarray(c(X, Y), float)
    tree = ("MUL", (kind, ls, ("AS", None, -1, None)), (kind, lst, ("AI", -1)), ("AN",))
    res.case(("timecov", kind, ls, lst, X.tobytes(), Y.tobytes()), True,
             {"op": "timecov", "kind": kind, "ls": ls, "ls_time": lst, "X_shape": list(X.shape)})
    res.count("timecov")
    lo, hi = co.interval(tree, X, Y)
    if not np.all(co.inside(K, lo, hi)):
        res.oracle_fail("time-aware covariance is not state kernel x time kernel", p, signature="C05:timecov")
    if ctx["driver"] is not None:
        Km = model_cov(ctx, tree, X, Y)
        if isinstance(Km, str) or not np.all(co.inside(Km, lo, hi)):
            res.corr_fail("model timeCov differs", p)


def gen_case(rng, stream, depth, d=None, tree=None):
    # a small menu of shapes: every new shape costs ~30 ms of XLA compilation per primitive
    n, m, d0 = [(4, 4, 1), (4, 4, 2), (4, 4, 3), (3, 5, 3), (4, 4, 5), (4, 4, 25)][int(rng.integers(6))]
    if d is None:
        d = d0
    else:
        n = m = 4
    if stream == "sharp":
        X, _ = gen_points(rng, n, d, kind="plain", scale=loguniform(rng, 0.3, 3.0))
        Y, _ = gen_points(rng, m, d, kind="plain", scale=loguniform(rng, 0.3, 3.0))
        ls_range = (0.3, 30.0)
    else:
        X, _ = gen_points(rng, n, d, scale=loguniform(rng, 0.01, 100.0))
        Y, _ = gen_points(rng, m, d, scale=loguniform(rng, 0.01, 100.0))
        # coincident / near-coincident pairs
        for _ in range(int(rng.integers(0, 3))):
            i, j = int(rng.integers(n)), int(rng.integers(m))
            Y[j] = X[i] + (0 if rng.random() < 0.5 else 1e-7 * rng.normal(size=d))
        ls_range = (0.01, 100.0)
    if tree is None:
        tree = gen_cov(rng, d, depth, ls_range=ls_range, nat_pow_prob=0.3)
    return {"op": "cov", "tree": tree, "X": X, "Y": Y, "stream": stream}


def run(ctx, res):
    rng = ctx["rng"]
    quick = ctx["tier"] == "quick"
    budget = ctx["budget"] or (35 if quick else 420)
    t_end = time.time() + budget
    mellon()
    # bounded-exhaustive part: every (operator, left kind, right kind) at depth 1, every leaf kind x ad form
    ad_forms = ["AN", "AI", "AIneg", "AL", "AM", "AS"]
    for kind in LEAVES:
        for f in ad_forms:
            d = int(rng.choice([2, 3, 5]))
            ad = gen_ad(rng, d, forms=[f])
            ls = loguniform(rng, 0.3, 30.0)
            tree = ("RQ", loguniform(rng, 0.1, 10), ls, ad) if kind == "RQ" else (kind, ls, ad)
            run_case(ctx, res, gen_case(rng, "sharp", 0, d=d, tree=tree))
    ops = ["ADD", "ADDC", "MUL", "MULC", "POW"]
    combos = list(itertools.product(ops, LEAVES, LEAVES))
    if quick:
        combos = [combos[i] for i in rng.permutation(len(combos))[:40]]
    for op, kl, kr in combos:
        d = int(rng.choice([2, 3, 5]))
        ad = gen_ad(rng, d)
        w = len(ad_indices(ad, d))
        mk = lambda k: (("RQ", loguniform(rng, 0.1, 10), loguniform(rng, 0.3, 30), gen_ad(rng, w)) if k == "RQ"
                        else (k, loguniform(rng, 0.3, 30), gen_ad(rng, w)))
        if op in ("ADD", "MUL"):
            tree = (op, mk(kl), mk(kr), ad)
        elif op == "POW":
            # a Linear base takes either sign: natural-number exponents only (u^p is not real for u < 0 otherwise)
            tree = (op, mk(kl), float(rng.integers(1, 5)) if kl == "LIN" else loguniform(rng, 0.1, 10), ad)
        else:
            tree = (op, mk(kl), loguniform(rng, 0.01, 10), ad)
        run_case(ctx, res, gen_case(rng, "sharp", 1, d=d, tree=tree))
    for pw in (1.0, 2.0, 3.0, 4.0):
        d = 3
        lin = ("LIN", loguniform(rng, 0.5, 5.0), ("AN",))
        for base in (lin, ("ADDC", lin, 0.1, ("AN",)), ("MUL", lin, ("M52", 1.5, ("AN",)), ("AN",))):
            run_case(ctx, res, gen_case(rng, "sharp", 1, d=d, tree=("POW", base, pw, gen_ad(rng, d))))
    for kind in ["M32", "M52", "EQ", "EX", "LIN"]:
        d = 3
        X, _ = gen_points(rng, 4, d, kind="plain")
        Y, _ = gen_points(rng, 4, d, kind="plain")
        run_case(ctx, res, {"op": "timecov", "kind": kind, "ls": loguniform(rng, 0.3, 30),
                            "ls_time": loguniform(rng, 0.3, 30), "X": X, "Y": Y})
    # sampled part
    i = 0
    while time.time() < t_end:
        stream = "sharp" if i % 2 == 0 else "wide"
        depth = int(rng.choice([0, 1, 2, 3], p=[0.2, 0.3, 0.3, 0.2]))
        run_case(ctx, res, gen_case(rng, stream, depth))
        i += 1
    res.count("sampled", i)

CLAIM = {
    "text": "Lean theorems over R for every kernel expression tree, active-dims form and point: closed forms of the six "
            "kernels, symmetry (induction over the tree), values of stationary kernels in (0,1], self-covariance bounds, "
            "pointwise algebra of Add/Mul/Pow nodes, time covariance = state x time product with the selected columns, "
            "inactive dimensions irrelevant, diag = diagonal, Gram PSD for ExpQuad/Linear expressions (closure under +, *, natural powers, "
            "non-negative scalars, column selection). "
            "Tied to /repo by running cov(x,y)/diag on the implementation and on the model's executable definitions and by "
            "an independent interval closed-form oracle.",
    "note": "Gram PSD: proved for ExpQuad (exp of a PSD kernel via its power series and the Schur product theorem), Linear, "
            "and closed under +, *, natural powers, non-negative scalars and active_dims (gram_psd_of_tree); the Matern / "
            "Exponential / RatQuad leaves need Bochner/Schoenberg, not in Mathlib: named hypothesis, exercised numerically. Float64 rounding/underflow modelled away (k>0 checked as k>=0). "
            "Correspondence is sampled differential testing.",
    "technique": "Lean 4 proof (structural induction over kernel syntax, real analysis of radial profiles) + differential "
                 "correspondence with interval oracle",
}
