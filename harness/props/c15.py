"""C15 — GP-type / rank / landmark options resolve consistently and fail cleanly.

Correspondence: (i) function level, exhaustive over a boundary grid (incl. 4999/5000/5001 samples):
`GaussianProcessType.from_string`, `compute_n_landmarks`, `compute_rank`, `compute_gp_type`, `validate_params`,
`compute_landmarks` against the Lean model's functions; (ii) estimator level: `Estimator(**cfg).fit(X)` ->
exception class or (gp_type, L.shape, predictor family) against `resolve`.
Oracle (independent of the model): clean-failure (only ValueError may escape), an independent re-statement of the
documented rules (type family from n_landmarks, Nystroem from the rank request, partial names), the promised
shape of L, the predictor family belonging to the type, and "no silent contradiction" (an explicit gp_type that
contradicts n_landmarks must not be accepted)."""
import time, itertools, math
from fractions import Fraction
import numpy as np
from ..common import mellon, exc_class

RULE = ("cases = option configurations (estimator, n cells, n_landmarks, explicit landmark rows, rank, gp_type spelling, "
        "predictor_with_uncertainty, optimizer, sigma form); function level: exhaustive boundary grids (n in "
        "{1,2,6,12,4999,5000,5001}, n_landmarks in {-1,0,1,2,n-1,n,n+1,4999,5000,5001}, 17 ranks incl. NaN/None/negative "
        "and the integer ranks again as NumPy / JAX integer scalars (np.int64/int32/uint8, 0-d np/jnp integer arrays), "
        "6 types, 40+ spellings); estimator level: the property's grid n in {6,12} x 8 n_landmarks x 4 landmark sets x 11 "
        "ranks x 9 spellings on DensityEstimator (quick: boundary rows + seeded slice; thorough: all 6336 cells), the "
        "other three estimators and the uncertainty x optimizer x sigma axes seeded. distinct = distinct configuration; "
        "non-trivial = accepted configuration that fits, or a refusal decided by at least two interacting options")
PARTIAL = ["the number of columns a fractional Nystroem rank keeps depends on the spectrum (property C10): it is read back "
           "from the implementation, handed to the model as `kept`, and checked only for 1 <= kept <= bound",
           "data-stage failures (fewer than 2 cells etc.) are modelled only as 'n < 2 is refused'; degenerate data are C20",
           "the function estimator's numeric uncertainty (mean_covariance = J sigma^2 J^T) is not part of this property; "
           "only its acceptance / refusal and predictor family are"]
ASSUMPTIONS = ["k_means(x, m) returns m rows", "K + jitter I has only positive eigenvalues, so an integer Nystroem rank r "
               "keeps exactly r columns", "gp_type strings are ASCII (str.lower modelled by Char.toLower)",
               "the optimiser returns a latent vector with as many rows as L has columns; only 'advi' provides standard "
               "deviations"]
TRUSTED_EXTRA = ["sklearn k_means (shape contract)", "scipy L-BFGS-B / adam / advi wiring (shape contract)"]

NAMES = ["full", "full_nystroem", "sparse_cholesky", "sparse_nystroem", "fixed"]
FULLFAM = ("full", "full_nystroem")
SPARSEFAM = ("sparse_cholesky", "sparse_nystroem")
NYS = ("full_nystroem", "sparse_nystroem")
FAMILY = {"full": "Full", "full_nystroem": "Full", "sparse_cholesky": "LandmarksCholesky", "fixed": "LandmarksCholesky",
          "sparse_nystroem": "Landmarks"}
REASONS = [("rankNegative", "rank must not be negative"),
           ("nLandmarksNotNonnegInt", "'n_landmarks' should be a positive integer"),
           ("rankNaN", "'rank' should be"),
           ("unknownGpType", "Unknown Gaussian Process type"),
           ("functionNystroem", "not available for the Function Estimator"),
           ("landmarkCount", "landmarks specified but n_landmarks="),
           ("fullButFewerLandmarks", "is smaller than the number of cells"),
           ("fixedButNoLandmarks", "requires landmarks but n_landmarks=0"),
           ("sparseButNoLandmarks", "but n_landmarks=0. Set n_landmarks"),
           ("sparseButTooManyLandmarks", "is larger or equal the number of cells"),
           ("nystroemNeedsReduction", "requires fractional 0 < rank < 1"),
           ("rankIndicatesNystroem", "rank reduction. But the Gaussian Process type"),
           ("nLandmarksOne", "must be larger than 1 or equal to 0"),
           ("tooFewSamples", "k must be less than or equal"),
           ("emptyFactor", "0 feature(s)"),
           ("noInputUncertainty", "No input uncertainty specified"),
           ("sigmaShape", "sigma")]


def reason_of(msg):
    for k, pat in REASONS:
        if pat in msg:
            return k
    if "vmap got inconsistent" in msg:
        return "sigmaShape"
    return "?"


# ------------------------------------------------------------------ encoding for the driver

# rank spec: None | ["I", k] Python int | ["NI", k, form] NumPy / JAX integer scalar | ["F", q] float | ["NAN"]
NPINT_FORMS = ["int64", "int32", "uint8", "np0d", "jnp0d", "jnp0d32"]
SIG_NPINT = "C15:numpy-integer-rank"


def np_form(i, k):
    """A form from the rotation that can hold k (uint8 only for 0 <= k < 256)."""
    f = NPINT_FORMS[i % len(NPINT_FORMS)]
    return f if (f != "uint8" or 0 <= k < 256) else "int64"


def rank_is_int(r):
    return r is not None and r[0] in ("I", "NI")


def rank_tok(r):
    if r is None:
        return "N"
    if r[0] == "I":
        return f"I {int(r[1])}"
    if r[0] == "NI":
        return f"NI {int(r[1])}"
    if r[0] == "NAN":
        return "NAN"
    fr = Fraction(float(r[1]))
    return f"F {fr.numerator} {fr.denominator}"


def rank_py(r):
    if r is None:
        return None
    if r[0] == "I":
        return int(r[1])
    if r[0] == "NI":
        k, form = int(r[1]), r[2]
        if form in ("int64", "int32", "uint8"):
            return np.dtype(form).type(k)
        if form == "np0d":
            return np.asarray(k, dtype=np.int64)
        import jax.numpy as jnp
        a = jnp.asarray(np.asarray(k, dtype=np.int64 if form == "jnp0d" else np.int32))
        assert a.ndim == 0 and a.dtype.kind == "i"
        return a
    if r[0] == "NAN":
        return float("nan")
    return float(r[1])


def gp_tok(g):
    if g is None:
        return "N"
    if g[0] == "E":
        return "E " + g[1]
    cps = [ord(ch) for ch in g[1]]
    return "S %d %s" % (len(cps), " ".join(map(str, cps))) if cps else "S 0"


def gp_py(g):
    if g is None:
        return None
    if g[0] == "E":
        return mellon().util.GaussianProcessType(g[1])
    return g[1]


def opt_tok(v):
    return "N" if v is None else str(int(v))


def ask(ctx, line):
    return ctx["driver"].ask(" ".join(line.split()))


def outcome_exc(e):
    return exc_class(e), str(e)


# ------------------------------------------------------------------ independent statement of the documented rules

def doc_from_string(s):
    """First exact, then first partial match in enum order; None = refused."""
    t = s.lower().replace(" ", "_")
    for v in NAMES:
        if v == t:
            return v
    for v in NAMES:
        if t in v:
            return v
    return None


def rank_reduces(rank, bound):
    """Documented: a fractional rank 0 < q < 1 or an integer 0 < r < bound asks for Nystroem rank reduction."""
    if rank is None:
        return False
    if rank_is_int(rank):           # a NumPy / JAX integer scalar is an integer rank like the Python int
        return 0 < int(rank[1]) < bound
    q = float(rank[1])
    return 0 < q < 1


def rank_negative(rank):
    """Outside every documented range (`0 < rank`); the code treats it as a Nystroem request."""
    return rank is not None and rank[0] in ("I", "NI", "F") and float(rank[1]) < 0


# ------------------------------------------------------------------ function level

class Rows:
    """Stand-in for a landmarks array: only `.shape[0]` is read by the functions under test."""
    def __init__(self, m):
        self.shape = (m, 2)


def call(fn, *a, **k):
    try:
        return ("ok", fn(*a, **k))
    except Exception as e:
        return (exc_class(e), str(e))


def fl_fail(res, p, what, detail, impl):
    """A function-level disagreement or internal error."""
    if impl[0] not in ("ok", "ValueError"):
        res.oracle_fail(f"{p['fn']} fails with an internal error ({impl[0]})", p, detail=detail,
                        signature=f"C15:{p['fn']}-internal")
    else:
        res.corr_fail(what, p, detail=detail)


def case_fn(ctx, res, p):
    m = mellon()
    from mellon import parameters as P, parameter_validation as V
    GPT = m.util.GaussianProcessType
    fn = p["fn"]
    res.count("fn:" + fn)
    drv = ctx["driver"]
    if fn == "from_string":
        s = p["s"]
        impl = call(GPT.from_string, s)
        want = doc_from_string(s)
        got = impl[1].value if impl[0] == "ok" else None
        res.case(("from_string", s), want is not None and want != s, {"op": "fn", "fn": fn, "s": s})
        if impl[0] not in ("ok", "ValueError"):
            res.oracle_fail("from_string fails with an internal error", p, detail={"exc": impl[0]},
                            signature="C15:from_string-internal")
        elif got != want:
            res.oracle_fail("from_string does not resolve the (partial) name as documented", p,
                            detail={"got": got, "documented": want}, signature="C15:from_string-rule")
        if drv is not None:
            mo = ask(ctx, "fromstr " + gp_tok(["S", s])[2:])
            mg = mo.split()[1] if mo.startswith("ok") else None
            if mg != got:
                res.corr_fail("model fromString differs", p, detail={"model": mo, "impl": got})
        return
    if fn == "compute_n_landmarks":
        gp, n, lm = p["gp"], p["n"], p["lm"]
        impl = call(P.compute_n_landmarks, None if gp is None else GPT(gp), n, None if lm is None else Rows(lm))
        res.case((fn, gp, n, lm), lm is None, {"op": "fn", "fn": fn, "gp": gp, "n": n, "lm": lm})
        want = lm if lm is not None else (n if gp in FULLFAM else 5000 if gp in SPARSEFAM else min(n, 5000))
        if impl[0] != "ok" or int(impl[1]) != want:
            if impl[0] not in ("ok", "ValueError"):
                fl_fail(res, p, "", {"impl": str(impl)}, impl)
            else:
                res.oracle_fail("compute_n_landmarks differs from the documented default", p,
                                detail={"impl": str(impl), "documented": want}, signature="C15:n_landmarks-default")
        if drv is not None:
            mo = ask(ctx, f"cnl {gp or 'N'} {n} {opt_tok(lm)}")
            if impl[0] != "ok" or mo != f"ok {int(impl[1])}":
                res.corr_fail("model computeNLandmarks differs", p, detail={"model": mo, "impl": str(impl)})
        return
    if fn == "compute_rank":
        gp = p["gp"]
        impl = call(P.compute_rank, None if gp is None else GPT(gp))
        res.case((fn, gp), True, {"op": "fn", "fn": fn, "gp": gp})
        want = 0.99 if gp in NYS else 1.0
        if impl[0] != "ok" or type(impl[1]) is not float or impl[1] != want:
            res.oracle_fail("compute_rank differs from the documented default", p, detail={"impl": str(impl)},
                            signature="C15:rank-default")
        if drv is not None:
            mo = ask(ctx, f"crank {gp or 'N'}")
            fr = Fraction(want).limit_denominator(100)
            if mo != f"ok F {fr.numerator} {fr.denominator}":
                res.corr_fail("model computeRank differs", p, detail={"model": mo})
        return
    if fn == "compute_gp_type":
        nl, r, n = p["nl"], p["rank"], p["n"]
        impl = call(P.compute_gp_type, nl, rank_py(r), n)
        got = impl[1].value if impl[0] == "ok" else impl[0]
        bad_args = nl < 0 or n < 0 or (r is not None and r[0] == "NAN")
        res.case((fn, nl, str(r), n), not bad_args, {"op": "fn", "fn": fn, "nl": nl, "rank": r, "n": n})
        if impl[0] not in ("ok", "ValueError"):
            fl_fail(res, p, "", {"impl": str(impl)}, impl)
        else:
            # documented rule, stated independently
            if rank_negative(r) and not bad_args:
                want = got          # no documented answer for a negative rank (see C15:negative-rank-accepted)
                res.count("fn:negative_rank_outside_documented_domain")
            elif bad_args:
                want = "ValueError"
            else:
                full = nl == 0 or nl >= n
                red = rank_reduces(r, n if full else nl)
                want = ("full_nystroem" if red else "full") if full else ("sparse_nystroem" if red else "sparse_cholesky")
            if got != want:
                res.oracle_fail("compute_gp_type differs from the documented rule", p,
                                detail={"got": got, "documented": want},
                                signature=SIG_NPINT if (r is not None and r[0] == "NI") else "C15:gp_type-rule")
        if drv is not None:
            mo = ask(ctx, f"cgt {nl} {rank_tok(r)} {n}")
            mg = mo.split()[1] if mo.startswith("ok") else mo.split(":")[0]
            if mg != got:
                res.corr_fail("model computeGpType differs", p, detail={"model": mo, "impl": got})
        return
    if fn == "validate_params":
        r, gp, n, nl, lm = p["rank"], p["gp"], p["n"], p["nl"], p["lm"]
        impl = call(V.validate_params, rank_py(r), GPT(gp), n, nl, None if lm is None else Rows(lm))
        res.case((fn, str(r), gp, n, nl, lm), True, {"op": "fn", "fn": fn, "rank": r, "gp": gp, "n": n, "nl": nl, "lm": lm})
        if impl[0] not in ("ok", "ValueError"):
            fl_fail(res, p, "", {"impl": str(impl)}, impl)
        else:
            # documented consistency conditions, stated independently
            ok = True
            if r is None or r[0] == "NAN" or nl < 0 or rank_negative(r):
                ok = False
            elif lm is not None and lm != nl:
                ok = False
            elif gp in FULLFAM and nl != 0 and nl < n:
                ok = False
            elif gp in SPARSEFAM and not (0 < nl < n):
                ok = False
            elif gp == "fixed" and nl == 0:
                ok = False
            else:
                if gp == "fixed":
                    red = not ((rank_is_int(r) and int(r[1]) == 0) or (r[0] == "F" and (float(r[1]) >= 1 or float(r[1]) == 0)))
                else:
                    red = rank_reduces(r, n if gp in FULLFAM else nl)
                ok = red == (gp in NYS)
            if ok != (impl[0] == "ok"):
                sig = "C15:negative-rank-accepted" if rank_negative(r) and impl[0] == "ok" else "C15:validate-rule"
                if r is not None and r[0] == "NI" and not rank_negative(r):
                    sig = SIG_NPINT
                res.oracle_fail("validate_params accepts/refuses against the documented consistency rules", p,
                                detail={"impl": impl[0], "documented_ok": ok}, signature=sig)
        if drv is not None:
            mo = ask(ctx, f"vparams {rank_tok(r)} {gp} {n} {nl} {opt_tok(lm)}")
            if (mo == "ok") != (impl[0] == "ok"):
                res.corr_fail("model validateParams differs", p, detail={"model": mo, "impl": str(impl)[:120]})
            elif impl[0] == "ValueError":
                rs = reason_of(impl[1])
                res.count("fn:refusal_reason_" + ("same" if mo.endswith(":" + rs) else "differs"))
                if not mo.endswith(":" + rs):
                    res.corr_fail("model refuses for a different reason", p, detail={"model": mo, "impl": impl[1][:120]})
        return
    if fn == "compute_landmarks":
        gp, n, nl = p["gp"], p["n"], p["nl"]
        x = np.random.default_rng(p.get("xseed", 0)).normal(size=(n, 2))
        impl = call(P.compute_landmarks, x, GPT(gp), n_landmarks=nl)
        res.case((fn, gp, n, nl), True, {"op": "fn", "fn": fn, "gp": gp, "n": n, "nl": nl})
        got = ("N" if impl[1] is None else str(int(np.asarray(impl[1]).shape[0]))) if impl[0] == "ok" else impl[0]
        if impl[0] not in ("ok", "ValueError"):
            fl_fail(res, p, "", {"impl": str(impl)[:200]}, impl)
        else:
            want = "N" if nl == 0 else "ValueError" if nl <= 1 else (str(n) if gp == "fixed" else "N") if nl >= n else str(nl)
            if got != want:
                res.oracle_fail("compute_landmarks differs from the documented behaviour", p,
                                detail={"got": got, "documented": want}, signature="C15:landmarks-rule")
            if impl[0] == "ok" and impl[1] is not None and gp == "fixed" and nl >= n and not np.array_equal(np.asarray(impl[1]), x):
                res.oracle_fail("'fixed' with n_landmarks >= n does not keep the cells as inducing points", p,
                                signature="C15:fixed-keeps-points")
        if drv is not None:
            mo = ask(ctx, f"clm {gp} {n} {nl}")
            mg = mo.split()[1] if mo.startswith("ok") else mo.split(":")[0]
            if mg != got:
                res.corr_fail("model computeLandmarks differs", p, detail={"model": mo, "impl": got})
        return
    raise ValueError(fn)


# ------------------------------------------------------------------ estimator level

_X = {}


def data(est, n):
    key = (est, n)
    if key not in _X:
        X = np.random.default_rng(1000 + n).normal(size=(n, 2))
        if est == "time":
            t = (np.arange(n) % 2).astype(float) if n < 9 else (np.arange(n) % 3).astype(float)
            X = np.column_stack([X, t])
        _X[key] = X
    return _X[key]


def landmarks_for(est, m):
    L = np.random.default_rng(2000 + m).normal(size=(m, 2))
    if est == "time":
        L = np.column_stack([L, (np.arange(m) % 2).astype(float)])
    return L


def sigma_py(form, n):
    if form == "scalar":
        return 0.1
    if form == "negative":
        return -1.0
    if form == "vecN":
        return np.full(n, 0.1)
    if form.startswith("mat"):
        return np.full((n, int(form.split()[1])), 0.1)
    if form.startswith("vecL"):
        return np.full(int(form.split()[1]), 0.1)
    raise ValueError(form)


def run_estimator(p):
    """-> ("ok", gp, Lshape|None, family, landmark_rows|None, dev) | (class, message)"""
    m = mellon()
    est, n = p["est"], int(p["n"])
    X = data(est, n)
    kw = {}
    if p.get("lm") is not None:
        # `lmcells`: the landmarks are the cells themselves (a copy, same rows and order) - only possible for lm == n
        kw["landmarks"] = X.copy() if (p.get("lmcells") and int(p["lm"]) == n) else landmarks_for(est, int(p["lm"]))
    try:
        if est == "function":
            form = p.get("sigma", "scalar")
            ycols = int(form.split()[1]) if form.startswith("mat") else 1
            y = np.random.default_rng(5).normal(size=(n, ycols))
            if p.get("yim"):
                kw["y_is_mean"] = True     # does not enter the resolution (the model has no such field)
            e = m.FunctionEstimator(n_landmarks=p["nl"], gp_type=gp_py(p["gp"]),
                                    predictor_with_uncertainty=bool(p["unc"]), sigma=sigma_py(form, n), **kw)
            e.fit(X, y)
            pred = e.predict
            lmr = None if e.landmarks is None else int(np.asarray(e.landmarks).shape[0])
            return ("ok", e.gp_type.value, None, family_of(pred), lmr, 0.0)
        common_kw = dict(n_landmarks=p["nl"], rank=rank_py(p["rank"]), gp_type=gp_py(p["gp"]),
                         predictor_with_uncertainty=bool(p["unc"]), optimizer=p["opt"], n_iter=2)
        if est == "density":
            e = m.DensityEstimator(**common_kw, **kw)
        elif est == "time":
            e = m.TimeSensitiveDensityEstimator(ls_time=1.0, **common_kw, **kw)
        elif est == "dim":
            e = m.DimensionalityEstimator(k=min(10, n - 1), **common_kw, **kw)
        else:
            raise ValueError(est)
        e.fit(X)
        pred = e.predict
        dev = 0.0 if est == "dim" else float(np.max(np.abs(np.asarray(pred(X)) - np.asarray(e.log_density_x))))
        lmr = None if e.landmarks is None else int(np.asarray(e.landmarks).shape[0])
        fam = family_of(pred)
        if est == "dim":
            # the dimensionality estimator owns a second predictor (the density): same resolved type, same family
            fam2 = family_of(e.predict_density)
            if fam2 != fam:
                fam = fam + "+" + fam2
            dev = float(np.max(np.abs(np.asarray(e.predict_density(X)) - np.asarray(e.log_density_x))))
        return ("ok", e.gp_type.value, tuple(int(v) for v in e.L.shape), fam, lmr, dev)
    except Exception as ex:
        return (exc_class(ex), str(ex))


def family_of(pred):
    nm = type(pred).__name__
    if nm.startswith("Exp"):
        nm = nm[3:]
    if nm.endswith("Time"):
        nm = nm[:-4]
    return {"FullConditional": "Full", "LandmarksConditional": "Landmarks",
            "LandmarksConditionalCholesky": "LandmarksCholesky"}.get(nm, nm)


def internal_signature(p, out):
    est = p["est"]
    if est == "time" and p["gp"] is not None and doc_from_string(p["gp"][1]) == "fixed" and p.get("lm") is None:
        return "C15:time-fixed-without-landmarks-internal"
    if est == "function":
        form = p.get("sigma", "scalar")
        if form.startswith("mat"):
            return "C15:function-matrix-sigma-internal"
        if form == "vecN":
            return "C15:function-vector-sigma-landmarks-internal"
        if form.startswith("vecL"):
            return "C15:function-wrong-length-sigma"
        if p.get("unc"):
            return "C15:function-landmarks-uncertainty-internal"
    return f"C15:internal:{est}:{out[0]}"


def case_est(ctx, res, p):
    est, n = p["est"], int(p["n"])
    out = run_estimator(p)
    res.count("est:" + est)
    res.count("est:outcome=" + (out[0] if out[0] != "ok" else "ok:" + out[1] + ":" + out[3]))
    sample = {"op": "est", **{k: p.get(k) for k in ("est", "n", "nl", "lm", "rank", "gp", "unc", "opt", "sigma")},
              "outcome": list(out[:4]) if out[0] == "ok" else [out[0], out[1][:60]]}
    canon = ("est", est, n, p["nl"], p.get("lm"), str(p["rank"]), str(p["gp"]), p["unc"], p["opt"], p.get("sigma"),
             bool(p.get("lmcells")), bool(p.get("yim")))
    res.case(canon, out[0] == "ok" or (p["gp"] is not None and (p["nl"] is not None or p["rank"] is not None)), sample)
    rank = p["rank"]
    # ---------------- oracle 1: clean failure
    if out[0] not in ("ok", "ValueError"):
        res.oracle_fail(f"{est} estimator fails with an internal error ({out[0]}: {out[1][:80]})", p,
                        detail={"outcome": [out[0], out[1][:200]]}, signature=internal_signature(p, out))
    if out[0] == "ok":
        _, gp, Lshape, fam, lmr, dev = out
        res.dev("predict_vs_fit:" + fam + ":" + gp, dev)
        if Lshape is not None and lmr is not None and gp in NYS and Lshape[1] == lmr:
            res.count("est:nystroem_kept_equals_landmark_rows")
        if gp in FULLFAM and p.get("lm") is not None:
            res.count("est:full_family_with_explicit_landmarks")
        if gp in FULLFAM and p.get("lm") is None and lmr is not None:
            # a non-sparse model computes no landmarks (compute_landmarks returns None for n_landmarks = 0 or >= n unless the
            # type is 'fixed'); rows left on the estimator contradict n_landmarks and make every repeated fit fail
            res.oracle_fail(f"a {gp} model without user landmarks keeps {lmr} landmark rows", p,
                            detail={"gp": gp, "landmark_rows": lmr, "n_landmarks": p["nl"]}, signature="C15:full-family-keeps-landmarks")

        # effective inputs as documented
        gp_req = None if p["gp"] is None else (p["gp"][1] if p["gp"][0] == "E" else doc_from_string(p["gp"][1]))
        lm_user = p.get("lm")
        if p["nl"] is not None:
            nl_eff = int(p["nl"])
        elif lm_user is not None:
            nl_eff = int(lm_user)
        else:
            nl_eff = n if gp_req in FULLFAM else 5000 if gp_req in SPARSEFAM else min(n, 5000)
        # ---------------- oracle 2: the type follows the documented rules
        bad = []
        if gp_req is not None and gp != gp_req:
            bad.append("explicit type not kept")
        if gp in FULLFAM and not (nl_eff == 0 or nl_eff >= n):
            bad.append("full family although 0 < n_landmarks < n")
        if gp in SPARSEFAM and not (0 < nl_eff < n):
            bad.append("sparse family although n_landmarks is 0 or >= n")
        if gp == "fixed" and nl_eff == 0:
            bad.append("fixed without landmarks")
        if lm_user is not None and p["nl"] is not None and int(p["nl"]) != int(lm_user):
            # `fixed` with n_landmarks > n falls back to the n cells as landmarks; such a model carries n landmark rows next to
            # the larger request, and handing that state back (a repeated fit, a fresh model given the fitted landmarks) is legal
            if not (gp == "fixed" and int(lm_user) == n < int(p["nl"]) and p.get("lmcells")):
                bad.append("n_landmarks contradicts the landmarks given")
            else:
                res.count("est:fixed_overrequest_with_cell_landmarks_accepted")
        if est != "function":
            r_eff = rank if rank is not None else ["F", 0.99 if gp_req in NYS else 1.0]
            if gp == "fixed":
                red = not ((rank_is_int(r_eff) and int(r_eff[1]) == 0) or
                           (r_eff[0] == "F" and (float(r_eff[1]) >= 1 or float(r_eff[1]) == 0)))
            else:
                red = rank_reduces(r_eff, n if gp in FULLFAM else nl_eff)
            if rank_negative(rank):
                res.oracle_fail("a negative rank is accepted (documented: 0 < rank) and silently read as a Nystroem request",
                                p, detail={"gp": gp, "L": list(Lshape)}, signature="C15:negative-rank-accepted")
            elif red != (gp in NYS):
                bad.append("Nystroem type does not match the rank request")
        if bad:
            sig = "C15:function-no-validation" if est == "function" else "C15:accepted-contradiction"
            if est != "function" and rank is not None and rank[0] == "NI" and bad == ["Nystroem type does not match the rank request"]:
                sig = SIG_NPINT
            res.oracle_fail("accepted configuration contradicts the documented rules: " + "; ".join(bad), p,
                            detail={"gp": gp, "n_landmarks_eff": nl_eff, "n": n}, signature=sig)
        # ---------------- oracle 3: promised shape of L
        if est != "function":
            okshape = Lshape[0] == n and Lshape[1] >= 1
            if gp == "full":
                okshape &= Lshape[1] == n
            elif gp in ("sparse_cholesky", "fixed"):
                okshape &= lmr is not None and Lshape[1] == lmr
                if gp == "fixed" and lm_user is None:
                    okshape &= lmr == (n if nl_eff >= n else nl_eff)
            elif gp == "full_nystroem":
                okshape &= Lshape[1] <= n
                if rank_is_int(rank) and int(rank[1]) > 0:
                    okshape &= Lshape[1] == int(rank[1])
            elif gp == "sparse_nystroem":
                okshape &= lmr is not None and Lshape[1] <= lmr
                if rank_is_int(rank) and int(rank[1]) > 0:
                    okshape &= Lshape[1] == int(rank[1])
            if not okshape:
                res.oracle_fail("latent factor does not have the promised shape", p,
                                detail={"L": list(Lshape), "gp": gp, "landmark_rows": lmr}, signature="C15:L-shape")
            # ---------------- oracle 4: predictor family belongs to the type
            if fam != FAMILY[gp]:
                sig = ("C15:full-type-explicit-landmarks-predictor" if gp in FULLFAM and lm_user is not None
                       else "C15:predictor-family")
                res.oracle_fail(f"predictor family {fam} does not belong to gp_type {gp}", p,
                                detail={"family": fam, "expected": FAMILY[gp], "max|predict(X)-log_density_x|": dev},
                                signature=sig)
            elif dev > 1e-2:
                res.oracle_fail("predictor does not reproduce the fitted values", p, detail={"dev": dev},
                                signature="C15:predictor-wrong-basis")
            if p["unc"] and p["opt"] != "advi":
                res.oracle_fail("predictor_with_uncertainty accepted without input uncertainty", p,
                                signature="C15:uncertainty-accepted")
        else:
            # no latent vector: full -> Full, sparse_cholesky / fixed -> Landmarks (conditioned on (x, y))
            want = "Full" if gp in FULLFAM else "Landmarks"
            if fam != want:
                sig = ("C15:function-full-type-explicit-landmarks-predictor" if gp in FULLFAM and lm_user is not None
                       else "C15:predictor-family")
                res.oracle_fail(f"function estimator predictor family {fam} does not belong to gp_type {gp}", p,
                                detail={"family": fam, "expected": want, "landmark_rows": lmr}, signature=sig)
            if gp in NYS:
                res.oracle_fail("function estimator resolved to a Nystroem type", p, signature="C15:function-nystroem")
    # ---------------- oracle 4b: a per-cell sigma is the noise of the cells for every number of landmarks (m < n, m = n,
    # m > n): the configuration resolves exactly like the one with a scalar sigma (fixed defect 20d7957: the vector was
    # sized by the landmarks and refused for m != n)
    if est == "function" and str(p.get("sigma")).startswith("vecL") and int(p["sigma"].split()[1]) != n:
        res.count("est:function_wrong_length_sigma:" + out[0])
        if out[0] == "ok":
            res.oracle_fail("FunctionEstimator accepts a sigma vector whose length is not the number of cells", p,
                            detail={"outcome": list(out[:4])}, signature="C15:function-wrong-length-sigma")
    if est == "function" and (p.get("sigma") == "vecN" or p.get("sigma") == "vecL %d" % n):
        res.count("est:function_vector_sigma:" + ("no-landmarks" if p.get("lm") is None and p["nl"] is None else "landmarks"))
        ref = run_estimator({**p, "sigma": "scalar"})
        same = (out[0] == ref[0]) and (out[1:5] == ref[1:5] if out[0] == "ok" else reason_of(out[1]) == reason_of(ref[1]))
        if out[0] == "ok":
            res.count("est:function_vector_sigma_accepted:" + out[3] +
                      ("" if out[4] is None else (":m<n" if out[4] < n else ":m=n" if out[4] == n else ":m>n")))
        if not same:
            show = lambda o: list(o[:5]) if o[0] == "ok" else [o[0], o[1][:100]]
            res.oracle_fail("FunctionEstimator with a per-cell sigma vector does not resolve like the same configuration "
                            "with a scalar sigma (type / predictor family / landmark rows / refusal)", p,
                            detail={"vector": show(out), "scalar": show(ref)},
                            signature="C15:function-vector-sigma-landmarks")
    # ---------------- oracle 5: a NumPy / JAX integer rank is the Python int of the same value
    if est != "function" and rank is not None and rank[0] == "NI":
        res.count("est:numpy_integer_rank:" + rank[2])
        ref = run_estimator({**p, "rank": ["I", int(rank[1])]})
        same = (out[0] == ref[0]) and (out[1:4] == ref[1:4] if out[0] == "ok" else reason_of(out[1]) == reason_of(ref[1]))
        if not same:
            show = lambda o: list(o[:4]) if o[0] == "ok" else [o[0], o[1][:100]]
            res.oracle_fail(f"rank={rank[2]}({int(rank[1])}) does not resolve like rank={int(rank[1])} "
                            "(gp_type / shape of L / predictor family / refusal)", p,
                            detail={"numpy_integer": show(out), "python_int": show(ref)}, signature=SIG_NPINT)
    # ---------------- correspondence with the Lean model
    if ctx["driver"] is not None:
        kept = out[2][1] if out[0] == "ok" and out[2] is not None else 1
        sg = p.get("sigma", "scalar")
        line = (f"resolve {est} {n} {opt_tok(p['nl'])} {opt_tok(p.get('lm'))} {rank_tok(rank)} {gp_tok(p['gp'])} "
                f"{'T' if p['unc'] else 'F'} {'lbfgsb' if p['opt'] == 'L-BFGS-B' else p['opt']} {kept} {sg} "
                f"{'T' if (p.get('lmcells') and p.get('lm') is not None and int(p['lm']) == n) else 'F'}")
        mo = ask(ctx, line)
        if out[0] == "ok":
            exp = [out[1], str(n), str(out[2][1]) if out[2] is not None else None, out[3]]
            mt = mo.split()
            okc = mt[0] == "ok" and mt[1] == exp[0] and mt[2] == exp[1] and mt[4] == exp[3]
            if okc and exp[2] is not None:
                okc = mt[3] == exp[2]
            if okc and est == "function":
                okc = mt[3] == str(n if (out[1] in FULLFAM or out[4] is None) else out[4])
            if not okc:
                res.corr_fail("model resolve differs from the fitted estimator", p, detail={"model": mo, "impl": exp})
        else:
            mcls = "Internal" if mo == "Internal" else mo.split(":")[0]
            icls = out[0] if out[0] in ("ValueError",) else "Internal"
            if mcls != icls:
                res.corr_fail("model resolve outcome class differs", p, detail={"model": mo, "impl": [out[0], out[1][:120]]})
            elif icls == "ValueError":
                rs = reason_of(out[1])
                same = mo.endswith(":" + rs)
                res.count("est:refusal_reason_" + ("same" if same else "differs"))
                if not same and rs != "?":
                    res.corr_fail("model refuses for a different reason", p, detail={"model": mo, "impl": out[1][:120]})


def run_case(ctx, res, p):
    if p["op"] == "fn":
        return case_fn(ctx, res, p)
    if p["op"] == "est":
        return case_est(ctx, res, p)
    raise ValueError(p["op"])


# ------------------------------------------------------------------ generators

SPELLINGS = [None, ["S", "full"], ["S", "full_nystroem"], ["S", "sparse_cholesky"], ["S", "sparse_nystroem"],
             ["S", "fixed"], ["S", "sparse"], ["S", "nystroem"], ["S", "bogus"]]
STRINGS = NAMES + ["FULL", "Full Nystroem", "sparse cholesky", "Sparse_Nystroem", "FIXED", "sparse", "nystroem", "bogus",
                   "", "full_", "chol", "fix", "s", "_", "e", "fullx", " full", "full ", "nyström", "sparse_", "x",
                   "cholesky", "sparse nystroem", "spar se", "_nystroem", "ull", "ixed", "fixedd", "SPARSE", "Nystroem "]


def grid_ranks(n):
    return [None, ["I", 0], ["I", 1], ["I", 2], ["I", n - 1], ["I", n], ["I", n + 5], ["F", 0.5], ["F", 0.99],
            ["F", 1.0], ["F", 2.0]]


def grid_nl(n):
    return [None, 0, 1, 2, n - 1, n, n + 1, 5000]


def grid_lm(n):
    return [None, n - 2, n, n + 2]


def est_cell(est, n, nl, lm, rank, gp, unc=False, opt="adam", sigma="scalar", lmcells=False, yim=False):
    return {"op": "est", "est": est, "n": n, "nl": nl, "lm": lm, "rank": rank, "gp": gp, "unc": unc, "opt": opt,
            "sigma": sigma, "lmcells": lmcells, "yim": yim}


def function_level(ctx, res, rng, quick):
    for s in STRINGS:
        run_case(ctx, res, {"op": "fn", "fn": "from_string", "s": s})
    for _ in range(40 if quick else 400):
        base = NAMES[rng.integers(5)]
        a = int(rng.integers(0, len(base)))
        b = int(rng.integers(a, len(base) + 1))
        s = base[a:b]
        u = rng.random()
        if u < 0.25:
            s = s.upper()
        elif u < 0.4:
            s = s.replace("_", " ")
        elif u < 0.5 and s:
            k = int(rng.integers(len(s)))
            s = s[:k] + "abcxyz_ "[rng.integers(8)] + s[k + 1:]
        run_case(ctx, res, {"op": "fn", "fn": "from_string", "s": s})
    NS = [1, 2, 6, 12, 4999, 5000, 5001]
    for gp in [None] + NAMES:
        run_case(ctx, res, {"op": "fn", "fn": "compute_rank", "gp": gp})
        for n in NS + [10000]:
            for lm in [None, 1, 3, n, n + 1]:
                run_case(ctx, res, {"op": "fn", "fn": "compute_n_landmarks", "gp": gp, "n": n, "lm": lm})
    for n in NS:
        for nl in sorted({-1, 0, 1, 2, n - 1, n, n + 1, 4999, 5000, 5001}):
            ranks = [None, ["NAN"], ["F", -0.5], ["F", 0.0], ["F", 0.5], ["F", 0.99], ["F", 1.0], ["F", 2.0]] + \
                    [["I", r] for r in sorted({-1, 0, 1, 2, nl - 1, nl, nl + 1, n - 1, n, n + 1})]
            # the same integers as NumPy / JAX integer scalars (form rotates over the cell index)
            ranks += [["NI", r, np_form(i + n + nl, r)]
                      for i, r in enumerate(sorted({-1, 0, 1, 2, nl - 1, nl, nl + 1, n - 1, n, n + 1}))]
            for r in ranks:
                run_case(ctx, res, {"op": "fn", "fn": "compute_gp_type", "nl": nl, "rank": r, "n": n})
    vp_ns = [6, 5000] if quick else [2, 6, 12, 4999, 5000, 5001]
    for n in vp_ns:
        for nl in sorted({-1, 0, 1, 2, n - 1, n, n + 1}):
            for gp in NAMES:
                ranks = [None, ["NAN"], ["F", -0.5], ["F", 0.0], ["F", 0.5], ["F", 1.0], ["F", 2.0]] + \
                        [["I", r] for r in sorted({-1, 0, 1, nl - 1, nl, n - 1, n, n + 1})]
                ranks += [["NI", r, np_form(i + nl, r)]
                          for i, r in enumerate(sorted({-1, 0, 1, nl - 1, nl, n - 1, n, n + 1}))]
                for r in ranks:
                    for lm in [None, nl, nl + 1]:
                        if lm is not None and lm < 0:
                            continue
                        run_case(ctx, res, {"op": "fn", "fn": "validate_params", "rank": r, "gp": gp, "n": n, "nl": nl,
                                            "lm": lm})
    for gp in NAMES:
        for n in [6, 12]:
            for nl in [0, 1, 2, n - 1, n, n + 1, 5000]:
                run_case(ctx, res, {"op": "fn", "fn": "compute_landmarks", "gp": gp, "n": n, "nl": nl})


def run(ctx, res):
    rng = ctx["rng"]
    quick = ctx["tier"] == "quick"
    budget = ctx["budget"] or (65 if quick else 560)
    t0 = time.time()
    t_end = t0 + budget
    mellon()
    function_level(ctx, res, rng, quick)
    res.count("function_level_seconds", int(time.time() - t0))
    # ---- recorded witnesses (known findings / fixed defects), replayed on every run
    wit = [est_cell("density", 6, None, None, None, None, opt="L-BFGS-B"),
           est_cell("time", 6, None, None, None, ["S", "fixed"]),
           est_cell("density", 6, None, 6, None, None),
           est_cell("density", 6, None, 8, None, ["S", "full"]),
           # repaired function-estimator defects F1-F4, F6 and F5 (negative rank): regression cases
           est_cell("function", 6, None, 8, None, None),
           est_cell("function", 6, None, 6, None, ["S", "full"]),
           est_cell("function", 6, None, None, None, ["S", "sparse_cholesky"]),
           est_cell("function", 6, 3, 4, None, None),
           est_cell("function", 6, None, 4, None, None, unc=True, sigma="vecN"),
           est_cell("function", 6, None, 6, None, ["S", "fixed"], unc=True, sigma="vecN"),
           est_cell("function", 6, None, 4, None, None, sigma="mat 2"),
           est_cell("density", 12, 5, None, ["F", -0.5], None),
           est_cell("density", 12, None, None, ["I", -12], None),
           est_cell("function", 6, 2, None, None, ["S", "full"]),
           est_cell("function", 6, None, 4, None, None, unc=True),
           est_cell("function", 6, None, 4, None, None, sigma="vecN"),
           # per-cell sigma with landmarks (fixed defect 20d7957): sparse m < n, fixed m < n / m = n / m > n, k-means landmarks
           est_cell("function", 6, None, 4, None, ["S", "fixed"], sigma="vecN"),
           est_cell("function", 6, None, 6, None, ["S", "fixed"], sigma="vecN"),
           est_cell("function", 6, None, 8, None, ["S", "fixed"], unc=True, sigma="vecN"),
           est_cell("function", 12, 5, None, None, None, unc=True, sigma="vecN"),
           est_cell("function", 12, None, 10, None, ["S", "sparse_cholesky"], sigma="vecN"),
           est_cell("function", 6, None, None, None, None, sigma="mat 2"),
           # a sigma vector that contradicts the number of cells (fixed defect: broadcast / internal shape error)
           est_cell("function", 6, None, None, None, None, sigma="vecL 1"),
           est_cell("function", 6, None, None, None, None, unc=True, sigma="vecL 5"),
           est_cell("function", 6, None, 4, None, None, unc=True, sigma="vecL 1"),
           est_cell("function", 6, None, 4, None, None, sigma="vecL 4"),
           est_cell("function", 6, None, 6, None, ["S", "fixed"], sigma="vecL 7"),
           est_cell("function", 6, None, 4, None, None, sigma="vecL 6"),
           # fixed with more requested landmarks than cells: the state of the fitted model is accepted back
           est_cell("density", 12, 13, 12, None, ["S", "fixed"], lmcells=True),
           est_cell("density", 12, 5000, 12, None, ["S", "fixed"], lmcells=True),
           est_cell("dim", 12, 13, 12, None, ["S", "fixed"], lmcells=True),
           est_cell("time", 12, 13, 12, None, ["S", "fixed"], lmcells=True),
           est_cell("function", 12, 13, 12, None, ["S", "fixed"], lmcells=True),
           est_cell("density", 12, 13, 11, None, ["S", "fixed"]),
           # ... but only the cells: n other landmark rows next to a larger request are refused (fixed defect 2c47d64)
           est_cell("density", 12, 13, 12, None, ["S", "fixed"]),
           est_cell("function", 6, 5000, 6, None, ["S", "fixed"]),
           est_cell("time", 12, 13, 12, None, ["S", "fixed"]),
           # a wrong-length sigma is refused in every mode (fixed defect 28c326d: accepted with y_is_mean and no uncertainty)
           est_cell("function", 6, None, None, None, None, sigma="vecL 5", yim=True),
           est_cell("function", 6, None, 4, None, None, sigma="vecL 5", yim=True),
           est_cell("function", 6, None, None, None, None, unc=True, sigma="vecL 7", yim=True),
           # the dimensionality estimator's two predictors (seeded change C15-e)
           est_cell("dim", 12, None, 12, ["F", 0.5], None),
           est_cell("dim", 12, None, 14, ["I", 3], ["S", "full_nystroem"]),
           est_cell("density", 6, 1, None, None, None),
           est_cell("density", 6, 0, None, None, ["S", "fixed"]),
           est_cell("density", 6, 3, None, None, None, unc=True, opt="adam"),
           est_cell("density", 6, 3, None, None, None, unc=True, opt="advi"),
           est_cell("density", 12, 4, None, ["F", 0.999], None),
           est_cell("density", 12, None, None, ["I", -1], None),
           # Nystroem rank that keeps as many directions as there are landmarks (fixed defect 8089bef)
           est_cell("density", 12, 2, None, ["F", 0.99], None),
           est_cell("time", 6, 2, None, ["F", 0.99], None),
           est_cell("dim", 12, 3, None, ["F", 0.9999999], None),
           # full types with explicitly passed landmarks (fixed defect e3730dc)
           est_cell("density", 12, None, 12, None, None),
           est_cell("time", 6, None, 8, ["F", 0.5], None),
           # 'fixed' without explicit landmarks on the time-sensitive estimator (fixed defect 02e559e)
           est_cell("time", 12, None, None, None, ["S", "fixed"]),
           # integer rank given as a NumPy / JAX integer scalar (fixed defect 4604925: it became the float k.0 = 'full')
           est_cell("density", 12, None, None, ["NI", 3, "int64"], None),
           est_cell("density", 12, 5, None, ["NI", 2, "int32"], None),
           est_cell("density", 12, None, None, ["NI", 3, "jnp0d"], ["S", "full_nystroem"]),
           est_cell("time", 6, None, None, ["NI", 2, "np0d"], None),
           est_cell("dim", 12, 4, None, ["NI", 2, "uint8"], None),
           est_cell("density", 12, None, None, ["NI", 12, "jnp0d32"], None),
           est_cell("density", 12, None, None, ["NI", 3, "int64"], ["S", "full"])]
    for p in wit:
        run_case(ctx, res, p)
    # ---- the property's grid on DensityEstimator
    cells = []
    for n in (6, 12):
        for nl, lm, r, gp in itertools.product(grid_nl(n), grid_lm(n), grid_ranks(n), SPELLINGS):
            cells.append(est_cell("density", n, nl, lm, r, gp))
    if quick:
        # boundary rows: every value of each axis against the defaults of the others, plus pairs with gp_type
        rows = []
        for n in (6, 12):
            for nl in grid_nl(n):
                for gp in SPELLINGS:
                    rows.append(est_cell("density", n, nl, None, None, gp))
            for r in grid_ranks(n):
                for gp in SPELLINGS:
                    rows.append(est_cell("density", n, None, None, r, gp))
            for lm in grid_lm(n):
                for r in (None, ["I", 2], ["F", 0.5]):
                    rows.append(est_cell("density", n, None, lm, r, None))
            for nl in (2, n - 1):
                for r in (["I", 1], ["I", 2], ["F", 0.5], ["F", 0.99]):
                    rows.append(est_cell("density", n, nl, None, r, None))
            for j, r in enumerate(grid_ranks(n)):
                if r is not None and r[0] == "I":
                    rows.append(est_cell("density", n, None, None, ["NI", r[1], np_form(j + n, r[1])], None))
        order = rng.permutation(len(cells))
        todo = [rows[i] for i in rng.permutation(len(rows))] + [cells[i] for i in order]
        res.exhaustive = False
    else:
        todo = cells
    n_grid = 0
    grid_end = t0 + budget * (0.55 if quick else 0.85)
    for p in todo:
        if time.time() > grid_end and n_grid >= (30 if quick else 0):      # a quick run never skips the grid entirely
            break
        run_case(ctx, res, p)
        n_grid += 1
    res.count("density_grid_cells", n_grid)
    if not quick and n_grid == len(cells):
        res.exhaustive = True
        res.notes.append("DensityEstimator: the property's full 6336-cell grid enumerated")
    elif not quick:
        res.notes.append(f"DensityEstimator grid: {n_grid} of {len(cells)} cells enumerated within the time box")
    # ---- other estimators and the uncertainty / optimizer / sigma axes, seeded
    i = 0
    while time.time() < t_end:
        est = ["time", "dim", "function", "density"][int(rng.choice(4, p=[0.2, 0.08, 0.32, 0.4]))]
        n = int(rng.choice([6, 12]))
        nl = grid_nl(n)[rng.integers(8)]
        lm = grid_lm(n)[int(rng.choice(4, p=[0.55, 0.15, 0.15, 0.15]))]
        gp = SPELLINGS[rng.integers(len(SPELLINGS))]
        if rng.random() < 0.1:
            gp = ["E", NAMES[rng.integers(5)]]
        if est == "function":
            sg = ["scalar", "scalar", "vecN", "mat 2", "negative", "vecL 1", "vecL %d" % (n - 1), "vecL %d" % (n + 1),
                  "vecL %d" % n][rng.integers(9)]
            p = est_cell(est, n, nl, lm, None, gp, unc=bool(rng.random() < 0.5), sigma=sg, lmcells=bool(rng.random() < 0.5),
                         yim=bool(rng.random() < 0.4))
        else:
            r = grid_ranks(n)[rng.integers(11)]
            if r is not None and r[0] == "I" and rng.random() < 0.2:
                r = ["NI", r[1], np_form(int(rng.integers(len(NPINT_FORMS))), r[1])]
            if rng.random() < 0.08:
                r = [["I", -1], ["I", -n], ["F", -0.5], ["F", 0.0], ["NAN"], ["F", 0.999]][rng.integers(6)]
            unc = bool(rng.random() < 0.5) if est == "density" else bool(rng.random() < 0.25)
            opt = (["adam", "advi", "L-BFGS-B"][int(rng.choice(3, p=[0.45, 0.45, 0.1]))] if unc
                   else ("L-BFGS-B" if rng.random() < 0.04 else "adam"))
            p = est_cell(est, n, nl, lm, r, gp, unc=unc, opt=opt, lmcells=bool(rng.random() < 0.5))
        run_case(ctx, res, p)
        i += 1
    res.count("sampled", i)


CLAIM = {
    "text": "Lean theorems about ONE total function resolve : Config -> Outcome (unbounded integers n, n_landmarks, rank; "
            "rational ranks; arbitrary gp_type strings): totality/exclusivity of {ok, refused, internal}; accepted => the "
            "documented type rules (full family iff no or >= n landmarks, sparse family iff 1 < n_landmarks < n, Nystroem "
            "iff the rank request reduces, explicit names kept, from_string = exact else first partial match in enum "
            "order, 'fixed' keeps the requested inducing points); promised shape of L; predictor family as "
            "compute_conditional dispatches; uncertainty needs advi; no internal outcome outside the recorded regions; an integer "
            "rank given as a NumPy / JAX integer scalar resolves like the Python int (numpy_integer_rank_is_integer_rank). "
            "Tied to /repo by exhaustive function-level boundary grids and by fitting the estimators on the property's "
            "grid, with an independent rule/clean-failure oracle.",
    "note": "no_internal, rules, shape_promise and pred_matches_type are full-strength theorems for all four estimators "
            "(after the repairs of the FunctionEstimator validation / noise-shape defects and of the negative-rank hole; a "
            "per-cell sigma vector is accepted with every number of landmarks and resolves like a scalar sigma - "
            "function_sigma_form_irrelevant, signature C15:function-vector-sigma-landmarks, fixed defect 20d7957; the "
            "old witnesses are replayed as regression cases on every run; so are estimators with rank=np.int64 / np.int32 / "
            "np.uint8 / 0-d np / jnp integer arrays, compared with the run on the same Python int - signature "
            "C15:numpy-integer-rank, fixed defect 4604925). Nystroem column counts for fractional ranks are an input (C10).",
    "technique": "Lean 4 proof (case analysis over an exact decision model with unbounded integers) + exhaustive/sampled "
                 "differential correspondence + independent rule oracle",
}
