"""C02 — predictor reproduces the fitted training values; normalisation is exact."""
import time
import numpy as np
from ..common import mellon, loguniform, gen_points, exc_class, cov_str
from .. import condutil as cu
from .. import covoracle as co

EPS = np.finfo(float).eps
RULE = ("cases = (estimator in {density, time-sensitive density, dimensionality (+ companion density)}, gp configuration in "
        "{full, full_nystroem(rank), sparse_cholesky(explicit landmarks / k-means), sparse_nystroem(rank), fixed(m<n, m=n, m>n), "
        "inferred}, kernel, jitter, latent vector from a real fit or an arbitrary vector through the staged API); each case "
        "checks predict(X) against the fitted values with the bound of its family, normalize=True, exp/logscale, and rebuilds "
        "the predictor in the Lean model; non-trivial = fitted values not constant")
PARTIAL = ["the jitter-proportional bound for full models is proved as sum_i err_i^2 <= (jitter/(lambda+jitter))^2 * sum_i (fitted_i-mu)^2 "
           "for a kernel matrix >= lambda*I (full_insample_bound; lambda = 0 for any PSD kernel), together with the identity "
           "err_i = -jitter * w_i; for DTC models the theorem is the error formula (its size depends on the conditioning of the "
           "inducing system); the check evaluates both with the implementation's own weights"]
ASSUMPTIONS = ["k-means landmark placement is arbitrary (any landmark set satisfies the identities)"]
CLAIM = {
    "text": "Lean theorems over R: Cholesky-latent predictor at the training cells equals mu + (L z)_i exactly when the same factor "
            "Lp is used for L = K_xu Lp^-T and for the weights Lp^-T z (adjoint triangular solves); full predictor with 'values are "
            "the mean' misses the fitted value by exactly -jitter*w_i; the DTC predictor with values in range(K_xu) misses by "
            "-jitter * K_xu M^-1 (K_uu + jitter I) c; normalize=True subtracts exactly log n_obs; positive-valued predictors are exp "
            "of their log-scale output (> 0). Tied to /repo by fitting the three inference estimators over the gp-type grid and "
            "rebuilding each predictor in the model from the implementation's latent vector.",
    "note": "Optimiser convergence is irrelevant here (identities hold for any latent vector; both real fits and arbitrary "
            "vectors are used). n_obs for time-sensitive models is C14's average cell count. Float64 modelled away.",
    "technique": "Lean 4 proof (adjointness of triangular solves, normal-equation identities) + differential correspondence",
}


def tree_from_cov(c):
    """mellon Covariance object -> harness tree."""
    name = type(c).__name__
    ad = c.active_dims

    def adt(a):
        if a is None:
            return ("AN",)
        if isinstance(a, slice):
            return ("AS", a.start, a.stop, a.step)
        if np.isscalar(a):
            return ("AI", int(a))
        a = np.asarray(a)
        if a.dtype == bool:
            return ("AM", [bool(b) for b in a])
        return ("AL", [int(z) for z in a])
    leaf = {"Matern32": "M32", "Matern52": "M52", "ExpQuad": "EQ", "Exponential": "EX", "Linear": "LIN"}
    if name in leaf:
        return (leaf[name], float(c.ls), adt(ad))
    if name == "RatQuad":
        return ("RQ", float(c.alpha), float(c.ls), adt(ad))
    if name in ("Add", "Mul"):
        if callable(c.right):
            return ({"Add": "ADD", "Mul": "MUL"}[name], tree_from_cov(c.left), tree_from_cov(c.right), adt(ad))
        return ({"Add": "ADDC", "Mul": "MULC"}[name], tree_from_cov(c.left), float(c.right), adt(ad))
    if name == "Pow":
        return ("POW", tree_from_cov(c.left), float(c.right), adt(ad))
    raise ValueError(name)


def make_est(p):
    m = mellon()
    kw = dict(jitter=float(p["jitter"]))
    kw.update(p["gp_kwargs"])
    if p.get("Xu") is not None:
        kw["landmarks"] = np.asarray(p["Xu"], float)
    if p.get("ls") is not None:
        kw["ls"] = float(p["ls"])
    curry = {"M52": m.cov.Matern52, "M32": m.cov.Matern32, "EQ": m.cov.ExpQuad}[p["kernel"]]
    kw["cov_func_curry"] = curry
    if p["estimator"] == "density":
        return m.DensityEstimator(**kw)
    if p["estimator"] == "time":
        return m.TimeSensitiveDensityEstimator(ls_time=float(p["ls_time"]), **kw)
    return m.DimensionalityEstimator(k=int(p["k"]), **kw)


def check_predictor(ctx, res, p, pred, est, X, fitted_raw, latent, label):
    """fitted_raw: the values the predictor conditions on (log scale for Exp predictors)."""
    cls = type(pred).__name__
    res.count("class=" + cls)
    jitter = float(p["jitter"])
    n = X.shape[0]
    is_exp = cls.startswith("Exp")
    out = np.asarray(pred(X), float)
    raw = np.asarray(pred(X, logscale=True), float) if is_exp else out
    cov = est.cov_func
    tree = tree_from_cov(cov)
    mu = float(pred.mu)
    scale = max(np.max(np.abs(fitted_raw - mu)), 1e-300)
    from mellon.util import deserialize
    w = np.asarray(deserialize(pred.to_dict()["data"]["weights"]), float)
    delta = raw - fitted_raw
    # absolute rounding floor: mu + sum(k w) and, for Exp predictors, log(exp(v)) of the fitted values
    afloor = 64 * EPS * (1.0 + abs(mu) + float(np.max(np.abs(fitted_raw))))
    # the rule follows the model TYPE the estimator resolved to, not the class of the predictor it happened to build:
    # inducing-point Cholesky models (sparse_cholesky, fixed) must reproduce the fitted values to float accuracy
    gp_name = str(getattr(est, "gp_type", "")).split(".")[-1].upper()
    tight_type = gp_name in ("SPARSE_CHOLESKY", "FIXED")
    res.count("rule=" + ("float-accuracy" if (tight_type or "Cholesky" in cls) else "jitter-proportional"))
    if tight_type and "Cholesky" not in cls:
        res.oracle_fail(f"{label}: gp_type {gp_name.lower()} did not build the Cholesky-latent predictor ({cls})", p,
                        signature="C02:class-for-type")
    if "Cholesky" in cls or tight_type:
        if est.Lp is not None:
            Lp = np.asarray(est.Lp, float)
        else:
            Xb_ = np.asarray(pred.landmarks, float)
            Lp = np.linalg.cholesky(cu.kernel_np(cov, Xb_, Xb_) + jitter * np.eye(Xb_.shape[0]))
        tol = 1e3 * EPS * np.linalg.cond(Lp) ** 2 + 1e-12
        dv = max(np.max(np.abs(delta)) - afloor, 0.0) / scale
        res.dev("cholesky_insample_over_tol", dv / tol)
        if dv > tol:
            res.oracle_fail(f"{label}: Cholesky-latent predictor does not reproduce the fitted values to float accuracy", p,
                            detail={"rel": float(dv), "tol": float(tol)}, signature="C02:insample-cholesky")
    elif cls.replace("Exp", "").startswith("FullConditional"):
        K = cu.kernel_np(cov, X, X)
        cond = np.linalg.cond(K + jitter * np.eye(n))
        tol = (1e3 * EPS * cond + 1e-12) * max(np.max(np.abs(K)), 1.0) * max(np.max(np.abs(w)), 1e-300) * n
        dv = max(np.max(np.abs(delta + jitter * w)) - afloor, 0.0)
        res.dev("full_insample_identity_over_tol", dv / tol)
        if dv > tol:
            res.oracle_fail(f"{label}: full predictor in-sample error is not -jitter*w", p,
                            detail={"abs": float(dv), "tol": float(tol)}, signature="C02:insample-full")
        if np.max(np.abs(delta)) > jitter * np.max(np.abs(w)) * (1 + 1e-6) + tol:
            res.oracle_fail(f"{label}: in-sample error exceeds jitter*|w|", p, signature="C02:insample-full-bound")
    else:  # DTC family (sparse_nystroem)
        Xu = np.asarray(est.landmarks, float)
        m = Xu.shape[0]
        Kxu = cu.kernel_np(cov, X, Xu)
        Kuu = cu.kernel_np(cov, Xu, Xu) + jitter * np.eye(m)
        r = fitted_raw - mu
        c, *_ = np.linalg.lstsq(Kxu, r, rcond=None)
        in_range = np.max(np.abs(Kxu @ c - r)) / scale
        M = jitter * Kuu + Kxu.T @ Kxu
        eref = -jitter * Kxu @ np.linalg.solve(M, Kuu @ c)
        condM = np.linalg.cond(M)
        tol = (1e3 * EPS * condM + 1e-10) + 10 * in_range
        dv = max(np.max(np.abs(delta - eref)) - afloor, 0.0) / scale
        res.dev("dtc_insample_formula_over_tol", dv / tol)
        res.dev("dtc_values_in_range_of_Kxu", in_range)
        if dv > tol and tol < 1e-3:
            res.oracle_fail(f"{label}: DTC in-sample error is not the jitter-proportional formula", p,
                            detail={"rel": float(dv), "tol": float(tol)}, signature="C02:insample-dtc")
    # exp / logscale
    if is_exp:
        if out.tobytes() != np.asarray(np.exp(raw)).tobytes() and np.max(np.abs(out - np.exp(raw))) > 4 * EPS * np.max(np.abs(out)):
            res.oracle_fail(f"{label}: predict(X) is not exp of the log-scale output", p, signature="C02:exp")
        if not np.all(out > 0):
            res.oracle_fail(f"{label}: positive-valued predictor returned a non-positive value", p, signature="C02:exp-pos")
    else:
        # normalisation
        n_exp = p["n_obs_expected"]
        on = np.asarray(pred(X, normalize=True), float)
        ref = out - np.log(n_exp)
        dvn = np.max(np.abs(on - ref)) / max(np.max(np.abs(ref)), 1e-300)
        res.dev("normalize_rel", dvn)
        if dvn > 8 * EPS or abs(float(pred.n_obs) - n_exp) > 1e-12 * n_exp:
            res.oracle_fail(f"{label}: normalize=True does not subtract log(n_obs) (n_obs={pred.n_obs}, expected {n_exp})", p,
                            detail={"rel": float(dvn)}, signature="C02:normalize")
    # ---------------- correspondence: rebuild the predictor in the model
    drv = ctx["driver"]
    if drv is None:
        return
    Xb = np.asarray(pred.landmarks if hasattr(pred, "landmarks") else pred.x, float)
    if "Cholesky" in cls:
        mod = cu.model_lmchol(drv, tree, Xb, latent, mu, n, None if est.Lp is None else np.asarray(est.Lp, float), None,
                              jitter, True, False, X)
    elif cls.replace("Exp", "").startswith("FullConditional"):
        Lg = None if est.Lp is None else np.asarray(est.Lp, float)
        mod = cu.model_full(drv, tree, X, fitted_raw, mu, Lg, None, jitter, None, True, False, X)
    else:
        mod = cu.model_lm(drv, tree, X, Xb, fitted_raw, mu, None, jitter, None, True, False, X)
    if mod["status"] != "ok":
        res.corr_fail(f"{label}: model refuses ({mod['status']})", p)
        return
    Kbb = cu.kernel_np(cov, Xb, Xb) + jitter * np.eye(Xb.shape[0])
    cond = np.linalg.cond(Kbb)
    lo_, hi_ = co.interval(tree, Xb, Xb)
    wK = float(np.max(hi_ - lo_))
    tolm = 1e4 * EPS * cond * (1 if "Cholesky" in cls else cond ** 0.5) + 200 * wK * cond * Xb.shape[0] + 1e-10
    dvm = max(np.max(np.abs(mod["mean"].reshape(-1) - raw)) - afloor, 0.0) / scale
    res.dev("model_vs_impl_over_tol", dvm / tolm)
    if dvm > tolm and tolm < 1e-3:
        res.corr_fail(f"{label}: model and implementation predictions differ", p, detail={"rel": float(dvm), "tol": float(tolm)})
    # the model's own in-sample deviation obeys the same law (ties the theorem to the observable)
    dmod = mod["mean"].reshape(-1) - fitted_raw
    if "Cholesky" in cls and max(np.max(np.abs(dmod)) - afloor, 0.0) / scale > tolm:
        res.corr_fail(f"{label}: model's Cholesky-latent predictor does not reproduce the fitted values", p)


def run_case(ctx, res, p):
    X = np.asarray(p["X"], float)
    n = X.shape[0]
    for k in ("estimator", "config", "kernel", "latent"):
        res.count(f"{k}={p[k]}")
    res.count("path=" + p.get("path", "eager"))
    sample = {k: (v if not isinstance(v, np.ndarray) else list(v.shape)) for k, v in p.items()}
    canon = repr([(k, v.tobytes() if isinstance(v, np.ndarray) else v) for k, v in sorted(p.items())])
    try:
        est = make_est(p)
        path = p.get("path", "eager")
        if p["latent"] == "fit":
            # eager: fit() builds the predictor; lazy: predictor built on first access of .predict
            if path == "eager":
                est.fit(X)
            elif path == "lazy-fit":
                est.fit(X, build_predict=False)
            else:
                est.fit_predict(X)
        else:
            est.prepare_inference(X)
            shp = np.asarray(est.initial_value).shape
            z = np.random.default_rng(p["zseed"]).normal(size=shp) * 0.5
            est.process_inference(pre_transformation=z, build_predict=(path == "eager"))
    except Exception as e:
        res.case(canon, False, sample)
        res.oracle_fail(f"fit raised {exc_class(e)}: {str(e)[:80]}", p, signature="C02:fit:" + exc_class(e))
        return
    res.count("gp=" + str(est.gp_type).split(".")[-1])
    res.count("optimizer=" + str(p["gp_kwargs"].get("optimizer", "none(arbitrary latent)")))
    z = np.asarray(est.pre_transformation, float)
    if p["estimator"] == "dim":
        ld = np.asarray(est.local_dim_x, float)
        dens = np.asarray(est.log_density_x, float)
        res.case(canon, bool(np.ptp(dens) > 1e-9), sample)
        check_predictor(ctx, res, p, est.predict, est, X, np.log(ld), z[0], "dimensionality")
        check_predictor(ctx, res, p, est.predict_density, est, X, dens, z[1], "companion density")
    else:
        fitted = np.asarray(est.log_density_x, float)
        res.case(canon, bool(np.ptp(fitted) > 1e-9), sample)
        check_predictor(ctx, res, p, est.predict, est, np.asarray(est.x, float), fitted, z, p["estimator"])
        # fit_predict returns the fitted values
        if p["latent"] == "fit":
            fp = np.asarray(make_est(p).fit_predict(X), float)
            if fp.shape != fitted.shape:
                res.oracle_fail("fit_predict shape differs from log_density_x", p, signature="C02:fit-predict")


CONFIGS = ["full", "full_nystroem", "sparse_cholesky", "sparse_kmeans", "sparse_nystroem", "fixed<", "fixed=", "fixed>",
           "inferred", "full+landmarks=", "full+landmarks>", "full_nystroem+landmarks"]


def gen_case(rng, latent, est=None, cfg=None, unc=None, rank=None):
    est = est or ["density", "density", "time", "dim"][rng.integers(4)]
    n, d = 24, 2
    X, _ = gen_points(rng, n, d, kind=["plain", "clustered"][rng.integers(2)], scale=1.0)
    n_obs = n
    if est == "time":
        tt = np.repeat(np.arange(3.0), 8)[rng.permutation(n)]
        X = np.c_[X, tt]
        n_obs = n / 3
    cfg = cfg or CONFIGS[rng.integers(len(CONFIGS))]
    gp, Xu = {}, None
    m = 6
    dd = X.shape[1]
    lm = lambda k: (np.c_[gen_points(rng, k, d, kind="plain")[0], rng.integers(0, 3, size=k).astype(float)]
                    if est == "time" else gen_points(rng, k, d, kind="plain")[0])
    if cfg == "full":
        gp = dict(n_landmarks=0)
    elif cfg == "full_nystroem":
        gp = dict(gp_type="full_nystroem", rank=[0.9, 0.99, 3][rng.integers(3)])
    elif cfg == "sparse_cholesky":
        Xu = X[rng.permutation(n)[:m]].copy() if rng.random() < 0.5 else lm(m)
    elif cfg == "sparse_kmeans":
        gp = dict(n_landmarks=m)
    elif cfg == "sparse_nystroem":
        Xu = lm(m)
        # (1 - 1e-9 keeps every landmark direction: the factor then has as many columns as there are landmarks, the
        # coincidence that must not make the predictor read the rank-reduced latent as landmark Cholesky weights)
        gp = dict(gp_type="sparse_nystroem", rank=rank if rank is not None else [0.9, 0.99, 0.999, 3, 5, 1 - 1e-9][rng.integers(6)])
    elif cfg == "fixed<":
        Xu = lm(m); gp = dict(gp_type="fixed")
    elif cfg == "fixed=":
        Xu = X.copy(); gp = dict(gp_type="fixed")
    elif cfg == "fixed>":
        Xu = lm(n + 4); gp = dict(gp_type="fixed")
    elif cfg == "full+landmarks=":
        Xu = lm(n)                      # as many arbitrary landmarks as cells: resolves to 'full'
    elif cfg == "full+landmarks>":
        Xu = lm(n + 4); gp = dict(gp_type="full") if rng.random() < 0.5 else {}
    elif cfg == "full_nystroem+landmarks":
        Xu = lm(n + int(rng.integers(0, 3))); gp = dict(rank=[0.9, 3][rng.integers(2)])
    if latent == "fit":
        gp["optimizer"] = "L-BFGS-B"
        if unc if unc is not None else rng.random() < 0.3:
            # uncertainty options must not change what the predictor's mean reproduces: ADVI fit with the latent standard
            # deviations handed to the predictor
            gp.update(optimizer="advi", predictor_with_uncertainty=True, n_iter=12)
    return {"op": "fit", "estimator": est, "config": cfg, "gp_kwargs": gp, "X": X, "Xu": Xu,
            "kernel": ["M52", "M32", "EQ"][rng.integers(3)], "jitter": loguniform(rng, 1e-6, 1e-3),
            "ls": loguniform(rng, 0.5, 2.0) if rng.random() < 0.7 else None, "ls_time": loguniform(rng, 0.5, 2.0),
            "k": 5, "latent": latent, "zseed": int(rng.integers(1 << 30)), "n_obs_expected": n_obs,
            "path": (["eager", "lazy-fit", "lazy-fit-predict"][rng.integers(3)] if latent == "fit"
                     else ["eager", "lazy"][rng.integers(2)])}


def run(ctx, res):
    rng = ctx["rng"]
    quick = ctx["tier"] == "quick"
    budget = ctx["budget"] or (75 if quick else 600)
    t_end = time.time() + budget
    mellon()
    # fixed plan: ADVI fits with predictor uncertainty, one per model type (and per estimator for the rank-reduced full type)
    for est_, cfg_ in (("density", "full_nystroem"), ("time", "full_nystroem"), ("dim", "full_nystroem"), ("density", "full"),
                       ("density", "sparse_cholesky"), ("density", "sparse_nystroem"), ("density", "fixed=")):
        run_case(ctx, res, gen_case(rng, "fit", est=est_, cfg=cfg_, unc=True))
    # sparse_nystroem with every landmark direction kept (seeded change C02-f), all three estimators
    for est_ in ("dim", "density", "time"):
        run_case(ctx, res, gen_case(rng, "fit", est=est_, cfg="sparse_nystroem", unc=False, rank=1 - 1e-9))
    i = 0
    while time.time() < t_end:
        run_case(ctx, res, gen_case(rng, "fit" if i % 6 == 5 else "arbitrary"))
        i += 1
