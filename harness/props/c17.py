"""C17 — optimisation never degrades the objective and is reproducible  (PARTIAL by nature).

What is tied to the Lean model (correspondence):
  * `_run_inference` wiring — the three solvers are replaced in-process by stubs that echo their
    arguments; the estimator fields after `_run_inference` are compared, as strings, with the model's
    symbolic run (op c17wire) and with an independent expected table; unknown optimiser -> ValueError;
  * `minimize_adam` — the whole loss trace and the returned parameters against the model's loop over
    `optimizers.adam` with mellon's schedule and the analytic gradient (op c17adam), n_iter in
    {1, 2, 7, 50};
  * ADVI — `std = exp(log_std)`, the initial variational parameters (ops c17advistd, c17adviinit);
  * the reported L-BFGS-B loss equals the *model's* loss (op c03loss) at the implementation's z*.
What is a TEST only (runtime behaviour of scipy / XLA that no pure model exhibits; labelled so in the
evidence): descent loss(z0) >= loss(z*) = losses[-1] with an independent numpy evaluation, gradient-norm
ratio, finiteness, ADVI std positivity/shape, bitwise reproducibility in-process and across fresh
interpreters, jit on/off agreement."""
import os, sys, time, json, math, hashlib, subprocess, collections
import numpy as np
from ..common import mellon, bits, fbit, unbits, REPO, VERIF, exc_class
from .c03 import o_loss, o_mle, dim_tokens, ask_floats, close, distinct_points

RULE = ("cases = (optimizer name incl. unknown ones, previous opt_state) for the wiring; (data set X with 1..3 features, "
        "n in {12,16}, n_iter in {1,2,7,50}, learn rate, jit) for Adam traces; fits with each optimiser for descent / "
        "finiteness / positivity; pairs of identical fits in one process and in two fresh interpreters (full GP and "
        "explicit landmarks); jit on/off pairs. distinct = hash of the payload; non-trivial = the optimiser ran at "
        "least one iteration on at least 2 cells, or a wiring outcome")
PARTIAL = [
    "TEST ONLY: scipy L-BFGS-B meets its contract (loss(z*) <= loss(z0), reported loss = loss(z*)); proved: contract => property",
    "TEST ONLY: gradient norm at z* far below the one at z0 (threshold 2e-2 on the ratio; clean runs show <= 1.1e-4)",
    "TEST ONLY: finiteness of parameters / losses / ADVI standard deviations in float64",
    "TEST ONLY: bit-identical reruns within one process and across fresh interpreters (a pure model is reproducible by "
    "construction; XLA/BLAS/scipy scheduling is not modelled)",
    "TEST ONLY: jit on/off agree to rounding (tolerance on fitted log-density, a posteriori)",
    "the ADVI objective (PRNG, reparameterised ELBO) is an opaque step function of the model; only the loop, the trace "
    "length and std = exp(log_std) > 0 are proved",
]
ASSUMPTIONS = [
    "jax.value_and_grad returns the derivative (AD contract); the model's analytic gradient is proved to be the derivative",
    "jax.example_libraries.optimizers.adam as transcribed (b1=0.9, b2=0.999, eps=1e-8) in the model",
    "stubbing mellon.base_model.{minimize_adam,run_advi,minimize_lbfgsb} in-process observes the wiring without "
    "changing the source",
]
TRUSTED_EXTRA = [
    "scipy.optimize L-BFGS-B via jaxopt.ScipyMinimize: returns (z, f) with f = loss(z) <= loss(z0) (contract; tested)",
    "JAX autodiff (value_and_grad) returns derivatives (contract; the Adam trace comparison exercises it)",
    "jax.random / the ADVI ELBO estimator: opaque",
]

TOL_TRACE = 1e-7       # Adam trace model vs impl, relative to a-posteriori loss scale (seen <= 1e-12)
TOL_LOSS = 1e-9        # reported loss vs independent evaluation, relative to sum |terms|
GRAD_RATIO = 2e-2      # |grad(z*)| / |grad(z0)| (seen <= 1.1e-4 on clean runs)
TOL_JIT = 1e-5         # jit on/off, fitted log-density, absolute/relative mix

_STUB_NAMES = ("minimize_adam", "run_advi", "minimize_lbfgsb")


# ------------------------------------------------------------------ helpers

def np_grad(r, d, mu, L, z):
    f = L @ z + mu
    logV = (d / 2) * math.log(math.pi) - __import__("scipy.special", fromlist=["gammaln"]).gammaln(d / 2 + 1) + d * np.log(r)
    return z - L.T @ (1 - np.exp(f + logV))


def prepare(X, **kw):
    m = mellon()
    est = m.DensityEstimator(**kw)
    lf, z0 = est.prepare_inference(X)
    parts = dict(nn=np.asarray(est.nn_distances, float), d=est.d, mu=float(est.mu), L=np.asarray(est.L, float),
                 z0=np.asarray(z0, float))
    return est, lf, parts


def dcell(parts):
    n = parts["nn"].size
    return np.asarray(parts["d"], float) * np.ones(n)


def loss_np(parts, z):
    return o_loss(parts["nn"], dcell(parts), parts["mu"], parts["L"], np.asarray(z, float))


def run_case(ctx, res, p):
    return {"wire": case_wire, "adamtrace": case_adamtrace, "fit": case_fit, "advi": case_advi,
            "repro": case_repro, "subproc": case_subproc, "jit": case_jit, "advistd": case_advistd}[p["op"]](ctx, res, p)


# ------------------------------------------------------------------ wiring (exact)

def expected_wire(name, prev):
    a5 = "(F,Z0,7,0.25,true)"
    a3 = "(F,Z0,true)"
    if name == "adam":
        return f"ok pre=adam.pre{a5} std=None opt=adam.opt{a5} losses=[adam.losses{a5}]"
    if name == "advi":
        return f"ok pre=advi.pre{a5} std=advi.std{a5} opt={prev if prev is not None else 'None'} losses=[advi.losses{a5}]"
    if name == "L-BFGS-B":
        return f"ok pre=lbfgsb.pre{a3} std=None opt=lbfgsb.opt{a3} losses=[lbfgsb.loss{a3}]"
    return "ValueError"


def impl_wire(name, prev):
    m = mellon()
    bm = sys.modules["mellon.base_model"]
    saved = {k: getattr(bm, k) for k in _STUB_NAMES}
    fmt = lambda *a: "(" + ",".join("true" if x is True else "false" if x is False else str(x) for x in a) + ")"
    A = collections.namedtuple("Results", "pre_transformation opt_state losses")
    V = collections.namedtuple("Results", "pre_transformation pre_transformation_std losses")
    B = collections.namedtuple("Results", "pre_transformation opt_state loss")

    def s_adam(function, initial_value, n_iter=None, init_learn_rate=None, jit=None):
        a = fmt(function, initial_value, n_iter, init_learn_rate, jit)
        return A("adam.pre" + a, "adam.opt" + a, ["adam.losses" + a])

    def s_advi(function, initial_value, n_iter=None, init_learn_rate=None, nsamples=None, jit=None):
        a = fmt(function, initial_value, n_iter, init_learn_rate, jit)
        return V("advi.pre" + a, "advi.std" + a, ["advi.losses" + a])

    def s_lbfgsb(function, initial_value, jit=None):
        a = fmt(function, initial_value, jit)
        return B("lbfgsb.pre" + a, "lbfgsb.opt" + a, "lbfgsb.loss" + a)

    try:
        bm.minimize_adam, bm.run_advi, bm.minimize_lbfgsb = s_adam, s_advi, s_lbfgsb
        est = m.DensityEstimator()
        est.loss_func, est.initial_value, est.n_iter, est.init_learn_rate, est.jit = "F", "Z0", 7, "0.25", True
        est.opt_state = prev
        if prev is not None:   # stale results of an earlier run must be overwritten / cleared, except advi's opt_state
            est.pre_transformation, est.pre_transformation_std, est.losses = "stale.pre", "stale.std", ["stale.losses"]
        est.optimizer = name
        try:
            est._run_inference()
        except Exception as e:
            return exc_class(e)
        s = lambda v: "None" if v is None else ("[" + ",".join(map(str, v)) + "]" if isinstance(v, list) else str(v))
        return f"ok pre={s(est.pre_transformation)} std={s(est.pre_transformation_std)} opt={s(est.opt_state)} losses={s(est.losses)}"
    finally:
        for k, v in saved.items():
            setattr(bm, k, v)


def case_wire(ctx, res, p):
    name, prev = p["name"], p.get("prev")
    out = impl_wire(name, prev)
    exp = expected_wire(name, prev)
    res.count("wire:" + ("known" if name in ("adam", "advi", "L-BFGS-B") else "unknown"))
    res.case(("wire", name, prev), True, {"op": "wire", "name": name, "prev": prev, "impl": out})
    if out != exp:
        res.oracle_fail("_run_inference does not store the optimiser results in the documented fields / does not refuse "
                        "an unknown optimiser with ValueError", p, detail={"impl": out, "expected": exp},
                        signature="C17:wiring-" + (name if name in ("adam", "advi", "L-BFGS-B") else "unknown"))
    if ctx["driver"] is not None:
        mo = ctx["driver"].ask(f"c17wire {name} F Z0 7 0.25 T {prev if prev is not None else 'N'}")
        if mo.split(":")[0] != out.split(":")[0] or (out.startswith("ok") and mo != out):
            res.corr_fail("model and implementation wiring differ", p, detail={"impl": out, "model": mo})


# ------------------------------------------------------------------ Adam trace (correspondence)

def case_adamtrace(ctx, res, p):
    mellon()
    inf = sys.modules["mellon.inference"]
    X = np.asarray(p["X"], float)
    n_iter, lr, jit = int(p["n_iter"]), float(p["lr"]), bool(p["jit"])
    est, lf, parts = prepare(X)
    z0 = parts["z0"] + float(p.get("zoff", 0.0)) * np.random.default_rng(int(p.get("zseed", 0))).normal(size=parts["z0"].shape)
    r = inf.minimize_adam(lf, z0, n_iter=n_iter, init_learn_rate=lr, jit=jit)
    losses = np.asarray(r.losses, float)
    zf = np.asarray(r.pre_transformation, float)
    res.count("adamtrace:n_iter=%d" % n_iter)
    res.count("adamtrace:jit=%s" % jit)
    res.case(("adamtrace", X.tobytes(), n_iter, lr, jit, p.get("zseed")), True,
             {"op": "adamtrace", "X_shape": list(X.shape), "n_iter": n_iter, "lr": lr, "jit": jit})
    # tests: length, finiteness, first loss = loss at the starting point (independent evaluation)
    if losses.shape != (n_iter,):
        res.oracle_fail("Adam loss trace does not have the requested length", p,
                        detail={"len": int(losses.size), "n_iter": n_iter}, signature="C17:adam-trace-length")
        return
    if not (np.all(np.isfinite(losses)) and np.all(np.isfinite(zf)) and zf.shape == z0.shape):
        res.oracle_fail("Adam returned non-finite parameters or losses", p, signature="C17:adam-finite")
        return
    l0, sc0 = loss_np(parts, z0)
    ok, dev = close(losses[0], l0, TOL_LOSS, sc0)
    res.dev("adamtrace:first_loss_vs_numpy/scale", dev)
    if not ok:
        res.oracle_fail("first Adam loss is not the objective at the starting point", p,
                        detail={"impl": float(losses[0]), "numpy": l0}, signature="C17:adam-first-loss")
    # property-level reading of the trace semantics (independent numpy): the first Adam update is
    # z1 = z0 - lr*g/(|g|+eps) (bias-corrected moments of one gradient), losses[1] is the loss there, and with
    # n_iter = 1 the returned parameters are z1 (the iterate *after* the last update)
    g0 = np_grad(parts["nn"], dcell(parts), parts["mu"], parts["L"], z0)
    z1 = z0 - lr * g0 / (np.abs(g0) + 1e-8)
    if n_iter >= 2:
        l1, sc1 = loss_np(parts, z1)
        ok, dev = close(losses[1], l1, 1e-6, sc1)
        res.dev("adamtrace:second_loss_vs_numpy/scale", dev)
        if not ok:
            res.oracle_fail("second Adam loss is not the objective at the first iterate (x0 - lr*g/(|g|+eps))", p,
                            detail={"impl": float(losses[1]), "numpy": l1}, signature="C17:adam-trace-semantics")
    if n_iter == 1:
        ok, dev = close(zf, z1, 1e-6, float(np.max(np.abs(z1))) + 1.0)
        res.dev("adamtrace:params_after_one_step_vs_numpy", dev)
        if not ok:
            res.oracle_fail("Adam parameters after one iteration are not x0 - lr*g/(|g|+eps)", p,
                            signature="C17:adam-trace-semantics")
    # correspondence: whole trace and final parameters
    if ctx["driver"] is not None:
        n, mm = parts["L"].shape
        dv = parts["d"] if np.ndim(parts["d"]) else float(parts["d"])
        out = ask_floats(ctx, f"c17adam {n} {mm} {bits(parts['nn'])} {dim_tokens(dv, n)} {fbit(parts['mu'])} "
                              f"{bits(parts['L'])} {mm} {bits(z0)} {n_iter} {fbit(lr)}")
        if isinstance(out, str) or out.size != n_iter + mm:
            res.corr_fail("model refuses adam op", p, detail={"model": str(out)[:80]})
            return
        ml, mz = out[:n_iter], out[n_iter:]
        okl, devl = close(losses, ml, TOL_TRACE, sc0)
        okz, devz = close(zf, mz, TOL_TRACE, float(np.max(np.abs(zf))) + 1.0)
        res.dev("adamtrace:losses_model_vs_impl/scale", devl)
        res.dev("adamtrace:params_model_vs_impl", devz)
        if not (okl and okz):
            res.corr_fail("model and implementation Adam trace differ", p,
                          detail={"loss_dev": devl, "param_dev": devz,
                                  "impl_head": losses[:3].tolist(), "model_head": ml[:3].tolist()})


# ------------------------------------------------------------------ fits: descent, reported loss, gradient (tests)

def case_fit(ctx, res, p):
    m = mellon()
    X = np.asarray(p["X"], float)
    opt, jit = p["optimizer"], bool(p.get("jit", False))
    n_iter = int(p.get("n_iter", 100))
    kw = dict(optimizer=opt, n_iter=n_iter, jit=jit)
    if p.get("landmarks") is not None:
        kw["landmarks"] = np.asarray(p["landmarks"], float)
    est, lf, parts = prepare(X, **kw)
    est.run_inference()
    zs = np.asarray(est.pre_transformation, float)
    res.count("fit:%s" % opt)
    res.count("fit:gp=%s" % ("landmarks" if p.get("landmarks") is not None else "full"))
    res.case(("fit", X.tobytes(), opt, jit, n_iter, None if p.get("landmarks") is None else np.asarray(p["landmarks"]).tobytes()),
             X.shape[0] >= 2, {"op": "fit", "X_shape": list(X.shape), "optimizer": opt, "jit": jit, "n_iter": n_iter})
    if zs.shape != parts["z0"].shape or not np.all(np.isfinite(zs)):
        res.oracle_fail("optimiser returned non-finite or mis-shaped parameters", p, signature=f"C17:{opt}-finite")
        return
    losses = np.asarray(est.losses, float)
    if not np.all(np.isfinite(losses)):
        res.oracle_fail("non-finite loss reported", p, signature=f"C17:{opt}-finite")
    l0, sc0 = loss_np(parts, parts["z0"])
    ls, scs = loss_np(parts, zs)
    if opt == "L-BFGS-B":
        if est.pre_transformation_std is not None or losses.shape != (1,):
            res.oracle_fail("L-BFGS-B state: losses is not [final loss] or std is set", p, signature="C17:wiring-L-BFGS-B")
            return
        res.dev("fit:lbfgs (loss(z*)-loss(z0))/scale (<=0 wanted)", max(0.0, (ls - l0) / sc0))
        if not ls <= l0 + 1e-12 * sc0:
            res.oracle_fail("L-BFGS-B returned parameters with a larger objective than the starting point", p,
                            detail={"loss_z0": l0, "loss_zstar": ls}, signature="C17:lbfgs-descent")
        ok, dev = close(losses[0], ls, TOL_LOSS, scs)
        res.dev("fit:lbfgs reported_loss_vs_numpy/scale", dev)
        if not ok:
            res.oracle_fail("reported final loss is not the objective at the returned parameters", p,
                            detail={"reported": float(losses[0]), "numpy": ls}, signature="C17:lbfgs-reported-loss")
        g0 = np.linalg.norm(np_grad(parts["nn"], dcell(parts), parts["mu"], parts["L"], parts["z0"]))
        gs = np.linalg.norm(np_grad(parts["nn"], dcell(parts), parts["mu"], parts["L"], zs))
        ratio = gs / max(g0, 1e-300)
        res.dev("fit:lbfgs grad_ratio", ratio)
        if g0 > 1e-3 and not ratio <= GRAD_RATIO:
            res.oracle_fail("gradient norm at the optimum is not far below the one at the start", p,
                            detail={"g0": float(g0), "gstar": float(gs)}, signature="C17:lbfgs-gradient")
        # tie the reported value to the modelled objective: model's loss at the implementation's z*
        if ctx["driver"] is not None:
            n, mm = parts["L"].shape
            dv = parts["d"] if np.ndim(parts["d"]) else float(parts["d"])
            mv = ask_floats(ctx, f"c03loss {n} {mm} {bits(parts['nn'])} {dim_tokens(dv, n)} {fbit(parts['mu'])} "
                                 f"{bits(parts['L'])} {mm} {bits(zs)}")
            ok, dev = (False, float("inf")) if isinstance(mv, str) else close(losses[0], mv[0], TOL_LOSS, scs)
            res.dev("fit:lbfgs reported_loss_vs_model/scale", dev)
            if not ok:
                res.corr_fail("reported loss differs from the model's loss at the implementation's z*", p,
                              detail={"reported": float(losses[0]), "model": str(mv)})
    elif opt == "adam":
        if est.pre_transformation_std is not None or losses.shape != (n_iter,):
            res.oracle_fail("adam state: trace length is not n_iter or std is set", p,
                            detail={"len": int(losses.size), "n_iter": n_iter}, signature="C17:adam-trace-length")
        ok, dev = close(losses[0], l0, TOL_LOSS, sc0)
        if not ok:
            res.oracle_fail("first Adam loss is not the objective at the starting point", p, signature="C17:adam-first-loss")


def case_advi(ctx, res, p):
    m = mellon()
    X = np.asarray(p["X"], float)
    n_iter, jit = int(p["n_iter"]), bool(p.get("jit", False))
    est, lf, parts = prepare(X, optimizer="advi", n_iter=n_iter, jit=jit)
    est.run_inference()
    zs = np.asarray(est.pre_transformation, float)
    std = est.pre_transformation_std
    res.count("advi:n_iter=%d" % n_iter)
    res.case(("advi", X.tobytes(), n_iter, jit), True, {"op": "advi", "X_shape": list(X.shape), "n_iter": n_iter, "jit": jit})
    if std is None:
        res.oracle_fail("ADVI did not store standard deviations", p, signature="C17:advi-std")
        return
    std = np.asarray(std, float)
    if std.shape != parts["z0"].shape or zs.shape != parts["z0"].shape:
        res.oracle_fail("ADVI parameters / standard deviations do not have the shape of the initial value", p,
                        detail={"std": list(std.shape), "z0": list(parts["z0"].shape)}, signature="C17:advi-shape")
        return
    if not (np.all(np.isfinite(std)) and np.all(std > 0) and np.all(np.isfinite(zs))):
        res.oracle_fail("ADVI standard deviations are not strictly positive and finite", p,
                        detail={"min": float(np.min(std))}, signature="C17:advi-std")
    losses = est.losses
    if not (isinstance(losses, list) and len(losses) == n_iter and np.all(np.isfinite(np.asarray(losses, float)))):
        res.oracle_fail("ADVI trace does not have the requested length or is not finite", p,
                        detail={"len": len(losses), "n_iter": n_iter}, signature="C17:advi-trace-length")
    if n_iter == 1:
        # model: log_std starts at -10*0 = 0 and one Adam step moves every coordinate by less than the learn rate
        lr = float(est.init_learn_rate)
        res.dev("advi:max|log std| after one step / lr", float(np.max(np.abs(np.log(std))) / lr))
        if not np.max(np.abs(np.log(std))) <= lr * (1 + 1e-9) or not np.max(np.abs(zs - parts["z0"])) <= lr * (1 + 1e-9):
            res.corr_fail("after one ADVI step the variational parameters moved by more than the learn rate from "
                          "(initial_value, log_std = 0)", p,
                          detail={"max_abs_log_std": float(np.max(np.abs(np.log(std))))})


def case_advistd(ctx, res, p):
    """model ops of the ADVI wrapper: std = exp(log_std), initial (mean, log_std)."""
    mean = np.asarray(p["mean"], float)
    ls = np.asarray(p["log_std"], float)
    mm = mean.size
    res.case(("advistd", mean.tobytes(), ls.tobytes()), True, {"op": "advistd", "m": mm})
    res.count("advistd")
    if ctx["driver"] is None:
        return
    out = ask_floats(ctx, f"c17advistd {mm} {bits(mean)} {bits(ls)}")
    ok = (not isinstance(out, str)) and np.array_equal(out[:mm], mean) and close(out[mm:], np.exp(ls), 1e-14)[0] \
        and np.all(out[mm:] > 0)
    if not ok:
        res.corr_fail("model: std is not exp(log_std) > 0", p, detail={"model": str(out)[:80]})
    out = ask_floats(ctx, f"c17adviinit {mm} {bits(mean)}")
    if isinstance(out, str) or not (np.array_equal(out[:mm], mean) and np.all(out[mm:] == 0)):
        res.corr_fail("model: initial variational parameters are not (initial_value, 0)", p)
    # implementation: same expression on the same numbers
    import jax.numpy as jnp
    init_std = np.asarray(-10 * jnp.zeros_like(jnp.asarray(mean)), float)
    if not np.all(init_std == 0):
        res.corr_fail("implementation: -10 * zeros_like is not 0", p)


# ------------------------------------------------------------------ reproducibility (tests)

FIT_SNIPPET = r'''
import sys, json, hashlib
sys.path.insert(0, {repo!r})
import os
os.environ.setdefault("JAX_PLATFORMS", "cpu")
import logging
import numpy as np
import mellon
logging.getLogger("mellon").setLevel(logging.CRITICAL)
spec = json.loads(sys.stdin.read())
def canon(o):
    # predictor state without the serialisation metadata (date, versions); sets ordered; floats as bit patterns
    if isinstance(o, dict) and o.get("type") == "set": return sorted(str(v) for v in o.get("data", []))
    if isinstance(o, dict): return {{str(k): canon(v) for k, v in o.items() if k != "metadata"}}
    if isinstance(o, (set, frozenset)): return sorted(str(v) for v in o)
    if isinstance(o, (list, tuple)): return [canon(v) for v in o]
    if isinstance(o, float): return float(o).hex()
    if hasattr(o, "tolist"): return canon(np.asarray(o).tolist())
    if isinstance(o, (int, str, bool)) or o is None: return o
    return str(o)
def arr(o): return np.array(o["bits"], dtype=np.uint64).view(np.float64).reshape(o["shape"])
X = arr(spec["X"]); Xq = arr(spec["Xq"])
kw = dict(optimizer=spec["optimizer"], n_iter=spec["n_iter"], jit=spec["jit"])
if spec.get("landmarks") is not None: kw["landmarks"] = arr(spec["landmarks"])
if spec.get("n_landmarks") is not None: kw["n_landmarks"] = spec["n_landmarks"]
est = mellon.DensityEstimator(**kw)
ld = np.asarray(est.fit_predict(X), dtype=np.float64)
pred = np.asarray(est.predict(Xq), dtype=np.float64)
z = np.asarray(est.pre_transformation, dtype=np.float64)
std = est.pre_transformation_std
out = {{"z": hashlib.sha256(z.tobytes()).hexdigest(), "ld": hashlib.sha256(ld.tobytes()).hexdigest(),
       "pred": hashlib.sha256(pred.tobytes()).hexdigest(),
       "std": None if std is None else hashlib.sha256(np.asarray(std, dtype=np.float64).tobytes()).hexdigest(),
       "json": hashlib.sha256(json.dumps(canon(est.predict.to_dict()), sort_keys=True).encode()).hexdigest(),
       "finite": bool(np.all(np.isfinite(ld)) and np.all(np.isfinite(pred)))}}
print("RESULT " + json.dumps(out))
'''


def enc(a):
    a = np.ascontiguousarray(np.asarray(a, float))
    return {"bits": [int(v) for v in a.ravel().view(np.uint64)], "shape": list(a.shape)}


def canon(o):
    """predictor state without the serialisation metadata (date, versions); sets ordered; floats as bit patterns"""
    if isinstance(o, dict) and o.get("type") == "set":   # a serialised set: its order follows PYTHONHASHSEED
        return sorted(str(v) for v in o.get("data", []))
    if isinstance(o, dict):
        return {str(k): canon(v) for k, v in o.items() if k != "metadata"}
    if isinstance(o, (set, frozenset)):
        return sorted(str(v) for v in o)
    if isinstance(o, (list, tuple)):
        return [canon(v) for v in o]
    if isinstance(o, float):
        return float(o).hex()
    if hasattr(o, "tolist"):
        return canon(np.asarray(o).tolist())
    if isinstance(o, (int, str, bool)) or o is None:
        return o
    return str(o)


def fit_digest_inproc(spec):
    m = mellon()
    X, Xq = np.asarray(spec["X"], float), np.asarray(spec["Xq"], float)
    kw = dict(optimizer=spec["optimizer"], n_iter=spec["n_iter"], jit=spec["jit"])
    if spec.get("landmarks") is not None:
        kw["landmarks"] = np.asarray(spec["landmarks"], float)
    if spec.get("n_landmarks") is not None:
        kw["n_landmarks"] = spec["n_landmarks"]
    est = m.DensityEstimator(**kw)
    ld = np.asarray(est.fit_predict(X.copy()), dtype=np.float64)
    pred = np.asarray(est.predict(Xq.copy()), dtype=np.float64)
    z = np.asarray(est.pre_transformation, dtype=np.float64)
    std = est.pre_transformation_std
    h = lambda a: hashlib.sha256(np.asarray(a, dtype=np.float64).tobytes()).hexdigest()
    return {"z": h(z), "ld": h(ld), "pred": h(pred), "std": None if std is None else h(std),
            "json": hashlib.sha256(json.dumps(canon(est.predict.to_dict()), sort_keys=True).encode()).hexdigest(),
            "finite": bool(np.all(np.isfinite(ld)) and np.all(np.isfinite(pred)))}, ld


def case_repro(ctx, res, p):
    """two fits with identical inputs in this process: bit-identical parameters, fitted values, predictions, predictor."""
    spec = dict(p)
    a, lda = fit_digest_inproc(spec)
    b, ldb = fit_digest_inproc(spec)
    res.count("repro:%s" % p["optimizer"])
    res.count("repro:gp=%s" % ("landmarks" if p.get("landmarks") is not None else "full"))
    res.case(("repro", np.asarray(p["X"]).tobytes(), p["optimizer"], p["jit"], p["n_iter"]), True,
             {"op": "repro", "optimizer": p["optimizer"], "jit": p["jit"], "X_shape": list(np.asarray(p["X"]).shape)})
    if not a["finite"]:
        res.oracle_fail("fit produced non-finite fitted values", p, signature=f"C17:{p['optimizer']}-finite")
    if a != b:
        res.oracle_fail("two identical fits in one process are not bit-identical", p,
                        detail={"differs": [k for k in a if a[k] != b[k]],
                                "max_abs_diff_log_density": float(np.max(np.abs(lda - ldb)))},
                        signature=f"C17:repro-inprocess-{p['optimizer']}")


def run_sub(spec, hashseed=None):
    code = FIT_SNIPPET.format(repo=REPO)
    payload = json.dumps({"X": enc(spec["X"]), "Xq": enc(spec["Xq"]), "optimizer": spec["optimizer"],
                          "n_iter": spec["n_iter"], "jit": spec["jit"],
                          "landmarks": None if spec.get("landmarks") is None else enc(spec["landmarks"]),
                          "n_landmarks": spec.get("n_landmarks")})
    env = dict(os.environ)
    env["JAX_PLATFORMS"] = "cpu"
    if hashseed is not None:
        env["PYTHONHASHSEED"] = str(hashseed)      # fresh interpreters differ in their str-hash salt: make that explicit
    return subprocess.Popen([sys.executable, "-c", code], stdin=subprocess.PIPE, stdout=subprocess.PIPE,
                            stderr=subprocess.PIPE, text=True, env=env), payload


def case_subproc(ctx, res, p):
    """the same fit in two fresh interpreters (run concurrently) and in this process: bit-identical."""
    procs = [run_sub(p, hashseed=hs) for hs in (1, 2)]
    for pr, payload in procs:
        pr.stdin.write(payload)
        pr.stdin.close()
    outs = []
    for pr, _ in procs:
        try:
            so = pr.stdout.read()
            pr.wait(timeout=600)
        except Exception:
            pr.kill()
            raise RuntimeError("subprocess fit timed out")
        line = [l for l in so.splitlines() if l.startswith("RESULT ")]
        if pr.returncode != 0 or not line:
            raise RuntimeError("subprocess fit failed: " + pr.stderr.read()[-500:])
        outs.append(json.loads(line[0][7:]))
    here, _ = fit_digest_inproc(p)
    res.count("subproc:%s" % p["optimizer"])
    res.count("subproc:gp=%s" % ("landmarks" if p.get("landmarks") is not None else "full"))
    res.case(("subproc", np.asarray(p["X"]).tobytes(), p["optimizer"], p["jit"]), True,
             {"op": "subproc", "optimizer": p["optimizer"], "jit": p["jit"], "X_shape": list(np.asarray(p["X"]).shape)})
    if outs[0] != outs[1]:
        res.oracle_fail("the same fit in two fresh interpreters is not bit-identical", p,
                        detail={"differs": [k for k in outs[0] if outs[0][k] != outs[1][k]]},
                        signature=f"C17:repro-subprocess-{p['optimizer']}")
    elif outs[0] != here:
        res.oracle_fail("a fit in a fresh interpreter differs bitwise from the same fit in this process", p,
                        detail={"differs": [k for k in here if outs[0][k] != here[k]]},
                        signature=f"C17:repro-crossprocess-{p['optimizer']}")


def case_jit(ctx, res, p):
    """jit on / off agree to rounding (fitted log-density and reported loss)."""
    m = mellon()
    X = np.asarray(p["X"], float)
    opt, n_iter = p["optimizer"], int(p["n_iter"])
    out = {}
    kind = p.get("est", "density")
    for jit in (False, True):
        if kind == "dim":
            est = m.DimensionalityEstimator(gp_type="fixed", landmarks=X[:int(p["m"])], optimizer=opt, n_iter=n_iter, jit=jit)
        else:
            est = m.DensityEstimator(optimizer=opt, n_iter=n_iter, jit=jit)
        ld = np.asarray(est.fit_predict(X), float)
        out[jit] = (ld, np.asarray(est.losses, float), np.asarray(est.pre_transformation, float))
    if kind == "dim":
        opt = "dimensionality-" + opt
    res.count("jit:%s" % opt)
    res.case(("jit", kind, X.tobytes(), opt, n_iter), True, {"op": "jit", "est": kind, "optimizer": opt, "n_iter": n_iter, "X_shape": list(X.shape)})
    (l0, s0, z0), (l1, s1, z1) = out[False], out[True]
    dev = float(np.max(np.abs(l0 - l1)) / (1 + np.max(np.abs(l0))))
    res.dev("jit:%s max|dlogdens|/(1+max|logdens|)" % opt, dev)
    tol = TOL_JIT if opt != "advi" else 1e-3
    if not (np.all(np.isfinite(l1)) and dev <= tol):
        res.oracle_fail("jit on / off do not agree to rounding", p, detail={"dev": dev, "optimizer": opt},
                        signature=f"C17:jit-{opt}")
    devl = float(abs(s0[-1] - s1[-1]) / (1 + abs(s0[-1])))
    res.dev("jit:%s final loss rel dev" % opt, devl)
    if s0.shape != s1.shape or not devl <= (1e-6 if opt != "advi" else 1e-2):
        res.oracle_fail("jit on / off report different final losses", p, detail={"dev": devl, "optimizer": opt},
                        signature=f"C17:jit-{opt}")


# ------------------------------------------------------------------ generators

SHAPES = [(12, 1), (12, 2), (16, 3)]


def gen_X(rng, shape=None):
    n, f = shape or SHAPES[int(rng.integers(len(SHAPES)))]
    X, _ = distinct_points(rng, n, f, kind=["plain", "clustered", "aniso"][int(rng.integers(3))])
    return X


def gen_landmarks(rng, X, k=5):
    idx = rng.permutation(X.shape[0])[:k]
    return X[idx] + 0.05 * rng.normal(size=(k, X.shape[1]))


def run(ctx, res):
    rng = ctx["rng"]
    quick = ctx["tier"] == "quick"
    budget = ctx["budget"] or (95 if quick else 600)
    t_end = time.time() + budget
    mellon()
    # --- exact part: wiring for every optimiser name x previous opt_state
    for name in ["adam", "advi", "L-BFGS-B", "sgd", "ADAM", "Adam", "l-bfgs-b", "LBFGS", "advi2", "newton"]:
        for prev in (None, "prev"):
            run_case(ctx, res, {"op": "wire", "name": name, "prev": prev})
    for _ in range(3):
        mm = int(rng.integers(1, 9))
        run_case(ctx, res, {"op": "advistd", "mean": rng.normal(size=mm) * 3, "log_std": rng.uniform(-30, 5, size=mm)})
    # --- Adam traces, every n_iter of the property's list
    # (the property quantifies over n_iter in 1..200: the ends, the default 100, and values on both sides of it that
    #  are not multiples of anything a blocked / chunked loop would use; one drawn per run on top)
    for n_iter in (1, 2, 7, 50, 100, 101, 130, 199, 200, int(rng.integers(3, 200))):
        run_case(ctx, res, {"op": "adamtrace", "X": gen_X(rng, SHAPES[1]), "n_iter": n_iter,
                            "lr": float(rng.choice([0.1, 0.03, 0.5])), "jit": bool(n_iter in (101, 200)), "zoff": 0.0})
    run_case(ctx, res, {"op": "adamtrace", "X": gen_X(rng, SHAPES[1]), "n_iter": 7, "lr": 0.1, "jit": True, "zoff": 0.3,
                        "zseed": int(rng.integers(1 << 30))})
    # --- fits with each optimiser; ADVI for every n_iter
    for opt in ("L-BFGS-B", "adam", "L-BFGS-B"):
        run_case(ctx, res, {"op": "fit", "X": gen_X(rng), "optimizer": opt, "n_iter": int(rng.choice([1, 2, 7, 50]))})
    Xl = gen_X(rng, SHAPES[2])
    run_case(ctx, res, {"op": "fit", "X": Xl, "optimizer": "L-BFGS-B", "landmarks": gen_landmarks(rng, Xl)})
    for n_iter in ((1, 7, 130) if quick else (1, 2, 7, 50, 100, 130, 199, 200)):
        run_case(ctx, res, {"op": "advi", "X": gen_X(rng, SHAPES[1]), "n_iter": n_iter})
    # --- reproducibility
    Xq = rng.normal(size=(5, 2))
    for opt in ("L-BFGS-B", "adam", "advi"):
        X = gen_X(rng, SHAPES[1])
        run_case(ctx, res, {"op": "repro", "X": X, "Xq": Xq, "optimizer": opt, "n_iter": 7, "jit": False})
    X = gen_X(rng, SHAPES[1])
    run_case(ctx, res, {"op": "repro", "X": X, "Xq": Xq, "optimizer": "L-BFGS-B", "n_iter": 7, "jit": False,
                        "landmarks": gen_landmarks(rng, X)})
    run_case(ctx, res, {"op": "subproc", "X": X, "Xq": Xq, "optimizer": "L-BFGS-B", "n_iter": 7, "jit": False,
                        "landmarks": gen_landmarks(rng, X)})
    # the PRNG-driven optimiser across fresh interpreters (different hash salts), also in the quick tier
    run_case(ctx, res, {"op": "subproc", "X": X, "Xq": Xq, "optimizer": "advi", "n_iter": 7, "jit": False})
    run_case(ctx, res, {"op": "jit", "X": gen_X(rng, SHAPES[1]), "optimizer": "L-BFGS-B", "n_iter": 7})
    # recorded finding (independent bug hunt): the long, ill-conditioned L-BFGS-B path of the dimensionality objective amplifies
    # the rounding differences between compiled and interpreted evaluation to 2e-5 (relative) in the fitted values
    run_case(ctx, res, {"op": "jit", "est": "dim", "m": 15, "X": np.random.default_rng(0).normal(size=(60, 3)),
                        "optimizer": "L-BFGS-B", "n_iter": 7})
    # jit on/off for the iterative optimisers too (a traced closure may freeze per-iteration state such as the PRNG key)
    run_case(ctx, res, {"op": "jit", "X": gen_X(rng, SHAPES[1]), "optimizer": "advi", "n_iter": 7})
    run_case(ctx, res, {"op": "jit", "X": gen_X(rng, SHAPES[1]), "optimizer": "adam", "n_iter": 7})
    if not quick:
        run_case(ctx, res, {"op": "subproc", "X": X, "Xq": Xq, "optimizer": "adam", "n_iter": 7, "jit": False})
        run_case(ctx, res, {"op": "subproc", "X": X, "Xq": Xq, "optimizer": "L-BFGS-B", "n_iter": 7, "jit": True,
                            "n_landmarks": 0})
        for opt in ("adam", "advi"):
            run_case(ctx, res, {"op": "jit", "X": gen_X(rng, SHAPES[1]), "optimizer": opt, "n_iter": 50})
    # --- sampled part
    i = 0
    while time.time() < t_end:
        c = i % 8
        X = gen_X(rng)
        if c in (0, 4):
            run_case(ctx, res, {"op": "fit", "X": X, "optimizer": "L-BFGS-B"})
        elif c == 1:
            run_case(ctx, res, {"op": "adamtrace", "X": X, "n_iter": int(rng.choice([1, 2, 7, 50])),
                                "lr": float(rng.choice([0.1, 0.03, 0.3])), "jit": False,
                                "zoff": float(rng.choice([0.0, 0.3])), "zseed": int(rng.integers(1 << 30))})
        elif c == 2:
            run_case(ctx, res, {"op": "fit", "X": X, "optimizer": "adam", "n_iter": int(rng.choice([1, 2, 7, 50]))})
        elif c == 3:
            run_case(ctx, res, {"op": "advi", "X": gen_X(rng, SHAPES[1]), "n_iter": int(rng.choice([1, 2, 7] if quick else [1, 2, 7, 50]))})
        elif c == 5:
            run_case(ctx, res, {"op": "repro", "X": X, "Xq": rng.normal(size=(5, X.shape[1])),
                                "optimizer": str(rng.choice(["L-BFGS-B", "adam", "advi"])), "n_iter": 7, "jit": False,
                                "landmarks": gen_landmarks(rng, X) if rng.random() < 0.5 else None})
        elif c == 6:
            run_case(ctx, res, {"op": "fit", "X": X, "optimizer": "L-BFGS-B", "landmarks": gen_landmarks(rng, X)})
        else:
            run_case(ctx, res, {"op": "wire", "name": str(rng.choice(["adam", "advi", "L-BFGS-B", "bfgs", "x"])),
                                "prev": None if rng.random() < 0.5 else "prev"})
        i += 1
    res.count("sampled", i)


CLAIM = {
    "text": "PARTIAL. Lean theorems: _run_inference wiring for the three optimisers (which result field lands in "
            "pre_transformation / pre_transformation_std / opt_state / losses, which arguments each solver receives) and "
            "ValueError for every other name; minimize_adam for every n_iter and every optimiser triple: trace length = n_iter, "
            "losses_i = loss at the i-th iterate before the update, params = iterate n_iter; run_advi: trace length, std = "
            "exp(log_std) > 0 with the shape of the initial value, initial log_std = 0; the density loss is strictly convex, "
            "continuous and coercive in z (exactly one minimiser exists), its analytic gradient is the derivative; L-BFGS-B contract => property. Tied to /repo "
            "by exact comparison of the stubbed wiring, by comparing whole Adam traces with the model's executable loop, and "
            "by the model's loss at the implementation's z*. Descent, gradient-norm ratio, finiteness, bitwise "
            "reproducibility (in-process, fresh interpreters) and jit agreement are TESTS.",
    "note": "scipy L-BFGS-B, JAX AD, jax.random and XLA are contracts/opaque: convergence, reproducibility and jit "
            "equivalence are runtime behaviour exercised by tests only. Float64 rounding modelled away.",
    "technique": "Lean 4 proof (induction over the loop, convexity, calculus) + differential correspondence (stubbed wiring, "
                 "Adam trace) + runtime tests (descent, reproducibility, jit)",
}
