"""C20 — degenerate and dirty inputs are sanitised or refused, never propagated."""
import time, itertools, math, warnings, enum
import numpy as np
from ..common import mellon, bits, unbits, fbit, exc_class, rel_err

RULE = ("cases = (validator, Python value) over the value grammar {None, bool, int (incl. beyond int64 / beyond the double "
        "range), float (NaN, +-inf, +-0, subnormal, huge), numeric / non-numeric str, NumPy integer scalars (int8..int64, uint8, "
        "uint64 incl. above 2^63-1), 0-d integer arrays of NumPy / JAX, numpy / jax 0-d, 1-element, n-element "
        "arrays (float, int, bool dtypes), scipy sparse, nested lists / tuples, enum members, arbitrary objects} - exhaustive over the grammar menu for "
        "every validator and every constructor argument; nn_distances patterns over {valid, NaN, +inf, -inf, 0, -0, negative} "
        "(all assignments for n <= 3, sampled for n <= 20); ensure_2d shapes; predictor calls over query containers x "
        "feature counts x normalize flags; Cholesky refusal on definite / indefinite kernels; fits of the 4 estimators on "
        "dirty data sets (duplicates some / one / few / many / all for every estimator incl. the DimensionalityEstimator and the "
        "time-sensitive one with normalize_per_time_point in {True, list, dict, NumPy bool}; d_method='fractal'; 1-D cell states "
        "for all four estimators and the time-aware predictor methods; NaN / inf cells and time points with the intermediates "
        "nn_distances / landmarks / d / ls / ls_time supplied by the caller); NaN / +-inf (scalars, 0-d arrays, per-cell vectors) "
        "for every float constructor parameter of the four estimators followed by a fit (op ctorfit); the normalisation target "
        "over {None, bool, NumPy / JAX bool scalars, other scalars, str, dict, sized containers} (op norm); k-NN distance "
        "matrices over the nn patterns (op dist); k over the value menu.  distinct = distinct (op, canonical input); "
        "non-trivial = the input reaches a branch other than 'None and optional' / the clean default")
PARTIAL = [
    "'no accepted input yields NaN/inf fitted values or NaN predictions at finite query points' end to end is a float-range "
    "statement (exp overflow, ill-conditioned Cholesky, optimiser): covered by the dirty-data fits as tests only",
    "covariance-function constructor arguments (cov_func_curry, cov_func) stay at valid defaults (they belong to C05/C19)",
    "1-D input: DensityEstimator / FunctionEstimator / DimensionalityEstimator treat it as one feature (tested, metamorphic); "
    "bitwise equal to the (n,1) form; TimeSensitiveDensityEstimator and the time-aware predictors likewise when the time points "
    "are given separately (fix A6 of hunt H3); without `times` a 1-D x stays refused with ValueError",
    "finite queries of magnitude >= 1.34e154 give NaN predictions with Matern kernels (squared distance overflows; known "
    "finding C20:matern-overflow-nan-prediction, witness always run)",
]
ASSUMPTIONS = [
    "CPython float(str) is taken as data: a str value is (text, result of float(text))",
    "numpy >= 2.5 / jax 0.11 coercion rules: float() of an array that is not 0-d raises TypeError; jnp.isnan parses a Python "
    "int as int64 (x64 mode, switched on by `import mellon`); numpy.integer instances are not Iterable, 0-d arrays are; "
    "float() of an integer dtype rounds to nearest even like float() of the Python int",
    "NumPy scalars of a non-integer, non-float64 dtype (numpy.bool_, numpy.float32) are outside the value syntax of the model "
    "(numpy.float64 is a Python float; 0-d arrays of bool / float dtype are in it)",
    "ASCII option strings (str.lower is modelled for ASCII only)",
    "XLA-CPU flushes subnormal doubles to zero in comparisons (a subnormal distance counts as `<= 0` in the implementation): "
    "nn_distances are generated without subnormal entries",
]
TRUSTED_EXTRA = ["LAPACK potrf via jnp.linalg.cholesky returns NaN exactly when a pivot is not positive (contract of chol?)",
                 "CPython float()/isinstance, numpy/jax asarray coercion rules as transcribed in MellonModel/Validate.lean"]

SIG_OVERFLOW = "C20:validator-int-overflow"
SIG_GPTYPE = "C20:gp_type-nonstring-attributeerror"
SIG_DIM1D = "C20:dimensionality-1d-indexerror"
SIG_TIME_EMPTY = "C20:time-empty-zerodivision"
SIG_LR_INF = "C20:init_learn_rate-inf-nan"
SIG_INTSCALAR = "C20:integer-scalar-not-kept"
SIG_MATERN = "C20:matern-overflow-nan-prediction"
# hunt H3 (reports/hunt/H3): one stable signature per repaired item
SIG_A1 = "C20:float-inf-accepted"                   # validate_float let +-inf through (FunctionEstimator(mu=inf) -> NaN)
SIG_A2 = "C20:foin-nan-accepted"                    # validate_float_or_iterable_numerical let NaN (and d=inf) through
SIG_A3 = "C20:dimensionality-duplicates"            # DimensionalityEstimator never sanitised zero distances
SIG_A4 = "C20:time-normalize-duplicates"            # _compute_ls with normalize_per_time_point used unvalidated distances
SIG_A5 = "C20:fractal-1d-form"                      # compute_d_factal: x and x[:, None] gave different d
SIG_A5N = "C20:fractal-duplicates"                  # NaN fractal dimension with several duplicated cells
SIG_A6 = "C20:time-1d-refused"                      # time-aware estimator / predictors refused 1-D cell states
SIG_B3 = "C20:normalize-flag-internal"              # normalize_per_time_point=np.bool_(True) -> IndexError at fit
SIG_B3K = "C20:k-zero-internal"                     # DimensionalityEstimator(k=0) -> IndexError at fit
SIG_SUPPLIED = "C20:nonfinite-cell-supplied-intermediates"   # NaN / inf cell accepted when nn_distances, landmarks, d are given

# ------------------------------------------------------------------ value grammar
# spec := ["N"] | ["B", bool] | ["I", "decimal"] | ["F", bits] | ["NPF", bits] | ["S", text]
#       | ["NI", "decimal", dtype]                 NumPy integer scalar (numpy.int64(5), numpy.uint8(3), ...)
#       | ["A0I", "np"|"jax", "decimal", dtype]    0-d array of an integer dtype (exact value; driver token NI)
#       | ["A", "np"|"jax", [shape], [bits...], dtype]   any other array (never 0-d with an integer dtype: use A0I)
#       | ["SP", r, c, [bits...]] | ["L", [spec...]] | ["T", [spec...]]
#       | ["E", value] | ["O"]
#       | ["NPB", bool]  NumPy boolean scalar | ["D", [[key spec, value spec], ...]]  dict      (both: build() only, never sent to the driver)


def fb(x):
    return int(np.float64(x).view(np.uint64))


def F(x):
    return ["F", fb(x)]


def is_int_dtype(dtype):
    return np.dtype(dtype).kind in "iu"


def A(lib, a, dtype="float64"):
    a = np.asarray(a)
    if a.ndim == 0 and is_int_dtype(dtype):
        return ["A0I", lib, str(int(a)), dtype]
    return ["A", lib, list(a.shape), [fb(v) for v in a.astype(np.float64).ravel()], dtype]


def NI(i, dtype="int64"):
    return ["NI", str(int(i)), dtype]


def A0I(lib, i, dtype="int64"):
    return ["A0I", lib, str(int(i)), dtype]


def int_of_spec(spec):
    """The exact integer of an integer-typed scalar spec (Python int, NumPy integer scalar, 0-d integer array), else None."""
    if spec[0] in ("I", "NI"):
        return int(spec[1])
    if spec[0] == "A0I":
        return int(spec[2])
    return None


def build(spec):
    """The actual Python object of a spec."""
    k = spec[0]
    if k == "N":
        return None
    if k == "B":
        return bool(spec[1])
    if k == "I":
        return int(spec[1])
    if k == "F":
        return float(np.uint64(spec[1]).view(np.float64))
    if k == "NPF":
        return np.uint64(spec[1]).view(np.float64)
    if k == "S":
        return spec[1]
    if k == "NI":
        return np.dtype(spec[2]).type(int(spec[1]))
    if k == "A0I":
        a = np.asarray(int(spec[2]), dtype=spec[3])
        assert a.ndim == 0 and a.dtype == np.dtype(spec[3]) and int(a) == int(spec[2])
        if spec[1] == "jax":
            import jax.numpy as jnp
            j = jnp.asarray(a)
            assert j.ndim == 0 and j.dtype == a.dtype, (j.dtype, a.dtype)      # x64 mode (switched on by `import mellon`)
            return j
        return a
    if k == "A":
        assert not (len(spec[2]) == 0 and is_int_dtype(spec[4])), "0-d integer arrays are A0I specs"
        a = np.array(spec[3], dtype=np.uint64).view(np.float64).reshape(spec[2]).astype(spec[4])
        if spec[1] == "jax":
            import jax.numpy as jnp
            return jnp.asarray(a)
        return a
    if k == "SP":
        import scipy.sparse as sp
        return sp.csr_matrix(np.array(spec[3], dtype=np.uint64).view(np.float64).reshape(spec[1], spec[2]))
    if k == "L":
        return [build(s) for s in spec[1]]
    if k == "T":
        return tuple(build(s) for s in spec[1])
    if k == "E":
        return mellon().util.GaussianProcessType(spec[1])
    if k == "O":
        return object()
    if k == "NPB":
        return np.bool_(bool(spec[1]))
    if k == "D":
        return {build(a): build(b) for a, b in spec[1]}
    raise ValueError(spec)


def stoks(s):
    return "%d %s" % (len(s), " ".join(str(ord(c)) for c in s)) if s else "0"


def tokens(spec):
    """Driver tokens of a spec."""
    k = spec[0]
    if k == "N":
        return "N"
    if k == "B":
        return "B T" if spec[1] else "B F"
    if k == "I":
        return f"I {int(spec[1])}"
    if k in ("F", "NPF"):
        return f"F {spec[1]}"
    if k == "S":
        try:
            with warnings.catch_warnings():
                warnings.simplefilter("ignore")
                num = "Y %d" % fb(float(spec[1]))
        except ValueError:
            num = "N"
        return f"S {stoks(spec[1])} {num}"
    if k == "NI":
        return f"NI s {int(spec[1])}"
    if k == "A0I":
        return f"NI {spec[1]} {int(spec[2])}"
    if k == "A":
        sh = spec[2]
        assert not (len(sh) == 0 and is_int_dtype(spec[4])), "0-d integer arrays are A0I specs"
        return ("A %s %d %s %s" % (spec[1], len(sh), " ".join(map(str, sh)), " ".join(map(str, spec[3])))).strip()
    if k == "SP":
        return ("SP %d %d %s" % (spec[1], spec[2], " ".join(map(str, spec[3])))).strip()
    if k in ("L", "T"):
        return ("L %d %s" % (len(spec[1]), " ".join(tokens(s) for s in spec[1]))).strip()
    if k == "E":
        return f"E {stoks(spec[1])}"
    if k == "O":
        return "O"
    raise ValueError(spec)


def cbits(x):
    """canonical bit pattern: one NaN, one zero."""
    x = float(x)
    if x != x:
        return "nan"
    if x == 0:
        return 0
    return fb(x)


def canon_value(r):
    """Canonical form of a value returned by the implementation."""
    import jax
    if r is None:
        return ("N",)
    if isinstance(r, (bool, np.bool_)) and not isinstance(r, np.bool_):
        return ("B", bool(r))
    if isinstance(r, enum.Enum):
        return ("E", r.value)
    if isinstance(r, int):
        return ("I", int(r))
    if isinstance(r, float):
        return ("F", cbits(r))
    if isinstance(r, str):
        return ("S", r)
    if isinstance(r, (np.ndarray, jax.Array)):
        a = np.asarray(r, dtype=np.float64)
        return ("A", tuple(a.shape), tuple(cbits(v) for v in a.ravel()))
    return ("?", type(r).__name__)


def parse_py(toks, i=0):
    """Parse the driver's PyVal output into the canonical form; returns (value, next index)."""
    t = toks[i]
    if t == "N":
        return ("N",), i + 1
    if t == "B":
        return ("B", toks[i + 1] == "T"), i + 2
    if t == "I":
        return ("I", int(toks[i + 1])), i + 2
    if t == "F":
        return ("F", cbits(np.uint64(int(toks[i + 1])).view(np.float64))), i + 2
    if t in ("S", "E"):
        n = int(toks[i + 1])
        s = "".join(chr(int(c)) for c in toks[i + 2:i + 2 + n])
        j = i + 2 + n
        if t == "E":
            return ("E", s), j
        if toks[j] == "N":
            return ("S", s), j + 1
        return ("S", s), j + 2
    if t == "A":
        r = int(toks[i + 2])
        shape = tuple(int(v) for v in toks[i + 3:i + 3 + r])
        size = int(np.prod(shape)) if shape else 1
        j = i + 3 + r
        data = tuple(cbits(np.uint64(int(v)).view(np.float64)) for v in toks[j:j + size])
        return ("A", shape, data), j + size
    if t == "O":
        return ("O",), i + 1
    raise ValueError(f"cannot parse model output token {t}")


def model_outcome(ctx, line, parser="py"):
    out = ctx["driver"].ask(line)
    toks = out.split()
    if toks[0] != "ok":
        return toks[0], None
    if parser == "py":
        v, _ = parse_py(toks, 1)
        return "ok", v
    return "ok", toks[1:]


def impl_outcome(f):
    with warnings.catch_warnings():
        warnings.simplefilter("ignore")
        try:
            return "ok", f(), None
        except Exception as e:  # noqa
            return exc_class(e), None, e


# ------------------------------------------------------------------ the menu of values

def value_menu():
    nan, inf = float("nan"), float("inf")
    m = [
        ["N"], ["B", True], ["B", False],
        ["I", "0"], ["I", "3"], ["I", "-2"], ["I", "1"], ["I", str(2 ** 53)], ["I", str(2 ** 53 + 1)], ["I", str(2 ** 53 + 3)],
        ["I", str(-(2 ** 54 + 2))], ["I", str(10 ** 25 + 7)], ["I", str(2 ** 1024 - 2 ** 970 - 1)], ["I", str(2 ** 1024 - 2 ** 970)], ["I", str(2 ** 63 - 1)], ["I", str(2 ** 63)],
        ["I", str(-2 ** 63)], ["I", str(-2 ** 63 - 1)], ["I", str(2 ** 70)], ["I", str(2 ** 1023)],
        ["I", str(2 ** 1024 - 2 ** 971)], ["I", str(2 ** 1024)], ["I", str(-2 ** 1024)], ["I", str(10 ** 400)],
        F(1.5), F(-1.5), F(0.0), F(-0.0), F(nan), F(inf), F(-inf), F(5e-324), F(1e-300), F(1.7976931348623157e308),
        F(1e-6), F(2.0), ["NPF", fb(1.5)], ["NPF", fb(nan)], ["NPF", fb(-3.0)],
        ["S", "2.5"], ["S", "-1"], ["S", "0"], ["S", "nan"], ["S", "inf"], ["S", "-inf"], ["S", " 3 "], ["S", "1e-3"],
        ["S", "abc"], ["S", ""], ["S", "adam"], ["S", "advi"], ["S", "L-BFGS-B"], ["S", "ADAM"], ["S", "fractal"],
        ["S", "embedding"], ["S", "full"], ["S", "Full Nystroem"], ["S", "sparse"], ["S", "fixed"], ["S", "nys"],
        ["S", "bogus"], ["S", "_"],
        # NumPy / JAX integer scalars: NumPy scalar objects and 0-d integer arrays of several dtypes
        NI(5), NI(0), NI(-3, "int32"), NI(3, "uint8"), NI(2, "int16"), NI(7, "uint64"), NI(2 ** 53 + 1), NI(2 ** 63 - 1),
        NI(-2 ** 63), NI(2 ** 63, "uint64"), NI(2 ** 63 + 5, "uint64"), NI(2 ** 64 - 1, "uint64"),
        A0I("np", 5), A0I("np", 3, "int32"), A0I("np", -2, "int8"), A0I("np", 2 ** 63 + 5, "uint64"),
        A0I("jax", 5), A0I("jax", 4, "int32"), A0I("jax", 3, "uint8"), A0I("jax", 0), A0I("jax", 2 ** 53 + 1),
        A0I("jax", 2 ** 63 + 5, "uint64"), A0I("jax", -1),
        A("np", True, "bool"), A("jax", True, "bool"), A("np", [5], "int64"), A("jax", [5], "int64"), A("np", 5.0, "float32"),
        ["L", [NI(1), NI(2, "int32")]], ["L", [A0I("jax", 1), ["I", "2"]]],
        A("np", 1.5), A("np", nan), A("np", -2.0), A("np", 3, "int64"), A("np", [1.5]), A("np", [[1.5]]), A("np", [nan]),
        A("np", [1.5, 2.5]), A("np", [-1.0, 2.0]), A("np", [[1.0, 2.0], [3.0, 4.0]]), A("np", []), A("np", [0.0]),
        A("np", [1, 2, 3], "int64"), A("np", np.zeros((2, 1, 2))),
        A("jax", 1.5), A("jax", nan), A("jax", [1.5]), A("jax", [[1.5]]), A("jax", [nan]), A("jax", [1.5, 2.5]),
        A("jax", [[1.0, -2.0], [3.0, 4.0]]), A("jax", 0.0), A("jax", [inf]),
        ["SP", 2, 2, [fb(v) for v in (1.0, 0.0, 0.0, 1.0)]], ["SP", 1, 1, [fb(2.0)]],
        ["L", []], ["L", [F(1.5)]], ["L", [["I", "1"], ["I", "2"]]], ["L", [["L", [["I", "1"], ["I", "2"]]], ["L", [F(3.0), F(4.0)]]]],
        ["L", [["L", [["I", "1"]]], ["L", [["I", "2"], ["I", "3"]]]]], ["L", [["S", "a"]]], ["L", [["N"]]],
        ["L", [["S", "1.5"]]], ["L", [["B", True]]], ["L", [F(-1.0), F(2.0)]], ["L", [F(nan)]], ["L", [["I", "1"], ["L", [["I", "2"]]]]],
        ["L", [A("np", [1.0, 2.0]), A("np", [3.0, 4.0])]], ["L", [["L", []], ["L", []]]], ["L", [["I", str(10 ** 400)]]],
        ["L", [F(1.0), ["N"]]], ["T", [F(1.5)]], ["T", [F(1.0), F(2.0)]],
        ["E", "full"], ["E", "sparse_cholesky"], ["O"],
    ]
    return m


SCALAR_OPS = [
    # name, driver prefix, implementation call
    ("float_or_int", "vfoi F", lambda V, v: V.validate_float_or_int(v, "p")),
    ("float_or_int?", "vfoi T", lambda V, v: V.validate_float_or_int(v, "p", optional=True)),
    ("positive_float", "vpf F F", lambda V, v: V.validate_positive_float(v, "p")),
    ("positive_float?", "vpf T F", lambda V, v: V.validate_positive_float(v, "p", optional=True)),
    ("positive_float:inf", "vpf F T", lambda V, v: V.validate_positive_float(v, "p", allow_inf=True)),
    ("positive_float?:inf", "vpf T T", lambda V, v: V.validate_positive_float(v, "p", optional=True, allow_inf=True)),
    ("float", "vfl F F", lambda V, v: V.validate_float(v, "p")),
    ("float?", "vfl T F", lambda V, v: V.validate_float(v, "p", optional=True)),
    ("float:inf", "vfl F T", lambda V, v: V.validate_float(v, "p", allow_inf=True)),
    ("positive_int", "vpi F", lambda V, v: V.validate_positive_int(v, "p")),
    ("positive_int?", "vpi T", lambda V, v: V.validate_positive_int(v, "p", optional=True)),
    ("bool", "vbool F", lambda V, v: V.validate_bool(v, "p")),
    ("bool?", "vbool T", lambda V, v: V.validate_bool(v, "p", optional=True)),
    ("string:optimizer", "vstr 3 %s %s %s" % (stoks("adam"), stoks("advi"), stoks("L-BFGS-B")),
     lambda V, v: V.validate_string(v, "p", choices={"adam", "advi", "L-BFGS-B"})),
    ("string:any", "vstr 0", lambda V, v: V.validate_string(v, "p")),
    ("foin", "vfoin F F F", lambda V, v: V.validate_float_or_iterable_numerical(v, "p")),
    ("foin?+", "vfoin T T F", lambda V, v: V.validate_float_or_iterable_numerical(v, "p", optional=True, positive=True)),
    ("foin+:inf", "vfoin F T T", lambda V, v: V.validate_float_or_iterable_numerical(v, "p", positive=True, allow_inf=True)),
    ("k", "vk", lambda V, v: mellon().DimensionalityEstimator(k=v).k),
    ("array", "varr F N", lambda V, v: V.validate_array(v, "p")),
    ("array?", "varr T N", lambda V, v: V.validate_array(v, "p", optional=True)),
    ("array:nd2", "varr F Y 1 2", lambda V, v: V.validate_array(v, "p", ndim=2)),
    ("array?:nd12", "varr T Y 2 1 2", lambda V, v: V.validate_array(v, "p", optional=True, ndim=(1, 2))),
    ("1d", "v1d", lambda V, v: V.validate_1d(v)),
    ("gp_type", "gpfs", lambda V, v: mellon().util.GaussianProcessType.from_string(v, optional=True)),
]
SCALAR = {n: (pre, f) for n, pre, f in SCALAR_OPS}


def spec_float(spec):
    """float value of a scalar-like spec for the independent oracle, or None."""
    k = spec[0]
    if k == "B":
        return float(spec[1])
    if k in ("F", "NPF"):
        return float(np.uint64(spec[1]).view(np.float64))
    if k in ("I", "NI", "A0I"):
        try:
            return float(int_of_spec(spec))
        except OverflowError:
            return None
    return None


FLOAT_OVERFLOW = 2 ** 1024 - 2 ** 970


def is_big_int(spec, bound=2 ** 63):
    if spec[0] == "I":
        i = int(spec[1])
        return i >= bound or i < -bound
    if spec[0] in ("L", "T"):
        return any(is_big_int(s, bound) for s in spec[1])
    return False


def expected_refusal(name, spec):
    """Independent table of the refusals the property spells out (None = no claim)."""
    base = name.split(":")[0].rstrip("?+")
    if name.startswith("positive_float"):
        base = "positive_float"
    optional = "?" in name
    k = spec[0]
    x = spec_float(spec)
    if base == "k":
        # DimensionalityEstimator(k=...): an int >= 1 (True is the int 1); everything else ValueError
        if k == "B":
            return "ok" if spec[1] else "ValueError"
        if k == "I":
            return "ok" if int(spec[1]) >= 1 else "ValueError"
        return "ValueError"
    if base in ("float", "foin") and k in ("F", "NPF") and x is not None and not name.endswith(":inf") and math.isinf(x):
        return "ValueError"      # hunt H3 A1 / A2: an infinite value where a finite number is required
    if base == "foin" and k in ("F", "NPF") and x is not None and x != x:
        return "ValueError"      # hunt H3 A2: NaN
    if base == "foin" and k == "A" and not is_int_dtype(spec[4]):
        vals = np.array(spec[3], dtype=np.uint64).view(np.float64)
        if np.any(np.isnan(vals)) or (not name.endswith(":inf") and np.any(np.isinf(vals))):
            return "ValueError"
    if k == "N":
        if optional or base == "gp_type":
            return "ok"
        return {"bool": "TypeError", "array": "TypeError", "foin": "TypeError", "string": "TypeError"}.get(base, "ValueError")
    if base == "bool":
        return "ok" if k == "B" else "TypeError"
    if base == "string":
        if k != "S":
            return "TypeError"
        if name == "string:optimizer":
            return "ok" if spec[1] in ("adam", "advi", "L-BFGS-B") else "ValueError"
        return "ok"
    if base == "positive_int":
        if k == "B":
            return "ok"
        if k == "I":
            return "ok" if int(spec[1]) >= 0 else "ValueError"
        return "ValueError"
    inf_ok = name.endswith(":inf")
    if base in ("float_or_int", "float", "positive_float") and k in ("F", "NPF", "B") and x is not None:
        if x != x:
            return "ValueError"
        if base == "positive_float":
            return "ok" if (x > 0 and (inf_ok or x != float("inf"))) else "ValueError"
        return "ok"
    if base in ("float_or_int", "float", "positive_float") and k == "S":
        try:
            v = float(spec[1])
        except ValueError:
            return "ValueError"
        if v != v or (base == "positive_float" and not (v > 0 and (inf_ok or v != float("inf")))):
            return "ValueError"
        if base == "float" and math.isinf(v) and not inf_ok:
            return "ValueError"
        return "ok"
    # NumPy / JAX integer scalars: an integer for validate_float_or_int (int64 range as for a Python int), a number
    # for the float()-based validators, no `int` for validate_positive_int (generic branch above), and
    # a numpy.integer instance is no Iterable while a 0-d array is
    if k in ("NI", "A0I"):
        i = int_of_spec(spec)
        if base == "float_or_int":
            return "ok" if -2 ** 63 <= i < 2 ** 63 else "ValueError"
        if base == "float":
            return "ok"
        if base == "positive_float":
            return "ok" if i > 0 else "ValueError"
        if base == "1d":
            return "ok"
        if base in ("array", "foin"):
            if k == "NI":
                return "TypeError"
            if base == "foin":
                return "ValueError" if ("+" in name and i < 0) else "ok"
            return "ValueError" if name == "array:nd2" or name == "array?:nd12" else "ok"
    # Python ints: outside int64 (isnan-based validators) / beyond the double range (float()-based) -> ValueError
    if k == "I":
        i = int(spec[1])
        if base in ("float_or_int", "float"):
            return "ok" if -2 ** 63 <= i < 2 ** 63 else "ValueError"
        if base == "positive_float":
            return "ok" if (x is not None and x > 0) else "ValueError"
        if base == "foin":
            return "ValueError" if (x is None or ("+" in name and x < 0)) else "ok"
        if base == "1d":
            return "ValueError" if x is None else "ok"
    if base in ("array", "foin", "1d") and k in ("L", "T") and is_big_int(spec, FLOAT_OVERFLOW) and not has_none(spec):
        return "ValueError"
    if base == "gp_type" and k not in ("S", "N", "E"):
        return "ValueError"
    if base in ("float_or_int", "float", "positive_float") and k in ("L", "T", "O", "SP", "E"):
        return "ValueError"
    if base == "array" and k in ("B", "I", "F", "NPF", "O", "E"):
        return "TypeError"
    return None


def post_ok(name, spec, r):
    """Independent postcondition of an accepted value; returns a message or None."""
    import jax
    base = name.split(":")[0].rstrip("?+")
    if name.startswith("positive_float"):
        base = "positive_float"
    if r is None:
        return None if (spec[0] == "N") else "returned None for a non-None input"
    if base == "k":
        return None if (isinstance(r, int) and r >= 1) else f"accepted k={r!r} is not an int >= 1"
    if base == "float" and not name.endswith(":inf") and isinstance(r, float) and math.isinf(r):
        return "accepted value is infinite although a finite float is required"
    if base == "foin":
        a = np.asarray(r, dtype=float)
        if np.any(np.isnan(a)):
            return "accepted value has NaN entries"
        if not name.endswith(":inf") and np.any(np.isinf(a)):
            return "accepted value has infinite entries although allow_inf=False"
    if base == "positive_float":
        if not (isinstance(r, float) and r > 0):
            return f"accepted value {r!r} is not a positive float"
        if r == float("inf") and not name.endswith(":inf"):
            return "accepted value is infinite although a finite positive float is required"
    elif base in ("float_or_int", "float"):
        if not isinstance(r, (float, int)) or r != r:
            return f"accepted value {r!r} is NaN or not a number"
        i = int_of_spec(spec)
        if base == "float_or_int" and i is not None and not (type(r) is int and r == i):
            # integer in -> the same Python int out, never a float (an integer rank is a count, not a fraction)
            return f"integer input {i} came back as {type(r).__name__} {r!r}, not as the Python int {i}"
        if base == "float_or_int" and spec[0] in ("F", "NPF") and not (isinstance(r, float) and cbits(r) == cbits(build(spec))):
            return f"float input came back as {type(r).__name__} {r!r}"
        if base == "float" and i is not None:
            # validate_float: a Python int is returned as is, every other number through float()
            same = (type(r) is int and r == i) if spec[0] == "I" else (type(r) is float and r == float(i))
            if not same:
                return f"validate_float: integer input {i} came back as {type(r).__name__} {r!r}"
    elif base == "positive_int":
        if not isinstance(r, int) or r < 0:
            return f"accepted value {r!r} is not a non-negative int"
    elif base == "bool":
        if not isinstance(r, bool):
            return f"accepted flag {r!r} is not a bool"
    elif base == "string":
        if not isinstance(r, str) or (name == "string:optimizer" and r not in ("adam", "advi", "L-BFGS-B")):
            return f"accepted string {r!r} is not a valid choice"
    elif base == "foin":
        if "+" in name and bool(np.any(np.asarray(r, dtype=float) < 0)):
            return "accepted value has negative entries although positive=True"
    elif base == "array":
        if not isinstance(r, jax.Array):
            return "validate_array did not return a jax array"
        if name == "array:nd2" and r.ndim != 2:
            return "ndim not enforced"
        if name == "array?:nd12" and r.ndim not in (1, 2):
            return "ndim not enforced"
    elif base == "1d":
        if np.asarray(r).ndim != 1:
            return "validate_1d result is not 1-D"
    return None


def internal_signature(name, spec, e):
    if isinstance(e, OverflowError) and is_big_int(spec):
        return SIG_OVERFLOW
    if name == "gp_type" and isinstance(e, AttributeError) and spec[0] not in ("S", "N", "E"):
        return SIG_GPTYPE
    return f"C20:validator-internal:{name}:{type(e).__name__}"


# ------------------------------------------------------------------ cases

def case_scalar(ctx, res, p):
    V = mellon().validation
    name, spec = p["validator"], p["value"]
    pre, f = SCALAR[name]
    obj = build(spec)
    cls, r, e = impl_outcome(lambda: f(V, obj))
    nontrivial = not (spec[0] == "N")
    res.case(("scalar", name, repr(spec)), nontrivial, {"op": "scalar", "validator": name, "value": spec, "impl": cls})
    res.count("validator=" + name.split(":")[0].rstrip("?+"))
    res.count("kind=" + spec[0])
    res.count("outcome=" + cls.split(":")[0])
    # --- oracle: refusal class, postcondition, the refusals the property spells out
    if cls.startswith("Internal"):
        res.oracle_fail(f"{name} raised {type(e).__name__} instead of ValueError/TypeError", p,
                        detail={"error": str(e)[:200]}, signature=internal_signature(name, spec, e))
    exp = expected_refusal(name, spec)
    if exp is not None and not cls.startswith("Internal") and cls != exp:
        res.oracle_fail(f"{name}: expected {exp}, implementation gave {cls}", p, detail={"value": spec},
                        signature=SIG_B3K if name == "k" else f"C20:refusal-table:{name}")
    if cls == "ok":
        msg = post_ok(name, spec, r)
        if msg:
            sig = SIG_INTSCALAR if (msg.startswith("integer input") and spec[0] in ("NI", "A0I")) else f"C20:postcondition:{name}"
            if "infinite although a finite float" in msg:
                sig = SIG_A1
            if "NaN entries" in msg or "infinite entries" in msg:
                sig = SIG_A2
            if name == "k":
                sig = SIG_B3K
            res.oracle_fail(f"{name}: {msg}", p, detail={"value": spec}, signature=sig)
    # --- correspondence
    if ctx["driver"] is not None:
        mcls, mv = model_outcome(ctx, f"{pre} {tokens(spec)}")
        icls = "Internal" if cls.startswith("Internal") else cls
        if mcls != icls:
            res.corr_fail(f"{name}: model {mcls}, implementation {cls}", p, detail={"value": spec})
        elif cls == "ok" and canon_value(r) != mv:
            res.corr_fail(f"{name}: accepted values differ", p, detail={"impl": repr(canon_value(r))[:200], "model": repr(mv)[:200]})


NN_CATS = ["valid", "nan", "pinf", "ninf", "zero", "nzero", "neg"]


def nn_values(rng, cats):
    out = []
    for c in cats:
        if c == "valid":
            e = rng.choice(["mid", "mid", "tiny", "huge", "minnormal"])
            v = {"mid": lambda: float(np.exp(rng.uniform(-5, 5))), "tiny": lambda: float(10.0 ** rng.uniform(-300, -100)),
                 "huge": lambda: float(10.0 ** rng.uniform(100, 300)), "minnormal": lambda: 2.2250738585072014e-308 * float(rng.integers(1, 4))}[e]()
        else:
            v = {"nan": float("nan"), "pinf": float("inf"), "ninf": -float("inf"), "zero": 0.0, "nzero": -0.0,
                 "neg": -float(np.exp(rng.uniform(-5, 5)))}[c]
        out.append(v)
    return out


def case_nn(ctx, res, p):
    import jax.numpy as jnp
    V = mellon().validation
    a = np.array(p["bits"], dtype=np.uint64).view(np.float64)
    optional = bool(p.get("optional", False))
    is_none = bool(p.get("none", False))
    arg = None if is_none else jnp.asarray(a)
    cls, r, e = impl_outcome(lambda: V.validate_nn_distances(arg, optional=optional))
    valid = np.isfinite(a) & (a > 0)
    res.case(("nn", a.tobytes(), optional, is_none), bool(np.any(~valid)) and not is_none,
             {"op": "nn", "n": int(a.size), "invalid": int(np.sum(~valid)), "impl": cls})
    res.count("nn:n=%d" % a.size if a.size <= 3 else "nn:n>3")
    res.count("nn:" + ("none" if is_none else "all-invalid" if not valid.any() else "some-invalid" if not valid.all() else "clean"))
    # --- oracle (numpy, independent of the model)
    if is_none:
        exp = "ok" if optional else "ValueError"
        if cls != exp:
            res.oracle_fail(f"validate_nn_distances(None, optional={optional}) gave {cls}", p, signature="C20:nn-none")
    elif not valid.any():
        if cls != "ValueError":
            res.oracle_fail(f"all-invalid nn_distances not refused with ValueError (got {cls})", p,
                            signature="C20:nn-all-invalid")
    else:
        if cls != "ok":
            res.oracle_fail(f"nn_distances with valid entries refused ({cls})", p, signature="C20:nn-refused")
        else:
            out = np.asarray(r, dtype=np.float64)
            want = np.where(valid, a, np.min(a[valid]))
            if out.shape != a.shape or not np.all(np.isfinite(out) & (out > 0)):
                res.oracle_fail("sanitised nn_distances are not all finite and positive", p, signature="C20:nn-sanitise")
            elif out.tobytes() != want.tobytes():
                res.oracle_fail("sanitised nn_distances: valid entries changed or invalid entries not set to the smallest "
                                "valid distance", p, detail={"got": out.tolist(), "want": want.tolist()},
                                signature="C20:nn-sanitise")
    # --- correspondence
    if ctx["driver"] is not None:
        line = "vnn %s %s" % ("T" if optional else "F", "N" if is_none else ("Y %d %s" % (a.size, bits(a))).strip())
        out = ctx["driver"].ask(line).split()
        icls = "Internal" if cls.startswith("Internal") else cls
        if out[0] != icls:
            res.corr_fail(f"validate_nn_distances: model {out[0]}, implementation {cls}", p)
        elif cls == "ok" and not is_none:
            mv = unbits(out[3:])
            if mv.tobytes() != np.asarray(r, dtype=np.float64).tobytes():
                res.corr_fail("validate_nn_distances: sanitised values differ", p)


def case_xfrt(ctx, res, p):
    """exactness of the driver's float64 <-> XF transport."""
    if ctx["driver"] is None:
        return
    for b in p["bits"]:
        out = ctx["driver"].ask(f"xfrt {b}").split()
        x = np.uint64(b).view(np.float64)
        ok = (out[0] == "ok") and (cbits(np.uint64(int(out[1])).view(np.float64)) == cbits(x))
        if not ok:
            res.corr_fail("driver float transport is not exact", p, detail={"bits": b, "out": out})
    res.case(("xfrt", tuple(p["bits"])), True, None)
    res.count("xfrt")


def case_ensure2d(ctx, res, p):
    import jax.numpy as jnp
    shape = tuple(p["shape"])
    x = jnp.arange(float(np.prod(shape)) if shape else 1.0).reshape(shape)
    from mellon.util import ensure_2d
    cls, r, e = impl_outcome(lambda: ensure_2d(x))
    res.case(("ensure2d", shape), len(shape) < 2, {"op": "ensure2d", "shape": list(shape)})
    res.count("ensure2d:ndim=%d" % len(shape))
    if cls != "ok":
        res.oracle_fail(f"ensure_2d raised {cls}", p, signature="C20:ensure2d")
        return
    want = np.atleast_2d(np.asarray(x).T).T
    got = np.asarray(r)
    exp_shape = (1, 1) if len(shape) == 0 else (shape[0], 1) if len(shape) == 1 else shape
    if got.shape != exp_shape or got.tobytes() != want.tobytes():
        res.oracle_fail("ensure_2d: 1-D input is not turned into one column (or values moved)", p,
                        detail={"got": list(got.shape), "want": list(exp_shape)}, signature="C20:ensure2d")
    if ctx["driver"] is not None:
        out = ctx["driver"].ask(("ensure2d %d %s" % (len(shape), " ".join(map(str, shape)))).strip()).split()
        if tuple(int(v) for v in out[2:]) != got.shape:
            res.corr_fail("ensure_2d shapes differ", p, detail={"model": out, "impl": list(got.shape)})


_PRED = {}


def predictors():
    """A few fitted predictors (built once per process)."""
    if not _PRED:
        m = mellon()
        rng = np.random.default_rng(12345)
        for f in (1, 2, 3):
            X = rng.normal(size=(12, f))
            est = m.DensityEstimator(predictor_with_uncertainty=True, optimizer="advi", n_iter=3)
            est.fit(X)
            _PRED[f] = est.predict
    return _PRED


def has_none(spec):
    return spec[0] == "N" or (spec[0] in ("L", "T") and any(has_none(s) for s in spec[1]))


def np_shape_of(spec):
    """shape of an array-like query (None when the spec is not an array-like of numbers)."""
    if spec[0] not in ("A", "L", "T", "SP") or has_none(spec):
        return None
    try:
        with warnings.catch_warnings():
            warnings.simplefilter("ignore")
            o = build(spec)
            if hasattr(o, "todense"):
                o = o.todense()
            return np.asarray(o, dtype=float).shape
    except Exception:
        return None


def case_predict(ctx, res, p):
    f, method = int(p["features"]), p["method"]
    pred = predictors()[f]
    xs, ns = p["x"], p["normalize"]
    x, nz = build(xs), build(ns)
    if method == "mean":
        call = lambda: pred(x, normalize=nz)
    else:
        call = lambda: getattr(pred, method)(x)
    cls, r, e = impl_outcome(call)
    shape = np_shape_of(xs)
    res.case(("predict", f, method, repr(xs), repr(ns)), shape is not None,
             {"op": "predict", "features": f, "method": method, "x": xs if len(repr(xs)) < 200 else "…", "impl": cls})
    res.count("predict:" + method)
    res.count("predict:outcome=" + cls.split(":")[0])
    # --- oracle
    if cls.startswith("Internal"):
        res.oracle_fail(f"predictor.{method} raised {type(e).__name__} instead of ValueError/TypeError", p,
                        detail={"error": str(e)[:200]}, signature=f"C20:predict-internal:{type(e).__name__}")
    if shape is not None:
        s2 = np.atleast_2d(np.zeros(shape).T).T.shape
        if s2[1] != f and cls != "ValueError" and not (method == "mean" and ns[0] != "B"):
            res.oracle_fail("feature-count mismatch at prediction time is not refused with ValueError", p,
                            detail={"query_shape": list(shape), "trained_features": f, "outcome": cls},
                            signature="C20:feature-mismatch")
        if s2[1] == f and len(s2) == 2 and cls == "ok":
            out = np.asarray(r, dtype=float)
            finite_q = bool(np.all(np.isfinite(np.asarray(build(xs).todense() if xs[0] == "SP" else build(xs), dtype=float))))
            if finite_q and not np.all(np.isfinite(out)):
                qmax = float(np.max(np.abs(np.asarray(build(xs).todense() if xs[0] == "SP" else build(xs), dtype=float)))) if s2[0] else 0.0
                huge = qmax >= 1.3e154         # the squared distance overflows: inf * 0 in the Matern profile (hunt H3, B2)
                res.oracle_fail("NaN/inf prediction at finite query points" + (" of magnitude >= 1.34e154 (Matern kernel)" if huge else ""),
                                p, detail={"max_abs_query": qmax}, signature=SIG_MATERN if huge else "C20:nan-prediction")
            if out.shape[0] != s2[0]:
                res.oracle_fail("prediction has the wrong number of rows", p, signature="C20:predict-rows")
        if s2[1] == f and len(s2) == 2 and cls != "ok" and (method != "mean" or ns == ["B", False] or ns == ["B", True]):
            res.oracle_fail(f"well-formed query refused ({cls})", p, signature="C20:predict-refused")
    # --- correspondence
    if ctx["driver"] is not None:
        if method == "mean":
            line = f"predmean {tokens(xs)} {tokens(ns)} {f} F"
        else:
            line = f"predcov {tokens(xs)} {f}"
        out = ctx["driver"].ask(line).split()
        icls = "Internal" if cls.startswith("Internal") else cls
        if out[0] == "ok":
            ms = tuple(int(v) for v in out[2:])
            if len(ms) == 2 and icls != "ok":
                res.corr_fail(f"predictor.{method}: model accepts, implementation {cls}", p)
        elif out[0] != icls:
            res.corr_fail(f"predictor.{method}: model {out[0]}, implementation {cls}", p)


def kernel_of(kspec):
    m = mellon()
    k, ls, c = kspec
    base = {"M52": m.cov.Matern52, "M32": m.cov.Matern32, "EQ": m.cov.ExpQuad, "LIN": m.cov.Linear}[k](ls)
    if c is None:
        return base
    if c[0] == "mul":
        return base * float(c[1])
    return base + float(c[1])


def case_chol(ctx, res, p):
    """non-PD covariance -> ValueError, never a NaN factor (decomposition._full_rank, conditional._get_L)."""
    import jax.numpy as jnp
    m = mellon()
    X = np.asarray(p["X"], float)
    jitter = float(p["jitter"])
    cov = kernel_of(p["kernel"])
    which = p["which"]
    K = np.asarray(cov(X, X), float)
    W = K + jitter * np.eye(len(X))
    ev = np.linalg.eigvalsh((W + W.T) / 2)
    scale = max(1.0, float(np.max(np.abs(W))))
    if which == "full_rank":
        from mellon.decomposition import _full_rank
        call = lambda: _full_rank(jnp.asarray(X), cov, sigma=0.0, jitter=jitter)
    else:
        from mellon.conditional import _get_L
        call = lambda: _get_L(jnp.asarray(X), cov, jitter=jitter)
    cls, r, e = impl_outcome(call)
    definite = ev[0] > 1e-7 * scale
    indefinite = ev[0] < -1e-7 * scale
    res.case(("chol", which, repr(p["kernel"]), X.tobytes(), jitter), indefinite,
             {"op": "chol", "which": which, "kernel": p["kernel"], "min_eig": float(ev[0]), "impl": cls})
    res.count("chol:" + ("indefinite" if indefinite else "definite" if definite else "borderline"))
    if cls.startswith("Internal") or cls == "TypeError":
        res.oracle_fail(f"{which} raised {cls}", p, signature="C20:chol-internal")
    if indefinite and cls != "ValueError":
        res.oracle_fail("covariance that is not positive definite is not refused with ValueError", p,
                        detail={"min_eig": float(ev[0]), "outcome": cls,
                                "nan_in_factor": bool(cls == "ok" and np.any(np.isnan(np.asarray(r))))},
                        signature="C20:chol-not-refused")
    if cls == "ok":
        L = np.asarray(r, float)
        if np.any(~np.isfinite(L)):
            res.oracle_fail("Cholesky factor with NaN/inf entries returned", p, signature="C20:chol-nan-factor")
        elif definite:
            dev = float(np.max(np.abs(L @ L.T - W)) / scale)
            res.dev("chol_residual_over_scale", dev)
            if dev > 1e-9:
                res.oracle_fail("returned factor is not a Cholesky factor of the stabilised covariance", p,
                                detail={"residual": dev}, signature="C20:chol-residual")
    if definite and cls != "ok":
        res.oracle_fail(f"positive definite covariance refused ({cls})", p, signature="C20:chol-refused")
    if ctx["driver"] is not None and (definite or indefinite):
        n = len(X)
        out = ctx["driver"].ask(f"chol {n} {bits(W)}").split()
        mcls = "ok" if out[0] == "ok" else "ValueError"
        if mcls != cls:
            res.corr_fail(f"chol?: model {mcls}, implementation {cls}", p, detail={"min_eig": float(ev[0])})


def case_mle(ctx, res, p):
    from scipy.special import gammaln
    r_, d_ = float(p["r"]), float(p["d"])
    cls, v, e = impl_outcome(lambda: float(mellon().util.mle(np.float64(r_), np.float64(d_))))
    res.case(("mle", r_, d_), True, {"op": "mle", "r": r_, "d": d_})
    res.count("mle")
    if cls != "ok" or not math.isfinite(v):
        res.oracle_fail("mle of a finite positive distance is not finite", p, detail={"outcome": cls, "value": v},
                        signature="C20:mle-finite")
        return
    ref = float(gammaln(d_ / 2 + 1) - (d_ / 2) * math.log(math.pi) - d_ * math.log(r_))
    scale = max(1.0, abs(ref), abs(d_ * math.log(r_)), abs(gammaln(d_ / 2 + 1)))
    res.dev("mle_impl_vs_closed_form", abs(v - ref) / scale)
    if abs(v - ref) > 1e-10 * scale:
        res.oracle_fail("mle differs from its closed form", p, detail={"impl": v, "ref": ref}, signature="C20:mle-form")
    if ctx["driver"] is not None:
        out = ctx["driver"].ask(f"mle {fbit(r_)} {fbit(d_)}").split()
        mv = float(unbits(out[1:2])[0])
        res.dev("mle_model_vs_impl", abs(mv - v) / scale)
        if not abs(mv - v) <= 1e-9 * scale:
            res.corr_fail("mle: model and implementation differ", p, detail={"model": mv, "impl": v})


CTOR_KEYS = ["n_landmarks", "rank", "jitter", "landmarks", "gp_type", "nn_distances", "mu", "ls", "ls_factor", "Lp", "L", "d",
             "initial_value", "optimizer", "n_iter", "init_learn_rate", "predictor_with_uncertainty", "jit", "check_rank",
             "d_method"]
CTOR_DEFAULT = {"n_landmarks": ["N"], "rank": ["N"], "jitter": F(1e-6), "landmarks": ["N"], "gp_type": ["N"],
                "nn_distances": ["N"], "mu": ["I", "0"], "ls": ["N"], "ls_factor": ["I", "1"], "Lp": ["N"], "L": ["N"],
                "d": ["N"], "initial_value": ["N"], "optimizer": ["S", "L-BFGS-B"], "n_iter": ["I", "100"],
                "init_learn_rate": F(0.1), "predictor_with_uncertainty": ["B", False], "jit": ["B", False],
                "check_rank": ["N"], "d_method": ["S", "embedding"]}


def case_ctor(ctx, res, p):
    m = mellon()
    args = dict(CTOR_DEFAULT)
    args.update(p["args"])
    kw = {k: build(args[k]) for k in CTOR_KEYS}
    cls, est, e = impl_outcome(lambda: m.DensityEstimator(**kw))
    dirty = sorted(p["args"].keys())
    res.case(("ctor", repr(sorted(p["args"].items()))), bool(dirty),
             {"op": "ctor", "args": {k: (v if len(repr(v)) < 120 else "…") for k, v in p["args"].items()}, "impl": cls})
    res.count("ctor:dirty=%d" % min(len(dirty), 3))
    res.count("ctor:outcome=" + cls.split(":")[0])
    # --- oracle
    if cls.startswith("Internal"):
        sig = None
        if isinstance(e, OverflowError) and any(is_big_int(args[k]) for k in dirty):
            sig = SIG_OVERFLOW
        elif isinstance(e, AttributeError) and "gp_type" in dirty and args["gp_type"][0] not in ("S", "N", "E"):
            sig = SIG_GPTYPE
        res.oracle_fail(f"DensityEstimator(...) raised {type(e).__name__} instead of ValueError/TypeError", p,
                        detail={"error": str(e)[:200]}, signature=sig or f"C20:ctor-internal:{type(e).__name__}")
    got = None
    if cls == "ok":
        got = [getattr(est, k) for k in CTOR_KEYS]
        g = dict(zip(CTOR_KEYS, got))
        bad = []
        for k in ("jitter", "ls_factor", "init_learn_rate", "ls"):
            top_ok = k in ("ls", "ls_factor")        # +inf is a legal length scale (constant kernel), not a legal jitter / step
            if g[k] is not None and not (isinstance(g[k], float) and 0 < g[k] and (top_ok or g[k] < float("inf"))):
                bad.append(f"{k}={g[k]!r} is not a {'' if top_ok else 'finite '}positive float")
        for k in ("mu", "rank"):
            if g[k] is not None and (not isinstance(g[k], (int, float)) or g[k] != g[k]):
                bad.append(f"{k}={g[k]!r} is NaN or not a number")
        if isinstance(g["mu"], float) and math.isinf(g["mu"]):
            bad.append(f"mu={g['mu']!r} is infinite")
        if g["d"] is not None and not np.all(np.isfinite(np.asarray(g["d"], dtype=float))):
            bad.append(f"d={np.asarray(g['d']).ravel()[:4]!r} has NaN or infinite entries")
        ri = int_of_spec(args["rank"])
        if ri is not None and not (type(g["rank"]) is int and g["rank"] == ri):
            bad.append(f"rank={g['rank']!r} ({type(g['rank']).__name__}) is not the integer {ri} that was given "
                       f"({args['rank'][0]}): an integer rank is a number of directions, not a fraction")
        for k in ("predictor_with_uncertainty", "jit"):
            if not isinstance(g[k], bool):
                bad.append(f"flag {k}={g[k]!r} is not a bool")
        if g["check_rank"] is not None and not isinstance(g["check_rank"], bool):
            bad.append("flag check_rank is not a bool")
        if g["optimizer"] not in ("adam", "advi", "L-BFGS-B"):
            bad.append(f"unknown optimizer {g['optimizer']!r} accepted")
        if g["d_method"] not in ("fractal", "embedding"):
            bad.append(f"unknown d_method {g['d_method']!r} accepted")
        if g["gp_type"] is not None and not isinstance(g["gp_type"], m.util.GaussianProcessType):
            bad.append("gp_type is not resolved to a GaussianProcessType")
        for k in ("n_landmarks", "n_iter"):
            if g[k] is not None and (not isinstance(g[k], int) or g[k] < 0):
                bad.append(f"{k}={g[k]!r} is not a non-negative int")
        if g["nn_distances"] is not None:
            a = np.asarray(g["nn_distances"], float)
            if not np.all(np.isfinite(a) & (a > 0)):
                bad.append("stored nn_distances are not all finite and positive")
        if bad:
            sig = "C20:ctor-postcondition:" + bad[0].split("=")[0].split(" ")[-1]
            if bad[0].startswith("rank=") and "is not the integer" in bad[0] and args["rank"][0] in ("NI", "A0I"):
                sig = SIG_INTSCALAR
            if bad[0].startswith("mu=") and "infinite" in bad[0]:
                sig = SIG_A1
            if bad[0].startswith("d=") and "NaN or infinite" in bad[0]:
                sig = SIG_A2
            res.oracle_fail("constructor accepted an invalid argument: " + "; ".join(bad), p, signature=sig)
    # the refusals the property spells out, one dirty argument at a time
    if len(dirty) == 1 and not cls.startswith("Internal"):
        k = dirty[0]
        vname = {"jitter": "positive_float", "ls_factor": "positive_float:inf", "init_learn_rate": "positive_float",
                 "ls": "positive_float?:inf", "rank": "float_or_int?", "mu": "float?", "n_landmarks": "positive_int?",
                 "n_iter": "positive_int", "predictor_with_uncertainty": "bool", "jit": "bool", "check_rank": "bool?",
                 "optimizer": "string:optimizer", "gp_type": "gp_type", "d": "foin?+"}.get(k)
        exp = expected_refusal(vname, args[k]) if vname else None
        if k == "d_method":
            exp = "TypeError" if args[k][0] != "S" else ("ok" if args[k][1] in ("fractal", "embedding") else "ValueError")
        if exp is not None and exp != cls:
            res.oracle_fail(f"DensityEstimator({k}=...): expected {exp}, got {cls}", p, detail={"value": args[k]},
                            signature=f"C20:ctor-refusal:{k}")
    # --- correspondence
    if ctx["driver"] is not None:
        out = ctx["driver"].ask("ctor " + " ".join(tokens(args[k]) for k in CTOR_KEYS)).split()
        icls = "Internal" if cls.startswith("Internal") else cls
        if out[0] != icls:
            res.corr_fail(f"constructor: model {out[0]}, implementation {cls}", p)
        elif cls == "ok":
            i, mvals = 1, []
            for _ in CTOR_KEYS:
                v, i = parse_py(out, i)
                mvals.append(v)
            for k, gi, mv in zip(CTOR_KEYS, got, mvals):
                if canon_value(gi) != mv:
                    res.corr_fail(f"constructor: stored {k} differs", p,
                                  detail={"impl": repr(canon_value(gi))[:200], "model": repr(mv)[:200]})


# ------------------------------------------------------------------ fits on dirty data (tests; PARTIAL)

def make_data(kind, n, seed):
    import scipy.sparse as sp
    import jax.numpy as jnp
    rng = np.random.default_rng(seed)
    base = rng.normal(size=(n, 2)) * np.exp(rng.uniform(-1, 1))
    def dups(k):
        X = base.copy()
        idx = rng.permutation(n)
        for i in idx[1:k + 1]:
            X[i] = X[idx[0]]
        return X
    if kind == "clean":
        return base
    if kind == "dup_some":
        return dups(max(1, n // 10))
    if kind == "dup_one":            # ONE duplicated cell (hunt H3 A3 / A4)
        X = base.copy(); X[1] = X[0]
        return X
    if kind == "dup_few":            # several duplicates of one cell (>= 3 made compute_d_factal NaN)
        return dups(4)
    if kind == "dup_clump":          # a clump of 14 identical cells: whole k=10 neighbourhoods consist of copies of one cell
        return dups(13)
    if kind == "dup_many":
        return dups(n - 3)
    if kind == "dup_block":          # adjacent duplicates: the same time point for the time-sensitive estimator
        X = base.copy()
        i = int(rng.integers(0, n // 2 - 3))
        X[i + 1] = X[i]; X[i + 2] = X[i]
        return X
    if kind == "dup_all":
        return np.tile(base[0], (n, 1))
    if kind == "dup_pairs":
        return np.repeat(base[: n // 2], 2, axis=0)
    if kind == "const_col":
        return np.c_[base[:, 0], np.full(n, 3.0)]
    if kind == "const_all":
        return np.ones((n, 2))
    if kind == "1d":
        return base[:, 0].copy()
    if kind == "col":
        return base[:, :1].copy()
    if kind == "list":
        return base.tolist()
    if kind == "list1d":
        return base[:, 0].tolist()
    if kind == "sparse":
        return sp.csr_matrix(base)
    if kind == "sparse_array":
        return sp.csr_array(base)
    if kind == "int":
        return np.round(base * 1000).astype(np.int64)
    if kind == "int32":
        return np.round(base * 1000).astype(np.int32)
    if kind == "float_of_int":
        return np.round(base * 1000)
    if kind == "f32":
        return base.astype(np.float32)
    if kind == "jax":
        return jnp.asarray(base)
    if kind == "empty":
        return base[:0]
    if kind == "nan_cell":
        X = base.copy(); X[3, 1] = np.nan
        return X
    if kind == "inf_cell":
        X = base.copy(); X[3, 1] = np.inf
        return X
    if kind in ("nan_time", "inf_time"):      # clean cells; the time point of cell 3 is NaN / inf (see fit_once)
        return base
    raise ValueError(kind)


# data kinds whose fitted values must be bitwise those of a reference kind (same seed)
SAME_AS = {"list": "clean", "sparse": "clean", "sparse_array": "clean", "jax": "clean", "1d": "col", "list1d": "col",
           "int": "float_of_int"}
MUST_REFUSE = {"dup_pairs", "dup_all", "const_all", "empty", "nan_cell", "inf_cell", "nan_time", "inf_time"}
MUST_FIT = {"clean", "dup_some", "dup_one", "dup_few", "dup_clump", "dup_block", "const_col", "list", "sparse", "sparse_array", "jax", "f32", "col"}
_FITCACHE = {}


def dense_of(X):
    if hasattr(X, "todense"):
        X = X.todense()
    return np.asarray(X, dtype=float)


def fit_once(est_name, kind, n, seed, extra, supplied=False):
    m = mellon()
    X = make_data(kind, n, seed)
    rng = np.random.default_rng(seed + 7)
    times = np.repeat(np.arange(2.0), [n // 2, n - n // 2])
    y = np.sin(np.arange(n) / 3.0)
    if kind == "empty":
        times, y = times[:0], y[:0]
    if kind == "nan_time":
        times[3] = np.nan
    if kind == "inf_time":
        times[3] = np.inf
    if supplied:
        # every intermediate that would look at the cells is handed in by the caller (nn_distances, landmarks, d, ls, ls_time):
        # nothing but an explicit check (or the Ridge initial guess) can then notice a non-finite cell / time point
        clean = make_data("clean", n, seed)
        extra = dict(extra)
        extra.update(nn_distances=np.full(n, 0.3), d=2.0, ls=1.5)
        lm = clean[: n // 2 : 2].copy()
        if est_name == "time":
            lm = np.c_[lm, np.repeat(np.arange(2.0), [len(lm) // 2, len(lm) - len(lm) // 2])]
        extra.update(landmarks=lm)
    if est_name == "density":
        est = m.DensityEstimator(**extra)
        fitted = est.fit_predict(X)
        q = lambda Z: est.predict(Z)
    elif est_name == "function":
        est = m.FunctionEstimator(sigma=0.1, **extra)
        fitted = est.fit_predict(X, y)
        q = lambda Z: est.predict(Z)
    elif est_name == "time":
        est = m.TimeSensitiveDensityEstimator(ls_time=1.0, **extra)
        fitted = est.fit_predict(X, times)
        q = lambda Z: est.predict(Z, 0.5)
    elif est_name == "dimensionality":
        est = m.DimensionalityEstimator(**extra)
        fitted = est.fit_predict(X)
        q = lambda Z: est.predict(Z)
    else:
        raise ValueError(est_name)
    f = dense_of(X)
    f = f.reshape(len(f), -1) if f.ndim == 1 else f
    Z = rng.normal(size=(4, f.shape[1])) * (np.std(f) + 1.0) + np.mean(f, axis=0)
    pred = np.asarray(q(Z), float)
    nn = getattr(est, "nn_distances", None)
    return np.asarray(fitted, float), pred, (None if nn is None else np.asarray(nn, float))


def fit_signature(est_name, kind, extra, what):
    """Stable signatures of the defects of hunt H3 (one per repaired item), else a generic one."""
    ex = extra or {}
    dup = kind.startswith("dup_")
    if ex.get("d_method") == ["S", "fractal"]:
        if dup:
            return SIG_A5N
        if kind in ("1d", "list1d", "col"):
            return SIG_A5
    if est_name == "dimensionality" and dup:
        return SIG_A3
    if est_name == "time" and dup and ex.get("normalize_per_time_point", ["B", False]) != ["B", False]:
        return SIG_A4
    if est_name == "time" and kind in ("1d", "list1d"):
        return SIG_A6
    if "normalize_per_time_point" in ex and ex["normalize_per_time_point"][0] in ("NPB", "NPF", "NI", "A", "A0I", "I", "F", "S", "O"):
        return SIG_B3
    return f"C20:{what}:{est_name}:{kind}"


def case_fit(ctx, res, p):
    est_name, kind, n, seed = p["estimator"], p["data"], int(p["n"]), int(p["seed"])
    xspec = p.get("extra", {})
    supplied = bool(p.get("supplied", False))
    extra = {k: build(v) for k, v in xspec.items()}
    cls, out, e = impl_outcome(lambda: fit_once(est_name, kind, n, seed, extra, supplied))
    res.case(("fit", est_name, kind, n, seed, repr(xspec), supplied), kind != "clean" or bool(xspec),
             {"op": "fit", "estimator": est_name, "data": kind, "n": n, "extra": sorted(xspec), "supplied": supplied, "impl": cls})
    res.count("fit:" + est_name)
    res.count("fit:data=" + kind)
    res.count("fit:outcome=" + cls.split(":")[0])
    if supplied:
        res.count("fit:supplied-intermediates")
    for k in xspec:
        res.count("fit:extra=" + k)
    if p.get("expect") and cls == p["expect"]:
        return      # regression case: the (repaired) refusal the witness now has to meet
    if cls.startswith("Internal"):
        sig = fit_signature(est_name, kind, xspec, f"fit-internal:{type(e).__name__}")
        if est_name == "dimensionality" and kind in ("1d", "list1d") and isinstance(e, IndexError):
            sig = SIG_DIM1D
        if est_name == "time" and kind == "empty" and isinstance(e, ZeroDivisionError):
            sig = SIG_TIME_EMPTY
        res.oracle_fail(f"{est_name} estimator on '{kind}' data raised {type(e).__name__} instead of ValueError/TypeError",
                        p, detail={"error": str(e)[:200]}, signature=sig)
        return
    if cls != "ok":
        if kind in MUST_FIT and not p.get("may_refuse"):
            # duplicates of some cells must be sanitised (a valid distance exists), containers / dtypes must be accepted
            res.oracle_fail(f"{est_name} estimator refused '{kind}' data ({cls}: {str(e)[:80]})", p,
                            detail={"extra": sorted(xspec)}, signature=fit_signature(est_name, kind, xspec, "fit-refused"))
        if kind in ("1d", "list1d"):
            res.oracle_fail(f"{est_name} estimator refused one-dimensional input ({cls}: {str(e)[:80]})", p,
                            signature=SIG_A6 if est_name == "time" else f"C20:fit-1d-refused:{est_name}")
        return
    fitted, pred, nn = out
    if kind in MUST_REFUSE and not supplied and not (est_name == "dimensionality" and kind == "dup_pairs"):
        # (the k-NN matrix of the DimensionalityEstimator has valid entries for paired duplicates: columns 2..k)
        res.oracle_fail(f"{est_name} estimator accepted '{kind}' data (no valid distance / non-finite cell)", p,
                        detail={"fitted_finite": bool(np.all(np.isfinite(fitted)))}, signature=f"C20:fit-accepted:{kind}")
    if not np.all(np.isfinite(fitted)):
        sig = fit_signature(est_name, kind, xspec, "fit-nonfinite")
        if xspec.get("init_learn_rate") == F(float("inf")):
            sig = SIG_LR_INF
        if supplied:
            sig = SIG_SUPPLIED
        res.oracle_fail(f"{est_name} estimator on '{kind}' data: NaN/inf fitted values"
                        + (" (nn_distances, landmarks, d, ls supplied by the caller)" if supplied else ""), p, signature=sig)
    elif not np.all(np.isfinite(pred)):
        res.oracle_fail(f"{est_name} estimator on '{kind}' data: NaN/inf predictions at finite query points", p,
                        signature=SIG_SUPPLIED if supplied else fit_signature(est_name, kind, xspec, "fit-nan-prediction"))
    if nn is not None and not np.all(np.isfinite(nn) & (nn > 0)):
        res.oracle_fail("stored nn_distances are not all finite and positive after fit", p,
                        signature=SIG_A3 if est_name == "dimensionality" else f"C20:fit-nn:{est_name}")
    # sanitation of the computed distances against the model
    if nn is not None and est_name in ("density", "function") and ctx["driver"] is not None and not xspec and not supplied:
        X = dense_of(make_data(kind, n, seed))
        X = X.reshape(len(X), -1) if X.ndim == 1 else X
        import jax.numpy as jnp
        raw = np.asarray(mellon().parameters.compute_nn_distances(jnp.asarray(X)), float)
        o = ctx["driver"].ask(f"vnn F Y {raw.size} {bits(raw)}").split()
        if o[0] != "ok" or unbits(o[3:]).tobytes() != nn.tobytes():
            res.corr_fail("nn_distances after fit differ from the model's sanitation of the raw distances", p)
        res.count("fit:nn-invalid=%d" % min(int(np.sum(~(np.isfinite(raw) & (raw > 0)))), 3))
    # container / dtype / 1-D forms give the results of their dense float 2-D form (same extra arguments)
    ref_kind = SAME_AS.get(kind)
    if ref_kind and not supplied and "landmarks" not in xspec and "n_landmarks" not in xspec:
        key = (est_name, ref_kind, n, seed, repr(sorted(xspec.items())))
        if key not in _FITCACHE:
            _FITCACHE[key] = impl_outcome(lambda: fit_once(est_name, ref_kind, n, seed, extra))
        rcls, rout, _ = _FITCACHE[key]
        if rcls == "ok":
            dev = float(np.max(np.abs(rout[0] - fitted))) if rout[0].shape == fitted.shape else float("inf")
            res.dev("fit_container_vs_dense", dev)
            if rout[0].tobytes() != fitted.tobytes() or rout[1].tobytes() != pred.tobytes():
                sig = f"C20:fit-form:{kind}"
                if xspec.get("d_method") == ["S", "fractal"] and kind in ("1d", "list1d"):
                    sig = SIG_A5
                res.oracle_fail(f"'{kind}' data does not give the result of its dense 2-D float form '{ref_kind}'", p,
                                detail={"max_abs_dev": dev, "extra": sorted(xspec)}, signature=sig)


# ------------------------------------------------------------------ float constructor parameters followed by a fit

# estimator -> (float parameters, extra arguments that bypass the heuristics which would refuse a bad value by accident)
def _bypass(est_name, n):
    z = A("np", np.zeros(n))
    adam = {"optimizer": ["S", "adam"], "n_iter": ["I", "3"]}
    if est_name == "density":
        return dict(adam, mu=F(0.0), initial_value=z)
    if est_name == "time":
        return dict(adam, mu=F(0.0), initial_value=z)
    if est_name == "dimensionality":
        return dict(adam, ls=F(1.0), d=F(2.0), mu_dens=F(-5.0), initial_value=A("np", np.zeros((2, n))))
    return {}


FLOAT_PARAMS = {
    "density": ["jitter", "mu", "ls", "ls_factor", "d", "init_learn_rate", "rank"],
    "function": ["jitter", "mu", "ls", "ls_factor", "sigma"],
    "time": ["jitter", "mu", "ls", "ls_factor", "d", "init_learn_rate", "ls_time", "ls_time_factor"],
    "dimensionality": ["jitter", "mu_dim", "mu_dens", "ls", "ls_factor", "d", "init_learn_rate"],
}
PER_CELL = {"d", "sigma"}          # parameters that also take one value per cell
INF_LEGAL = {"ls", "ls_factor", "ls_time", "ls_time_factor"}     # the constant-kernel limit: accepted, results finite


def ctorfit_once(est_name, param, value, bypass, n, seed):
    m = mellon()
    X = make_data("clean", n, seed)
    times = np.repeat(np.arange(2.0), [n // 2, n - n // 2])
    y = np.sin(np.arange(n) / 3.0)
    kw = {k: build(v) for k, v in (_bypass(est_name, n) if bypass else {}).items()}
    if est_name == "time" and param != "ls_time":
        kw.setdefault("ls_time", 1.0)
    kw[param] = value
    cls_ = {"density": m.DensityEstimator, "function": m.FunctionEstimator, "time": m.TimeSensitiveDensityEstimator,
            "dimensionality": m.DimensionalityEstimator}[est_name]
    est = cls_(**kw)
    if est_name == "function":
        fitted = est.fit_predict(X, y)
        pred = est.predict(X[:3] + 0.1)
    elif est_name == "time":
        fitted = est.fit_predict(X, times)
        pred = est.predict(X[:3] + 0.1, 0.5)
    else:
        fitted = est.fit_predict(X)
        pred = est.predict(X[:3] + 0.1)
    return np.asarray(fitted, float), np.asarray(pred, float)


def case_ctorfit(ctx, res, p):
    """A float constructor parameter of one of the four estimators set to NaN / +-inf (scalar, 0-d array, one entry of a per-cell
    vector), then fit + predict on clean data: refused with ValueError / TypeError (at construction, fit or call time) or every
    fitted value and prediction is finite."""
    est_name, param, vspec, bypass = p["estimator"], p["param"], p["value"], bool(p.get("bypass", False))
    n, seed = int(p.get("n", 20)), int(p.get("seed", 1))
    cls, out, e = impl_outcome(lambda: ctorfit_once(est_name, param, build(vspec), bypass, n, seed))
    res.case(("ctorfit", est_name, param, repr(vspec), bypass), True,
             {"op": "ctorfit", "estimator": est_name, "param": param, "value": vspec if len(repr(vspec)) < 100 else "…", "impl": cls})
    res.count("ctorfit:" + est_name)
    res.count("ctorfit:param=" + param)
    res.count("ctorfit:outcome=" + cls.split(":")[0])
    if param in ("mu", "mu_dim", "mu_dens"):
        sig = SIG_A1
    elif param in ("d", "sigma"):
        sig = SIG_A2
    else:
        sig = f"C20:ctorfit:{est_name}:{param}"
    if cls.startswith("Internal"):
        res.oracle_fail(f"{est_name} estimator with {param}={describe(vspec)} raised {type(e).__name__} instead of ValueError/TypeError",
                        p, detail={"error": str(e)[:200]}, signature=f"C20:ctorfit-internal:{est_name}:{param}:{type(e).__name__}")
        return
    if cls != "ok":
        if param in INF_LEGAL and vspec == F(float("inf")) and not bypass:
            res.oracle_fail(f"{est_name} estimator refused {param}=inf (the constant-kernel limit is a legal length scale)", p,
                            detail={"error": str(e)[:200]}, signature=f"C20:ctorfit-ls-inf-refused:{est_name}:{param}")
        return
    fitted, pred = out
    if not (np.all(np.isfinite(fitted)) and np.all(np.isfinite(pred))):
        res.oracle_fail(f"{est_name} estimator accepted {param}={describe(vspec)} and returned NaN/inf "
                        f"{'fitted values' if not np.all(np.isfinite(fitted)) else 'predictions'}", p,
                        detail={"bypass": bypass}, signature=sig)


def describe(spec):
    try:
        v = build(spec)
        return repr(v)[:40] if not hasattr(v, "shape") or np.ndim(v) == 0 else f"array{tuple(np.shape(v))} with {np.asarray(v).ravel()[0]!r}"
    except Exception:
        return repr(spec)[:40]


# ------------------------------------------------------------------ the normalisation target (validate_normalize_per_time_point)

def norm_token(spec):
    """Class of a value for the model (`NormVal`), independent of the implementation."""
    k = spec[0]
    if k == "N":
        return "N"
    if k == "B":
        return "B T" if spec[1] else "B F"
    if k == "NPB":
        return "NB T" if spec[1] else "NB F"
    if k == "D":
        return "D"
    if k == "S":
        return "S"
    if k in ("L", "T"):
        return f"Z {len(spec[1])}"
    if k == "A":
        if len(spec[2]) == 0:
            v = np.array(spec[3], dtype=np.uint64).view(np.float64)[0]
            return ("NB T" if v else "NB F") if spec[4] == "bool" else "X"
        return f"Z {spec[2][0]}"
    return "X"        # I, F, NPF, NI, A0I, O, E


def case_norm(ctx, res, p):
    m = mellon()
    spec = p["value"]
    obj = build(spec)
    cls, est, e = impl_outcome(lambda: m.TimeSensitiveDensityEstimator(ls_time=1.0, normalize_per_time_point=obj))
    tok = norm_token(spec)
    res.case(("norm", repr(spec)), tok != "B F", {"op": "norm", "value": spec if len(repr(spec)) < 100 else "…", "impl": cls})
    res.count("norm:class=" + tok.split()[0])
    res.count("norm:outcome=" + cls.split(":")[0])
    if cls.startswith("Internal"):
        res.oracle_fail(f"TimeSensitiveDensityEstimator(normalize_per_time_point={describe(spec)}) raised {type(e).__name__}", p,
                        signature=SIG_B3)
        return
    scalar_bad = tok in ("X", "S")
    if scalar_bad and cls == "ok":
        res.oracle_fail(f"normalize_per_time_point={describe(spec)} (a scalar that is no bool, or a str) is accepted at construction "
                        "(fit then fails with IndexError / an accidental error)", p, signature=SIG_B3)
    if not scalar_bad and cls != "ok":
        res.oracle_fail(f"normalize_per_time_point={describe(spec)} refused at construction ({cls})", p,
                        signature="C20:normalize-refused")
    if cls == "ok":
        got = est.normalize_per_time_point
        if tok.startswith(("NB", "B")) and not (type(got) is bool and got == (tok.split()[1] == "T")):
            res.oracle_fail(f"normalize_per_time_point={describe(spec)} is stored as {type(got).__name__} {got!r}, not as the Python bool", p,
                            signature=SIG_B3)
    if ctx["driver"] is not None:
        out = ctx["driver"].ask("vnorm " + tok).split()
        if out[0] != cls:
            res.corr_fail(f"normalize_per_time_point: model {out[0]}, implementation {cls}", p, detail={"value": spec})
        elif cls == "ok":
            got = est.normalize_per_time_point
            gtok = ("N" if got is None else ("B T" if got else "B F") if type(got) is bool else "D" if isinstance(got, dict)
                    else f"Z {len(got)}" if hasattr(got, "__len__") else "X")
            if " ".join(out[1:]) != gtok:
                res.corr_fail("normalize_per_time_point: stored values differ", p, detail={"model": out[1:], "impl": gtok})


# ------------------------------------------------------------------ the k-NN distance matrix of the DimensionalityEstimator

def case_dist(ctx, res, p):
    """`distances` (n, k) of the DimensionalityEstimator: sanitised as a whole like nn_distances (invalid -> smallest valid entry
    of the matrix), refused when no entry is valid."""
    m = mellon()
    r_, c_ = int(p["rows"]), int(p["cols"])
    a = np.array(p["bits"], dtype=np.uint64).view(np.float64).reshape(r_, c_)
    cls, est, e = impl_outcome(lambda: m.DimensionalityEstimator(distances=a.copy()))
    valid = np.isfinite(a) & (a > 0)
    res.case(("dist", a.tobytes(), r_, c_), bool(np.any(~valid)), {"op": "dist", "shape": [r_, c_], "invalid": int(np.sum(~valid)), "impl": cls})
    res.count("dist:" + ("all-invalid" if not valid.any() else "some-invalid" if not valid.all() else "clean"))
    if cls.startswith("Internal"):
        res.oracle_fail(f"DimensionalityEstimator(distances=...) raised {type(e).__name__}", p, signature="C20:dist-internal")
        return
    if not valid.any():
        if cls != "ValueError":
            res.oracle_fail(f"a distance matrix without a valid entry is not refused with ValueError (got {cls})", p, signature=SIG_A3)
    elif cls != "ok":
        res.oracle_fail(f"a distance matrix with valid entries is refused ({cls})", p, signature="C20:dist-refused")
    else:
        out = np.asarray(est.distances, dtype=np.float64)
        want = np.where(valid, a, np.min(a[valid]))
        if out.shape != a.shape or out.tobytes() != want.tobytes():
            res.oracle_fail("stored k-NN distances: invalid entries are not replaced by the smallest valid distance "
                            "(or valid entries changed)", p, detail={"nonfinite_or_nonpositive": int(np.sum(~(np.isfinite(out) & (out > 0))))},
                            signature=SIG_A3)
    if ctx["driver"] is not None:
        o = ctx["driver"].ask(f"vdist {r_} {c_} {bits(a.ravel())}".strip()).split()
        if o[0] != cls:
            res.corr_fail(f"distance matrix: model {o[0]}, implementation {cls}", p)
        elif cls == "ok":
            if unbits(o[2:]).tobytes() != np.asarray(est.distances, dtype=np.float64).ravel().tobytes():
                res.corr_fail("distance matrix: sanitised values differ", p)


# ------------------------------------------------------------------ 1-D cell states for the time-aware estimator and predictors

_T1D = {}


def case_time1d(ctx, res, p):
    """With the time points given separately a 1-D x is one feature: fit and every predictor method give bitwise the results of
    the (n, 1) form; without `times` a 1-D x stays refused (it could be one cell or one feature)."""
    m = mellon()
    n, seed, method = int(p["n"]), int(p["seed"]), p["method"]
    rng = np.random.default_rng(seed)
    x = rng.normal(size=n)
    t = np.repeat(np.arange(2.0), [n // 2, n - n // 2])
    q = rng.normal(size=3)
    res.case(("time1d", n, seed, method), True, {"op": "time1d", "method": method})
    res.count("time1d:" + method)

    def fitted(form):
        key = (n, seed, form)
        if key not in _T1D:
            est = m.TimeSensitiveDensityEstimator(ls_time=1.0, predictor_with_uncertainty=True, optimizer="advi", n_iter=3)
            xx = x if form == "1d" else x[:, None]
            _T1D[key] = impl_outcome(lambda: (np.asarray(est.fit_predict(xx, t), float), est.predict))
        return _T1D[key]

    c2, o2, e2 = fitted("col")
    c1, o1, e1 = fitted("1d")
    if c2 != "ok":
        res.corr_fail(f"time-sensitive fit on (n,1) data failed ({c2})", p)
        return
    if c1 != "ok":
        res.oracle_fail(f"TimeSensitiveDensityEstimator.fit(x_1d, times) refused one-dimensional cell states ({c1}: {str(e1)[:80]})", p,
                        signature=SIG_A6)
        pred1 = None
    else:
        pred1 = o1[1]
        if o1[0].tobytes() != o2[0].tobytes():
            res.oracle_fail("time-sensitive fit on 1-D x differs from the fit on x[:, None]", p, signature="C20:time-1d-form")
    for pred, tag in ((o2[1], "fitted on (n,1)"), (pred1, "fitted on 1-D")):
        if pred is None:
            continue
        f = pred if method == "mean" else getattr(pred, method)
        ca, ra, ea = impl_outcome(lambda: np.asarray(f(q[:, None], 0.5), float))
        cb, rb, eb = impl_outcome(lambda: np.asarray(f(q, 0.5), float))
        if ca != "ok":
            res.corr_fail(f"predictor.{method} refused a well-formed (n,1) query ({ca})", p)
            continue
        if cb != "ok":
            res.oracle_fail(f"time-aware predictor ({tag}).{method}(x_1d, time) refused one-dimensional cell states ({cb}: {str(eb)[:80]})",
                            p, signature=SIG_A6)
        elif ra.tobytes() != rb.tobytes():
            res.oracle_fail(f"predictor.{method}: 1-D query differs from the (n,1) query", p, signature="C20:time-1d-form")
        cn, _, en = impl_outcome(lambda: f(q))
        if cn == "ok" or cn.startswith("Internal"):
            res.oracle_fail(f"predictor.{method}(x_1d) without a time is not refused with ValueError/TypeError ({cn})", p,
                            signature="C20:time-1d-no-time")


# ------------------------------------------------------------------ dispatch

def run_case(ctx, res, p):
    op = p["op"]
    return {"scalar": case_scalar, "nn": case_nn, "xfrt": case_xfrt, "ensure2d": case_ensure2d, "predict": case_predict,
            "chol": case_chol, "mle": case_mle, "ctor": case_ctor, "fit": case_fit, "ctorfit": case_ctorfit,
            "norm": case_norm, "dist": case_dist, "time1d": case_time1d}[op](ctx, res, p)


def witnesses():
    """Regression cases: the witnesses of the defects repaired in /repo (ints outside int64 / the double range,
    non-string gp_type, 1-D input to DimensionalityEstimator, empty time-sensitive data, infinite learning rate,
    NumPy / JAX integer scalars turned into floats by validate_float_or_int).
    They must now be refused cleanly (resp. accepted for the 1-D input); on a tree without the repairs they are
    reported as violations."""
    return [
        {"op": "scalar", "validator": "float_or_int", "value": ["I", str(2 ** 63)]},
        {"op": "scalar", "validator": "float", "value": ["I", str(2 ** 63)]},
        {"op": "scalar", "validator": "positive_float", "value": ["I", str(2 ** 1024)]},
        {"op": "scalar", "validator": "gp_type", "value": ["I", "3"]},
        {"op": "ctor", "args": {"gp_type": ["I", "3"]}},
        {"op": "ctor", "args": {"mu": ["I", str(2 ** 63)]}},
        {"op": "fit", "estimator": "dimensionality", "data": "1d", "n": 20, "seed": 1},
        {"op": "fit", "estimator": "time", "data": "empty", "n": 20, "seed": 1},
        {"op": "fit", "estimator": "density", "data": "clean", "n": 20, "seed": 1,
         "extra": {"init_learn_rate": F(float("inf")), "optimizer": ["S", "adam"], "n_iter": ["I", "3"]},
         "expect": "ValueError"},
        {"op": "ctor", "args": {"init_learn_rate": F(float("inf"))}},
        {"op": "ctor", "args": {"jitter": F(float("inf"))}},
        {"op": "ctor", "args": {"ls": ["S", "inf"]}},          # accepted: the constant-kernel limit (fix bac25f2)
        {"op": "ctor", "args": {"ls_factor": F(float("inf"))}},
        {"op": "fit", "estimator": "density", "data": "clean", "n": 20, "seed": 1, "extra": {"ls": F(float("inf"))}},
        {"op": "ctor", "args": {"rank": ["I", str(-2 ** 63 - 1)]}},
        {"op": "ctor", "args": {"d": ["I", str(10 ** 400)]}},
        {"op": "ctor", "args": {"landmarks": ["L", [["L", [["I", str(10 ** 400)], ["I", "1"]]]]]}},
        {"op": "scalar", "validator": "positive_float:inf", "value": F(float("inf"))},
        {"op": "fit", "estimator": "dimensionality", "data": "list1d", "n": 20, "seed": 1},
        # integer scalars of NumPy / JAX stay integers (fix 4604925: they became floats, rank=np.int64(5) -> 5.0)
        {"op": "scalar", "validator": "float_or_int?", "value": NI(5)},
        {"op": "scalar", "validator": "float_or_int", "value": A0I("jax", 3, "int32")},
        {"op": "scalar", "validator": "float_or_int", "value": NI(2 ** 63 + 5, "uint64")},
        {"op": "ctor", "args": {"rank": NI(5)}},
        {"op": "ctor", "args": {"rank": A0I("np", 4, "int32")}},
    ] + h3_witnesses()


NORM_TRUE, NORM_LIST = ["B", True], ["L", [["I", "10"], ["I", "10"]]]
NORM_DICT = ["D", [[F(0.0), ["I", "10"]], [F(1.0), ["I", "10"]]]]
FAST = {"optimizer": ["S", "adam"], "n_iter": ["I", "3"]}
FRACTAL = {"d_method": ["S", "fractal"]}


def h3_witnesses():
    """Regression cases of the defects found by hunt H3 (reports/hunt/H3) and repaired in /repo; every one FAILS on the tree
    without its fix, with the signature given; plus the witness of the one defect left as a known finding (B2)."""
    inf, nan = float("inf"), float("nan")
    n, seed = 20, 1
    dim_given = dict(FAST, ls=F(1.0), d=F(2.0), mu_dens=F(-5.0), initial_value=A("np", np.zeros((2, n))))
    fit = lambda est, kind, extra=None, **kw: dict({"op": "fit", "estimator": est, "data": kind, "n": n, "seed": seed},
                                                  **({"extra": extra} if extra else {}), **kw)
    w = [
        # A1  validate_float let +-inf through: FunctionEstimator(mu=inf) -> all-NaN fitted values            [SIG_A1]
        {"op": "scalar", "validator": "float", "value": F(inf)},
        {"op": "scalar", "validator": "float?", "value": ["S", "-inf"]},
        {"op": "ctor", "args": {"mu": F(-inf)}},
        {"op": "ctorfit", "estimator": "function", "param": "mu", "value": F(inf)},
        {"op": "ctorfit", "estimator": "function", "param": "mu", "value": F(-inf)},
        # A2  validate_float_or_iterable_numerical let NaN (and d=inf) through                                 [SIG_A2]
        {"op": "scalar", "validator": "foin?+", "value": F(nan)},
        {"op": "scalar", "validator": "foin", "value": A("np", nan)},
        {"op": "scalar", "validator": "foin?+", "value": A("np", [nan])},
        {"op": "ctor", "args": {"d": F(nan)}},
        {"op": "ctorfit", "estimator": "density", "param": "d", "value": F(nan), "bypass": True},
        {"op": "ctorfit", "estimator": "density", "param": "d", "value": F(inf), "bypass": True},
        {"op": "ctorfit", "estimator": "density", "param": "d", "value": A("np", np.r_[nan, 2.0 * np.ones(n - 1)]), "bypass": True},
        {"op": "ctorfit", "estimator": "function", "param": "sigma", "value": F(nan)},
        # A3  DimensionalityEstimator never sanitised the distances of duplicate cells                          [SIG_A3]
        fit("dimensionality", "dup_one", dict(FAST)),
        fit("dimensionality", "dup_one", dim_given),
        {"op": "dist", "rows": 3, "cols": 2, "bits": [fb(v) for v in (0.0, 2.0, 0.0, 3.0, 1.0, 2.0)]},
        # A4  one duplicate + normalize_per_time_point: "'ls' should be a positive float number"               [SIG_A4]
        fit("time", "dup_one", {"normalize_per_time_point": NORM_TRUE}),
        fit("time", "dup_one", {"normalize_per_time_point": NORM_LIST}),
        fit("time", "dup_one", {"normalize_per_time_point": NORM_DICT}),
        # A5  d_method="fractal": x and x[:, None] gave different d; several duplicates gave a NaN d         [SIG_A5, SIG_A5N]
        fit("density", "1d", dict(FRACTAL)),
        fit("density", "dup_few", dict(FRACTAL)),
        # (seeded change C20-f: zero distances filled per neighbourhood -> NaN d when a neighbourhood holds only copies of one cell)
        fit("density", "dup_clump", dict(FRACTAL), n=40),
        fit("time", "dup_clump", dict(FRACTAL), n=40),
        fit("density", "dup_clump", None, n=40),
        # A6  1-D cell states with separate time points                                                         [SIG_A6]
        fit("time", "1d"),
        {"op": "time1d", "n": n, "seed": seed, "method": "mean"},
        {"op": "time1d", "n": n, "seed": seed, "method": "gradient"},
        # B3  normalize_per_time_point=np.bool_(True) / k=0 -> IndexError at fit                               [SIG_B3, SIG_B3K]
        {"op": "norm", "value": ["NPB", True]},
        {"op": "norm", "value": ["NPF", fb(1.5)]},
        fit("time", "clean", {"normalize_per_time_point": ["NPB", True]}),
        {"op": "scalar", "validator": "k", "value": ["I", "0"]},
        # seeded change C20-e: the Ridge initial guess was the only place that refused a NaN / inf cell or time point when
        # nn_distances, landmarks, d (ls, ls_time) are supplied by the caller: refusal or finite results        [SIG_SUPPLIED]
        fit("density", "nan_cell", supplied=True),
        fit("density", "inf_cell", supplied=True),
        fit("time", "nan_cell", supplied=True),
        fit("time", "nan_time", supplied=True),
        fit("time", "inf_time", supplied=True),
        # B2  (known finding, not repaired) Matern predictors return NaN at finite queries with |x| >= 1.34e154   [SIG_MATERN]
        {"op": "predict", "features": 2, "method": "mean", "x": A("np", [[1e155, 0.0]]), "normalize": ["B", False]},
    ]
    return w


def run(ctx, res):
    rng = ctx["rng"]
    quick = ctx["tier"] == "quick"
    budget = ctx["budget"] or (60 if quick else 540)
    t0 = time.time()
    left = lambda: budget - (time.time() - t0)
    mellon()
    menu = value_menu()
    # 0. transport exactness + Lean counter-example witnesses
    specials = [0.0, -0.0, 5e-324, -5e-324, 2.2250738585072014e-308, 2.225073858507201e-308, 1.7976931348623157e308, 1.0, -1.0,
                float("inf"), -float("inf"), float("nan"), 0.1, 1e-320]
    rnd = rng.integers(0, 2 ** 63, size=200, dtype=np.uint64) | (rng.integers(0, 2, size=200, dtype=np.uint64) << np.uint64(63))
    run_case(ctx, res, {"op": "xfrt", "bits": [fb(v) for v in specials] + [int(v) for v in rnd]})
    for w in witnesses():
        run_case(ctx, res, w)
    # 0b. core fits on dirty data: always run, before the time-boxed sweeps
    seed_core = int(rng.integers(1, 10 ** 6))
    core = [("time", "dup_block"), ("time", "dup_pairs"), ("density", "dup_some"), ("density", "dup_pairs"),
            ("function", "dup_some"), ("density", "1d"), ("function", "sparse"), ("time", "clean")]
    for est_name, kind in core:
        run_case(ctx, res, {"op": "fit", "estimator": est_name, "data": kind, "n": 20, "seed": seed_core})
    # the H3 family with a fresh seed: duplicates for the DimensionalityEstimator and for the normalised time-sensitive estimator,
    # fractal d with duplicates / 1-D input, 1-D cell states with times, a non-finite cell with supplied intermediates
    norm_pick = [NORM_TRUE, NORM_LIST, NORM_DICT, ["NPB", True]][int(rng.integers(4))]
    core2 = [("dimensionality", str(rng.choice(["dup_one", "dup_some", "dup_few"])), dict(FAST), False),
             ("time", str(rng.choice(["dup_one", "dup_block", "dup_few"])), {"normalize_per_time_point": norm_pick}, False),
             ("density", str(rng.choice(["dup_some", "dup_few", "dup_many"])), dict(FRACTAL), False),
             ("density", str(rng.choice(["1d", "list1d"])), dict(FRACTAL), False),
             ("time", str(rng.choice(["1d", "list1d"])), {}, False),
             (str(rng.choice(["density", "time"])), str(rng.choice(["nan_cell", "inf_cell"])), {}, True),
             ("time", str(rng.choice(["nan_time", "inf_time"])), {}, True)]
    for est_name, kind, extra, supplied in core2:
        pl = {"op": "fit", "estimator": est_name, "data": kind, "n": 20, "seed": seed_core}
        if extra:
            pl["extra"] = extra
        if supplied:
            pl["supplied"] = True
        run_case(ctx, res, pl)
    res.count("fit:core", len(core) + len(core2))
    # 0c. NaN / +-inf for every float constructor parameter of the four estimators, followed by a fit (always run: a sample in the
    #     quick tier, everything in the thorough tier); scalars, 0-d arrays and one entry of a per-cell vector
    inf, nan = float("inf"), float("nan")
    cf = []
    for est_name, params in FLOAT_PARAMS.items():
        for param in params:
            for v in (nan, inf, -inf):
                cf.append((est_name, param, F(v), False))
                if _bypass(est_name, 20) and param not in _bypass(est_name, 20):
                    cf.append((est_name, param, F(v), True))
            if param in PER_CELL:
                for v in (nan, inf):
                    vec = np.r_[v, 2.0 * np.ones(19)] if param == "d" else np.r_[v, 0.1 * np.ones(19)]
                    cf.append((est_name, param, A("np", vec), bool(_bypass(est_name, 20)) and param not in _bypass(est_name, 20)))
                cf.append((est_name, param, A(str(rng.choice(["np", "jax"])), nan), False))
                cf.append((est_name, param, A("np", [nan]), False))
    if quick:
        # construction-time refusals are cheap: run them all; the ones that reach a fit are sampled
        pick = set(int(i) for i in rng.choice(len(cf), size=min(len(cf), 60), replace=False))
    else:
        pick = set(range(len(cf)))
    for i, (est_name, param, vspec, bypass) in enumerate(cf):
        if i in pick or est_name == "function" or param in ("mu", "mu_dim", "mu_dens", "d", "sigma"):
            run_case(ctx, res, {"op": "ctorfit", "estimator": est_name, "param": param, "value": vspec, "bypass": bypass,
                                "n": 20, "seed": 1})
    res.count("ctorfit:planned", len(cf))
    # 0d. the normalisation target of the time-sensitive estimator over the value menu (+ NumPy booleans, dicts)
    for spec in menu + [["NPB", True], ["NPB", False], NORM_DICT, NORM_LIST, ["D", []], ["T", [["I", "5"], ["I", "6"]]]]:
        if spec[0] != "SP":       # a sparse matrix is no documented target (bool, list / array of counts, dict) and not modelled
            run_case(ctx, res, {"op": "norm", "value": spec})
    for spec in (["NPB", False], ["NI", "1", "int64"], ["NPF", fb(1.0)], A("np", True, "bool"), A("jax", True, "bool"), ["I", "1"], F(1.5)):
        run_case(ctx, res, {"op": "fit", "estimator": "time", "data": "clean", "n": 20, "seed": 1,
                            "extra": {"normalize_per_time_point": spec}, "may_refuse": True})
    # 0e. k-NN distance matrices of the DimensionalityEstimator over the nn patterns
    for cats in itertools.product(["valid", "zero", "nan", "pinf"], repeat=4):
        run_case(ctx, res, {"op": "dist", "rows": 2, "cols": 2, "bits": [fb(x) for x in nn_values(rng, cats)]})
    for _ in range(30 if quick else 300):
        r_, c_ = int(rng.choice([3, 5, 8])), int(rng.choice([1, 2, 4]))
        pv = float(rng.choice([0.0, 0.3, 0.8, 1.0]))
        cats = [("valid" if rng.random() < pv else NN_CATS[1 + int(rng.integers(6))]) for _ in range(r_ * c_)]
        run_case(ctx, res, {"op": "dist", "rows": r_, "cols": c_, "bits": [fb(x) for x in nn_values(rng, cats)]})
    # 0f. 1-D cell states through every method of the time-aware predictor
    for method in ("mean", "covariance", "mean_covariance", "uncertainty", "gradient", "hessian", "hessian_log_determinant",
                   "time_derivative"):
        run_case(ctx, res, {"op": "time1d", "n": 20, "seed": 1, "method": method})
    # 1. every scalar validator x the whole menu (exhaustive over the menu)
    for name, _, _ in SCALAR_OPS:
        for spec in menu:
            run_case(ctx, res, {"op": "scalar", "validator": name, "value": spec})
    # 2. nn patterns: all category assignments for n <= 3, sampled beyond
    for n in (1, 2, 3):
        for cats in itertools.product(NN_CATS, repeat=n):
            v = nn_values(rng, cats)
            run_case(ctx, res, {"op": "nn", "bits": [fb(x) for x in v]})
    run_case(ctx, res, {"op": "nn", "bits": [], "none": True, "optional": True})
    run_case(ctx, res, {"op": "nn", "bits": [], "none": True, "optional": False})
    run_case(ctx, res, {"op": "nn", "bits": []})
    for _ in range(60 if quick else 600):
        n = int(rng.choice([5, 8, 20]))
        pv = float(rng.choice([0.0, 0.1, 0.5, 0.9, 1.0]))
        cats = [("valid" if rng.random() < pv else NN_CATS[1 + int(rng.integers(6))]) for _ in range(n)]
        run_case(ctx, res, {"op": "nn", "bits": [fb(x) for x in nn_values(rng, cats)], "optional": bool(rng.random() < 0.3)})
    # 3. ensure_2d
    for shape in [(), (1,), (5,), (1, 1), (5, 1), (1, 5), (4, 3), (0,), (0, 2), (2, 3, 4), (3, 1, 2)]:
        run_case(ctx, res, {"op": "ensure2d", "shape": list(shape)})
    # 4. mle
    for _ in range(40 if quick else 400):
        run_case(ctx, res, {"op": "mle", "r": float(10.0 ** rng.uniform(-300, 300) if rng.random() < 0.3 else np.exp(rng.uniform(-8, 8))),
                            "d": float(rng.choice([1, 2, 3, 10, 50]) if rng.random() < 0.5 else np.exp(rng.uniform(-3, 4)))})
    # 5. constructor: one dirty argument at a time (exhaustive over menu x argument), then combinations
    for k in CTOR_KEYS:
        for spec in menu:
            run_case(ctx, res, {"op": "ctor", "args": {k: spec}})
    for _ in range(150 if quick else 3000):
        ks = rng.choice(CTOR_KEYS, size=int(rng.integers(2, 4)), replace=False)
        run_case(ctx, res, {"op": "ctor", "args": {str(k): menu[int(rng.integers(len(menu)))] for k in ks}})
    # 6. Cholesky refusal
    kernels = [("M52", 1.0, None), ("M32", 2.0, None), ("EQ", 0.7, None), ("M52", 1.0, ("mul", -1.0)), ("EQ", 1.0, ("mul", -0.5)),
               ("M52", 1.0, ("add", -0.9)), ("LIN", 1.0, ("add", -5.0)), ("M32", 1.0, ("mul", 2.0)), ("LIN", 1.0, None)]
    for i in range(len(kernels) * (2 if quick else 12)):
        kspec = kernels[i % len(kernels)]
        X = rng.normal(size=(6, 2)) * 2.0
        jitter = float(rng.choice([1e-1, 1e-2, 1e-3]))
        run_case(ctx, res, {"op": "chol", "which": "full_rank" if (i // len(kernels)) % 2 == 0 else "get_L", "kernel": kspec,
                            "X": X, "jitter": jitter})
    # 7. predictor calls
    queries = [A("np", np.zeros(())), A("np", [0.3]), A("np", [0.1, 0.2, 0.3]), A("np", [[0.1], [0.2]]), A("np", [[0.1, 0.2]]),
               A("np", [[0.1, 0.2], [0.3, 0.4], [0.5, 0.6]]), A("np", [[0.1, 0.2, 0.3]]), A("np", np.zeros((2, 4))),
               A("np", np.zeros((0, 2))), A("np", np.zeros((2, 1, 2))), A("np", np.zeros((2, 2, 1))), A("jax", [[0.5, 0.5]]),
               A("jax", [0.5, 0.25]), A("np", [[1, 2]], "int64"), ["L", [F(0.1), F(0.2)]], ["L", [["L", [F(0.1), F(0.2)]]]],
               ["L", [["L", [F(0.1)]], ["L", [F(0.2), F(0.3)]]]], ["SP", 2, 2, [fb(v) for v in (1.0, 0.0, 0.0, 1.0)]],
               ["SP", 1, 3, [fb(v) for v in (1.0, 0.0, 2.0)]], F(0.3), ["I", "1"], ["N"], ["S", "abc"], ["S", "0.5"], ["O"], ["B", True],
               ["L", []], ["L", [["N"]]], A("np", [[1e6, -1e6]]), A("np", [[1e150, 1e150]])]
    norms = [["B", False], ["B", True], ["I", "1"], ["N"], ["S", "yes"]]
    for f in (1, 2, 3):
        for xs in queries:
            for ns in (norms if quick and f == 2 or not quick else norms[:1]):
                run_case(ctx, res, {"op": "predict", "features": f, "method": "mean", "x": xs, "normalize": ns})
            for method in ("covariance", "mean_covariance", "uncertainty"):
                if quick and f != 2 and method != "covariance":
                    continue
                run_case(ctx, res, {"op": "predict", "features": f, "method": method, "x": xs, "normalize": ["B", False]})
    # 8. fits on dirty data (time-boxed)
    kinds = ["clean", "col", "float_of_int", "dup_some", "dup_one", "dup_few", "dup_block", "dup_many", "dup_all", "dup_pairs", "const_col",
             "const_all", "1d", "list", "list1d", "sparse", "sparse_array", "int", "int32", "f32", "jax", "empty", "nan_cell", "inf_cell"]
    plan = []
    seed0 = int(rng.integers(1, 10 ** 6))
    for kind in kinds:
        plan.append(("density", kind))
    for kind in kinds:
        plan.append(("function", kind))
    for kind in (kinds if not quick else ["clean", "dup_some", "dup_all", "1d", "sparse", "int", "empty", "list"]):
        plan.append(("time", kind))
    for kind in (kinds if not quick else ["clean", "dup_some", "1d", "sparse", "const_col", "dup_many", "dup_pairs"]):
        plan.append(("dimensionality", kind))
    plan = [(e, k, None, False) for e, k in plan]
    # variants: normalised time-sensitive estimator, fractal d, supplied intermediates
    for kind in ["dup_some", "dup_many", "dup_block", "clean", "1d"]:
        for nz in (NORM_TRUE, NORM_LIST, NORM_DICT):
            plan.append(("time", kind, {"normalize_per_time_point": nz}, False))
    for kind in ["clean", "col", "1d", "list1d", "dup_some", "dup_few", "dup_many", "dup_pairs", "sparse"]:
        plan.append(("density", kind, dict(FRACTAL), False))
        plan.append(("time", kind, dict(FRACTAL), False))
    for kind in ["clean", "nan_cell", "inf_cell", "nan_time", "inf_time"]:
        plan.append(("density", kind, None, True))
        plan.append(("time", kind, None, True))
    if quick:
        # the variants come after the base plan; in the quick tier shuffle them in so that the time box samples all of them
        order = rng.permutation(len(plan))
        plan = [plan[int(i)] for i in order]
    rounds = 1 if quick else 6
    done = 0
    # the always-run sections above use most of the quick budget: the sweep gets a box of its own so that it never starves
    t1 = time.time()
    tail = max(left(), 25.0 if quick else 120.0)
    left = lambda: tail - (time.time() - t1)
    for r in range(rounds):
        for est_name, kind, extra, supplied in plan:
            if left() < (8 if est_name == "dimensionality" else 3):
                continue
            pl = {"op": "fit", "estimator": est_name, "data": kind, "n": 20, "seed": seed0 + r}
            if extra:
                pl["extra"] = extra
            if supplied:
                pl["supplied"] = True
            run_case(ctx, res, pl)
            done += 1
    res.count("fit:planned", len(plan) * rounds)
    res.count("fit:done", done)
    res.exhaustive = False


CLAIM = {
    "text": "Lean theorems over exact data (extended floats XF, a syntax of Python values with CPython/numpy/jax coercion rules): "
            "validate_nn_distances sanitises (accepted => all outputs finite positive, valid entries unchanged, invalid entries = "
            "smallest valid) and refuses all-invalid input; the k-NN distance matrix of the DimensionalityEstimator goes through the same "
            "function on its flattening (distances_sanitise); every scalar/flag/string/array validator: accepted => postcondition, "
            "with its refusal table; validate_float accepts only FINITE numbers unless allow_inf (validate_float_finite, "
            "validate_float_refuses_inf); validate_float_or_iterable_numerical refuses NaN always and +-inf unless allow_inf "
            "(foin_post, foin_d_finite, foin_refuses_nan_inf); k >= 1 (k_post); the normalisation target is None / a Python bool / dict / "
            "sized container, NumPy booleans become Python bools, other scalars and strings are a TypeError (normalize_post); "
            "validate_float_or_int keeps integers (a Python int and a NumPy / JAX integer scalar - NumPy "
            "scalar object or 0-d integer array of any integer dtype - come back as the Python int of the same value, a float as "
            "that float; integers outside int64, i.e. a uint64 above 2^63-1, are refused; float_or_int_keeps_integers); BaseEstimator/DensityEstimator constructor validation (first refusal wins, unknown option "
            "strings and wrongly typed flags refused; stored mu finite, stored d finite and non-negative); ensure_2d shapes; feature-count mismatch refused at call time; Cholesky "
            "refusal (pivot <= 0 => ValueError, never a NaN factor); mle well-defined for positive distances. Tied to /repo by "
            "running the real validators / constructors / predictors / factorisations on the value grammar and comparing outcome "
            "class and value exactly with the model driver, plus independent numpy oracles, NaN / +-inf for every float constructor "
            "parameter of the four estimators followed by a fit, and fits of the 4 estimators on dirty data.",
    "note": "End-to-end finiteness of fitted values/predictions is a float-range statement: tests only. The defects found earlier "
            "(int overflow in validators, non-string gp_type, 1-D input to DimensionalityEstimator, empty time-sensitive data, "
            "init_learn_rate=inf, NumPy / JAX integer scalars coerced to float by validate_float_or_int - fix 4604925) and by hunt H3 "
            "(A1 mu=+-inf, A2 d / sigma NaN, A3 duplicates in the DimensionalityEstimator, A4 duplicates with normalize_per_time_point, "
            "A5 fractal d for 1-D input / duplicates, A6 1-D cell states with times, B3 NumPy-bool flag and k=0) are "
            "repaired in /repo; model and theorems state the repaired behaviour at full strength "
            "(validators_no_internal, gp_from_string_no_internal, positive_float_finite, validate_float_finite, foin_d_finite) and the old "
            "witnesses are regression cases (h3_witnesses). B2 of hunt H3 (Matern predictors return NaN at finite queries of magnitude "
            ">= 1.34e154) is left as the known finding C20:matern-overflow-nan-prediction with an always-run witness.",
    "technique": "Lean 4 proof (case analysis over value syntax, list induction over extended floats) + exhaustive differential "
                 "correspondence over the value grammar + independent oracles + dirty-data fits",
}
