"""C13 — time arguments of time-aware predictors mean what they say."""
import time, itertools
import numpy as np
from ..common import mellon, bits, unbits, fbit, exc_class

RULE = ("two streams. (1) pure: validate_time_x(x, times, n_features, cast_scalar) over every time form {None, python "
        "int/float, numpy scalar, bool, 0-d numpy/jax array, (1,), (1,1), (1,1,1), [v], [[v]], (n,), (n,1), jax (n,), list, "
        "tuple, nested list, integer dtype, wrong lengths k in {0,n-1,n+1,2n}, (n,2), (1,n), (n,1,1), (n,0)} x n in {1,2,5} x "
        "f in {1,2,3} x n_features in {None,f,f+1,f+2} x cast_scalar, plus malformed x (None, scalar, 1-D, 3-D); "
        "(2) predictors: the 3 time-aware classes (compute_conditional_times with landmarks None / landmarks + "
        "pre_transformation / landmarks only) x 8 methods x time forms x {positional, keyword} x diag x normalize x "
        "multi_time lists with repeats (1-D, 2-D rows, empty, scalar, 0-d). distinct = distinct (stream, class, method, "
        "form, shapes, flags, data hash); non-trivial = a time argument or multi_time is present, or a refusal is exercised")
PARTIAL = ["the family routines (_mean, _covariance, jax AD) are uninterpreted parameters of the model: that every method hands "
           "them exactly the merged matrix is checked by bitwise comparison with the trailing-column call on the implementation",
           "multi_time columns are compared with single-time calls within a measured tolerance (vmap changes XLA fusion, "
           "observed <= ~1e-13 relative), not bitwise"]
ASSUMPTIONS = ["jax.vmap(f, in_axes=0, out_axes=1)(ts)[:, k] = f(ts[k]) and shape-only refusals under tracing (contract of JAX)",
               "inspect.Signature.bind_partial binds a positional `time` to the parameter named `time` (CPython contract)"]
TRUSTED_EXTRA = ["jax.vmap semantics (in_axes=0, out_axes=1)", "CPython inspect.signature / bind_partial"]

METHODS = ["mean", "covariance", "mean_covariance", "uncertainty", "time_derivative", "gradient", "hessian",
           "hessian_log_determinant"]
DERIV = {"time_derivative", "gradient", "hessian", "hessian_log_determinant"}
COVM = {"covariance", "mean_covariance", "uncertainty"}

# relative tolerance of multi_time columns vs single-time calls (scale = max |single result|); see REPORT_C.md
MULTI_TOL = 1e-9

VAL_KINDS = [("'x' must be a", "xNdim"), ("'times' must be a (1, 2)", "timesNdim"),
             ("'times' must be a 1D array or", "timesCols"), ("same number of samples", "length"),
             ("including 'times'", "missingTime"), ("Wrong number of features", "features"),
             ("Cannot specify both", "bothTimeMulti"), ("Cannot normalize without n_obs", "noNObs"),
             ("vmap was requested", "vmapRank")]
TYPE_KINDS = [("'x' can't be None", "xNone"), ("'x' should be iterable", "xNotIterable"),
              ("'times' should be iterable", "timesNotIterable"), ("'multi_time' should be iterable", "multiNotIterable"),
              ("required positional argument", "missingArg"), ("should be of type bool", "normalizeNotBool")]


def err_kind(e):
    c = exc_class(e)
    table = VAL_KINDS if c == "ValueError" else TYPE_KINDS if c == "TypeError" else []
    msg = str(e)
    for frag, k in table:
        if frag in msg:
            return c + ":" + k
    return c + ":?"


# ------------------------------------------------------------------ argument descriptions <-> python objects <-> tokens

def nest_tuple(o):
    return tuple(nest_tuple(v) for v in o) if isinstance(o, list) else o


def time_obj(t):
    """Python object for a time description {"kind", "shape", "data"}."""
    import jax.numpy as jnp
    k = t["kind"]
    data = np.asarray(t["data"], dtype=float)
    if k == "none":
        return None
    if k == "int":
        return int(data[0])
    if k == "npint":
        return np.int64(int(data[0]))
    if k == "bool":
        return bool(data[0])
    if k == "float":
        return float(data[0])
    if k == "npfloat":
        return np.float64(data[0])
    a = data.reshape(t["shape"])
    if k == "np":
        return a
    if k == "npint_arr":
        return a.astype(np.int64)
    if k == "sparse":
        import scipy.sparse as sp
        return sp.csr_matrix(a)            # densified by validate_array like any other sparse input
    if k == "jax":
        return jnp.asarray(a)
    if k == "list":
        return a.tolist()
    if k == "list_int":
        return a.astype(np.int64).tolist()
    if k == "tuple":
        return nest_tuple(a.tolist())
    raise ValueError(k)


def shape_tokens(shape):
    return "%d %s" % (len(shape), " ".join(str(int(s)) for s in shape)) if len(shape) else "0"


def data_tokens(data):
    data = np.asarray(data, dtype=float).ravel()
    return ("%d %s" % (data.size, bits(data))) if data.size else "0"


def time_token(t):
    k = t["kind"]
    if k == "none":
        return "TN"
    if k in ("int", "npint", "bool"):
        return "TI %d" % int(t["data"][0])
    if k in ("float", "npfloat"):
        return "TF " + fbit(t["data"][0])
    tag = "TA" if k in ("np", "npint_arr", "jax", "sparse") else "TL"
    return f"{tag} {shape_tokens(t['shape'])} {data_tokens(t['data'])}"


def x_obj(x):
    k = x["kind"]
    if k == "none":
        return None
    if k == "scalar":
        return 1.5
    if k == "list":
        return np.asarray(x["data"], float).tolist()
    return np.asarray(x["data"], float)


def x_token(x):
    k = x["kind"]
    if k == "none":
        return "XN"
    if k == "scalar":
        return "XS"
    a = np.asarray(x["data"], float)
    if a.ndim == 1:
        return ("XV %d %s" % (a.shape[0], bits(a))).rstrip()
    if a.ndim != 2:
        return "XO %d" % a.ndim
    return ("XM %d %d %s" % (a.shape[0], a.shape[1], bits(a))).rstrip()


def multi_obj(m):
    if m is None:
        return None
    k = m["kind"]
    a = np.asarray(m["data"], float).reshape(m["shape"])
    if k == "scalar":
        return 2.5
    if k == "np":
        return a
    if k == "list":
        return a.tolist()
    if k == "list_int":
        return a.astype(np.int64).tolist()
    raise ValueError(k)


def multi_token(m):
    if m is None:
        return "MA"
    if m["kind"] == "scalar":
        return "MS"
    shape = list(m["shape"])
    if len(shape) == 0:
        return "M0"
    a = np.asarray(m["data"], float).reshape(shape)
    rows = " ".join(data_tokens(a[i]) for i in range(shape[0]))
    return f"MR {shape_tokens(shape[1:])} {shape[0]} {rows}".rstrip()


def tdesc(kind, shape, data):
    return {"kind": kind, "shape": [int(s) for s in shape], "data": np.asarray(data, dtype=float).ravel()}


# ------------------------------------------------------------------ the independent expectation (the property itself)

def expected_column(t, n, cast=True):
    """What the property says the time column is: ('col', values) | ('refuse',) | ('unspecified',) | ('none',).
    Independent of the Lean model: scalars and one-element array-likes broadcast, (n,) / (n,1) array-likes are
    per-row, any other length is refused."""
    k = t["kind"]
    if k == "none":
        return ("none",)
    data = np.asarray(t["data"], float).ravel()
    if k in ("int", "npint", "bool", "float", "npfloat"):
        return ("col", np.full(n, float(data[0]))) if cast else ("unspecified",)
    shape = list(t["shape"])
    if cast and data.size == 1 and int(np.prod(shape)) == 1:
        return ("col", np.full(n, data[0]))
    if shape == [n] or shape == [n, 1]:
        return ("col", data.copy())
    if len(shape) == 1 or (len(shape) == 2 and shape[1] == 1):
        return ("refuse",)          # a time vector of the wrong length
    return ("unspecified",)


# ------------------------------------------------------------------ stream 1: validate_time_x

def case_timex(ctx, res, p):
    from mellon.validation import validate_time_x
    x, t, nf, cast = p["x"], p["time"], p["nf"], bool(p["cast"])
    xo, to = x_obj(x), time_obj(t)
    try:
        out = ("ok", np.asarray(validate_time_x(xo, to, n_features=nf, cast_scalar=cast)))
    except Exception as e:
        out = ("err", err_kind(e), str(e)[:160])
    form = "%s%s" % (t["kind"], tuple(t["shape"]) if t["kind"] not in ("none", "int", "npint", "bool", "float", "npfloat") else "")
    res.count("timex form=" + t["kind"])
    res.count("timex outcome=" + (out[0] if out[0] == "ok" else out[1]))
    xa = np.asarray(x["data"], float) if x["kind"] in ("arr", "list") else None
    canon = ("timex", x["kind"], None if xa is None else (xa.shape, xa.tobytes()), form,
             np.asarray(t["data"], float).tobytes(), nf, cast)
    res.case(canon, t["kind"] != "none" or out[0] != "ok",
             {"op": "timex", "x_shape": None if xa is None else list(xa.shape), "time": form, "nf": nf, "cast": cast,
              "outcome": out[0] if out[0] == "ok" else out[1]})
    # ---- correspondence with the model
    if ctx["driver"] is not None:
        rep = ctx["driver"].ask(f"timex {x_token(x)} {time_token(t)} {'N' if nf is None else nf} {'T' if cast else 'F'}")
        if rep.startswith("ok"):
            tk = rep.split()
            n_, c_ = int(tk[1]), int(tk[2])
            M = unbits(tk[3:], (n_, c_))
            if out[0] != "ok":
                res.corr_fail("model accepts what validate_time_x refuses", p, detail={"impl": out[1:], "model": rep[:80]})
            elif out[1].shape != M.shape or out[1].astype(float).tobytes() != M.tobytes():
                res.corr_fail("validate_time_x result differs from the model's merged matrix", p,
                              detail={"impl_shape": list(out[1].shape), "model_shape": [n_, c_]})
        elif rep.startswith("ValueError") or rep.startswith("TypeError"):
            if out[0] == "ok":
                res.corr_fail("model refuses what validate_time_x accepts", p, detail={"model": rep})
            elif out[1] != rep:
                res.corr_fail("validate_time_x and the model refuse differently", p, detail={"impl": out[1:], "model": rep})
        else:
            res.corr_fail("driver: " + rep[:100], p)
    # ---- property oracle (independent of the model)
    if xa is not None and xa.ndim == 1:
        # one value per cell: single-feature data when the time is given separately (then exactly the column form), refused
        # without a time (the time column could not be told from a feature)
        res.count("timex x=1-D time=" + ("none" if t["kind"] == "none" else "given"))
        if t["kind"] == "none":
            if out[0] == "ok" or not out[1].startswith("ValueError"):
                res.oracle_fail("a 1-D x without a time argument is not refused with ValueError", p, signature="C13:timex:x-1d-no-time")
        else:
            try:
                ref = ("ok", np.asarray(validate_time_x(xo[:, None] if hasattr(xo, "ndim") else np.asarray(xo)[:, None], to,
                                                        n_features=nf, cast_scalar=cast)))
            except Exception as e:
                ref = ("err", err_kind(e), str(e)[:160])
            same = (out[0] == ref[0]) and (out[1].tobytes() == ref[1].tobytes() if out[0] == "ok" else out[1] == ref[1])
            if not same:
                res.oracle_fail("a 1-D x with separate time points is not treated as its one-column form", p,
                                detail={"x_1d": out[1] if out[0] != "ok" else "ok", "x_column": ref[1] if ref[0] != "ok" else "ok"},
                                signature="C13:timex:x-1d-column-form")
        return
    if xa is None or xa.ndim != 2:
        return
    n, c = xa.shape
    exp = expected_column(t, n, cast)
    width = c + (0 if exp[0] == "none" else 1)
    if exp[0] == "refuse":
        if out[0] == "ok" or not out[1].startswith("ValueError"):
            res.oracle_fail("a time vector of the wrong length is not refused with ValueError", p, detail={"got": out[:2] if out[0] != "ok" else "ok"},
                            signature="C13:timex:wrong-length")
    elif exp[0] in ("col", "none"):
        if nf is not None and width != nf:
            if out[0] == "ok" or not out[1].startswith("ValueError"):
                res.oracle_fail("wrong number of features is not refused with ValueError", p,
                                detail={"got": out[:2] if out[0] != "ok" else "ok"}, signature="C13:timex:wrong-features")
        else:
            want = xa if exp[0] == "none" else np.column_stack([xa, exp[1]])
            if out[0] != "ok":
                res.oracle_fail("a valid time form is refused", p, detail={"got": out[1:], "form": form},
                                signature="C13:timex:form-refused:" + t["kind"])
            elif out[1].shape != want.shape or out[1].astype(float).tobytes() != np.ascontiguousarray(want).tobytes():
                res.oracle_fail("merged matrix differs from [x | time column]", p, detail={"form": form},
                                signature="C13:timex:merge-value:" + t["kind"])


def time_forms(rng, n, valid_only=False, scalars=True):
    """Every time form for n rows: list of (name, description)."""
    v = float(np.round(rng.normal() * 3, 3)) if rng.random() < 0.7 else float(rng.integers(-3, 9))
    iv = int(rng.integers(-3, 9))
    col = np.round(rng.normal(size=n) * 2, 3)
    if rng.random() < 0.3:
        col = rng.integers(0, 4, size=n).astype(float)
    icol = rng.integers(-2, 6, size=n).astype(float)
    out = []
    if scalars:
        out += [("int", tdesc("int", [], [iv])), ("npint", tdesc("npint", [], [iv])), ("bool", tdesc("bool", [], [iv % 2])),
                ("float", tdesc("float", [], [v])), ("npfloat", tdesc("npfloat", [], [v])),
                ("np0d", tdesc("np", [], [v])), ("jax0d", tdesc("jax", [], [v])),
                ("np(1,)", tdesc("np", [1], [v])), ("np(1,1)", tdesc("np", [1, 1], [v])),
                ("np(1,1,1)", tdesc("np", [1, 1, 1], [v])), ("jax(1,1)", tdesc("jax", [1, 1], [v])),
                ("list1", tdesc("list", [1], [v])), ("list11", tdesc("list", [1, 1], [v])),
                ("tuple1", tdesc("tuple", [1], [v])), ("listint1", tdesc("list_int", [1], [iv]))]
    out += [("np(n,)", tdesc("np", [n], col)), ("jax(n,)", tdesc("jax", [n], col)), ("np(n,1)", tdesc("np", [n, 1], col)),
            ("jax(n,1)", tdesc("jax", [n, 1], col)), ("list(n)", tdesc("list", [n], col)), ("tuple(n)", tdesc("tuple", [n], col)),
            ("nested(n,1)", tdesc("list", [n, 1], col)), ("npint(n,)", tdesc("npint_arr", [n], icol)),
            ("listint(n)", tdesc("list_int", [n], icol)),
            ("sparse(n,1)", tdesc("sparse", [n, 1], col + 0.25))]
    if not valid_only:
        for k in sorted({0, n - 1, n + 1, 2 * n}):
            if k == n:
                continue
            out += [("np(k=%d,)" % k, tdesc("np", [k], np.round(rng.normal(size=k), 3))),
                    ("np(k=%d,1)" % k, tdesc("np", [k, 1], np.round(rng.normal(size=k), 3))),
                    ("list(k=%d)" % k, tdesc("list", [k], np.round(rng.normal(size=k), 3)))]
        out += [("np(n,2)", tdesc("np", [n, 2], rng.normal(size=2 * n))), ("np(1,n)", tdesc("np", [1, n], col)),
                ("np(n,1,1)", tdesc("np", [n, 1, 1], col)), ("np(n,0)", tdesc("np", [n, 0], [])),
                ("np(2,n)", tdesc("np", [2, n], rng.normal(size=2 * n)))]
    return out


# ------------------------------------------------------------------ stream 2: real predictors

_PRED = {}


def build_pred(cls, pseed, f, nobs_ok=True):
    """Deterministic time-aware predictor of the given class with f state features."""
    key = (cls, int(pseed), int(f), bool(nobs_ok))
    if key in _PRED:
        return _PRED[key]
    m = mellon()
    from mellon.inference import compute_conditional_times
    from mellon.parameters import compute_cov_func
    rng = np.random.default_rng(1000 + int(pseed))
    N, nl, r = 12, 5, 4
    X = rng.normal(size=(N, f))
    T = rng.integers(0, 3, size=N).astype(float) + (0.5 if pseed % 2 else 0.0)
    Xt = np.column_stack([X, T])
    kern = [m.cov.Matern52, m.cov.Matern32, m.cov.ExpQuad][int(pseed) % 3]
    cov = compute_cov_func(kern, 1.0 + 0.3 * (pseed % 4), 0.8 + 0.2 * (pseed % 3))
    y = rng.normal(size=N)
    mu = -0.3
    if cls == "full":
        p = compute_conditional_times(Xt, None, None, None, y, mu, cov, None, None, sigma=0.1, with_uncertainty=True)
    elif cls == "lmchol":
        lm = Xt[:nl] + 0.05 * rng.normal(size=(nl, f + 1))
        p = compute_conditional_times(Xt, lm, rng.normal(size=nl), None, y, mu, cov, None, None,
                                      sigma=0.1 * np.ones(nl), y_is_mean=True, with_uncertainty=True)
    elif cls == "lm":
        lm = Xt[:nl] + 0.05 * rng.normal(size=(nl, f + 1))
        p = compute_conditional_times(Xt, lm, None, 0.1 * np.ones(r), y, mu, cov, rng.normal(size=(N, r)), None,
                                      sigma=0, y_is_mean=True, with_uncertainty=True)
    else:
        raise ValueError(cls)
    want = {"full": "FullConditionalTime", "lmchol": "LandmarksConditionalCholeskyTime", "lm": "LandmarksConditionalTime"}[cls]
    assert type(p).__name__ == want, type(p).__name__
    if not nobs_ok:
        p.n_obs = 0
    _PRED[key] = p
    return p


def leaves(r):
    import jax
    return [np.asarray(a) for a in jax.tree_util.tree_leaves(r)]


def call_impl(p, meth, x, tp, multi, normalize, diag, jit, flags_pos=False):
    """p.meth(x, <time>, flags, multi_time=…) exactly as a user writes it.  flags_pos: the option that follows `time` in the
    signature (normalize / diag / jit) is passed positionally after a positional time (possibly None)."""
    fn = getattr(p, meth)
    args, kw = [x_obj(x)], {}
    if tp["mode"] == "pos":
        args.append(time_obj(tp["time"]))
    elif tp["mode"] == "kw":
        kw["time"] = time_obj(tp["time"])
    if flags_pos and tp["mode"] == "pos":
        args.append((1 if normalize == "X" else bool(normalize)) if meth == "mean" else (bool(diag) if meth in COVM else bool(jit)))
        if multi is not None:
            kw["multi_time"] = multi_obj(multi)
        return fn(*args, **kw)
    if meth == "mean":
        if normalize is not False:
            kw["normalize"] = 1 if normalize == "X" else bool(normalize)
    elif meth in COVM:
        kw["diag"] = bool(diag)
    else:
        kw["jit"] = bool(jit)
    if multi is not None:
        kw["multi_time"] = multi_obj(multi)
    return fn(*args, **kw)


_REF = {}
_SINGLE = {}


def ref_call(p, pkey, routine, flag, M, jit):
    """The family routine on the merged matrix M = the trailing-column call of the same method."""
    key = (pkey, routine, flag, M.shape, M.tobytes(), jit)
    if key in _REF:
        return _REF[key]
    if routine == "mean":
        r = p.mean(M)
    elif routine == "mean_normalized":
        r = p.mean(M, normalize=True)
    elif routine in COVM:
        r = getattr(p, routine)(M, diag=(flag == "T"))
    else:
        r = getattr(p, routine)(M, None, jit=jit)
    r = leaves(r)
    if len(_REF) > 4000:
        _REF.clear()
    _REF[key] = r
    return r


def parse_desc(d):
    tk = d.split()
    routine, flag, n, c = tk[0], tk[1], int(tk[2]), int(tk[3])
    return routine, flag, unbits(tk[4:], (n, c))


def same_bits(a, b):
    return len(a) == len(b) and all(u.shape == v.shape and np.ascontiguousarray(u).tobytes() == np.ascontiguousarray(v).tobytes()
                                    for u, v in zip(a, b))


def case_pred(ctx, res, p):
    cls, pseed, f = p["cls"], int(p["pseed"]), int(p["f"])
    meth, x, tp, multi = p["meth"], p["x"], p["tp"], p.get("multi")
    normalize, diag, jit, nobs_ok = p.get("normalize", False), p.get("diag", True), p.get("jit", False), p.get("nobs_ok", True)
    P = build_pred(cls, pseed, f, nobs_ok)
    pkey = (cls, pseed, f, nobs_ok)
    t = tp["time"] if tp["mode"] != "absent" else tdesc("none", [], [])
    try:
        out = ("ok", leaves(call_impl(P, meth, x, tp, multi, normalize, diag, jit, bool(p.get("flags_pos")))))
    except Exception as e:
        out = ("err", err_kind(e), str(e)[:160])
    if (out[0] == "ok" and multi is None and t["kind"] == "none" and x["kind"] == "arr" and normalize in (False, True)
            and np.asarray(x["data"]).ndim == 2 and not (meth in DERIV and tp["mode"] == "absent")):
        # this call IS the trailing-column reference call: remember it instead of repeating it
        routine0 = "mean_normalized" if (meth == "mean" and normalize) else meth
        flag0 = ("T" if diag else "F") if meth in COVM else "-"
        M0 = np.ascontiguousarray(np.asarray(x["data"], float))
        _REF.setdefault((pkey, routine0, flag0, M0.shape, M0.tobytes(), jit), out[1])
    form = t["kind"] + (str(tuple(t["shape"])) if t["kind"] in ("np", "jax", "list", "tuple", "npint_arr", "list_int", "sparse") else "")
    mform = "none" if multi is None else multi["kind"] + str(tuple(multi["shape"]))
    res.count("pred cls=" + cls)
    res.count("pred meth=" + meth)
    res.count("pred form=%s/%s" % (tp["mode"], t["kind"]))
    if p.get("flags_pos"):
        res.count("pred flags=positional" + ("+multi_time" if multi is not None else ""))
    res.count("pred multi=" + ("none" if multi is None else multi["kind"] + "/rank%d" % len(multi["shape"])))
    res.count("pred outcome=" + (out[0] if out[0] == "ok" else out[1]))
    xa = np.asarray(x["data"], float) if x["kind"] in ("arr", "list") else None
    canon = ("pred", cls, pseed, f, meth, x["kind"], None if xa is None else (xa.shape, xa.tobytes()), tp["mode"], form,
             np.asarray(t["data"], float).tobytes(), mform, None if multi is None else np.asarray(multi["data"], float).tobytes(),
             normalize, diag, jit, nobs_ok)
    res.case(canon, t["kind"] != "none" or multi is not None or out[0] != "ok",
             {"op": "pred", "cls": cls, "meth": meth, "x_shape": None if xa is None else list(xa.shape), "time": tp["mode"] + ":" + form,
              "multi": mform, "normalize": normalize, "diag": diag, "outcome": out[0] if out[0] == "ok" else out[1]})
    tag = f"{meth}"
    # ---- correspondence with the model: outcome class/kind and the matrix the family routine sees
    if ctx["driver"] is not None:
        tpt = {"absent": "PA", "pos": "PP " + time_token(t), "kw": "PK " + time_token(t)}[tp["mode"]]
        nt = "X" if normalize == "X" else ("T" if normalize else "F")
        rep = ctx["driver"].ask(f"tcall {meth} {nt} {'T' if diag else 'F'} {f + 1} {'T' if nobs_ok else 'F'} "
                                f"{x_token(x)} {tpt} {multi_token(multi)}")
        if rep.startswith("ok single") or rep.startswith("ok stacked"):
            if out[0] != "ok":
                res.corr_fail("model accepts a call the implementation refuses", p, detail={"impl": out[1:], "model": rep[:60]})
            elif rep.startswith("ok single"):
                routine, flag, M = parse_desc(rep[len("ok single "):])
                ref = ref_call(P, pkey, routine, flag, M, jit)
                if not same_bits(out[1], ref):
                    res.corr_fail("result differs (bitwise) from the family routine on the model's merged matrix", p,
                                  detail={"routine": routine})
            else:
                body = rep[len("ok stacked "):]
                k = int(body.split()[0])
                descs = [d for d in body[len(str(k)):].split(";")] if k else []
                if k != len(descs):
                    res.corr_fail("driver: stacked count", p)
                else:
                    for a in out[1]:
                        if a.ndim < 2 or a.shape[1] != k:
                            res.corr_fail("multi_time result is not stacked along axis 1", p, detail={"shape": list(a.shape), "k": k})
                            break
                    else:
                        for j, d in enumerate(descs):
                            routine, flag, M = parse_desc(d)
                            ref = ref_call(P, pkey, routine, flag, M, jit)
                            for a, b in zip(out[1], ref):
                                colj = a[:, j]
                                if colj.shape != b.shape:
                                    res.corr_fail("multi_time column shape differs from the single result", p)
                                    break
                                sc = max(float(np.max(np.abs(b), initial=0.0)), 1e-300)
                                dv = float(np.max(np.abs(colj - b), initial=0.0)) / sc
                                res.dev("multi_time_column_vs_model_matrix_rel", dv)
                                if not dv <= MULTI_TOL:
                                    res.corr_fail("multi_time column differs from the family routine on the model's matrix", p,
                                                  detail={"column": j, "rel_dev": dv})
        elif rep.startswith("ValueError") or rep.startswith("TypeError"):
            if out[0] == "ok":
                res.corr_fail("model refuses a call the implementation accepts", p, detail={"model": rep})
            elif out[1] != rep:
                res.corr_fail("implementation and model refuse differently", p, detail={"impl": out[1:], "model": rep})
        else:
            res.corr_fail("driver: " + rep[:100], p)
    # ---- property oracles (independent of the model)
    if xa is None or xa.ndim != 2:
        return
    n, c = xa.shape
    tgiven = t["kind"] != "none"
    if multi is not None and tgiven:
        if out[0] == "ok" or not out[1].startswith("ValueError"):
            res.oracle_fail("time together with multi_time is not refused with ValueError", p,
                            detail={"got": "ok" if out[0] == "ok" else out[1:]}, signature=f"C13:both:{tp['mode']}")
        return
    if normalize == "X" or not nobs_ok:
        return      # refusal branches outside the property's statement (correspondence only)
    if meth in DERIV and multi is None and tp["mode"] == "absent" and c == f + 1:
        # finding H3-C2 (repaired): the derivative methods take the time from the trailing column when `time` is left
        # out, like mean / covariance / mean_covariance / uncertainty, bit-identical to p.meth(Xt, None) (the reference
        # is never this call itself: see the _REF guard above).  On a tree without the fix: TypeError, missing argument.
        ref = ref_call(P, pkey, meth, "-", np.ascontiguousarray(xa), jit)
        if out[0] != "ok":
            res.oracle_fail(f"{meth}(Xt) with the time as trailing column and no time argument is refused", p,
                            detail={"got": out[1:]}, signature="C13:derivative-time-default")
        elif not same_bits(out[1], ref):
            res.oracle_fail(f"{meth}(Xt) differs from {meth}(Xt, None)", p, signature="C13:derivative-time-default")
        return
    if multi is None:
        exp = expected_column(t, n, True)
        width = c + (0 if exp[0] == "none" else 1)
        if exp[0] == "refuse":
            if out[0] == "ok" or not out[1].startswith("ValueError"):
                res.oracle_fail("a time vector of the wrong length is not refused with ValueError", p,
                                detail={"got": "ok" if out[0] == "ok" else out[1:]}, signature=f"C13:wrong-length:{tag}")
        elif exp[0] in ("col", "none"):
            if width != f + 1:
                if out[0] == "ok" or not out[1].startswith("ValueError"):
                    res.oracle_fail("x with the wrong number of features is not refused with ValueError", p,
                                    detail={"got": "ok" if out[0] == "ok" else out[1:]}, signature=f"C13:wrong-features:{tag}")
            else:
                M = xa if exp[0] == "none" else np.column_stack([xa, exp[1]])
                routine = "mean_normalized" if (meth == "mean" and normalize) else meth
                ref = ref_call(P, pkey, routine, ("T" if diag else "F") if meth in COVM else "-", np.ascontiguousarray(M), jit)
                if out[0] != "ok":
                    res.oracle_fail("a valid time form is refused", p, detail={"got": out[1:], "form": form},
                                    signature=f"C13:form-refused:{tag}:{t['kind']}")
                elif not same_bits(out[1], ref):
                    res.oracle_fail("result differs from the trailing-column call", p,
                                    detail={"form": form, "max_abs": float(max(np.max(np.abs(a - b), initial=0) if a.shape == b.shape
                                                                               else np.inf for a, b in zip(out[1], ref)))},
                                    signature=f"C13:form-value:{tag}:{t['kind']}")
        return
    # multi_time: column k = what time = ts[k] returns (1-D multi_time of numbers; rows of a 2-D one are per-row vectors)
    if multi["kind"] == "scalar" or len(multi["shape"]) == 0:
        return
    ms = list(multi["shape"])
    A = np.asarray(multi["data"], float).reshape(ms)
    if len(ms) == 1:
        cols = [np.full(n, A[j]) for j in range(ms[0])]
    elif ms[1:] in ([n], [n, 1]):
        cols = [A[j].ravel() for j in range(ms[0])]
    elif int(np.prod(ms[1:])) == 1:
        cols = [np.full(n, A[j].ravel()[0]) for j in range(ms[0])]
    else:
        return
    if c + 1 != f + 1:
        if out[0] == "ok" or not out[1].startswith("ValueError"):
            res.oracle_fail("x with the wrong number of features is not refused with ValueError (multi_time)", p,
                            signature=f"C13:wrong-features-multi:{tag}")
        return
    if out[0] != "ok":
        res.oracle_fail("a valid multi_time call is refused", p, detail={"got": out[1:]}, signature=f"C13:multi-refused:{tag}")
        return
    routine = "mean_normalized" if (meth == "mean" and normalize) else meth
    for a in out[1]:
        if a.ndim < 2 or a.shape[0] != n or a.shape[1] != ms[0]:
            res.oracle_fail("multi_time result is not stacked along axis 1", p, detail={"shape": list(a.shape)},
                            signature=f"C13:multi-shape:{tag}")
            return
    for j, colv in enumerate(cols):
        # the single-time call a user would make: p.meth(x, time=ts[j])
        tpj = {"mode": "kw", "time": tdesc("float", [], [colv[0]]) if len(ms) == 1 else tdesc("np", [n], colv)}
        try:
            skey = (pkey, meth, xa.tobytes(), colv.tobytes(), len(ms), normalize, diag, jit)
            if skey not in _SINGLE:
                if len(_SINGLE) > 2000:
                    _SINGLE.clear()
                _SINGLE[skey] = leaves(call_impl(P, meth, x, tpj, None, normalize, diag, jit))
            single = _SINGLE[skey]
        except Exception as e:
            res.oracle_fail("single-time call refused where multi_time is accepted", p, detail={"err": str(e)[:100]},
                            signature=f"C13:multi-single-refused:{tag}")
            return
        for a, b in zip(out[1], single):
            colj = a[:, j]
            if colj.shape != b.shape:
                res.oracle_fail("multi_time column has a different shape than the single-time result", p,
                                signature=f"C13:multi-shape:{tag}")
                return
            sc = max(float(np.max(np.abs(b), initial=0.0)), 1e-300)
            dv = float(np.max(np.abs(colj - b), initial=0.0)) / sc
            res.dev("multi_time_column_vs_single_call_rel", dv)
            if not dv <= MULTI_TOL:
                res.oracle_fail("multi_time column differs from the single-time result", p,
                                detail={"column": j, "rel_dev": dv}, signature=f"C13:multi-value:{tag}")
                return


def run_case(ctx, res, p):
    mellon()
    if p["op"] == "timex":
        return case_timex(ctx, res, p)
    if p["op"] == "pred":
        return case_pred(ctx, res, p)
    raise ValueError(p["op"])


# ------------------------------------------------------------------ generation

def xdesc(a, kind="arr"):
    return {"kind": kind, "data": np.ascontiguousarray(np.asarray(a, float))}


def gen_timex(ctx, res, quick):
    rng = ctx["rng"]
    ns = [1, 2, 5]
    fs = [1, 2, 3]
    for n in ns:
        for f in (fs if not quick else [int(rng.choice(fs))]):
            X = np.round(rng.normal(size=(n, f)) * 2, 3)
            for name, t in [("none", tdesc("none", [], []))] + time_forms(rng, n):
                for cast in (True, False):
                    nfs = [None, f, f + 1, f + 2] if not quick else [f + 1, [None, f, f + 2][int(rng.integers(3))]]
                    for nf in nfs:
                        run_case(ctx, res, {"op": "timex", "x": xdesc(X, "list" if rng.random() < 0.15 else "arr"),
                                            "time": t, "nf": nf, "cast": cast})
    # malformed x, degenerate shapes
    t1 = tdesc("float", [], [1.25])
    for x in [{"kind": "none"}, {"kind": "scalar"}, xdesc(np.arange(3.0)), xdesc(np.zeros((2, 2, 2))), xdesc(np.array(2.0)),
              xdesc(np.zeros((0, 2))), xdesc(np.zeros((3, 0)))]:
        for t in [t1, tdesc("none", [], []), tdesc("np", [3], [0.5, 1.5, 2.5]), tdesc("np", [0], [])]:
            for cast in (True, False):
                for nf in (None, 1, 3):
                    run_case(ctx, res, {"op": "timex", "x": x, "time": t, "nf": nf, "cast": cast})


def gen_pred(ctx, res, quick, t_end):
    rng = ctx["rng"]
    classes = ["full", "lmchol", "lm"]
    f = 2
    n = 3
    pseed = int(rng.integers(0, 6))
    none_t = tdesc("none", [], [])
    count = 0

    def mk(cls, meth, x, tp, multi=None, normalize=False, diag=True, jit=False, nobs_ok=True, ff=f):
        return {"op": "pred", "cls": cls, "pseed": pseed, "f": ff, "meth": meth, "x": x, "tp": tp, "multi": multi,
                "normalize": normalize, "diag": diag, "jit": jit, "nobs_ok": nobs_ok}

    def flags(meth):
        if meth == "mean":
            return {"normalize": bool(rng.random() < 0.4)}
        if meth in COVM:
            return {"diag": bool(rng.random() < 0.6)}
        return {}

    def multi_list(k):
        ts = list(np.round(rng.normal(size=k) + 1, 3))
        if k >= 2:
            ts[int(rng.integers(1, k))] = ts[0]         # a repeat
        return ts

    # (0) always run (regression of finding H3-C2, signature C13:derivative-time-default): each derivative method with the
    #     time as trailing column and NO time argument, against the explicit p.meth(Xt, None)
    Xt0 = np.column_stack([np.round(rng.normal(size=(n, f)), 3), np.round(rng.normal(size=n) + 1, 3)])
    cls0 = classes[int(rng.integers(3))]
    for meth in METHODS:
        if meth in DERIV:
            run_case(ctx, res, mk(cls0, meth, xdesc(Xt0), {"mode": "pos", "time": none_t}))
            run_case(ctx, res, mk(cls0, meth, xdesc(Xt0), {"mode": "absent", "time": none_t}))
    # (a) every method x class x forms (all forms in thorough; a seed-rotated subset in quick: the AD-based methods
    #     cost ~0.25 s per call because jax re-traces jacrev/jacfwd on every call)
    order = [(meth, cls) for meth in METHODS if meth not in DERIV for cls in classes] + \
            [(meth, cls) for meth in METHODS if meth in DERIV for cls in classes]
    for meth, cls in order:
        if time.time() > t_end:
            res.count("pred (a) skipped for time: %s/%s" % (cls, meth))
            continue
        X = np.round(rng.normal(size=(n, f)), 3)
        forms = time_forms(rng, n, valid_only=True)
        if quick:
            sc = [i for i, (nm, t) in enumerate(forms) if expected_column(t, n)[1].tolist() == [expected_column(t, n)[1][0]] * n
                  and t["shape"] != [n] and t["shape"] != [n, 1]]
            pr = [i for i in range(len(forms)) if i not in sc]
            nsc, npr = (3, 3) if meth not in DERIV else (2, 2)
            idx = list(rng.permutation(sc)[:nsc]) + list(rng.permutation(pr)[:npr])
            forms = [forms[i] for i in idx]
        col = np.round(rng.normal(size=n) + 1, 3)
        Xt = np.column_stack([X, col])
        # trailing column, with time absent / None given explicitly
        run_case(ctx, res, mk(cls, meth, xdesc(Xt), {"mode": "pos", "time": none_t}, **flags(meth)))
        run_case(ctx, res, mk(cls, meth, xdesc(Xt), {"mode": "absent", "time": none_t}, **flags(meth)))
        for name, t in forms:
            mode = "pos" if rng.random() < 0.5 else "kw"
            run_case(ctx, res, mk(cls, meth, xdesc(X), {"mode": mode, "time": t}, **flags(meth)))
            count += 1
        # multi_time (with a repeat), as list / array
        k = 3
        ts = multi_list(k)
        mk_kind = ["list", "np"][int(rng.integers(2))]
        run_case(ctx, res, mk(cls, meth, xdesc(X), {"mode": "absent", "time": none_t},
                              multi={"kind": mk_kind, "shape": [k], "data": np.asarray(ts)}, **flags(meth)))
        # the option after `time` passed positionally: after a positional None with multi_time, and after a positional time
        fl = {"normalize": True} if meth == "mean" else ({"diag": False} if meth in COVM else {"jit": bool(rng.integers(2))})
        run_case(ctx, res, dict(mk(cls, meth, xdesc(X), {"mode": "pos", "time": none_t},
                                   multi={"kind": mk_kind, "shape": [k], "data": np.asarray(ts)}, **fl), flags_pos=True))
        run_case(ctx, res, dict(mk(cls, meth, xdesc(X), {"mode": "pos", "time": forms[0][1]}, **fl), flags_pos=True))
        # refusals: both (positional and keyword), wrong length, wrong features
        tt = forms[int(rng.integers(len(forms)))][1]
        run_case(ctx, res, mk(cls, meth, xdesc(X), {"mode": "pos", "time": tt},
                              multi={"kind": "list", "shape": [k], "data": np.asarray(ts)}))
        run_case(ctx, res, mk(cls, meth, xdesc(X), {"mode": "kw", "time": tt},
                              multi={"kind": "np", "shape": [k], "data": np.asarray(ts)}))
        kk = [n - 1, n + 1, 2 * n][int(rng.integers(3))]
        run_case(ctx, res, mk(cls, meth, xdesc(X), {"mode": "kw", "time": tdesc(["np", "list"][int(rng.integers(2))], [kk], rng.normal(size=kk))}))
        run_case(ctx, res, mk(cls, meth, xdesc(X[:, :1]), {"mode": "pos", "time": forms[0][1]}))
        run_case(ctx, res, mk(cls, meth, xdesc(Xt), {"mode": "kw", "time": forms[0][1]}))
        run_case(ctx, res, mk(cls, meth, xdesc(X), {"mode": "pos", "time": none_t}))
    # (b) one class: refusal branches of the wrapper and of the methods that are not shape-changing for XLA
    cls = classes[int(rng.integers(3))]
    X = np.round(rng.normal(size=(n, f)), 3)
    tt = tdesc("float", [], [0.75])
    for meth in METHODS:
        if time.time() > t_end:
            break
        run_case(ctx, res, mk(cls, meth, xdesc(X), {"mode": "absent", "time": none_t}, multi={"kind": "scalar", "shape": [], "data": [2.5]}))
        run_case(ctx, res, mk(cls, meth, xdesc(X), {"mode": "kw", "time": tt}, multi={"kind": "scalar", "shape": [], "data": [2.5]}))
        run_case(ctx, res, mk(cls, meth, xdesc(X), {"mode": "absent", "time": none_t}, multi={"kind": "np", "shape": [], "data": [2.5]}))
        run_case(ctx, res, mk(cls, meth, xdesc(X), {"mode": "pos", "time": tt}, multi={"kind": "np", "shape": [], "data": [2.5]}))
        run_case(ctx, res, mk(cls, meth, xdesc(X[:, :1]), {"mode": "absent", "time": none_t}, multi={"kind": "list", "shape": [3], "data": [1.0, 2.0, 1.0]}))
        run_case(ctx, res, mk(cls, meth, xdesc(X), {"mode": "absent", "time": none_t}))
        run_case(ctx, res, mk(cls, meth, {"kind": "none"}, {"mode": "kw", "time": tt}))
        run_case(ctx, res, mk(cls, meth, {"kind": "none"}, {"mode": "kw", "time": tt}, multi={"kind": "list", "shape": [2], "data": [1.0, 2.0]}))
        run_case(ctx, res, mk(cls, meth, xdesc(X[0]), {"mode": "kw", "time": tt}))
        run_case(ctx, res, mk(cls, meth, xdesc(X), {"mode": "kw", "time": tdesc("np", [n, 2], rng.normal(size=2 * n))}))
        run_case(ctx, res, mk(cls, meth, xdesc(X), {"mode": "kw", "time": tdesc("np", [n, 1, 1], rng.normal(size=n))}))
    run_case(ctx, res, mk(cls, "mean", xdesc(X), {"mode": "kw", "time": tt}, normalize="X"))
    run_case(ctx, res, mk(cls, "mean", xdesc(X[:, :1]), {"mode": "kw", "time": tt}, normalize="X"))
    run_case(ctx, res, mk(cls, "mean", xdesc(X), {"mode": "kw", "time": tt}, normalize=True, nobs_ok=False))
    run_case(ctx, res, mk(cls, "mean", xdesc(X), {"mode": "kw", "time": tt}, normalize=False, nobs_ok=False))
    run_case(ctx, res, mk(cls, "mean", xdesc(X), {"mode": "absent", "time": none_t}, normalize=True, nobs_ok=False,
                          multi={"kind": "list", "shape": [3], "data": [1.0, 2.0, 1.0]}))
    # (c) sampled: 2-D multi_time (rows = per-row vectors / one-element rows), empty multi_time, int lists, jit=True, other n / f
    i = 0
    while time.time() < t_end and i < ctx.get("max_sampled", 10 ** 9):
        cls = classes[int(rng.integers(3))]
        meth = METHODS[int(rng.integers(8))]
        nn, ff = (n, f) if (quick or rng.random() < 0.6) else (int(rng.choice([1, 3, 5])), int(rng.choice([1, 2, 3])))
        X = np.round(rng.normal(size=(nn, ff)), 3)
        jit = (not quick) and meth in DERIV and rng.random() < 0.1
        u = rng.random()
        if u < 0.25:
            k = 3
            rs = [[nn], [nn, 1], [1], [1, 1]][int(rng.integers(4))]
            A = np.round(rng.normal(size=[k] + rs) + 1, 3)
            A[2] = A[0]
            multi = {"kind": "np" if rng.random() < 0.6 else "list", "shape": [k] + rs, "data": A}
            run_case(ctx, res, mk(cls, meth, xdesc(X), {"mode": "absent", "time": none_t}, multi=multi, jit=jit, ff=ff, **flags(meth)))
        elif u < 0.35:
            multi = {"kind": "np", "shape": [[0], [0, nn], [0, nn + 1]][int(rng.integers(3))], "data": []}
            run_case(ctx, res, mk(cls, meth, xdesc(X), {"mode": "absent", "time": none_t}, multi=multi, ff=ff, **flags(meth)))
        elif u < 0.45:
            k = 3
            rs = [[nn + 1], [2, nn], [nn, 2]][int(rng.integers(3))]
            multi = {"kind": "np", "shape": [k] + rs, "data": rng.normal(size=[k] + rs)}
            run_case(ctx, res, mk(cls, meth, xdesc(X), {"mode": "absent", "time": none_t}, multi=multi, ff=ff))
        elif u < 0.6:
            k = 3
            multi = {"kind": "list_int", "shape": [k], "data": np.asarray([2, 0, 2], float)}
            run_case(ctx, res, mk(cls, meth, xdesc(X), {"mode": "kw", "time": none_t}, multi=multi, jit=jit, ff=ff, **flags(meth)))
        else:
            forms = time_forms(rng, nn, valid_only=rng.random() < 0.7)
            name, t = forms[int(rng.integers(len(forms)))]
            run_case(ctx, res, mk(cls, meth, xdesc(X), {"mode": "pos" if rng.random() < 0.5 else "kw", "time": t}, jit=jit, ff=ff, **flags(meth)))
        i += 1
    res.count("pred sampled", i)


def run(ctx, res):
    quick = ctx["tier"] == "quick"
    budget = ctx["budget"] or (62 if quick else 600)
    t_end = time.time() + budget
    mellon()
    gen_timex(ctx, res, quick)
    gen_pred(ctx, res, quick, t_end)


CLAIM = {
    "text": "Lean theorems (exact, every element type, all n, f, shapes and data): validate_time_x produces the same n x (f+1) "
            "matrix for a trailing column, (n,), (n,1) arrays, lists/tuples/nested lists and for scalars / 0-d / one-element "
            "array-likes of any rank broadcast to all rows; a 1-D or one-column time of any other length, any other rank or "
            "column count, and a wrong feature count are refused with ValueError; all eight PredictorTime methods hand their "
            "family routine exactly that merged matrix (gradient/hessian/log-det: its state columns and its time column; the "
            "inner re-merge of each row restores the row); leaving `time` out is `time=None` for each of the eight methods "
            "(time_default_is_none; the four derivative methods required it before the repair of H3-C2); time (positional or "
            "keyword) together with multi_time is refused "
            "with ValueError for every method and every x; multi_time results are, position by position (repeats included), "
            "the single-time results, for scalars and for per-row rows, and a multi_time call is refused exactly when the "
            "single-time call is. Tied to /repo by running validate_time_x and the three real time-aware predictor classes x "
            "8 methods x all forms against the model driver (outcome class, refusal kind, bitwise values).",
    "note": "Family routines are uninterpreted in the model (their results are compared bitwise on the implementation). "
            "multi_time columns vs single-time calls agree to ~1e-13 relative (vmap fusion), checked at 1e-9. Correspondence is "
            "sampled differential testing; jax.vmap and inspect.bind_partial semantics are contracts.",
    "technique": "Lean 4 proof (exact decision model over shapes; case analysis, list induction) + differential correspondence "
                 "on the pure function and on real predictors + metamorphic oracle (all calling conventions bitwise equal)",
}
