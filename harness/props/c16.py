"""C16 — function estimation is affine in the values, column-independent and noise-aware."""
import time
import numpy as np
from ..common import mellon, cov_to_mellon, cov_str, loguniform, gen_points, totuple, exc_class
from .. import condutil as cu
from .. import covoracle as co

EPS = np.finfo(float).eps
RULE = ("cases = FunctionEstimator configurations (kernel tree, 1-D or multi-D x, 1..5 value columns, a in +-[1e-3,1e3], b, mu, "
        "sigma form {0, scalar, constant vector, vector - one entry per cell, for every gp_type}, y_is_mean, gp_type full / "
        "sparse_cholesky / fixed with explicit landmarks (m < n, m = n, m > n), with/without Xnew); each case evaluates the affine, column-independence, multi_fit transpose, "
        "interpolation, constant-vector-sigma and shrinkage relations on the implementation and compares one prediction "
        "with the Lean model; distinct = payload hash; non-trivial = prediction differs from mu")
PARTIAL = ["monotone shrinkage towards mu as sigma grows is proved (shrinks_with_sigma: sum_i (predictor(x_i) - mu)^2 does not grow "
           "with sigma^2, via ridge shrinkage Shrink.shrink_mono) for a PSD kernel - PSD-ness is proved for ExpQuad / Linear "
           "expression trees and a named hypothesis for the Matern / Exponential / RatQuad leaves; per-cell sigma vectors and "
           "float64 rounding: checked numerically on a sigma grid"]
ASSUMPTIONS = ["relations compared within c*eps*cond(K+N) (cond from the implementation's own kernel matrix)"]
CLAIM = {
    "text": "Lean theorems over R: triangular solves and therefore the weights are linear in the right-hand side "
            "(weights(a r1 + r2) = a weights(r1) + weights(r2), by induction over the substitution recurrences), hence the "
            "prediction is affine in (y, mu); matrix right-hand sides are solved column by column (column independence); "
            "with y_is_mean or sigma^2 <= jitter the in-sample error is exactly -jitter*w; a constant per-cell sigma vector "
            "builds the same noise factor as the scalar (full model) and the same prediction as the scalar with landmarks "
            "(const_vector_sigma_dtc); affine law and column independence hold with landmarks for every noise form incl. a "
            "non-constant per-cell vector (affine_dtc, columns_independent_dtc); the in-sample deviation from mu shrinks monotonically as sigma^2 grows "
            "(PSD kernel). Tied to /repo by running FunctionEstimator.fit_predict / "
            "multi_fit_predict / predict and the model driver on the same inputs and by metamorphic oracles.",
    "note": "Shrinkage monotonicity assumes a PSD kernel (proved for ExpQuad/Linear trees, hypothesis otherwise). A sigma vector together with landmarks is the noise of "
            "the cells for every number of landmarks (fixed defect 20d7957). Float64 modelled away.",
    "technique": "Lean 4 proof (linearity of forward/back substitution by induction; ridge shrinkage for PSD matrices) + metamorphic and differential checks",
}


def make_est(p, sigma=None, mu=None, y_is_mean=None):
    m = mellon()
    tree = totuple(p["tree"])
    kw = dict(cov_func=cov_to_mellon(tree), jitter=float(p["jitter"]),
              mu=float(p["mu"] if mu is None else mu),
              sigma=p["sigma"] if sigma is None else sigma,
              y_is_mean=bool(p["y_is_mean"] if y_is_mean is None else y_is_mean))
    if p["gp_type"] == "full":
        kw.update(gp_type="full", n_landmarks=0)
    else:
        kw.update(gp_type=p["gp_type"], landmarks=np.asarray(p["Xu"], float))
    return m.FunctionEstimator(**kw)


def run_case(ctx, res, p):
    tree = totuple(p["tree"])
    X = np.asarray(p["X"], float)
    Y = np.asarray(p["Y"], float)
    Xnew = None if p.get("Xnew") is None else np.asarray(p["Xnew"], float)
    a, b, mu, jitter = float(p["a"]), float(p["b"]), float(p["mu"]), float(p["jitter"])
    sigma = p["sigma"]
    if np.ndim(sigma) > 0:
        sigma = np.asarray(sigma, float)
    X2 = X[:, None] if X.ndim == 1 else X
    n = X2.shape[0]
    Xq = X if Xnew is None else Xnew
    Xq2 = Xq[:, None] if Xq.ndim == 1 else Xq
    for k in ("gp_type", "y_is_mean"):
        res.count(f"{k}={p[k]}")
    res.count("x1d" if X.ndim == 1 else "xnd")
    res.count("cols=%d" % (1 if Y.ndim == 1 else Y.shape[1]))
    res.count("sigma=" + ("vec" if np.ndim(sigma) else ("0" if sigma == 0 else "scalar")))
    res.count("Xnew" if Xnew is not None else "in-sample")
    sample = {k: (v if not isinstance(v, np.ndarray) else list(v.shape)) for k, v in p.items() if k != "tree"}
    sample["tree"] = cov_str(tree)
    canon = repr([(k, v.tobytes() if isinstance(v, np.ndarray) else v) for k, v in sorted(p.items())])
    cov = cov_to_mellon(tree)
    try:
        est = make_est(p)
        out = np.asarray(est.fit_predict(X, Y, Xnew), float)
    except Exception as e:
        res.case(canon, False, sample)
        res.oracle_fail(f"fit_predict raised {exc_class(e)}: {str(e)[:80]}", p, signature="C16:raises:" + exc_class(e))
        return
    res.case(canon, bool(np.any(np.abs(out - mu) > 1e-9)), sample)
    # the same estimator object fitted again after its noise options were changed gives what a fresh estimator with those
    # options gives (seeded change C16-g: a factor cached on the first fit kept the first fit's noise model)
    import zlib
    if p.get("refit", True) and (zlib.crc32(canon.encode()) % 4 == 0):      # a deterministic quarter of the cases
        import jax.numpy as jnp
        try:
            s2v = 3.0 * sigma + 0.05 if np.ndim(sigma) == 0 else np.asarray(sigma, float) * 2.0 + 0.05
            fresh = np.asarray(make_est(p, sigma=s2v, y_is_mean=False).fit_predict(X, Y, Xnew), float)
            est2 = make_est(p)
            est2.fit_predict(X, Y, Xnew)
            est2.sigma = float(s2v) if np.ndim(s2v) == 0 else jnp.asarray(s2v)
            est2.y_is_mean = False
            again = np.asarray(est2.fit_predict(None, Y, Xnew), float)
            res.count("refit_after_option_change")
            if again.shape != fresh.shape or again.tobytes() != fresh.tobytes():
                res.oracle_fail("an estimator fitted again after sigma / y_is_mean were changed differs from a fresh estimator "
                                "with those options", p, detail={"max_abs_dev": float(np.max(np.abs(again - fresh)))},
                                signature="C16:refit-option-change")
        except Exception as e:
            res.oracle_fail(f"refit after an option change raised {exc_class(e)}: {str(e)[:80]}", p,
                            signature="C16:refit-option-change")
    # conditioning of the system actually solved
    basis = X2 if p["gp_type"] == "full" else np.asarray(p["Xu"], float)
    Kbb = cu.kernel_np(cov, basis, basis)
    nb = basis.shape[0]
    per_cell = bool(p["gp_type"] != "full" and np.ndim(sigma) == 1 and not p["y_is_mean"])
    if per_cell:
        # landmarks and a per-cell sigma vector: the noise of the CELLS (any number of landmarks),
        # (Kuu + jitter I + Kuf D^-1 Kfu) w = Kuf D^-1 (y - mu), D = diag(max(sigma_i^2, jitter))
        res.count("landmarks:per-cell-sigma:" + ("m<n" if nb < n else "m=n" if nb == n else "m>n") +
                  (":constant" if np.all(sigma == sigma[0]) else ""))
        s2 = np.asarray(sigma, float) ** 2
        Dc = np.where(s2 < jitter, jitter, s2)
        Kuf = cu.kernel_np(cov, basis, X2)
        M = Kbb + jitter * np.eye(nb) + (Kuf / Dc[None, :]) @ Kuf.T
    else:
        if p["y_is_mean"]:
            Nm = jitter * np.eye(nb)
        else:
            s2 = np.broadcast_to(np.asarray(sigma, float) ** 2, (nb,))
            Nm = np.diag(np.where(s2 < jitter, jitter, s2))
        if p["gp_type"] == "full":
            M = Kbb + Nm
        else:
            Lnp = np.linalg.cholesky(Kbb + jitter * np.eye(nb))
            Kuf = cu.kernel_np(cov, basis, X2)
            M = Lnp @ Nm @ Lnp.T + Kuf @ Kuf.T
    condM = np.linalg.cond(M)
    if p["gp_type"] != "full":
        condM = max(condM, np.linalg.cond(Kbb + jitter * np.eye(nb)))
    scale = max(np.max(np.abs(out - mu)), 1e-300)
    tol = 1e3 * EPS * condM * (1 + abs(mu) / scale) + 1e-11
    res.dev("cond_max", condM)
    sharp = tol < 1e-3

    # (1) affine
    est2 = make_est(p, mu=a * mu + b)
    out2 = np.asarray(est2.fit_predict(X, a * Y + b, Xnew), float)
    dv = np.max(np.abs(out2 - (a * out + b))) / (abs(a) * scale + abs(a * mu + b) * EPS * 1e3 + 1e-300)
    res.dev("affine_over_tol", dv / tol)
    if sharp and dv > tol:
        res.oracle_fail("prediction is not affine in the training values", p, detail={"rel": float(dv), "tol": float(tol)},
                        signature="C16:affine")
    # (2) column independence and the deprecated transposed entry point
    if Y.ndim == 2:
        for cidx in range(Y.shape[1]):
            oc = np.asarray(make_est(p).fit_predict(X, Y[:, cidx], Xnew), float)
            dv = np.max(np.abs(oc - out[:, cidx])) / scale
            res.dev("columns_over_tol", dv / tol)
            if sharp and dv > tol:
                res.oracle_fail("fitting columns together differs from fitting each alone", p, signature="C16:columns")
        if Y.shape[1] != n:
            om = np.asarray(make_est(p).multi_fit_predict(X, Y.T.copy(), Xnew), float)
            dv = np.max(np.abs(om - out.T)) / scale if om.shape == out.T.shape else np.inf
            res.dev("multi_fit_over_tol", dv / tol)
            if dv > tol and sharp:
                res.oracle_fail("multi_fit_predict with transposed input differs from fit_predict", p,
                                signature="C16:multi-fit")
    # (3) interpolation identity: y_is_mean or sigma^2 <= jitter -> predict(X) - y = -jitter * w  (full model)
    small_sigma = (not np.ndim(sigma)) and float(sigma) ** 2 <= jitter
    if p["gp_type"] == "full" and (p["y_is_mean"] or small_sigma):
        from mellon.util import deserialize
        w = np.asarray(deserialize(est.predict.to_dict()["data"]["weights"]), float)
        ins = np.asarray(est.predict(X), float)
        lhs = ins - Y + jitter * w
        kscale = max(np.max(np.abs(Kbb)), 1.0) * max(np.max(np.abs(w)), 1e-300) * nb
        dv = np.max(np.abs(lhs)) / kscale
        res.dev("interpolation_identity", dv)
        res.count("interpolation_checked")
        if dv > 1e-10:
            res.oracle_fail("in-sample error is not -jitter*w for y_is_mean / sigma=0", p, detail={"dev": float(dv)},
                            signature="C16:interp")
        if np.max(np.abs(ins - Y)) > jitter * np.max(np.abs(w)) * (1 + 1e-6) + 1e-10 * kscale:
            res.oracle_fail("training values not interpolated within jitter*|w|", p, signature="C16:interp-bound")
    # (3b) "values are the mean" makes the noise level irrelevant (every gp_type): same predictor as sigma = 0
    if p["y_is_mean"] and not (np.ndim(sigma) == 0 and float(sigma) == 0.0):
        o0 = np.asarray(make_est(p, sigma=0).fit_predict(X, Y, Xnew), float)
        dv = np.max(np.abs(o0 - out)) / scale
        res.dev("y_is_mean_ignores_sigma_over_tol", dv / tol)
        res.count("y_is_mean_sigma_checked")
        if sharp and dv > tol:
            res.oracle_fail("with y_is_mean the prediction depends on sigma (values are not treated as the mean)", p,
                            detail={"rel": float(dv), "tol": float(tol)}, signature="C16:y-is-mean-sigma")
    # (4) constant per-cell sigma vector == scalar: full model AND landmarks (sparse_cholesky / fixed, m < n, m = n, m > n:
    # the vector is the noise of the cells whatever the number of landmarks)
    twin = None
    if not p["y_is_mean"]:
        if not np.ndim(sigma):
            twin = np.full(n, float(sigma))
        elif np.all(sigma == sigma[0]):
            twin = float(sigma[0])
    if twin is not None:
        res.count("const_vector_sigma_checked:" + p["gp_type"])
        try:
            ov = np.asarray(make_est(p, sigma=twin).fit_predict(X, Y, Xnew), float)
        except Exception as e:
            ov = None
            res.oracle_fail(f"constant sigma vector / scalar twin raised {exc_class(e)}: {str(e)[:80]}", p,
                            signature="C16:const-sigma" if p["gp_type"] == "full" else "C16:const-sigma-landmarks")
        if ov is not None:
            dv = np.max(np.abs(ov - out)) / scale
            res.dev("const_vector_sigma_over_tol", dv / tol)
            if sharp and dv > tol:
                res.oracle_fail("constant sigma vector differs from scalar sigma", p, detail={"rel": float(dv), "tol": float(tol)},
                                signature="C16:const-sigma" if p["gp_type"] == "full" else "C16:const-sigma-landmarks")
    # (5) shrinkage towards mu as sigma grows (full model, in-sample)
    if p["gp_type"] == "full" and not p["y_is_mean"] and Y.ndim == 1:
        norms = []
        for sg in (0.1, 0.3, 1.0, 3.0):
            o = np.asarray(make_est(p, sigma=sg).fit_predict(X, Y), float)
            norms.append(np.linalg.norm(o - mu))
        res.count("shrink_checked")
        if any(norms[i + 1] > norms[i] * (1 + 1e-9) + 1e-12 for i in range(3)):
            res.oracle_fail("in-sample predictions do not shrink towards mu as sigma grows", p,
                            detail={"norms": norms}, signature="C16:shrink")
    # ---------------- correspondence with the Lean model
    if ctx["driver"] is not None:
        sg = sigma
        if p["gp_type"] == "full":
            mod = cu.model_full(ctx["driver"], tree, X2, Y, mu, None, sg, jitter, None, p["y_is_mean"], False, Xq2)
        else:
            mod = cu.model_lm(ctx["driver"], tree, X2, basis, Y, mu, sg, jitter, None, p["y_is_mean"], False, Xq2)
        if mod["status"] != "ok":
            res.corr_fail(f"model refuses ({mod['status']}) what the implementation accepts", p)
        else:
            wK = 0.0
            for (A_, B_) in ((basis, basis), (Xq2, basis), (basis, X2)):
                lo_, hi_ = co.interval(tree, A_, B_)
                wK = max(wK, float(np.max(hi_ - lo_)))
            tolm = tol + 50 * wK * (1 + condM) * nb * max(np.max(np.abs(cu.as2d(Y) - mu)), 1e-300) / scale
            dvm = np.max(np.abs(mod["mean"].reshape(cu.as2d(out).shape) - cu.as2d(out))) / scale
            res.dev("model_vs_impl_over_tol", dvm / tolm)
            if dvm > tolm and tolm < 1e-2:
                res.corr_fail("model and implementation predictions differ", p,
                              detail={"rel": float(dvm), "tol": float(tolm)})


def gen_case(rng, stream):
    one_d = bool(rng.random() < 0.3)
    n = 8
    d = 1 if one_d else [2, 3][rng.integers(2)]
    X, _ = gen_points(rng, n, d, kind="plain", scale=1.0)
    Xnew = None
    if rng.random() < 0.6:
        Xnew, _ = gen_points(rng, 4, d, kind="plain", scale=1.2)
    if one_d:
        X = X[:, 0].copy()
        Xnew = None if Xnew is None else Xnew[:, 0].copy()
    ls = loguniform(rng, 0.7, 2.5)
    jitter = loguniform(rng, 1e-3, 1e-1) if stream == "sharp" else loguniform(rng, 1e-7, 1e-3)
    tree = cu.gen_stationary_tree(rng, d, ls)
    gp_type = ["full", "full", "sparse_cholesky", "fixed"][rng.integers(4)]
    Xu = None
    if gp_type == "sparse_cholesky":
        Xu, _ = gen_points(rng, 4, d, kind="plain", scale=1.0)
    elif gp_type == "fixed":
        m = [4, 8, 11][rng.integers(3)]
        Xu, _ = gen_points(rng, m, d, kind="plain", scale=1.0)
    cols = [1, 1, 2, 5][rng.integers(4)]
    mu = float(rng.normal())
    Y = rng.normal(size=(n, cols) if cols > 1 else n) * 1.5 + mu
    y_is_mean = bool(rng.random() < 0.3)
    sform = rng.integers(4)
    if sform == 0:
        sigma = 0
    elif sform == 1:
        sigma = loguniform(rng, 0.05, 1.0)
    elif sform == 2:
        sigma = np.full(n, loguniform(rng, 0.05, 1.0))
    else:
        sigma = np.exp(rng.uniform(np.log(0.05), 0.0, size=n))
    a = float(rng.choice([-1, 1]) * loguniform(rng, 1e-3, 1e3))
    b = float(rng.normal() * 3)
    return {"op": "fe", "tree": tree, "X": X, "Y": Y, "Xnew": Xnew, "Xu": Xu, "gp_type": gp_type, "mu": mu,
            "jitter": jitter, "sigma": sigma, "y_is_mean": y_is_mean, "a": a, "b": b, "stream": stream}


def run(ctx, res):
    rng = ctx["rng"]
    quick = ctx["tier"] == "quick"
    budget = ctx["budget"] or (60 if quick else 480)
    t_end = time.time() + budget
    mellon()
    i = 0
    while time.time() < t_end:
        run_case(ctx, res, gen_case(rng, "sharp" if i % 4 != 3 else "wide"))
        i += 1
