"""C03 — the inference objective is the documented Bayesian model, with the documented defaults.

Correspondence: the implementation (est.prepare_inference outputs and the public/private helpers
of inference.py, util.py, parameters.py) against the Lean model's executable definitions
(MellonModel/Inference.lean through the driver ops c03*), on the same inputs.  Everything the
property treats as an input (L, and for the helper ops r, d, mu, z) is read back from the
implementation / the payload and handed to the model.

Oracles (independent of the Lean model): closed forms with scipy.special.gammaln and
scipy.stats, brute-force neighbours in numpy, numpy's own quantile, the normal-equation residual of
the ridge start, numeric quadrature of the implementation's density, grid maximisation."""
import json
import time, math
import numpy as np
from scipy.special import gammaln
from ..common import mellon, bits, fbit, unbits, loguniform, gen_points, rel_err, exc_class

RULE = ("cases = prepare_inference of DensityEstimator (X with 1..25 features incl. >=20 for the ball tree, d default / "
        "scalar / per-cell, ls_factor, loss at z0 + noise) and of DimensionalityEstimator (k in 1..15); helper ops on "
        "synthetic (r over 8 decades, d in [0.5,50] scalar or per cell, random L n x m, mu, z); raw neighbour queries on "
        "structured point sets; density quadrature / argmax points (rho, d, r); shape tuples for compute_d. distinct = "
        "hash of the full payload; non-trivial = finite loss with at least two cells, or a non-refusal outcome")
PARTIAL = [
    "float64 evaluation (rounding, overflow of exp for absurd log-densities) is modelled away: theorems are over R; "
    "the tie is the tolerance comparison of this check",
    "KDTree/BallTree are contracts (exact Euclidean k-NN); the model is brute force + sort, proved minimal; the trees "
    "themselves are only exercised (1..25 features, both regimes)",
    "sklearn Ridge is a contract (minimiser of |Lz-t|^2+|z|^2); the model solves the normal equations by Cholesky; "
    "existence (chol? succeeds on the SPD matrix L^T L + I), minimality and uniqueness are proved for the model",
    "the dimensionality loss equals -(log N(z;0,I_2m) + sum log Poisson pmf) up to the parameter-free constant n*log(k!) "
    "(gammaln(j) instead of gammaln(j+1)): stated exactly in poisson_eq / dim_loss_eq_estimator, argmin unaffected (the "
    "second constant, (m-1)*log(2*pi) from a prior built for 2 instead of 2m latent coordinates, was a defect and is repaired)",
]
ASSUMPTIONS = [
    "Lanczos lgamma of the Float model (about 1e-14 relative) vs XLA's gammaln: tolerances budgeted accordingly",
    "jnp.quantile position 0.01*(n-1) is computed in floating point by JAX and with exact integer parts by the model; "
    "the interpolation is continuous, so a one-ulp difference of the position cannot move the result",
]
TRUSTED_EXTRA = [
    "sklearn KDTree/BallTree.query returns the exact Euclidean k nearest neighbours (contract; compared with brute force)",
    "sklearn Ridge(alpha=1, fit_intercept=False) returns the minimiser of |Lz-t|^2+|z|^2 (contract; residual checked)",
    "jnp.quantile(.., 0.01) is linear interpolation of order statistics; jnp.sort sorts (contract; compared with numpy)",
]

LOG_PI = math.log(math.pi)
LOG_2PI = math.log(2 * math.pi)

# tolerances (relative to the a-posteriori scale named at each use); clean-run maxima are in REPORT_F.md
TOL_NN = 1e-12        # neighbour distances, relative
TOL_SCALAR = 1e-10    # mle / mu / ls, relative to 1+|value|
TOL_LOSS = 1e-10      # loss, relative to sum of |terms|
TOL_RIDGE = 1e-9      # ridge start, relative to max|z0| * cond bound
TOL_QUAD = 1e-6       # |integral - 1|


# ------------------------------------------------------------------ small helpers

def dim_tokens(d, n):
    if np.ndim(d) == 0:
        return "S " + fbit(float(d))
    d = np.asarray(d, float)
    assert d.shape == (n,)
    return "C " + bits(d)


def ask_floats(ctx, line, shape=None):
    out = ctx["driver"].ask(line)
    if not out.startswith("ok"):
        return out
    return unbits(out.split()[1:], shape)


def as_d(d):
    """payload d -> python scalar or float array (JSON gives lists)."""
    if d is None:
        return None
    if np.ndim(d) == 0:
        return float(d)
    return np.asarray(d, float)


def o_mle(r, d):
    return gammaln(d / 2 + 1) - (d / 2) * LOG_PI - d * np.log(r)


def o_nn_terms(r, d, f):
    """per-cell log p(r | exp(f), d) and the magnitude of the terms that were added."""
    logV = (d / 2) * LOG_PI - gammaln(d / 2 + 1)
    a = np.exp(f + logV + d * np.log(r))
    b = f + np.log(d) + logV + (d - 1) * np.log(r)
    mag = np.abs(a) + np.abs(f) + np.abs(np.log(d)) + np.abs(logV) + np.abs((d - 1) * np.log(r))
    return b - a, mag


def o_loss(r, d, mu, L, z):
    f = L @ z + mu
    lp, mag = o_nn_terms(r, d, f)
    prior = -0.5 * np.sum(z ** 2) - 0.5 * z.size * LOG_2PI
    scale = float(np.sum(mag) + abs(prior) + np.sum(np.abs(L) @ np.abs(z)) + 1.0)
    return float(-(prior + np.sum(lp))), scale


def o_poisson(dist, dims, ld):
    """sum_ij log Poisson(j; rho_i V_{d_i} s_ij^{d_i}) with s = sorted rows, plus magnitude."""
    s = np.sort(dist, axis=1)
    n, k = s.shape
    j = np.arange(1, k + 1)[None, :]
    loglam = ld[:, None] + dims[:, None] * (np.log(s) + LOG_PI / 2) - gammaln(dims[:, None] / 2 + 1)
    lam = np.exp(loglam)
    logpmf = j * loglam - lam - gammaln(j + 1.0)
    mag = np.abs(j * loglam) + np.abs(lam) + gammaln(j + 1.0) + np.abs(j * dims[:, None] * np.log(s))
    return float(np.sum(logpmf)), float(np.sum(mag) + 1.0)


def brute_knn(X, k):
    X = np.asarray(X, float)
    if X.ndim == 1:
        X = X[:, None]
    n = X.shape[0]
    D = np.sqrt(((X[:, None, :] - X[None, :, :]) ** 2).sum(-1))
    out = np.empty((n, k))
    for i in range(n):
        out[i] = np.sort(np.delete(D[i], i))[:k]
    return out


def close(a, b, tol, scale=None):
    a = np.asarray(a, float)
    b = np.asarray(b, float)
    if a.shape != b.shape:
        return False, float("inf")
    if a.size == 0:
        return True, 0.0
    if not (np.all(np.isfinite(a)) and np.all(np.isfinite(b))):
        same = np.array_equal(a, b, equal_nan=True)
        return same, 0.0 if same else float("inf")
    s = scale if scale is not None else np.maximum(np.abs(a), np.abs(b)) + 1e-300
    dev = float(np.max(np.abs(a - b) / s))
    return dev <= tol, dev


# ------------------------------------------------------------------ ops

def case_advi(ctx, res, p):
    """The ADVI objective is E_q[loss] - entropy(q), estimated as logp(z) - log q(z) at reparameterised samples: whatever the
    PRNG draws, the estimator is exactly 0 when p = q, and log q is the sum of the normal log-densities over ALL entries of
    the latent array - also for the (2, k) latent of the dimensionality estimator.  (Tests; the PRNG itself is opaque.)"""
    import jax, jax.numpy as jnp
    from jax.scipy.stats import norm as jnorm
    inf = mellon().inference
    shape = tuple(p["shape"])
    rng = np.random.default_rng(int(p["seed"]))
    mean = rng.normal(size=shape)
    log_std = rng.normal(size=shape) * 0.5
    x = rng.normal(size=shape)
    size = int(np.prod(shape))
    res.case(("advi", shape, int(p["seed"])), True, {"op": "advi", "shape": list(shape)})
    res.count("advi:latent_rank=%d" % len(shape))
    ref = float(np.sum(-0.5 * ((x - mean) / np.exp(log_std)) ** 2 - log_std - 0.5 * np.log(2 * np.pi)))
    got = np.asarray(inf.calculate_gaussian_logpdf(jnp.asarray(x), jnp.asarray(mean), jnp.asarray(log_std)), float)
    if got.shape != () or abs(float(got) - ref) > 1e-9 * (abs(ref) + size):
        res.oracle_fail("log q(x) of the variational family is not the sum of the normal log-densities over all entries", p,
                        detail={"got": np.asarray(got).tolist(), "expected": ref}, signature="C03:advi-logq")
        return
    selflogp = lambda z: jnp.sum(jnorm.logpdf(z, jnp.asarray(mean), jnp.exp(jnp.asarray(log_std))))
    key = jax.random.PRNGKey(int(p["seed"]) % 1000)
    e1 = float(inf.calculate_elbo(selflogp, key, jnp.asarray(mean), jnp.asarray(log_std)))
    e2 = float(inf.calculate_batch_elbo(selflogp, key, (jnp.asarray(mean), jnp.asarray(log_std)), 4))
    res.dev("advi_self_elbo_abs", max(abs(e1), abs(e2)))
    if max(abs(e1), abs(e2)) > 1e-8 * size:
        res.oracle_fail("the ELBO estimator of q against itself is not 0 (entropy term wrong)", p,
                        detail={"single": e1, "batch": e2}, signature="C03:advi-elbo")
    z0 = jnp.asarray(mean)
    loss = lambda z: -jnp.sum(jnorm.logpdf(z, z0, 1.0))
    out = inf.run_advi(loss, z0, n_iter=2, init_learn_rate=0.01, nsamples=3, jit=False)
    first = float(out.losses[0])
    if abs(first) > 1e-8 * size:
        res.oracle_fail("run_advi: the objective at the start (q = N(z0, 1) against the target N(z0, 1)) is not 0", p,
                        detail={"first_trace_value": first}, signature="C03:advi-objective")


def run_case(ctx, res, p):
    return {"advi": case_advi, "prep": case_prep, "dimprep": case_dimprep, "helpers": case_helpers, "nn": case_nn,
            "density": case_density, "dshape": case_dshape, "pois": case_pois, "muls": case_muls}[p["op"]](ctx, res, p)


def check_loss(ctx, res, p, tag, impl_val, r, d, mu, L, k, z):
    """loss value: oracle (closed form) and correspondence (driver)."""
    n, m = L.shape
    dd = d if np.ndim(d) else float(d)
    ov, scale = o_loss(r, np.asarray(dd, float), mu, L, z)
    ok, dev = close(impl_val, ov, TOL_LOSS, scale)
    res.dev(tag + ":loss_impl_vs_closed_form/scale", dev)
    if not ok:
        res.oracle_fail("loss differs from -(log N(z;0,I) + sum log p(r_i | exp((Lz+mu)_i), d))", p,
                        detail={"impl": float(impl_val), "closed_form": ov, "scale": scale, "where": tag},
                        signature="C03:loss-closed-form")
    if k != z.size:
        res.oracle_fail("prior built for the wrong number of latent variables", p,
                        detail={"k": int(k), "len_z": int(z.size)}, signature="C03:prior-k")
    if ctx["driver"] is not None:
        mv = ask_floats(ctx, f"c03loss {n} {m} {bits(r)} {dim_tokens(dd, n)} {fbit(mu)} {bits(L)} {int(k)} {bits(z)}")
        if isinstance(mv, str):
            res.corr_fail("model refuses loss op: " + mv, p)
        else:
            ok, dev = close(impl_val, mv[0], TOL_LOSS, scale)
            res.dev(tag + ":loss_model_vs_impl/scale", dev)
            if not ok:
                res.corr_fail("model and implementation loss differ", p,
                              detail={"impl": float(impl_val), "model": float(mv[0]), "scale": scale, "where": tag})
    return np.isfinite(impl_val)


def check_ridge(ctx, res, p, tag, z0, L, t, line):
    """ridge start: normal-equation residual (oracle) and the model's solution (correspondence)."""
    n, m = L.shape
    z0 = np.asarray(z0, float)
    A = L.T @ L + np.eye(m)
    rhs = L.T @ t
    resid = A @ z0 - rhs
    nrmA = np.linalg.norm(A, 2)
    denom = nrmA * np.linalg.norm(z0) + np.linalg.norm(rhs) + 1e-300
    rr = float(np.linalg.norm(resid) / denom)
    res.dev(tag + ":ridge_normal_eq_residual", rr)
    if z0.shape != (m,) or not np.all(np.isfinite(z0)) or rr > 1e-10:
        res.oracle_fail("starting point is not the ridge solution of L z ~ target (alpha = 1, no intercept)", p,
                        detail={"relative_residual": rr, "where": tag}, signature="C03:ridge-start")
    if ctx["driver"] is not None:
        mv = ask_floats(ctx, line)
        if isinstance(mv, str):
            res.corr_fail("model refuses ridge op: " + mv, p)
        else:
            ok, dev = close(z0, mv, TOL_RIDGE * nrmA, float(np.max(np.abs(z0))) + 1e-300)
            res.dev(tag + ":ridge_model_vs_impl/(max|z0| * |A|)", dev / nrmA)
            if not ok:
                res.corr_fail("model and implementation starting point differ", p,
                              detail={"max_dev": dev, "where": tag})


def check_mu_ls(ctx, res, p, tag, r, d, mu_impl, ls_impl, ls_factor, ls_raw_impl=None):
    n = r.size
    dd = d if np.ndim(d) else float(d)
    ml = o_mle(r, np.asarray(dd, float) * np.ones(n))
    mu_o = float(np.quantile(ml, 0.01) - 10)
    if mu_impl is not None:
        ok, dev = close(mu_impl, mu_o, TOL_SCALAR, 1 + abs(mu_o))
        res.dev(tag + ":mu_impl_vs_oracle", dev)
        if not ok:
            res.oracle_fail("mu is not the 1st percentile of the MLE log-densities minus 10", p,
                            detail={"impl": float(mu_impl), "expected": mu_o, "where": tag}, signature="C03:mu-default")
    ls_o = float(np.exp(3.0) * np.exp(np.mean(np.log(r))) * ls_factor)
    if ls_impl is not None:
        ok, dev = close(ls_impl, ls_o, TOL_SCALAR, abs(ls_o))
        res.dev(tag + ":ls_impl_vs_oracle", dev)
        if not ok:
            res.oracle_fail("ls is not e^3 * geometric mean of the nn distances * ls_factor", p,
                            detail={"impl": float(ls_impl), "expected": ls_o, "where": tag}, signature="C03:ls-default")
    if ctx["driver"] is not None:
        if mu_impl is not None:
            mv = ask_floats(ctx, f"c03mu {n} {bits(r)} {dim_tokens(dd, n)}")
            ok, dev = (False, float("inf")) if isinstance(mv, str) else close(mu_impl, mv[0], TOL_SCALAR, 1 + abs(mu_o))
            res.dev(tag + ":mu_model_vs_impl", dev)
            if not ok:
                res.corr_fail("model and implementation mu differ", p, detail={"impl": float(mu_impl), "model": str(mv)})
        if ls_impl is not None:
            mv = ask_floats(ctx, f"c03ls {n} {bits(r)} {fbit(ls_factor)}")
            ok, dev = (False, float("inf")) if isinstance(mv, str) else close(ls_impl, mv[1], TOL_SCALAR, abs(ls_o))
            res.dev(tag + ":ls_model_vs_impl", dev)
            if not ok:
                res.corr_fail("model and implementation ls differ", p, detail={"impl": float(ls_impl), "model": str(mv)})
            if ls_raw_impl is not None and not isinstance(mv, str):
                ok, dev = close(ls_raw_impl, mv[0], TOL_SCALAR, abs(ls_o))
                if not ok:
                    res.corr_fail("model and implementation compute_ls differ", p)


def check_nn(ctx, res, p, tag, X, k, impl):
    """k nearest-neighbour distances: brute force oracle and the model."""
    X2 = X if X.ndim == 2 else X[:, None]
    n, f = X2.shape
    impl = np.asarray(impl, float)
    bf = brute_knn(X2, k)
    scale = float(np.max(bf)) + 1e-300
    ok, dev = close(impl, bf, TOL_NN, scale)
    res.dev(tag + ":knn_impl_vs_bruteforce", dev)
    if not ok:
        res.oracle_fail("neighbour distances are not the true Euclidean distances to the closest other cells", p,
                        detail={"max_rel_dev": dev, "features": f, "k": k, "where": tag},
                        signature="C03:nn-distances-" + ("balltree" if f >= 20 else "kdtree"))
    if ctx["driver"] is not None:
        mv = ask_floats(ctx, f"c03knn {n} {f} {k} {bits(X2)}", (n, k))
        ok, dev = (False, float("inf")) if isinstance(mv, str) else close(impl, mv, TOL_NN, scale)
        res.dev(tag + ":knn_model_vs_impl", dev)
        if not ok:
            res.corr_fail("model and implementation neighbour distances differ", p, detail={"dev": dev, "model": str(mv)[:80]})


def case_prep(ctx, res, p):
    """DensityEstimator.prepare_inference(X): nn_distances, d, mu, ls, initial_value, loss_func."""
    m = mellon()
    X = np.asarray(p["X"], float)
    d_arg = as_d(p.get("d"))
    lsf = float(p.get("ls_factor", 1.0))
    n = X.shape[0]
    f = X.shape[1] if X.ndim == 2 else 1
    res.count("prep:features=%s" % ("1" if f == 1 else "2-19" if f < 20 else ">=20"))
    res.count("prep:d=%s" % ("default" if d_arg is None else "scalar" if np.ndim(d_arg) == 0 else "per-cell"))
    sample = {"op": "prep", "X_shape": list(X.shape), "d": "default" if d_arg is None else np.ndim(d_arg) and "per-cell" or d_arg,
              "ls_factor": lsf}
    gk = p.get("gpkw") or {}
    kind = p.get("est", "density")
    res.count("prep:gp=" + (json.dumps(gk, sort_keys=True) if gk else "default"))
    res.count("prep:est=" + kind)
    sample["gpkw"], sample["est"] = gk, kind
    try:
        kw = {k_: v_ for k_, v_ in gk.items() if k_ != "lm"}
        if kind == "time":
            # three time points in the last column; the spatial part keeps its shape
            Xt = np.c_[X if X.ndim == 2 else X[:, None], (np.arange(n) % 3).astype(float)]
        if "lm" in gk:
            X2 = (X if X.ndim == 2 else X[:, None]) if kind != "time" else Xt
            mm = int(gk["lm"])
            kw["landmarks"] = (X2[:mm] + 0.05) if mm <= n else np.vstack([X2, X2[:mm - n] + 0.07])
        if kind == "time":
            est = m.TimeSensitiveDensityEstimator(d=d_arg, ls_factor=lsf, ls_time=1.5, **kw)
            loss_func, z0 = est.prepare_inference(Xt)
        else:
            est = m.DensityEstimator(d=d_arg, ls_factor=lsf, **kw)
            loss_func, z0 = est.prepare_inference(X)
        nn = np.asarray(est.nn_distances, float)
        L = np.asarray(est.L, float)
        z0 = np.asarray(z0, float)
        mu, ls, d = float(est.mu), float(est.ls), est.d
    except Exception as e:
        res.case(("prep", X.tobytes(), repr(d_arg), lsf), False, sample)
        res.oracle_fail(f"prepare_inference raised {type(e).__name__}: {e}", p, signature="C03:prepare-raises")
        return
    # d default = number of features
    if d_arg is None:
        if not (isinstance(d, (int, np.integer)) and int(d) == f):
            res.oracle_fail("default d is not the number of features", p, detail={"d": repr(d), "features": f},
                            signature="C03:d-default")
        if ctx["driver"] is not None:
            out = ctx["driver"].ask("c03d %d %s" % (X.ndim, " ".join(map(str, X.shape))))
            if out != f"ok {int(d)}":
                res.corr_fail("model and implementation d differ", p, detail={"impl": repr(d), "model": out})
    dv = np.asarray(d, float) if np.ndim(d) else float(d)
    if kind != "time":     # the per-time-point distances and their length scale are C14's subject
        check_nn(ctx, res, p, "prep", X, 1, nn[:, None])
        check_mu_ls(ctx, res, p, "prep", nn, dv, mu, ls, lsf)
    t = o_mle(nn, np.asarray(dv, float) * np.ones(n)) - mu
    check_ridge(ctx, res, p, "prep", z0, L, t,
                f"c03init {n} {L.shape[1]} {bits(nn)} {dim_tokens(dv, n)} {fbit(mu)} {bits(L)}")
    rng = np.random.default_rng(int(p.get("zseed", 0)))
    finite = True
    for zs in p.get("zscales", [0.0, 0.3]):
        z = z0 + zs * rng.normal(size=z0.shape)
        try:
            v = float(loss_func(z))
        except Exception as e:
            res.oracle_fail(f"loss_func raised {type(e).__name__}: {e}", p, signature="C03:loss-raises")
            continue
        finite &= check_loss(ctx, res, p, "prep", v, nn, dv, mu, L, z0.shape[0], z)
    res.case(("prep", kind, json.dumps(gk, sort_keys=True), X.tobytes(), repr(d_arg), lsf, p.get("zseed")), bool(finite and n >= 2), sample)


def case_dimprep(ctx, res, p):
    """DimensionalityEstimator.prepare_inference(X): distances (k-NN), nn_distances, mu_dens,
    initial_value (2 x m), loss_func."""
    m = mellon()
    X = np.asarray(p["X"], float)
    k = int(p["k"])
    d_arg = as_d(p.get("d"))
    n, f = X.shape
    res.count("dimprep:k=%s" % ("1" if k == 1 else "2-5" if k <= 5 else "6-15"))
    res.count("dimprep:d=%s" % ("local_dimensionality" if d_arg is None else "given"))
    sample = {"op": "dimprep", "X_shape": list(X.shape), "k": k, "d": "default" if d_arg is None else "given"}
    try:
        kw_ = {} if p.get("mu_dim") is None else {"mu_dim": float(p["mu_dim"])}
        res.count("dimprep:mu_dim=" + ("default" if not kw_ else "given"))
        gk = p.get("gpkw") or {}
        res.count("dimprep:gp=" + (json.dumps(gk, sort_keys=True) if gk else "default"))
        kw_.update({k_: v_ for k_, v_ in gk.items() if k_ != "lm"})
        if "lm" in gk:
            mm = int(gk["lm"])
            kw_["landmarks"] = (X[:mm] + 0.05) if mm <= n else np.vstack([X, X[:mm - n] + 0.07])
        est = m.DimensionalityEstimator(k=k, d=d_arg, **kw_)
        loss_func, z0 = est.prepare_inference(X)
        dist = np.asarray(est.distances, float)
        nn = np.asarray(est.nn_distances, float)
        L = np.asarray(est.L, float)
        z0 = np.asarray(z0, float)
        mu_dens, mu_dim, ls = float(est.mu_dens), float(est.mu_dim), float(est.ls)
        d = np.asarray(est.d, float)
    except Exception as e:
        res.case(("dimprep", X.tobytes(), k), False, sample)
        res.oracle_fail(f"prepare_inference raised {type(e).__name__}: {e}", p, signature="C03:dim-prepare-raises")
        return
    check_nn(ctx, res, p, "dimprep", X, k, dist)
    if nn.shape != (n,) or not np.array_equal(nn, dist[:, 0]):
        res.oracle_fail("nn_distances is not the first column of the k-NN distances", p, signature="C03:dim-nn-column")
    dv = d if d.ndim else float(d)
    check_mu_ls(ctx, res, p, "dimprep", nn, dv, mu_dens, ls, 1.0)
    mm = L.shape[1]
    dcell = np.asarray(dv, float) * np.ones(n)
    # initial value: two ridge problems
    if z0.shape != (2, mm):
        res.oracle_fail("initial value of the dimensionality estimator is not (2, rank)", p, signature="C03:dim-init-shape")
        res.case(("dimprep", X.tobytes(), k), False, sample)
        return
    for row, t, tag in ((0, np.log(dcell) - mu_dim, "dimprep-dims"), (1, o_mle(nn, dcell) - mu_dens, "dimprep-dens")):
        check_ridge(ctx, res, p, tag, z0[row], L, t, f"c03ridge {n} {mm} {bits(L)} {bits(t)}")
    if ctx["driver"] is not None:
        mv = ask_floats(ctx, f"c03diminit {n} {mm} {bits(nn)} {dim_tokens(dv, n)} {fbit(mu_dim)} {fbit(mu_dens)} {bits(L)}",
                        (2, mm))
        nrmA = np.linalg.norm(L.T @ L + np.eye(mm), 2)
        ok, dev = (False, float("inf")) if isinstance(mv, str) else close(z0, mv, TOL_RIDGE * nrmA, np.max(np.abs(z0)) + 1e-300)
        if not ok:
            res.corr_fail("model and implementation dimensionality start differ", p, detail={"dev": dev})
    rng = np.random.default_rng(int(p.get("zseed", 0)))
    finite = True
    for zs in p.get("zscales", [0.0, 0.2]):
        z = z0 + zs * rng.normal(size=z0.shape)
        try:
            v = float(loss_func(z))
        except Exception as e:
            res.oracle_fail(f"loss_func raised {type(e).__name__}: {e}", p, signature="C03:dim-loss-raises")
            continue
        dims = np.exp(L @ z[0] + mu_dim)
        ld = L @ z[1] + mu_dens
        lp, mag = o_poisson(dist, dims, ld)
        prior = -0.5 * np.sum(z ** 2) - 0.5 * z.size * LOG_2PI
        # documented model + the parameter-free constant n log k! of gammaln(j) vs gammaln(j+1) (see PARTIAL); the prior is
        # the 2m-dimensional standard normal (fixed defect: _normal used to be told k = 2)
        const = n * gammaln(k + 1.0)
        ov = -(prior + lp) - const
        scale = mag + abs(prior) + abs(const)
        ok, dev = close(v, ov, TOL_LOSS, scale)
        res.dev("dimprep:loss_impl_vs_closed_form/scale", dev)
        if not ok:
            res.oracle_fail("dimensionality loss differs from -(log N(z;0,I) + sum log Poisson(j; rho V_d r_j^d)) "
                            "- n log k!", p,
                            detail={"impl": v, "closed_form": float(ov), "scale": float(scale)},
                            signature="C03:dim-loss-closed-form")
        if ctx["driver"] is not None:
            mv = ask_floats(ctx, f"c03dimloss {n} {k} {mm} {bits(dist)} {fbit(mu_dim)} {fbit(mu_dens)} {bits(L)} "
                                 f"{z0.size} {bits(z)}")
            ok, dev = (False, float("inf")) if isinstance(mv, str) else close(v, mv[0], TOL_LOSS, scale)
            res.dev("dimprep:loss_model_vs_impl/scale", dev)
            if not ok:
                res.corr_fail("model and implementation dimensionality loss differ", p,
                              detail={"impl": v, "model": str(mv), "scale": float(scale)})
        finite &= bool(np.isfinite(v))
    res.case(("dimprep", X.tobytes(), k, repr(d_arg), p.get("zseed")), bool(finite), sample)


def case_helpers(ctx, res, p):
    """Public helpers on synthetic inputs: util.mle, compute_mu, compute_ls, compute_initial_value,
    compute_loss_func(compute_transform)."""
    m = mellon()
    from mellon import parameters as par, inference as inf, util
    r = np.asarray(p["r"], float)
    d = as_d(p["d"])
    L = np.asarray(p["L"], float)
    mu = float(p["mu"])
    n, mm = L.shape
    dd = d if np.ndim(d) else float(d)
    d_impl = d if np.ndim(d) else (int(d) if p.get("d_int") else float(d))
    res.count("helpers:d=%s" % ("per-cell" if np.ndim(d) else "scalar"))
    res.count("helpers:decades=%d" % int(round(np.log10(r.max() / r.min()))) if n > 1 else "helpers:n=1")
    sample = {"op": "helpers", "n": n, "m": mm, "d": "per-cell" if np.ndim(d) else d, "r_min": float(r.min()),
              "r_max": float(r.max())}
    dcell = np.asarray(dd, float) * np.ones(n)
    # mle
    ml_i = np.asarray(util.mle(r, d_impl), float)
    ml_o = o_mle(r, dcell)
    ok, dev = close(ml_i, ml_o, TOL_SCALAR, 1 + np.abs(ml_o))
    res.dev("helpers:mle_impl_vs_oracle", dev)
    if not ok:
        res.oracle_fail("util.mle is not lgamma(d/2+1) - (d/2) log pi - d log r", p, signature="C03:mle-closed-form")
    if ctx["driver"] is not None:
        mv = ask_floats(ctx, f"c03mle {n} {bits(r)} {dim_tokens(dd, n)}")
        ok, dev = (False, float("inf")) if isinstance(mv, str) else close(ml_i, mv, TOL_SCALAR, 1 + np.abs(ml_o))
        res.dev("helpers:mle_model_vs_impl", dev)
        if not ok:
            res.corr_fail("model and implementation mle differ", p)
    # mu, ls
    lsf = float(p.get("ls_factor", 1.0))
    mu_i = par.compute_mu(r, d_impl)
    ls_i = par.compute_ls(r)
    check_mu_ls(ctx, res, p, "helpers", r, dd, mu_i, ls_i * lsf, lsf, ls_i)
    # ridge start
    z0 = np.asarray(par.compute_initial_value(r, d_impl, mu, L), float)
    check_ridge(ctx, res, p, "helpers", z0, L, ml_o - mu,
                f"c03init {n} {mm} {bits(r)} {dim_tokens(dd, n)} {fbit(mu)} {bits(L)}")
    # loss at designed points
    lf = inf.compute_loss_func(r, d_impl, inf.compute_transform(mu, L), mm)
    finite = True
    for z in np.asarray(p["zs"], float):
        v = float(lf(z))
        finite &= check_loss(ctx, res, p, "helpers", v, r, dd, mu, L, mm, z)
    res.case(("helpers", r.tobytes(), repr(d), L.tobytes(), mu), bool(finite and n >= 2), sample)


def case_muls(ctx, res, p):
    """compute_mu / compute_ls / mle alone, for long vectors (quantile position beyond the first gap)."""
    mellon()
    from mellon import parameters as par
    r = np.asarray(p["r"], float)
    d = as_d(p["d"])
    n = r.size
    d_impl = d if np.ndim(d) else float(d)
    res.count("muls:n=%s" % ("<=100" if n <= 100 else ">100"))
    mu_i = par.compute_mu(r, d_impl)
    ls_i = par.compute_ls(r)
    check_mu_ls(ctx, res, p, "muls", r, d, mu_i, ls_i, 1.0, ls_i)
    res.case(("muls", r.tobytes(), repr(d)), n >= 2, {"op": "muls", "n": n})


def case_nn(ctx, res, p):
    """compute_distances(x, k) / compute_nn_distances(x) on raw point sets (KD tree below 20 features, ball tree from 20)."""
    mellon()
    from mellon import parameters as par
    X = np.asarray(p["X"], float)
    k = int(p["k"])
    n = X.shape[0]
    f = X.shape[1] if X.ndim == 2 else 1
    res.count("nn:tree=%s" % ("ball" if f >= 20 else "kd"))
    res.count("nn:k=%s" % ("1" if k == 1 else "2-5" if k <= 5 else "6-15"))
    sample = {"op": "nn", "X_shape": list(X.shape), "k": k}
    try:
        dist = np.asarray(par.compute_distances(X, k), float)
        outcome = "ok"
    except Exception as e:
        outcome = exc_class(e)
    expected = "ValueError" if n <= k else "ok"
    if outcome != expected:
        res.oracle_fail(f"compute_distances outcome {outcome}, expected {expected}", p, signature="C03:nn-outcome")
    if ctx["driver"] is not None and outcome != "ok":
        X2 = X if X.ndim == 2 else X[:, None]
        out = ctx["driver"].ask(f"c03knn {n} {f} {k} {bits(X2)}")
        if out.split(":")[0] != outcome:
            res.corr_fail("model and implementation k-NN outcome differ", p, detail={"impl": outcome, "model": out[:40]})
    if outcome == "ok":
        check_nn(ctx, res, p, "nn", X, k, dist)
        nn1 = np.asarray(par.compute_nn_distances(X), float)
        bf = brute_knn(X, 1)[:, 0]
        ok, dev = close(nn1, bf, TOL_NN, float(np.max(bf)) + 1e-300)
        if not ok:
            res.oracle_fail("compute_nn_distances is not the distance to the closest other cell", p,
                            signature="C03:nn-distances-" + ("balltree" if f >= 20 else "kdtree"))
        if ctx["driver"] is not None:
            X2 = X if X.ndim == 2 else X[:, None]
            mv = ask_floats(ctx, f"c03nn {n} {f} {bits(X2)}")
            ok, dev = (False, float("inf")) if isinstance(mv, str) else close(nn1, mv, TOL_NN, float(np.max(bf)) + 1e-300)
            if not ok:
                res.corr_fail("model and implementation nn distances differ", p)
    res.case(("nn", X.tobytes(), k), outcome == "ok", sample)


_VM = {}


def impl_logp_grid(d, r_grid, ld_grid):
    """log p(r | exp(ld), d) of the implementation for arrays of (r, ld) pairs, one value per pair."""
    import jax, sys
    inf = sys.modules["mellon.inference"]
    return np.asarray(jax.vmap(lambda rr, ll: inf._nearest_neighbors(rr, d)(ll))(r_grid, ld_grid), float)


def case_density(ctx, res, p):
    """The implementation's NN density integrates to 1 over r (quadrature in log r) and, as a function
    of the log-density, is maximised at util.mle(r, d) (grid search)."""
    mellon()
    from mellon import util
    d = float(p["d"])
    lrho = float(p["log_rho"])
    r = float(p["r"])
    G = 4001
    logV = (d / 2) * LOG_PI - gammaln(d / 2 + 1)
    s0 = -(lrho + logV) / d
    s = np.linspace(s0 - 36.0 / d, s0 + 4.5 / d, G)   # t = rho V r^d from e^-36 to e^4.5 (tail mass < 3e-16 / e^-90)
    lp = impl_logp_grid(d, np.exp(s), np.full(G, lrho))
    integrand = np.exp(lp + s)
    I = float(np.trapezoid(integrand, s)) if hasattr(np, "trapezoid") else float(np.trapz(integrand, s))
    res.dev("density:|integral-1|", abs(I - 1))
    if not abs(I - 1) <= TOL_QUAD:
        res.oracle_fail("nearest-neighbour density does not integrate to 1 over r", p,
                        detail={"integral": I, "d": d, "log_rho": lrho}, signature="C03:density-normalisation")
    # argmax over the log-density at fixed r
    step = 1e-3
    mle_i = float(util.mle(np.array([r]), d)[0])
    u = mle_i + step * (np.arange(G) - G // 2)
    g = impl_logp_grid(d, np.full(G, r), u)
    j = int(np.argmax(g))
    res.dev("density:|argmax-mle|/step", abs(u[j] - mle_i) / step)
    if abs(j - G // 2) > 2 or not g[G // 2] >= np.max(g) - 1e-9 * (1 + abs(g[G // 2])):
        res.oracle_fail("log p(r | exp(u), d) is not maximised at u = util.mle(r, d)", p,
                        detail={"argmax": float(u[j]), "mle": mle_i, "d": d, "r": r}, signature="C03:mle-argmax")
    # the maximal value is log(d/r) - 1
    vmax = math.log(d) - math.log(r) - 1
    ok, dev = close(g[G // 2], vmax, 1e-9, 1 + abs(vmax) + abs(mle_i))
    if not ok:
        res.oracle_fail("maximal log-likelihood is not log(d/r) - 1", p, detail={"impl": float(g[G // 2]), "expected": vmax},
                        signature="C03:mle-argmax")
    if ctx["driver"] is not None:
        # model: same two facts on the model's own definitions (coarse; the theorems carry the claim)
        mv = ask_floats(ctx, f"c03nnll 3 {bits(np.full(3, r))} S {fbit(d)} {bits(np.array([mle_i - 0.5, mle_i, mle_i + 0.5]))}")
        gi = float(np.sum(impl_logp_grid(d, np.full(3, r), np.array([mle_i - 0.5, mle_i, mle_i + 0.5]))))
        ok, dev = (False, float("inf")) if isinstance(mv, str) else close(gi, mv[0], TOL_LOSS, 3 * (1 + abs(vmax) + abs(mle_i)))
        if not ok:
            res.corr_fail("model and implementation NN log-likelihood differ", p, detail={"impl": gi, "model": str(mv)})
    res.count("density:d=%s" % ("<1" if d < 1 else "1-10" if d <= 10 else ">10"))
    res.case(("density", d, lrho, r), True, {"op": "density", "d": d, "log_rho": lrho, "r": r})


def case_pois(ctx, res, p):
    """inference._poisson on synthetic k-NN distances: closed form with the Poisson pmf + n log k!."""
    mellon()
    import sys
    inf = sys.modules["mellon.inference"]
    dist = np.asarray(p["dist"], float)
    dims = np.asarray(p["dims"], float)
    ld = np.asarray(p["ld"], float)
    n, k = dist.shape
    v = float(inf._poisson(dist)(dims, ld))
    lp, mag = o_poisson(dist, dims, ld)
    ov = lp + n * gammaln(k + 1.0)
    ok, dev = close(v, ov, TOL_LOSS, mag + n * gammaln(k + 1.0))
    res.dev("pois:impl_vs_closed_form/scale", dev)
    if not ok:
        res.oracle_fail("k-NN likelihood is not sum log Poisson(j; rho V_d r_j^d) + n log k!", p,
                        detail={"impl": v, "closed_form": float(ov)}, signature="C03:poisson-closed-form")
    if ctx["driver"] is not None:
        mv = ask_floats(ctx, f"c03pois {n} {k} {bits(dist)} {bits(dims)} {bits(ld)}")
        ok, dev = (False, float("inf")) if isinstance(mv, str) else close(v, mv[0], TOL_LOSS, mag + n * gammaln(k + 1.0))
        res.dev("pois:model_vs_impl/scale", dev)
        if not ok:
            res.corr_fail("model and implementation k-NN likelihood differ", p, detail={"impl": v, "model": str(mv)})
    res.count("pois:k=%s" % ("1" if k == 1 else "2-5" if k <= 5 else "6-15"))
    res.case(("pois", dist.tobytes(), dims.tobytes(), ld.tobytes()), bool(np.isfinite(v)), {"op": "pois", "n": n, "k": k})


def case_dshape(ctx, res, p):
    """compute_d and the refusal of more than 50 features."""
    m = mellon()
    from mellon import parameters as par
    shape = [int(s) for s in p["shape"]]
    x = np.zeros(shape)
    d = par.compute_d(x)
    exp_d = 1 if len(shape) < 2 else shape[1]
    if d != exp_d:
        res.oracle_fail("compute_d is not the number of features", p, detail={"d": repr(d), "shape": shape},
                        signature="C03:d-default")
    est = m.DensityEstimator()
    est.x = x
    try:
        out = "ok %d" % est._compute_d()
    except Exception as e:
        out = exc_class(e)
    expected = "ValueError" if exp_d > 50 else "ok %d" % exp_d
    if out != expected:
        res.oracle_fail(f"_compute_d outcome {out}, expected {expected}", p, signature="C03:d-outcome")
    if ctx["driver"] is not None:
        mo = ctx["driver"].ask("c03d %d %s" % (len(shape), " ".join(map(str, shape))))
        if mo.split(":")[0] != out:
            res.corr_fail("model and implementation d outcome differ", p, detail={"impl": out, "model": mo})
    res.count("dshape:%s" % ("refused" if exp_d > 50 else "ok"))
    res.case(("dshape", tuple(shape)), True, {"op": "dshape", "shape": shape})


# ------------------------------------------------------------------ generators

PREP_SHAPES = [(12, 1), (12, 2), (12, 3), (16, 5), (16, 20), (16, 25)]     # few distinct n: XLA compiles per shape
PREP_SHAPES_THOROUGH = PREP_SHAPES + [(8, 1), (20, 5), (30, 2), (40, 3), (24, 21)]
HELPER_SHAPES = [(1, 1), (2, 2), (6, 6), (12, 12), (12, 5), (5, 9)]
NN_N = [2, 3, 5, 12, 30]


def distinct_points(rng, n, f, kind=None):
    """Structured data without exact duplicates (those belong to C20)."""
    X, kind = gen_points(rng, n, f, kind=kind)
    X = X + 1e-9 * np.abs(X).max() * rng.normal(size=X.shape)
    return X, kind


def gen_d(rng, n):
    c = rng.random()
    if c < 0.35:
        return float(rng.integers(1, 51)), True
    if c < 0.6:
        return loguniform(rng, 0.5, 50.0), False
    return np.exp(rng.uniform(np.log(0.5), np.log(50.0), size=n)), False


def gpkw_menu(n):
    """Non-default Gaussian-process configurations: the latent size differs from n and / or from n_landmarks."""
    return [{"gp_type": "full_nystroem", "rank": 5}, {"gp_type": "full_nystroem", "rank": 0.8},
            {"lm": 6, "gp_type": "sparse_cholesky"}, {"lm": 7, "gp_type": "sparse_nystroem", "rank": 3},
            {"lm": 7, "gp_type": "sparse_nystroem", "rank": 0.8}, {"n_landmarks": 0}, {"lm": n + 2},
            {"gp_type": "fixed", "n_landmarks": n + 3}, {"n_landmarks": 5}]


def gen_prep(rng, shape=None, menu=None):
    menu = menu or PREP_SHAPES
    n, f = shape or menu[int(rng.integers(len(menu)))]
    X, _ = distinct_points(rng, n, f)
    c = rng.random()
    d = None if c < 0.5 else (gen_d(rng, n)[0])
    if d is not None and np.ndim(d) == 0 and d > 30:
        d = d / 2   # keep exp() in range for the default-constructed kernel scale
    return {"op": "prep", "X": X, "d": d, "ls_factor": float(rng.choice([1.0, 1.0, 0.5, 2.0, 3.7])),
            "zseed": int(rng.integers(1 << 30)), "zscales": [0.0, 0.3]}


def gen_dimprep(rng, quick):
    n, f = [(16, 2), (16, 3), (16, 20)][int(rng.integers(3))]
    X, _ = distinct_points(rng, n, f)
    k = int(rng.choice([1, 2, 5, 10, 15])) if quick else int(rng.integers(1, 16))   # few shapes in quick runs
    d = None if rng.random() < (0.15 if quick else 0.3) else np.exp(rng.uniform(np.log(0.7), np.log(8.0), size=n))
    # the prior mean of the log-dimensionality (non-default option): d = exp(L z + mu_dim)
    mu_dim = None if rng.random() < 0.4 else float(rng.choice([np.log(3.0), -0.7, 0.5, 1.5]))
    return {"op": "dimprep", "X": X, "k": k, "d": d, "zseed": int(rng.integers(1 << 30)), "zscales": [0.0, 0.2], "mu_dim": mu_dim}


def gen_helpers(rng):
    n, mm = HELPER_SHAPES[int(rng.integers(len(HELPER_SHAPES)))]
    decades = rng.choice([0.5, 2, 4, 8])
    centre = rng.uniform(-4 + decades / 2, 4 - decades / 2)
    r = 10.0 ** rng.uniform(centre - decades / 2, centre + decades / 2, size=n)
    if n >= 2:   # hit both ends of the range
        r[0], r[-1] = 10.0 ** (centre - decades / 2), 10.0 ** (centre + decades / 2)
    d, d_int = gen_d(rng, n)
    dcell = np.asarray(d, float) * np.ones(n)
    L = rng.normal(size=(n, mm)) * loguniform(rng, 0.1, 3.0)
    ml = o_mle(r, dcell)
    mu = float(np.quantile(ml, 0.01) - 10) if rng.random() < 0.5 else float(rng.normal() * 5)
    # designed points: f = L z + mu close to the MLE (least squares), so that exp() stays in range
    zt = np.linalg.lstsq(L, ml - mu, rcond=None)[0]
    f_fit = L @ zt + mu
    zs = [zt]
    if np.max(f_fit - ml) < 30:
        zs.append(zt + 0.05 * rng.normal(size=mm) / (1 + np.abs(L).sum(0)))
    else:
        zs = [np.zeros(mm)] if np.max(mu - ml) < 30 else []
    return {"op": "helpers", "r": r, "d": d, "d_int": bool(d_int), "L": L, "mu": mu, "zs": np.array(zs).reshape(len(zs), mm),
            "ls_factor": float(rng.choice([1.0, 0.5, 2.0]))}


def gen_nn(rng):
    n = NN_N[int(rng.integers(len(NN_N)))]
    f = int(rng.choice([1, 2, 3, 5, 10, 19, 20, 21, 25]))
    X, _ = gen_points(rng, n, f)
    if rng.random() < 0.15 and n >= 3:   # exact duplicates: distance 0 is the true answer
        X[1] = X[0]
    k = int(rng.integers(1, 16)) if rng.random() < 0.7 else 1
    if rng.random() < 0.8:
        k = min(k, n - 1)
    if f == 1 and rng.random() < 0.5:
        X = X[:, 0]
    return {"op": "nn", "X": X, "k": k}


def gen_density(rng):
    return {"op": "density", "d": float(rng.integers(1, 51)) if rng.random() < 0.5 else loguniform(rng, 0.5, 50.0),
            "log_rho": float(rng.uniform(-30, 30)), "r": 10.0 ** rng.uniform(-4, 4)}


def gen_pois(rng, quick=True):
    n = 4 if quick else int(rng.choice([1, 4, 9]))
    k = int(rng.choice([1, 3, 8, 15])) if quick else int(rng.integers(1, 16))
    dims = np.exp(rng.uniform(np.log(0.5), np.log(20.0), size=n))
    centre = rng.uniform(-3, 3)
    dist = 10.0 ** rng.uniform(centre - 0.5, centre + 0.5, size=(n, k))   # unsorted on purpose
    # log-density near the value that makes the expected count at the median radius about k/2
    s = np.sort(dist, axis=1)
    logvol = dims * (np.log(s[:, k // 2]) + LOG_PI / 2) - gammaln(dims / 2 + 1)
    ld = np.log((k + 1) / 2) - logvol + rng.normal(size=n)
    return {"op": "pois", "dist": dist, "dims": dims, "ld": ld}


def gen_muls(rng):
    n = int(rng.choice([2, 50, 100, 101, 102, 150, 201, 257]))
    decades = rng.choice([1, 4, 8])
    r = 10.0 ** rng.uniform(-decades / 2, decades / 2, size=n)
    d = gen_d(rng, n)[0]
    return {"op": "muls", "r": r, "d": d}


def run(ctx, res):
    rng = ctx["rng"]
    quick = ctx["tier"] == "quick"
    budget = ctx["budget"] or (45 if quick else 420)
    t_end = time.time() + budget
    mellon()
    # fixed part: every prepare shape once, both estimators, shapes of compute_d, refusal branches
    menu = PREP_SHAPES if quick else PREP_SHAPES_THOROUGH
    for sh in menu:
        run_case(ctx, res, gen_prep(rng, sh))
    for _ in range(2 if quick else 6):
        run_case(ctx, res, gen_dimprep(rng, quick))
    # the objective under every GP configuration (latent size != n, != n_landmarks), all three estimators
    gm = gpkw_menu(16)
    for i, gk in enumerate(gm):
        run_case(ctx, res, {**gen_prep(rng, (16, 2)), "gpkw": gk})
        if not quick or i % 3 == 0:
            run_case(ctx, res, {**gen_prep(rng, (16, 2)), "gpkw": gk, "est": "time"})
        if not quick or i % 3 == 1:
            run_case(ctx, res, {**gen_dimprep(rng, quick), "gpkw": gk})
    run_case(ctx, res, {**gen_prep(rng, (16, 2)), "est": "time"})
    for shape in ([7], [7, 1], [5, 3], [4, 20], [3, 50], [3, 51], [2, 64], [2, 3, 4]):
        run_case(ctx, res, {"op": "dshape", "shape": shape})
    run_case(ctx, res, {"op": "nn", "X": rng.normal(size=(1, 2)), "k": 1})
    run_case(ctx, res, {"op": "nn", "X": rng.normal(size=(4, 3)), "k": 4})
    for shape in ([7], [2, 7], [1, 5], [2, 1]):
        run_case(ctx, res, {"op": "advi", "shape": shape, "seed": int(rng.integers(1 << 30))})
    for n in (2, 100, 101, 102, 201):
        run_case(ctx, res, {"op": "muls", "r": 10.0 ** rng.uniform(-4, 4, size=n), "d": float(rng.integers(1, 30))})
    # sampled part, cheap ops dominate (its own time box: the fixed plan above may have used the budget)
    res.count("fixed_plan_seconds", int(time.time() - (t_end - budget)))
    t_end = max(t_end, time.time() + (25 if quick else 0.5 * budget))
    i = 0
    while time.time() < t_end:
        c = i % 12
        if c in (0, 6):
            run_case(ctx, res, gen_prep(rng, menu=menu))
        elif c == 3:
            run_case(ctx, res, gen_dimprep(rng, quick))
        elif c in (1, 7, 9):
            run_case(ctx, res, gen_helpers(rng))
        elif c in (2, 8):
            run_case(ctx, res, gen_nn(rng))
        elif c in (4, 10):
            run_case(ctx, res, gen_density(rng))
        elif c == 5:
            run_case(ctx, res, gen_pois(rng, quick))
        else:
            run_case(ctx, res, gen_muls(rng))
        i += 1
    res.count("sampled", i)


CLAIM = {
    "text": "Lean theorems over R for all sizes and data: the loss of compute_loss_func is minus [log N(z;0,I) + sum_i log "
            "p(r_i | exp((Lz+mu)_i), d_i)] with p(r|rho,d) = rho d V_d r^(d-1) exp(-rho V_d r^d), V_d = pi^(d/2)/Gamma(d/2+1) "
            "(scalar or per-cell d); p integrates to 1 over r for every rho, d > 0 (any ball constant); u -> log p(r|e^u,d) is "
            "maximised exactly at util.mle(r,d) with value log(d/r)-1; the k-NN model is sum log Poisson pmf plus the exact "
            "constant n log k! (prior: the 2m-dimensional standard normal); defaults: mu = interpolated 1st-percentile order "
            "statistic of the MLE minus 10, ls = e^3 * geometric mean * ls_factor, d = number of features (refused above 50), "
            "ridge start exists and is the unique minimiser of |Lz-t|^2+|z|^2 (difference of objectives = |L dz|^2+|dz|^2), nn distance = attained "
            "minimum over the other cells, k-NN distances = sorted prefix. Tied to /repo by comparing prepare_inference outputs "
            "and the helpers with the model's executable definitions, and by independent scipy/numpy oracles (closed forms, "
            "brute-force neighbours, quadrature, grid maximisation).",
    "note": "Float64 rounding/overflow modelled away. KD/Ball tree, Ridge, jnp.quantile/sort are contracts with executable "
            "stand-ins whose contracts are proved. Dimensionality loss equals the documented "
            "model up to two stated parameter-free constants. Correspondence is sampled differential testing.",
    "technique": "Lean 4 proof (real analysis: Gamma integral, 1+t<=e^t; finite-sum algebra; sorting) + differential "
                 "correspondence with closed-form, quadrature and brute-force oracles",
}
