"""C04 — covariance factor L: L L^T is the specified approximation, never above K."""
import time
import numpy as np
from ..common import (mellon, bits, unbits, fbit, cov_to_mellon, cov_tokens, cov_str, loguniform, gen_points, totuple,
                      exc_class)
from .. import condutil as cu
from .. import covoracle as co

EPS = np.finfo(float).eps
RULE = ("cases = compute_L configurations: gp_type in {full, full_nystroem, sparse_cholesky, sparse_nystroem, fixed, inferred} "
        "x inducing sets (subset of cells, arbitrary, more than cells) x rank (int, fraction) x user-supplied Lp (right / "
        "wrong shape) x kernels x jitter; each case checks L L^T against the stated matrix, (K + jitter I) - L L^T PSD, the "
        "shape, and compares with the Lean model (L itself for Cholesky-based factors, assembly for Nystroem factors given "
        "the eigen-pairs); non-trivial = accepted configuration with L L^T different from K + jitter I or full type")
PARTIAL = ["'never above K' for inducing-point factors needs a PSD kernel (Schur complement): proved without matrix hypothesis for "
           "expressions over ExpQuad / Linear leaves (inducing_loewner_closed_tree); for Matern / Exponential / RatQuad leaves the "
           "kernel's PSD-ness is a named hypothesis (inducing_loewner_of_psd_kernel)",
           "eigh / qr are external: contract (orthonormal eigenvectors, A = V diag s V^T; Q^T Q = I, Q R = C) assumed, "
           "exercised against numpy here"]
ASSUMPTIONS = ["numpy.linalg.eigh / solve as reference"]
TRUSTED_EXTRA = ["LAPACK eigh and qr behind jnp.linalg.eigh/qr (contract only)"]
CLAIM = {
    "text": "Lean theorems over R: full -> L L^T = K + max(sigma^2, jitter) I (from the proved Cholesky); inducing-point types -> "
            "L Lp^T = K_xu with Lp Lp^T = K_uu + jitter I, hence L L^T = K_xu (K_uu + jitter I)^-1 K_ux, and a supplied Lp is used as "
            "given after the shape test; Nystroem assembly L = V_p sqrt(S_p) gives L L^T = V_p S_p V_p^T and, under the eigh contract, "
            "(K + jitter I) - L L^T = V_rest S_rest V_rest^T which is PSD when the discarded eigenvalues are non-negative; improved "
            "Nystroem: with Q^T Q = I, L L^T = Q (V S V^T) Q^T; shapes and routine dispatch of compute_L / compute_Lp per gp_type. "
            "Tied to /repo by comparing compute_L / est.L with the model driver and with independent numpy references.",
    "note": "eigh/qr are contracts; PSD of the Schur complement for inducing types assumes a PSD kernel (hypothesis). Rank "
            "selection itself is property C10.",
    "technique": "Lean 4 proof (matrix algebra over proved Cholesky/solves; spectral statements under the eigh contract) + "
                 "differential correspondence + numpy reference oracles",
}

GP = ["full", "full_nystroem", "sparse_cholesky", "sparse_nystroem", "fixed", None]


def top_trunc(A, p):
    s, V = np.linalg.eigh((A + A.T) / 2)
    idx = np.argsort(s)[::-1][:p]
    return (V[:, idx] * s[idx]) @ V[:, idx].T, s, V


def run_case(ctx, res, p):
    if p.get("op") == "est":
        return case_est(ctx, res, p)
    m_ = mellon()
    from mellon.parameters import compute_L
    tree = totuple(p["tree"])
    cov = cov_to_mellon(tree)
    X = np.asarray(p["X"], float)
    Xu = None if p.get("Xu") is None else np.asarray(p["Xu"], float)
    Lp = None if p.get("Lp") is None else np.asarray(p["Lp"], float)
    gp, rank, jitter = p["gp_type"], p["rank"], float(p["jitter"])
    n = X.shape[0]
    m = n if Xu is None else Xu.shape[0]
    res.count(f"gp_type={gp}")
    res.count("rank=" + ("None" if rank is None else ("frac" if isinstance(rank, float) else "int")))
    res.count("Lp=" + ("None" if Lp is None else ("ok" if p.get("lp_ok", True) else
                                                   "wrong-shape:%+d,%+d" % tuple(np.array(Lp.shape) - (n if p["effective_gp"] == "full" else np.shape(p["Xu"])[0])))))
    if Xu is not None:
        res.count("m<n" if m < n else ("m=n" if m == n else "m>n"))
    sample = {k: (v if not isinstance(v, np.ndarray) else list(v.shape)) for k, v in p.items() if k != "tree"}
    sample["tree"] = cov_str(tree)
    canon = repr([(k, v.tobytes() if isinstance(v, np.ndarray) else v) for k, v in sorted(p.items())])
    import jax.numpy as jnp
    try:
        L = np.asarray(compute_L(jnp.asarray(X), cov, gp_type=gp, landmarks=None if Xu is None else jnp.asarray(Xu),
                                 Lp=None if Lp is None else jnp.asarray(Lp), rank=rank, jitter=jitter), float)
        status = "ok"
    except Exception as e:
        L, status = None, exc_class(e)
    expect_refusal = p.get("expect_refusal", False)
    if status != "ok":
        res.case(canon, False, sample)
        res.count("refused=" + status)
        if status != "ValueError":
            res.oracle_fail(f"compute_L raised {status}", p, signature="C04:raises:" + status)
        elif not expect_refusal:
            res.oracle_fail("compute_L refused a consistent configuration", p, signature="C04:unexpected-refusal")
        return
    if expect_refusal:
        res.case(canon, False, sample)
        res.oracle_fail("compute_L accepted an Lp of the wrong shape / inconsistent configuration", p,
                        signature="C04:missing-refusal")
        return
    if not np.all(np.isfinite(L)):
        res.case(canon, True, sample)
        res.oracle_fail("the factor L contains NaN / inf entries", p,
                        detail={"shape": list(L.shape), "bad_columns": int(np.sum(~np.all(np.isfinite(L), axis=0)))},
                        signature="C04:nonfinite-factor")
        return
    K = cu.kernel_np(cov, X, X)
    Kj = K + jitter * np.eye(n)
    LLt = L @ L.T
    kscale = max(np.max(np.abs(Kj)), 1e-300)
    eff = p["effective_gp"]
    res.case(canon, True, sample)
    wK = 0.0
    for (A_, B_) in ((X, X),) + (((Xu, Xu), (X, Xu)) if Xu is not None else ()):
        lo_, hi_ = co.interval(tree, A_, B_)
        wK = max(wK, float(np.max(hi_ - lo_)))
    # ---- stated matrix per type
    if eff == "full":
        if Lp is not None:
            ref = Lp @ Lp.T
            if L.tobytes() != Lp.tobytes():
                res.oracle_fail("user-supplied Lp not used as given (full)", p, signature="C04:lp-passthrough")
        else:
            ref = Kj
        cond = np.linalg.cond(Kj)
        shape = (n, n)
    elif eff in ("sparse_cholesky", "fixed"):
        Kuu = cu.kernel_np(cov, Xu, Xu) + jitter * np.eye(m)
        Kxu = cu.kernel_np(cov, X, Xu)
        cond = np.linalg.cond(Kuu)
        if Lp is not None:
            ref = None
            dv = np.max(np.abs(L @ Lp.T - Kxu)) / max(np.max(np.abs(Kxu)), 1e-300)
            res.dev("L_LpT_eq_Kxu", dv / (1e3 * EPS * np.linalg.cond(Lp) + 1e-12))
            if dv > 1e3 * EPS * np.linalg.cond(Lp) + 1e-12 + 50 * wK:
                res.oracle_fail("with a supplied Lp, L Lp^T != K_xu (Lp not used as given)", p, signature="C04:lp-given")
        else:
            ref = Kxu @ np.linalg.solve(Kuu, Kxu.T)
        shape = (n, m)
    elif eff == "full_nystroem":
        pk = L.shape[1]
        ref, s, V = top_trunc(Kj, pk)
        cond = 1.0
        shape = (n, pk)
        if not (1 <= pk <= n):
            res.oracle_fail("retained rank outside 1..n", p, signature="C04:rank-range")
    elif eff == "sparse_nystroem":
        Kuu = cu.kernel_np(cov, Xu, Xu) + jitter * np.eye(m)
        Kxu = cu.kernel_np(cov, X, Xu)
        P = Kxu @ np.linalg.solve(Kuu, Kxu.T)
        pk = L.shape[1]
        ref, s, V = top_trunc(P, pk)
        cond = np.linalg.cond(Kuu)
        shape = (n, pk)
        if not (1 <= pk <= m):
            res.oracle_fail("retained rank outside 1..m", p, signature="C04:rank-range")
    else:
        raise ValueError(eff)
    res.dev("cond_max", cond)
    atol = (1e3 * EPS * cond + 50 * wK * cond * max(n, m)) * kscale + 1e-13
    if L.shape != shape:
        res.oracle_fail(f"L has shape {L.shape}, expected {shape}", p, signature="C04:shape")
    if ref is not None:
        dv = np.max(np.abs(LLt - ref))
        res.dev("LLt_over_tol", dv / atol)
        if dv > atol and atol < 1e-4 * kscale:
            res.oracle_fail(f"L L^T is not the stated matrix for {eff}", p, detail={"abs": float(dv), "tol": float(atol)},
                            signature="C04:LLt:" + eff)
    # ---- never above K + jitter I
    if Lp is None:
        ev = np.linalg.eigvalsh((Kj - LLt + (Kj - LLt).T) / 2)
        res.dev("loewner_min_eig_over_tol", max(0.0, -ev[0]) / (atol * n))
        if ev[0] < -atol * n and atol < 1e-4 * kscale:
            res.oracle_fail("(K + jitter I) - L L^T is not positive semi-definite", p, detail={"min_eig": float(ev[0])},
                            signature="C04:loewner")
    # ---- correspondence
    drv = ctx["driver"]
    if drv is None:
        return
    d = X.shape[1]
    if eff == "full" and Lp is None:
        out = drv.ask(f"fullrank {cov_tokens(tree)} {n} {d} {bits(X)} {fbit(0.0)} {fbit(jitter)}")
        if not out.startswith("ok"):
            res.corr_fail(f"model refuses full factor: {out[:40]}", p)
        else:
            Lm = unbits(out.split()[1:], (n, n))
            dv = np.max(np.abs(Lm - L)) / np.sqrt(kscale)
            tl = 1e3 * EPS * cond + 50 * wK * cond * n + 1e-12
            res.dev("model_L_over_tol", dv / tl)
            if dv > tl and tl < 1e-3:
                res.corr_fail("model and implementation Cholesky factors differ", p, detail={"rel": float(dv)})
    elif eff in ("sparse_cholesky", "fixed"):
        from ..condutil import opt_mat
        out = drv.ask(f"stdlowrank {cov_tokens(tree)} {n} {d} {bits(X)} {m} {bits(Xu)} {opt_mat(Lp)} {fbit(0.0)} {fbit(jitter)}")
        if not out.startswith("ok"):
            res.corr_fail(f"model refuses inducing factor: {out[:40]}", p)
        else:
            Lm = unbits(out.split()[1:], (n, m))
            lc = np.linalg.cond(Lp) if Lp is not None else cond
            dv = np.max(np.abs(Lm - L)) / max(np.max(np.abs(L)), 1e-300)
            tl = 1e3 * EPS * lc + 50 * wK * lc * m + 1e-12
            res.dev("model_L_over_tol", dv / tl)
            if dv > tl and tl < 1e-3:
                res.corr_fail("model and implementation inducing-point factors differ", p, detail={"rel": float(dv)})
    elif eff == "full_nystroem":
        idx = np.argsort(s)[::-1][:pk]
        out = drv.ask(f"nysfactor {n} {pk} {bits(V[:, idx])} {bits(s[idx])}")
        Lm = unbits(out.split()[1:], (n, pk))
        dv = np.max(np.abs(Lm @ Lm.T - LLt))
        res.dev("model_nys_LLt_over_tol", dv / atol)
        if dv > atol and atol < 1e-4 * kscale:
            res.corr_fail("model Nystroem assembly differs from implementation L L^T", p)


def case_est(ctx, res, p):
    """est.L / est.Lp after prepare_inference: the same statements with the estimator's own jitter, kernel, landmarks."""
    m = mellon()
    X = np.asarray(p["X"], float)
    n = X.shape[0]
    kw = dict(p["kw"])
    if p.get("Xu") is not None:
        kw["landmarks"] = np.asarray(p["Xu"], float)
    res.count("est:" + p["config"])
    canon = repr([(k, v.tobytes() if isinstance(v, np.ndarray) else v) for k, v in sorted(p.items())])
    try:
        est = m.DensityEstimator(jitter=float(p["jitter"]), ls=float(p["ls"]), **kw)
        est.prepare_inference(X)
    except Exception as e:
        res.case(canon, False, {"op": "est", "config": p["config"]})
        res.oracle_fail(f"prepare_inference raised {exc_class(e)}", p, signature="C04:est-raises")
        return
    res.case(canon, True, {"op": "est", "config": p["config"], "gp_type": str(est.gp_type), "L_shape": list(est.L.shape)})
    j = float(p["jitter"])
    cov = est.cov_func
    L = np.asarray(est.L, float)
    K = cu.kernel_np(cov, X, X) + j * np.eye(n)
    gp = str(est.gp_type).split(".")[-1]
    ks = max(np.max(np.abs(K)), 1e-300)
    if gp == "FULL":
        ref, cond = K, np.linalg.cond(K)
    elif gp in ("SPARSE_CHOLESKY", "FIXED"):
        Xu = np.asarray(est.landmarks, float)
        Kuu = cu.kernel_np(cov, Xu, Xu) + j * np.eye(Xu.shape[0])
        Kxu = cu.kernel_np(cov, X, Xu)
        ref, cond = Kxu @ np.linalg.solve(Kuu, Kxu.T), np.linalg.cond(Kuu)
        Lp = np.asarray(est.Lp, float)
        dvp = np.max(np.abs(Lp @ Lp.T - Kuu)) / ks
        res.dev("est_Lp_over_tol", dvp / (1e3 * EPS * cond + 1e-12))
        if dvp > 1e3 * EPS * cond + 1e-10:
            res.oracle_fail("est.Lp Lp^T is not the landmark kernel plus the estimator's jitter", p, detail={"rel": float(dvp)},
                            signature="C04:est-Lp")
    elif gp == "FULL_NYSTROEM":
        ref, _, _ = top_trunc(K, L.shape[1]); cond = 1.0
    else:
        Xu = np.asarray(est.landmarks, float)
        Kuu = cu.kernel_np(cov, Xu, Xu) + j * np.eye(Xu.shape[0])
        Kxu = cu.kernel_np(cov, X, Xu)
        ref, _, _ = top_trunc(Kxu @ np.linalg.solve(Kuu, Kxu.T), L.shape[1]); cond = np.linalg.cond(Kuu)
    atol = (1e3 * EPS * cond) * ks + 1e-9 * ks
    dv = np.max(np.abs(L @ L.T - ref))
    res.dev("est_LLt_over_tol", dv / atol)
    if dv > atol:
        res.oracle_fail(f"est.L L^T is not the stated matrix for {gp} with the estimator's jitter", p,
                        detail={"abs": float(dv), "tol": float(atol)}, signature="C04:est-LLt:" + gp)


def gen_est_case(rng):
    n, d = 12, 2
    X, _ = gen_points(rng, n, d, kind="plain", scale=1.0)
    cfg = ["full", "full_nystroem", "sparse_cholesky", "sparse_nystroem", "fixed", "full+landmarks"][rng.integers(6)]
    kw, Xu = {}, None
    if cfg == "full+landmarks":
        # non-sparse model with explicit landmarks (the cells in another order, or more points than cells): still L L^T = K + jitter I
        Xu = X[rng.permutation(n)] if rng.random() < 0.5 else gen_points(rng, n + 2, d, kind="plain")[0]
        kw = dict(gp_type="full") if rng.random() < 0.5 else {}
    elif cfg == "full":
        kw = dict(n_landmarks=0)
    elif cfg == "full_nystroem":
        kw = dict(gp_type="full_nystroem", rank=[0.9, 3][rng.integers(2)])
    elif cfg == "sparse_cholesky":
        Xu = gen_points(rng, 5, d, kind="plain")[0]
    elif cfg == "sparse_nystroem":
        Xu = gen_points(rng, 5, d, kind="plain")[0]; kw = dict(gp_type="sparse_nystroem", rank=[0.9, 3][rng.integers(2)])
    else:
        Xu = gen_points(rng, [5, 12, 14][rng.integers(3)], d, kind="plain")[0]; kw = dict(gp_type="fixed")
    return {"op": "est", "config": cfg, "kw": kw, "X": X, "Xu": Xu, "jitter": loguniform(rng, 1e-4, 1e-1),
            "ls": loguniform(rng, 0.7, 2.5)}


def gen_case(rng, stream):
    n = 8
    d = [1, 3][rng.integers(2)]
    X, _ = gen_points(rng, n, d, kind="plain", scale=1.0)
    ls = loguniform(rng, 0.7, 2.5)
    jitter = loguniform(rng, 1e-3, 1e-1) if stream == "sharp" else loguniform(rng, 1e-7, 1e-3)
    tree = cu.gen_stationary_tree(rng, d, ls)
    gp = GP[rng.integers(len(GP))]
    Xu = Lp = None
    rank = None
    expect_refusal = False
    lp_ok = True
    eff = gp
    if gp in ("sparse_cholesky", "sparse_nystroem"):
        m = 4
        Xu = X[rng.permutation(n)[:m]].copy() if rng.random() < 0.5 else gen_points(rng, m, d, kind="plain")[0]
    elif gp == "fixed":
        m = [4, 8, 11][rng.integers(3)]
        Xu = gen_points(rng, m, d, kind="plain")[0]
    elif gp is None:
        # inferred from (landmarks, rank)
        if rng.random() < 0.5:
            m = 4
            Xu = gen_points(rng, m, d, kind="plain")[0]
    mm = n if Xu is None else Xu.shape[0]
    if gp in ("full_nystroem", "sparse_nystroem"):
        rank = [0.5, 0.9, 0.99, 1, 2, 3][rng.integers(6)]
        if rng.random() < 0.25:
            # rank-deficient data: the cells sit on 2 distinct positions, the request asks for more directions than the
            # projection has positive eigenvalues (the retained rank is clipped to them)
            X = X[rng.integers(0, 2, size=(14 if gp == "sparse_nystroem" else n))].copy()
            n = X.shape[0]
            if gp == "sparse_nystroem":
                # 10 inducing points: the inner matrix R R^T has 2 positive and 8 numerically-zero (partly negative)
                # eigenvalues; rank 9 asks for 7 of the latter
                Xu = gen_points(rng, 10, d, kind="plain")[0]
                mm = 10
                rank = [9, 5, 0.99][rng.integers(3)]
            else:
                rank = [3, 5, 7, 0.999][rng.integers(4)]
    elif gp is None:
        r = rng.integers(4)
        rank = [None, 1.0, 0.9, 2][r]
        if Xu is None:
            eff = "full" if rank in (None, 1.0) else "full_nystroem"
        else:
            eff = "sparse_cholesky" if rank in (None, 1.0) else "sparse_nystroem"
    if eff in ("full", "sparse_cholesky", "fixed") and rng.random() < 0.35:
        k = n if eff == "full" else mm
        lp_ok = bool(rng.random() < 0.7)
        # wrong shapes: too many / too few rows, and the right number of rows with the wrong number of columns
        rows, cols = (k, k) if lp_ok else [(k + 1, k + 1), (k, k + 1), (k, k - 1), (k + 1, k), (k - 1, k - 1)][rng.integers(5)]
        kk = max(rows, cols)
        A = rng.normal(size=(kk, kk)) * 0.3
        Lp = (np.tril(A) + np.eye(kk) * (1.0 + rng.random(kk)))[:rows, :cols]
        expect_refusal = not lp_ok
    return {"op": "L", "tree": tree, "X": X, "Xu": Xu, "Lp": Lp, "gp_type": gp, "effective_gp": eff, "rank": rank,
            "jitter": jitter, "expect_refusal": expect_refusal, "lp_ok": lp_ok, "stream": stream}


def run(ctx, res):
    rng = ctx["rng"]
    quick = ctx["tier"] == "quick"
    budget = ctx["budget"] or (45 if quick else 420)
    t_end = time.time() + budget
    mellon()
    i = 0
    while time.time() < t_end:
        if i % 25 == 7:
            run_case(ctx, res, gen_est_case(rng))
        else:
            run_case(ctx, res, gen_case(rng, "sharp" if i % 4 != 3 else "wide"))
        i += 1
