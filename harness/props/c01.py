"""C01 — out-of-sample prediction is the exact GP conditional mean."""
import time
import numpy as np
from ..common import (mellon, cov_to_mellon, cov_str, loguniform, gen_points, totuple, exc_class, rel_err)
from .. import condutil as cu

RULE = ("cases = (variant plain/exp/time, family full/DTC/Cholesky-latent, kernel tree, data, values (1-3 columns), mu, "
        "jitter, sigma form {0, <sqrt(jitter), scalar, vector, None}, y_is_mean, inducing points m<n / m=n / m>n, optional "
        "precomputed factor, query set); a sigma vector of the DTC family has one entry per CELL for every number of "
        "landmarks (a vector of another length must be refused with ValueError); always-run regression cases: landmarks = "
        "cells / m<n / m>n with a non-constant per-cell sigma against the full model and the heteroscedastic DTC system; sharp stream: cond <= ~1e6, wide stream: jitter down to 1e-8, near-duplicates; "
        "non-trivial = predictor built and at least one query row differs from mu; distinct = hash of the full payload")
PARTIAL = ["float64 rounding of the solves: compared within c*eps*cond(system) of the exact solution of the stated normal "
           "equations (cond computed a posteriori from the implementation's own matrices)"]
ASSUMPTIONS = ["numpy.linalg.solve/cholesky as reference solvers for the stated normal equations"]
TRUSTED_EXTRA = ["LAPACK potrf/trsm behind jnp.linalg.cholesky / solve_triangular: contract = unique Cholesky factor / "
                 "triangular solution (proved for the model's own implementation: chol?_spec, solveLower_spec, solveUpperT_spec)"]
CLAIM = {
    "text": "Lean theorems over R for all sizes, data, kernels and noise forms: chol? yields L with L L^T = A (Cholesky "
            "correctness proved for the executable algorithm), triangular solves are exact, hence the full-GP weights solve "
            "(K+N) w = y - mu with N the stated regulariser per noise form, the DTC weights solve (L N L^T + Kuf Kfu) w = Kuf (y-mu) "
            "for a scalar sigma / y_is_mean (dtc_weights_solve) and the heteroscedastic system (Kuu + jitter I + Kuf D^-1 Kfu) w = "
            "Kuf D^-1 (y-mu), D = diag(max(sigma_i^2, jitter)), for a per-cell sigma vector (dtc_percell_weights_solve; a constant "
            "vector gives the scalar's weights, dtc_const_vector_weights), the latent weights solve L^T w = z; mean(x*) = mu + sum_j k(x*,x_j) w_j row by row, so a row's value does not depend "
            "on the batch. Tied to /repo by building the 9 predictor classes through compute_conditional* and through the model "
            "driver on the same inputs, plus residual/normal-equation oracles on the implementation's own state.",
    "note": "LAPACK/XLA float64 execution is modelled away (tolerances proportional to eps*cond, measured a posteriori). "
            "A sigma vector with landmarks is the noise of the cells (one entry per cell, any number of landmarks; fixed defect "
            "20d7957, signature C01:per-cell-sigma-landmarks); a vector of any other length is refused (ValueError).",
    "technique": "Lean 4 proof (Cholesky + triangular solve correctness by induction, matrix algebra) + differential "
                 "correspondence and normal-equation residual oracles",
}


def run_case(ctx, res, p):
    m = mellon()
    if p.get("op") == "percell":
        return run_percell(ctx, res, p)
    variant, family = p["variant"], p["family"]
    tree = totuple(p["tree"])
    X = np.asarray(p["X"], float)
    Xq = np.asarray(p["Xq"], float)
    Xu = None if p.get("Xu") is None else np.asarray(p["Xu"], float)
    Y = None if p.get("Y") is None else np.asarray(p["Y"], float)
    Z = None if p.get("Z") is None else np.asarray(p["Z"], float)
    mu, jitter = float(p["mu"]), float(p["jitter"])
    sigma = p.get("sigma")
    if sigma is not None and np.ndim(sigma) > 0:
        sigma = np.asarray(sigma, float)
    y_is_mean = bool(p["y_is_mean"])
    n, d = X.shape
    cov = cov_to_mellon(tree)
    for k in ("variant", "family"):
        res.count(f"{k}={p[k]}")
    res.count("sigma=" + ("None" if sigma is None else ("vec" if np.ndim(sigma) else
                          ("0" if sigma == 0 else ("<sqrt(j)" if sigma ** 2 < jitter else "scalar")))))
    res.count("y_is_mean=%s" % y_is_mean)
    res.count("stream=" + p.get("stream", "?"))
    res.count("kernel=" + tree[0])
    if Xu is not None:
        res.count("m<n" if Xu.shape[0] < n else ("m=n" if Xu.shape[0] == n else "m>n"))
    res.count("cols=%d" % (1 if (Y if Y is not None else Z).ndim == 1 else (Y if Y is not None else Z).shape[1]))
    sample = {k: (v if not isinstance(v, np.ndarray) else list(v.shape)) for k, v in p.items() if k != "tree"}
    sample["tree"] = cov_str(tree)
    canon = repr([(k, v.tobytes() if isinstance(v, np.ndarray) else v) for k, v in sorted(p.items())])

    Lgiven = None
    Kb = None
    basis = X if family == "full" else Xu
    Kbb = cu.kernel_np(cov, basis, basis)
    # regulariser the property states
    unc = p.get("unc")
    std = None if unc is None else np.asarray(unc["std"], float)
    Lest = None if unc is None or unc.get("Lest") is None else np.asarray(unc["Lest"], float)
    ycf = None if Lest is None else Lest * std[None, :]
    wu = unc is not None
    res.count("uncertainty_options=" + ("none" if unc is None else ("factor" if Lest is not None else "std")))
    # DTC family: a sigma vector (values not the mean, no explicit factor) is the noise of the cells
    per_cell = bool(family == "lm" and sigma is not None and np.ndim(sigma) == 1 and not y_is_mean and ycf is None)
    wrong_len = bool(per_cell and sigma.shape[0] != n)
    Dcell = None
    if per_cell:
        res.count("lm:per-cell-sigma:" + ("wrong-length" if wrong_len else
                                          ("m<n" if Xu.shape[0] < n else "m=n" if Xu.shape[0] == n else "m>n")))
    if family == "full":
        if sigma is None and not y_is_mean and ycf is not None:
            Nmat = cu.noise_matrix(n, None, jitter, False, ycf=ycf)
        else:
            Nmat = None if (sigma is None and not y_is_mean) else cu.noise_matrix(n, sigma, jitter, y_is_mean)
    elif family == "lm":
        # scalar sigma / y_is_mean: regulariser sized by the landmarks; per-cell vector: D = diag(max(sigma_i^2, jitter)) on
        # the CELLS (Nmat stays None, the reference system is built from Dcell below)
        if per_cell:
            Nmat = None
            if not wrong_len:
                Dcell = np.where(sigma ** 2 < jitter, jitter, sigma ** 2)
        else:
            Nmat = None if (sigma is None and not y_is_mean) else cu.noise_matrix(
                Xu.shape[0], None if y_is_mean else sigma, jitter, y_is_mean)
    else:
        Nmat = None if (sigma is None and not y_is_mean) else cu.noise_matrix(Xu.shape[0], sigma, jitter, y_is_mean)
    if p.get("Lgiven") and Nmat is not None and family in ("full", "chol"):
        try:
            Lgiven = np.linalg.cholesky(Kbb + Nmat)
        except np.linalg.LinAlgError:
            Lgiven = None

    # a numerically singular regularised system (a nearly singular kernel matrix plus a low-rank noise factor) has no
    # meaningful float solution: weights of 1e12 and beyond, exp overflow in the positive-valued variants.  Such inputs are
    # ill-posed, not violations; they are counted and skipped (the refusal twin of this case is handled below).
    if Nmat is not None and Lgiven is None and ycf is not None and not y_is_mean:
        c0 = np.linalg.cond(Kbb + Nmat)
        if not np.isfinite(c0) or c0 > 1e12:
            res.count("skipped:numerically-singular-noise-factor-system")
            return
    # ---------------- implementation
    yimpl = Y
    try:
        if family == "full":
            pred = cu.build_impl(variant, X, None, None, std, yimpl, mu, cov, Lest, Lgiven, sigma, jitter, y_is_mean, wu)
        elif family == "lm":
            pred = cu.build_impl(variant, X, Xu, None, std, yimpl, mu, cov, Lest, None, sigma, jitter, y_is_mean, wu)
        else:
            pred = cu.build_impl(variant, X, Xu, Z, std, np.zeros(n), mu, cov, None, Lgiven, sigma, jitter, y_is_mean, wu)
        impl_status = "ok"
    except Exception as e:
        pred, impl_status = None, exc_class(e)
    expected_cls = {("plain", "full"): "FullConditional", ("plain", "lm"): "LandmarksConditional",
                    ("plain", "chol"): "LandmarksConditionalCholesky", ("exp", "full"): "ExpFullConditional",
                    ("exp", "lm"): "ExpLandmarksConditional", ("exp", "chol"): "ExpLandmarksConditionalCholesky",
                    ("time", "full"): "FullConditionalTime", ("time", "lm"): "LandmarksConditionalTime",
                    ("time", "chol"): "LandmarksConditionalCholeskyTime"}[(variant, family)]
    # values the conditional is built on (exp variants condition on log y)
    if family != "chol":
        import jax.numpy as jnp
        Ycond = np.asarray(jnp.log(jnp.asarray(Y)), float) if variant == "exp" else Y
    # ---------------- model
    mod = None
    if ctx["driver"] is not None:
        if family == "full":
            mod = cu.model_full(ctx["driver"], tree, X, Ycond, mu, Lgiven, sigma, jitter, ycf, y_is_mean, wu, Xq)
        elif family == "lm":
            mod = cu.model_lm(ctx["driver"], tree, X, Xu, Ycond, mu, sigma, jitter, ycf, y_is_mean, wu, Xq)
        else:
            mod = cu.model_lmchol(ctx["driver"], tree, Xu, Z, mu, n, Lgiven, std if std is not None else sigma, jitter,
                                  y_is_mean, wu, Xq)

    if impl_status != "ok":
        res.case(canon, False, sample)
        res.count("impl_refused=" + impl_status)
        # refusal must be the documented ValueError for a missing noise specification
        if wrong_len:
            if impl_status != "ValueError":
                res.oracle_fail(f"a per-cell sigma of the wrong length raised {impl_status} instead of ValueError", p,
                                signature="C01:per-cell-sigma-length")
        elif sigma is None and not y_is_mean and Lgiven is None and ycf is None:
            if impl_status != "ValueError":
                res.oracle_fail(f"missing noise specification raised {impl_status} instead of ValueError", p,
                                signature="C01:refusal-class")
        else:
            # a factorisation may legitimately refuse a matrix that is not numerically positive definite (e.g. a nearly
            # singular kernel matrix plus a low-rank noise factor): `full_accepts_posdef` only promises acceptance of PD input
            legit = False
            if impl_status == "ValueError" and (Nmat is not None or Dcell is not None) and Lgiven is None:
                ev = np.linalg.eigvalsh(Kbb + (Nmat if Nmat is not None else jitter * np.eye(Kbb.shape[0])))
                legit = bool(ev[0] <= 1e4 * EPS * max(ev[-1], 1e-300))
                res.count("impl_refused:not-numerically-PD=%s" % legit)
            if not legit:
                res.oracle_fail(f"building the predictor raised {impl_status}", p, signature="C01:build-raises")
        if mod is not None and not mod["status"].startswith(impl_status.split(":")[0]):
            res.corr_fail(f"refusal differs: impl {impl_status}, model {mod['status']}", p)
        return

    # ---------------- oracle on the implementation
    if wrong_len:
        res.case(canon, False, sample)
        res.oracle_fail(f"a per-cell sigma with {sigma.shape[0]} entries is accepted although there are {n} cells "
                        "(documented: one entry per cell, else ValueError)", p, signature="C01:per-cell-sigma-length")
        return
    if type(pred).__name__ != expected_cls:
        res.oracle_fail(f"dispatch chose {type(pred).__name__}, expected {expected_cls}", p, signature="C01:dispatch")
    st = pred.to_dict()["data"]
    from mellon.util import deserialize
    w = np.asarray(deserialize(st["weights"]), float)
    bkey = "x" if family == "full" else "landmarks"
    bs = np.asarray(deserialize(st[bkey]), float)
    if bs.shape != basis.shape or not np.array_equal(bs, basis) or float(deserialize(st["mu"])) != mu:
        res.oracle_fail("stored basis points / mu differ from the inputs", p, signature="C01:state")
    out = np.asarray(pred(Xq), float)
    raw = np.log(out) if variant == "exp" else out
    Kqb = cu.kernel_np(cov, Xq, basis)
    # (a) mean formula: mu + k(Xq, basis) @ weights
    ref_mean = mu + Kqb @ w
    scale = max(np.max(np.abs(ref_mean)), abs(mu), 1e-300)
    with np.errstate(all="ignore"):
        ref_out = np.exp(ref_mean) if variant == "exp" else ref_mean
    # exp overflow of an enormous log-scale mean (ill-conditioned systems) must happen on both sides alike
    fin = np.isfinite(ref_out.reshape(out.shape)) & np.isfinite(out)
    if np.any(np.isfinite(ref_out.reshape(out.shape)) != np.isfinite(out)):
        res.oracle_fail("prediction is non-finite where mu + k(Xq, basis) @ weights is finite (or vice versa)", p,
                        signature="C01:nonfinite-prediction")
        return
    if not np.any(fin):
        res.count("skipped:all-predictions-overflow")
        return
    with np.errstate(all="ignore"):
        dev_formula = np.max(np.abs(ref_out.reshape(out.shape) - out)[fin]) / max(np.max(np.abs(out[fin])), 1e-300)
    # rounding of the dot product mu + sum_j k_j w_j is amplified by cancellation when the weights are large
    W2a = np.abs(cu.as2d(w))
    amp = float(np.max(np.abs(Kqb) @ W2a) + abs(mu)) / max(float(np.max(np.abs(ref_mean))), 1e-300)
    if variant == "exp":
        amp *= max(1.0, float(np.max(np.abs(ref_mean))))     # exp turns absolute into relative error
    tol_formula = 1e3 * EPS * amp + 1e-13
    res.dev("mean_formula_over_tol", dev_formula / tol_formula)
    if dev_formula > tol_formula:
        res.oracle_fail("prediction is not mu + k(Xq, basis) @ weights", p, detail={"rel": dev_formula},
                        signature="C01:mean-formula")
    # (b) weights solve the stated normal equations
    W2 = cu.as2d(w)
    if family == "full":
        M = Kbb + Nmat if Lgiven is None else Lgiven @ Lgiven.T
        rhs = cu.as2d(Ycond) - mu
    elif family == "lm" and per_cell:
        # heteroscedastic inducing-point (DTC) conditional mean, built from the inputs only:
        # (Kuu + jitter I + Kuf D^-1 Kfu) w = Kuf D^-1 (y - mu), D = diag(max(sigma_i^2, jitter)) on the cells
        Kuf = cu.kernel_np(cov, Xu, X)
        M = Kbb + jitter * np.eye(Kbb.shape[0]) + (Kuf / Dcell[None, :]) @ Kuf.T
        rhs = (Kuf / Dcell[None, :]) @ (cu.as2d(Ycond) - mu)
    elif family == "lm":
        Lnp = np.linalg.cholesky(Kbb + jitter * np.eye(Kbb.shape[0]))
        Kuf = cu.kernel_np(cov, Xu, X)
        M = Lnp @ Nmat @ Lnp.T + Kuf @ Kuf.T
        rhs = Kuf @ (cu.as2d(Ycond) - mu)
    else:
        Lnp = Lgiven if Lgiven is not None else np.linalg.cholesky(Kbb + Nmat)
        M = Lnp.T
        rhs = cu.as2d(Z)
    condM = np.linalg.cond(M)
    if family == "lm":
        # the DTC route factorises K_uu + jitter I first: its conditioning enters the rounding error too
        condM = max(condM, np.linalg.cond(Kbb + jitter * np.eye(Kbb.shape[0])))
    res.dev("cond_max", condM)
    nontrivial = bool(np.any(np.abs(raw - mu) > 1e-12 * max(1.0, abs(mu))))
    res.case(canon, nontrivial, sample)
    try:
        Wref = np.linalg.solve(M, rhs)
    except np.linalg.LinAlgError:
        res.notes.append("reference system singular; case skipped")
        return
    pred_ref = mu + Kqb @ Wref
    # kernel values themselves are only determined up to the cancellation interval of xx-2xy+yy (covoracle);
    # propagate that width through the solve
    from .. import covoracle as co
    wK = 0.0
    for (A_, B_) in ((basis, basis), (Xq, basis)) + (((Xu, X),) if family == "lm" else ()):
        lo_, hi_ = co.interval(tree, A_, B_)
        wK = max(wK, float(np.max(hi_ - lo_)))
    res.dev("kernel_interval_width", wK)
    # scale of the comparison: the prediction's deviation from mu, floored (query points far from every basis
    # point predict mu itself, and a relative deviation of rounding noise is meaningless)
    pscale = max(np.max(np.abs(pred_ref - mu)), 1e-6 * np.max(np.abs(Kqb)) * np.max(np.abs(Wref)) + 1e-300,
                 1e-9 * abs(mu))
    wnorm = max(float(np.max(np.sum(np.abs(Wref), axis=0))), float(np.max(np.sum(np.abs(W2), axis=0))))
    tol = 1e3 * EPS * condM + 1e-10 + 20 * wK * wnorm * (1 + condM) * (Kbb.shape[0] if family == "lm" else 1) / pscale
    # error amplification from weights to predictions is bounded by cond(M); a-posteriori tolerance
    afloor = 100 * EPS * (abs(mu) + 1.0)     # absolute rounding floor of mu + (...) and of log(exp(.))
    dev = max(np.max(np.abs(pred_ref - cu.as2d(raw).reshape(pred_ref.shape))) - afloor, 0.0) / pscale
    res.dev("normal_eq_pred_rel_over_tol", dev / tol)
    if dev > tol and tol < 1e-2:
        res.oracle_fail("weights do not solve the stated regularised normal equations", p,
                        detail={"rel_dev": float(dev), "tol": float(tol), "cond": float(condM)},
                        signature="C01:normal-equations")
    # residual form (insensitive to conditioning) for the full and latent formulations
    if family in ("full", "chol"):
        resid = np.max(np.abs(M @ W2 - rhs))
        bound = 500 * M.shape[0] * EPS * (np.linalg.norm(M, 1) * np.max(np.abs(W2)) + np.max(np.abs(rhs))) * \
            (np.linalg.cond(Lnp) if family == "chol" else 1.0) + 1e-300
        res.dev("residual_over_bound", resid / bound)
        if resid > bound:
            res.oracle_fail("normal-equation residual exceeds the backward-stability bound", p,
                            detail={"resid": float(resid), "bound": float(bound)}, signature="C01:residual")
    # (c) a row's value depends on that row only
    q = Xq.shape[0]
    perm = np.random.default_rng(q * 7919 + n).permutation(q)
    outp = np.asarray(pred(Xq[perm]), float)
    single = np.stack([np.asarray(pred(Xq[i:i + 1]), float)[0] for i in range(min(q, 3))])
    oscale = max(np.max(np.abs(out[fin])), 1e-300)
    with np.errstate(all="ignore"):
        same = lambda a_, b_: np.where(np.isfinite(a_) & np.isfinite(b_), np.abs(a_ - b_), np.where(a_ == b_, 0.0, np.inf))
        d1 = np.max(same(outp, out[perm])) / oscale
        d2 = np.max(same(single, out[:min(q, 3)])) / oscale
    res.dev("batch_independence_over_tol", max(d1, d2) / tol_formula)
    if max(d1, d2) > tol_formula:
        res.oracle_fail("a query row's value depends on the other rows / their order", p,
                        detail={"perm": float(d1), "single": float(d2)}, signature="C01:batch")
    # ---------------- correspondence
    if mod is not None:
        if mod["status"] != "ok":
            res.corr_fail(f"model refuses ({mod['status']}) what the implementation accepts", p)
            return
        mm = mod["mean"].reshape(cu.as2d(raw).shape)
        devm = max(np.max(np.abs(mm - cu.as2d(raw))) - afloor, 0.0) / pscale
        res.dev("model_vs_impl_mean_over_tol", devm / tol)
        Kw_model = Kqb @ mod["weights"]
        if devm > tol and tol < 1e-2:
            res.corr_fail("model and implementation predictions differ", p,
                          detail={"rel_dev": float(devm), "tol": float(tol)})


EPS = np.finfo(float).eps


def gen_case(rng, stream):
    variant = ["plain", "exp", "time"][rng.integers(3)]
    family = ["full", "lm", "chol"][rng.integers(3)]
    # small menu of shapes (XLA compiles every primitive per shape)
    n = 8 if stream == "sharp" else [8, 24][rng.integers(2)]
    d = [1, 3][rng.integers(2)]
    q = 4
    X, kind = gen_points(rng, n, d, kind="plain" if stream == "sharp" else None, scale=1.0)
    Xq, _ = gen_points(rng, q, d, kind="plain", scale=1.2)
    if variant == "time":
        tt = rng.integers(0, 3, size=n).astype(float)
        X = np.c_[X, tt]
        Xq = np.c_[Xq, rng.uniform(0, 2, size=q)]
    if stream == "sharp":
        ls = loguniform(rng, 0.7, 2.5)
        jitter = loguniform(rng, 1e-3, 1e-1)
    else:
        ls = loguniform(rng, 0.3, 30.0)
        jitter = loguniform(rng, 1e-8, 1e-3)
    if variant == "time":
        kind_k = ["M32", "M52", "EQ", "EX"][rng.integers(4)]
        tree = cu.time_tree(kind_k, ls, loguniform(rng, 0.5, 3.0))
    else:
        tree = cu.gen_stationary_tree(rng, d, ls)
    Xu = None
    if family != "full":
        msel = rng.integers(3)
        m = [n // 2, n, n + 3][msel]
        if msel == 1 and rng.random() < 0.5:
            Xu = X.copy()
        elif m <= n and rng.random() < 0.5:
            Xu = X[rng.permutation(n)[:m]].copy()
        else:
            Xu, _ = gen_points(rng, m, X.shape[1] - (1 if variant == "time" else 0), kind="plain", scale=1.0)
            if variant == "time":
                Xu = np.c_[Xu, rng.integers(0, 3, size=m).astype(float)]
    cols = [1, 1, 2][rng.integers(3)]
    mu = float(rng.normal() * 2)
    y_is_mean = bool(rng.random() < 0.35)
    # length of a sigma vector: the cells for the full and the DTC family (the noise belongs to the observations), the
    # landmarks for the Cholesky-latent family (there sigma is the standard deviation of the latent vector)
    nb = Xu.shape[0] if family == "chol" else n
    sform = rng.integers(6)
    if sform == 0:
        sigma = 0.0
    elif sform == 1:
        sigma = float(np.sqrt(jitter) * rng.uniform(0.1, 0.9))
    elif sform == 2:
        sigma = loguniform(rng, 0.05, 1.0)
    elif sform == 3:
        sigma = np.exp(rng.uniform(np.log(0.5 * np.sqrt(jitter)), np.log(1.0), size=nb))
    elif sform == 4:
        sigma = 0 if y_is_mean else None      # int zero as passed by the estimators / missing
    else:
        sigma = None if y_is_mean else loguniform(rng, 0.05, 1.0)
    if family == "lm" and sigma is not None and np.ndim(sigma) > 0 and Xu.shape[0] != n and not y_is_mean \
            and rng.random() < 0.12:
        # one entry per LANDMARK instead of per cell: must be refused (ValueError)
        sigma = np.exp(rng.uniform(np.log(0.5 * np.sqrt(jitter)), np.log(1.0), size=Xu.shape[0]))
    # uncertainty options must not change the conditional mean: with y_is_mean the regulariser stays jitter*I whatever
    # latent standard deviations / factor are passed along; for the full model without sigma the factor defines the noise
    unc = None
    if rng.random() < 0.3:
        if y_is_mean:
            sigma = None if rng.random() < 0.5 else 0
            if family == "chol":
                unc = {"std": np.exp(rng.uniform(-3, 0, size=nb))}
            else:
                r = [2, n][rng.integers(2)]
                unc = {"std": np.exp(rng.uniform(-3, 0, size=r)), "Lest": rng.normal(size=(n, r)) * 0.5}
        elif family == "full" and sigma is None:
            r = [2, n][rng.integers(2)]
            unc = {"std": np.exp(rng.uniform(-3, 0, size=r)), "Lest": rng.normal(size=(n, r)) * 0.5}
    Y = Z = None
    if family == "chol":
        Z = rng.normal(size=(Xu.shape[0], cols) if cols > 1 else Xu.shape[0])
    else:
        Y = rng.normal(size=(n, cols) if cols > 1 else n) * 1.5 + mu
        if variant == "exp":
            Y = np.exp(0.3 * (Y - mu)) + 0.1
            mu = float(rng.normal() * 0.3)
    return {"op": "cond", "variant": variant, "family": family, "tree": tree, "X": X, "Xu": Xu, "Y": Y, "Z": Z,
            "mu": mu, "jitter": jitter, "sigma": sigma, "y_is_mean": y_is_mean,
            "Lgiven": bool(rng.random() < 0.25), "Xq": Xq, "stream": stream, "unc": unc}


def percell_payloads():
    """Always-run regression cases of the fixed defect 20d7957 (a per-cell sigma with landmarks was sized by the LANDMARKS:
    refused for m != n, and for m = n silently attached to the landmarks): fixed data, a clearly non-constant per-cell sigma,
    landmarks = cells in the given and in a permuted order (m = n), a subset (m < n) and a superset (m > n)."""
    rng = np.random.default_rng(20260907)
    out = []
    for d, kind in ((2, "M52"), (1, "EQ")):
        n = 8
        X = rng.uniform(-1.5, 1.5, size=(n, d))
        Xq = rng.uniform(-1.5, 1.5, size=(4, d))
        Y = np.c_[np.sin(2 * X[:, 0]) + 0.3 * rng.normal(size=n), rng.normal(size=n)]
        sg = np.exp(rng.uniform(np.log(0.05), np.log(0.8), size=n))
        extra = rng.uniform(-1.5, 1.5, size=(3, d))
        for name, Xu in (("m=n", X.copy()), ("m=n-permuted", X[::-1].copy()), ("m<n", X[:5].copy()),
                         ("m>n", np.r_[X, extra])):
            out.append({"op": "percell", "name": name, "tree": (kind, 1.0, ("AN",)), "X": X, "Xu": Xu, "Y": Y, "mu": 0.3,
                        "jitter": 1e-6, "sigma": sg, "Xq": Xq})
    return out


def run_percell(ctx, res, p):
    """DTC predictor with a per-cell sigma vector: (i) it is built for every number of landmarks; (ii) its prediction is the
    heteroscedastic DTC conditional mean (numpy, from the inputs only); (iii) with the cells themselves as landmarks it
    agrees with the full model up to O(jitter): (K~ + K D^-1 K)(w_full - w) = jitter * w_full."""
    SIG = "C01:per-cell-sigma-landmarks"
    tree = totuple(p["tree"])
    X, Xu, Xq, Y = (np.asarray(p[k], float) for k in ("X", "Xu", "Xq", "Y"))
    sg = np.asarray(p["sigma"], float)
    mu, jitter = float(p["mu"]), float(p["jitter"])
    n, m = X.shape[0], Xu.shape[0]
    cov = cov_to_mellon(tree)
    res.count("percell:" + p["name"])
    canon = repr([(k, v.tobytes() if isinstance(v, np.ndarray) else v) for k, v in sorted(p.items())])
    res.case(canon, True, {"op": "percell", "name": p["name"], "n": n, "m": m, "tree": cov_str(tree)})
    try:
        pred = cu.build_impl("plain", X, Xu, None, None, Y, mu, cov, None, None, sg, jitter, False, False)
    except Exception as e:
        res.oracle_fail(f"LandmarksConditional with a per-cell sigma vector ({n} cells, {m} landmarks) raised "
                        f"{exc_class(e)}: {str(e)[:100]}", p, signature=SIG)
        return
    out = np.asarray(pred(Xq), float)
    D = np.where(sg ** 2 < jitter, jitter, sg ** 2)
    Kuu, Kuf, Kqu = cu.kernel_np(cov, Xu, Xu), cu.kernel_np(cov, Xu, X), cu.kernel_np(cov, Xq, Xu)
    M = Kuu + jitter * np.eye(m) + (Kuf / D[None, :]) @ Kuf.T
    r = Y - mu
    ref = mu + Kqu @ np.linalg.solve(M, (Kuf / D[None, :]) @ r)
    scale = max(float(np.max(np.abs(ref - mu))), 1e-300)
    condM = max(np.linalg.cond(M), np.linalg.cond(Kuu + jitter * np.eye(m)))
    tol = 1e3 * EPS * condM + 1e-10
    dev = float(np.max(np.abs(out - ref))) / scale
    res.dev("percell_vs_heteroscedastic_dtc_over_tol", dev / tol)
    if dev > tol:
        res.oracle_fail("DTC prediction with a per-cell sigma vector is not the heteroscedastic inducing-point conditional "
                        "mean (Kuu + jitter I + Kuf D^-1 Kfu) w = Kuf D^-1 (y - mu)", p,
                        detail={"rel_dev": dev, "tol": float(tol), "m": m, "n": n}, signature=SIG)
    if m == n and np.array_equal(np.sort(Xu, axis=0), np.sort(X, axis=0)):
        # landmarks = cells: the full conditional mean up to O(jitter)
        Kxx, Kqx = cu.kernel_np(cov, X, X), cu.kernel_np(cov, Xq, X)
        wf = np.linalg.solve(Kxx + np.diag(D), r)
        full = mu + Kqx @ wf
        # exact difference of the two models: K_qu (K~ + K D^-1 K)^-1 jitter w_full (rows in the order of the landmarks)
        perm = [int(np.where((X == Xu[i]).all(axis=1))[0][0]) for i in range(m)]
        gap = float(np.max(np.abs(Kqu @ np.linalg.solve(M, jitter * wf[perm]))))
        devf = float(np.max(np.abs(out - full))) / scale
        tolf = 100 * gap / scale + tol
        res.dev("percell_vs_full_over_tol", devf / tolf)
        res.dev("percell_vs_full_rel", devf)
        if devf > tolf:
            res.oracle_fail("with the cells as landmarks the DTC prediction with a per-cell sigma vector differs from the "
                            "full conditional mean by more than O(jitter)", p,
                            detail={"rel_dev": devf, "tol": float(tolf), "jitter": jitter}, signature=SIG)
        try:
            fullp = cu.build_impl("plain", X, None, None, None, Y, mu, cov, None, None, sg, jitter, False, False)
            devi = float(np.max(np.abs(out - np.asarray(fullp(Xq), float)))) / scale
            res.dev("percell_vs_FullConditional_over_tol", devi / tolf)
            if devi > tolf:
                res.oracle_fail("with the cells as landmarks LandmarksConditional and FullConditional disagree for a "
                                "per-cell sigma vector by more than O(jitter)", p,
                                detail={"rel_dev": devi, "tol": float(tolf)}, signature=SIG)
        except Exception as e:
            res.oracle_fail(f"FullConditional with a per-cell sigma raised {exc_class(e)}", p, signature="C01:build-raises")
    # correspondence with the model
    if ctx["driver"] is not None:
        mod = cu.model_lm(ctx["driver"], tree, X, Xu, Y, mu, sg, jitter, None, False, False, Xq)
        if mod["status"] != "ok":
            res.corr_fail(f"model refuses ({mod['status']}) what the implementation accepts", p)
        else:
            devm = float(np.max(np.abs(mod["mean"].reshape(out.shape) - out))) / scale
            res.dev("percell_model_vs_impl_over_tol", devm / tol)
            if devm > tol:
                res.corr_fail("model and implementation predictions differ (per-cell sigma, landmarks)", p,
                              detail={"rel_dev": devm, "tol": float(tol)})


def run(ctx, res):
    rng = ctx["rng"]
    quick = ctx["tier"] == "quick"
    budget = ctx["budget"] or (60 if quick else 540)
    t_end = time.time() + budget
    mellon()
    for p in percell_payloads():
        run_case(ctx, res, p)
    i = 0
    while time.time() < t_end:
        run_case(ctx, res, gen_case(rng, "sharp" if i % 3 != 2 else "wide"))
        i += 1
