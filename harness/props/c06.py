"""C06 — predictive uncertainty is a valid covariance, consistent with the mean function."""
import time
import numpy as np
from ..common import mellon, cov_to_mellon, cov_str, loguniform, gen_points, totuple, exc_class
from .. import condutil as cu
from .. import covoracle as co

EPS = np.finfo(float).eps
RULE = ("cases = (variant plain/exp/time, family full/DTC/Cholesky-latent, kernel tree, data, source of input uncertainty "
        "{latent std through a factor L*std, scalar sigma, vector sigma (one entry per cell; DTC: m<n, m=n, m>n landmarks), latent "
        "std vector}, y_is_mean, inducing points, query "
        "set {out-of-sample, in-sample rows, duplicated rows}); every case checks symmetry, PSD, diag consistency, "
        "0 <= var <= k(x,x), variance at conditioning points <= regulariser, linear propagation of the input factor, "
        "uncertainty = covariance + mean_covariance, guards, and compares all six outputs with the Lean model; "
        "non-trivial = posterior variance differs from the prior variance somewhere")
PARTIAL = ["posterior covariance PSD / var >= 0 needs the kernel to be PSD: proved for expressions over ExpQuad / Linear leaves "
           "(cov_psd_of_psd_kernel + PSD.psdTree_psdOn), named hypothesis for Matern / Exponential / RatQuad leaves; checked "
           "numerically here",
           "'of the order of the jitter at conditioning points' is proved as var(x_b) <= N_bb (= jitter for jitter-only "
           "regularisation; var_at_conditioning_le); 'never increases when inducing points are added' is proved for "
           "regularisers that agree on the common block (var_antitone_in_inducing); both also checked numerically "
           "(nested sets, float64)"]
ASSUMPTIONS = ["absolute tolerances c*eps*cond(regularised kernel)*prior variance, cond measured a posteriori"]
CLAIM = {
    "text": "Lean theorems over R for the three families: covariance(X*) = K** - A^T A with L A = K_b* (the formula "
            "K** - K*b (L L^T)^-1 Kb*), it is symmetric, its diagonal is covariance(X*, diag=True), each variance is at most "
            "the prior variance k(x,x); mean_covariance = (K*b W)(K*b W)^T is symmetric positive semi-definite "
            "(unconditionally) and W solves (L L^T) W = input factor (full) resp. L^T W = diag(std) (latent) resp. the DTC system of "
            "the weights with the input factor as right-hand side (dtc_W_solves; per-cell sigma vector: (Kuu + jitter I + Kuf D^-1 "
            "Kfu) W = Kuf D^-1 diag(sigma), D = diag(max(sigma_i^2, jitter)), so W W^T = M diag(sigma^2) M^T, dtc_percell_W_solves), i.e. it is the "
            "linear propagation of the stated input covariance through the mean; uncertainty is exactly the sum; predictors "
            "built without uncertainty refuse. Tied to /repo by comparing covariance / mean_covariance / uncertainty "
            "(diag and full) of the 9 classes with the model driver and by independent oracles (eigvalsh, refit with shifted "
            "values, nested inducing sets).",
    "note": "var >= 0 / PSD of the posterior covariance assumes a PSD kernel (proved for ExpQuad / Linear expressions; named "
            "hypothesis for Matern / Exponential / RatQuad: Bochner is not in Mathlib).",
    "technique": "Lean 4 proof (matrix algebra over the proved Cholesky/solve specs) + differential correspondence + "
                 "metamorphic oracles",
}


def build(p, with_unc, Yover=None, Zover=None, Xu_over=None):
    tree = totuple(p["tree"])
    cov = cov_to_mellon(tree)
    X = np.asarray(p["X"], float)
    fam = p["family"]
    Xu = None if fam == "full" else np.asarray(p["Xu"] if Xu_over is None else Xu_over, float)
    Y = p.get("Y") if Yover is None else Yover
    Z = p.get("Z") if Zover is None else Zover
    std = p.get("std")
    Lest = p.get("Lest")
    sigma = p.get("sigma")
    if sigma is not None and np.ndim(sigma) > 0:
        sigma = np.asarray(sigma, float)
    if fam == "chol":
        if std is not None and len(std) != Xu.shape[0]:
            std = np.asarray(std, float)[: Xu.shape[0]]
        return cu.build_impl(p["variant"], X, Xu, Z, std, np.zeros(X.shape[0]), p["mu"], cov, Lest, None, sigma,
                             p["jitter"], p["y_is_mean"], with_unc), cov
    return cu.build_impl(p["variant"], X, Xu, None, std, Y, p["mu"], cov, Lest, None, sigma, p["jitter"],
                         p["y_is_mean"], with_unc), cov


def run_case(ctx, res, p):
    tree = totuple(p["tree"])
    X = np.asarray(p["X"], float)
    Xq = np.asarray(p["Xq"], float)
    fam, variant = p["family"], p["variant"]
    mu, jitter = float(p["mu"]), float(p["jitter"])
    n = X.shape[0]
    for k in ("variant", "family", "source", "y_is_mean", "query"):
        res.count(f"{k}={p[k]}")
    sample = {k: (v if not isinstance(v, np.ndarray) else list(v.shape)) for k, v in p.items() if k != "tree"}
    sample["tree"] = cov_str(tree)
    canon = repr([(k, v.tobytes() if isinstance(v, np.ndarray) else v) for k, v in sorted(p.items())])
    try:
        pred, cov = build(p, True)
    except Exception as e:
        res.case(canon, False, sample)
        cls = exc_class(e)
        res.count("refused=" + cls)
        expected_refusal = (fam == "chol" and not p["y_is_mean"] and p.get("std") is None)
        if not (expected_refusal and cls == "ValueError"):
            res.oracle_fail(f"building the predictor with uncertainty raised {cls}: {str(e)[:80]}", p,
                            signature="C06:build:" + cls)
        if ctx["driver"] is not None and expected_refusal:
            mod = cu.model_lmchol(ctx["driver"], tree, np.asarray(p["Xu"], float), p["Z"], mu, n, None, p.get("sigma"),
                                  jitter, p["y_is_mean"], True, Xq)
            if not mod["status"].startswith("ValueError"):
                res.corr_fail(f"model does not refuse like the implementation: {mod['status']}", p)
        return
    basis = X if fam == "full" else np.asarray(p["Xu"], float)
    nb = basis.shape[0]
    q = Xq.shape[0]
    V = np.asarray(pred.covariance(Xq), float)
    C = np.asarray(pred.covariance(Xq, diag=False), float)
    MV = np.asarray(pred.mean_covariance(Xq), float)
    MC = np.asarray(pred.mean_covariance(Xq, diag=False), float)
    U = np.asarray(pred.uncertainty(Xq, diag=False), float)
    UD = np.asarray(pred.uncertainty(Xq), float)
    Kqq = cu.kernel_np(cov, Xq, Xq)
    Kbb = cu.kernel_np(cov, basis, basis)
    Kbq = cu.kernel_np(cov, basis, Xq)
    prior = np.diag(Kqq)
    res.case(canon, bool(np.any(np.abs(V - prior) > 1e-9 * np.max(np.abs(prior)))), sample)
    # the regulariser of the stored factor
    sigma = p.get("sigma")
    if fam == "full" and not p["y_is_mean"]:
        if p.get("std") is not None:
            F = np.asarray(p["Lest"], float) * np.asarray(p["std"], float)[None, :]
            Nmat = cu.noise_matrix(n, None, jitter, False, ycf=F)
        else:
            Nmat = cu.noise_matrix(n, sigma, jitter, False)
    elif fam == "chol" and not p["y_is_mean"]:
        Nmat = cu.noise_matrix(nb, sigma, jitter, False)
    else:
        Nmat = jitter * np.eye(nb)
    Kreg = Kbb + Nmat
    condK = np.linalg.cond(Kreg)
    res.dev("cond_max", condK)
    pscale = max(np.max(np.abs(Kqq)), 1e-300)
    wK = 0.0
    for (A_, B_) in ((basis, basis), (basis, Xq), (Xq, Xq)):
        lo_, hi_ = co.interval(tree, A_, B_)
        wK = max(wK, float(np.max(hi_ - lo_)))
    atol = (1e3 * EPS * condK + 50 * wK * condK * nb) * pscale + 1e-13
    sharp = atol < 1e-4 * pscale
    # (1) reference formula  K** - K*b Kreg^-1 Kb*
    Cref = Kqq - Kbq.T @ np.linalg.solve(Kreg, Kbq)
    dv = np.max(np.abs(C - Cref))
    res.dev("cov_formula_over_tol", dv / atol)
    if sharp and dv > atol:
        res.oracle_fail("covariance is not K** - K*b (L L^T)^-1 Kb*", p, detail={"abs": float(dv), "tol": float(atol)},
                        signature="C06:cov-formula")
    # (2) symmetric, diag consistent, PSD, bounds
    if np.max(np.abs(C - C.T)) > atol:
        res.oracle_fail("covariance(X, diag=False) is not symmetric", p, signature="C06:cov-symm")
    if np.max(np.abs(np.diag(C) - V)) > atol:
        res.oracle_fail("diagonal of covariance(X, diag=False) differs from covariance(X)", p, signature="C06:cov-diag")
    if sharp:
        ev = np.linalg.eigvalsh((C + C.T) / 2)
        res.dev("cov_min_eig_over_tol", max(0.0, -ev[0]) / (atol * q))
        if ev[0] < -atol * q:
            res.oracle_fail("posterior covariance is not positive semi-definite", p, detail={"min_eig": float(ev[0])},
                            signature="C06:cov-psd")
        if np.any(V < -atol) or np.any(V > prior + atol):
            res.oracle_fail("variance outside [0, k(x,x)]", p, signature="C06:var-bounds")
    # (3) variance at the conditioning points is of the order of the regulariser
    try:
        Vb = np.asarray(pred.covariance(basis), float)
        smax = float(np.max(np.diag(Nmat)))
        res.dev("var_at_basis_over_regulariser", float(np.max(Vb)) / smax)
        if sharp and (np.any(Vb > np.diag(Nmat) * (1 + 1e-6) + atol) or np.any(Vb < -atol)):
            res.oracle_fail("variance at conditioning points exceeds the regulariser", p,
                            detail={"max_var": float(np.max(Vb)), "regulariser": smax}, signature="C06:var-at-basis")
    except Exception as e:
        res.oracle_fail(f"covariance at conditioning points raised {exc_class(e)}", p, signature="C06:var-basis-raises")
    # (4) mean covariance: symmetric PSD, diag consistent, linear propagation of the input factor
    if np.max(np.abs(MC - MC.T)) > 1e-12 * max(np.max(np.abs(MC)), 1e-300):
        res.oracle_fail("mean_covariance(X, diag=False) is not symmetric", p, signature="C06:mcov-symm")
    if np.max(np.abs(np.diag(MC) - MV)) > 1e-10 * max(np.max(np.abs(MC)), 1e-300):
        res.oracle_fail("diagonal of mean_covariance differs from mean_covariance(X)", p, signature="C06:mcov-diag")
    evm = np.linalg.eigvalsh((MC + MC.T) / 2)
    if evm[0] < -1e-10 * max(np.max(np.abs(MC)), 1e-300):
        res.oracle_fail("mean_covariance is not positive semi-definite", p, signature="C06:mcov-psd")
    # propagate each column of the stated input factor through the mean by refitting with shifted values
    try:
        base_pred, _ = build(p, False)
        if fam == "chol":
            Z = np.asarray(p["Z"], float)
            s = p["std"] if p.get("std") is not None else sigma
            svec = np.broadcast_to(np.asarray(s, float), (nb,))
            cols = [svec[k] * np.eye(nb)[:, k] for k in range(nb)]
            shift = lambda col: build(p, False, Zover=Z + col)[0]
        else:
            Y = np.asarray(p["Y"], float)
            if p.get("std") is not None:
                Fm = np.asarray(p["Lest"], float) * np.asarray(p["std"], float)[None, :]
            elif fam == "lm" and np.ndim(sigma) == 1:
                # DTC with a per-cell sigma vector: the STATED noise is propagated, mean_covariance = J diag(sigma^2) J^T with J
                # the linear map from the values to the predicted mean - also for entries below sqrt(jitter), whose floor
                # max(sigma_i^2, jitter) only enters the weights (fixed defect: the floored value used to be propagated)
                sv = np.asarray(sigma, float)
                Fm = np.diag(sv)
                res.count("lm:per-cell-sigma:" + ("m<n" if nb < n else "m=n" if nb == n else "m>n"))
                res.count("lm:per-cell-sigma:below-sqrt-jitter=%d" % min(int(np.sum(sv ** 2 < jitter)), 3))
            else:
                Fm = np.diag(np.broadcast_to(np.asarray(sigma, float), (n,)))   # the noise acts on the n observations
            cols = [Fm[:, k] for k in range(Fm.shape[1])]
            shift = lambda col: build(p, False, Yover=(np.exp(np.log(Y) + col) if variant == "exp" else Y + col))[0]
        raw = lambda pr: np.asarray(pr(Xq, logscale=True) if variant == "exp" else pr(Xq), float)
        m0 = raw(base_pred)
        D = np.stack([raw(shift(col)) - m0 for col in cols], axis=1)   # q x p
        MCref = D @ D.T
        mscale = max(np.max(np.abs(MCref)), np.max(np.abs(MC)), 1e-300)
        mtol = 1e4 * EPS * condK * (1 + np.max(np.abs(m0)) ** 2 / mscale) + 100 * wK * condK * nb / pscale + 1e-9
        dvm = np.max(np.abs(MC - MCref)) / mscale
        res.dev("mcov_propagation_over_tol", dvm / mtol)
        if mtol < 1e-3 and dvm > mtol:
            res.oracle_fail("mean_covariance is not the linear propagation of the input uncertainty", p,
                            detail={"rel": float(dvm), "tol": float(mtol)}, signature="C06:mcov-propagation")
    except Exception as e:
        res.notes.append(f"propagation oracle skipped: {exc_class(e)} {str(e)[:60]}")
    # (5) uncertainty is exactly the sum
    if U.tobytes() != (C + MC).tobytes() or UD.tobytes() != (V + MV).tobytes():
        if np.max(np.abs(U - (C + MC))) > 1e-15 * pscale or np.max(np.abs(UD - (V + MV))) > 1e-15 * pscale:
            res.oracle_fail("uncertainty is not covariance + mean_covariance", p, signature="C06:unc-sum")
    # (6) guards
    for name in ("covariance", "mean_covariance", "uncertainty"):
        try:
            getattr(base_pred, name)(Xq)
            res.oracle_fail(f"{name} of a predictor built without uncertainty did not raise", p,
                            signature="C06:guard-" + name)
        except ValueError:
            pass
        except Exception as e:
            res.oracle_fail(f"{name} without uncertainty raised {exc_class(e)} instead of ValueError", p,
                            signature="C06:guard-class-" + name)
    # (7) adding inducing points never increases the variance
    if fam != "full" and p["y_is_mean"] and p.get("Xu_sub") is not None and sharp:
        try:
            psub, _ = build(p, True, Xu_over=p["Xu_sub"], Zover=None if fam != "chol" else np.zeros((len(p["Xu_sub"]),)))
            Vs = np.asarray(psub.covariance(Xq), float)
            res.count("nested_checked")
            if np.any(V > Vs + 10 * atol):
                res.oracle_fail("variance increased when inducing points were added", p,
                                detail={"max_increase": float(np.max(V - Vs))}, signature="C06:nested")
        except Exception as e:
            res.notes.append(f"nested check skipped: {exc_class(e)}")
    # ---------------- correspondence with the Lean model
    if ctx["driver"] is not None:
        Ycond = None
        if fam != "chol":
            import jax.numpy as jnp
            Y = np.asarray(p["Y"], float)
            Ycond = np.asarray(jnp.log(jnp.asarray(Y)), float) if variant == "exp" else Y
        std = p.get("std")
        ycf = None
        if std is not None and fam != "chol":
            ycf = np.asarray(p["Lest"], float) * np.asarray(std, float)[None, :]
        sg = sigma
        if sg is not None and np.ndim(sg) > 0:
            sg = np.asarray(sg, float)
        if fam == "full":
            mod = cu.model_full(ctx["driver"], tree, X, Ycond, mu, None, sg, jitter, ycf, p["y_is_mean"], True, Xq)
        elif fam == "lm":
            mod = cu.model_lm(ctx["driver"], tree, X, basis, Ycond, mu, sg, jitter, ycf, p["y_is_mean"], True, Xq)
        else:
            sgc = np.asarray(std, float) if std is not None else sg
            mod = cu.model_lmchol(ctx["driver"], tree, basis, p["Z"], mu, n, None, sgc, jitter, p["y_is_mean"], True, Xq)
        if mod["status"] != "ok":
            res.corr_fail(f"model refuses ({mod['status']}) what the implementation accepts", p)
            return
        pairs = [("var", V, atol), ("cov", C, atol), ("mvar", MV, None), ("mcov", MC, None), ("unc", U, None),
                 ("uncd", UD, None)]
        for name, val, tl in pairs:
            mv = mod.get(name)
            if isinstance(mv, str):
                res.corr_fail(f"model reports {mv} for {name}", p)
                continue
            if tl is None:
                tl = atol + (1e4 * EPS * condK + 100 * wK * condK * nb / pscale) * max(np.max(np.abs(val)), 1e-300)
            dvv = np.max(np.abs(mv - val))
            res.dev(f"model_vs_impl_{name}_over_tol", dvv / tl)
            if dvv > tl and sharp:
                res.corr_fail(f"model and implementation differ in {name}", p, detail={"abs": float(dvv), "tol": float(tl)})


def gen_case(rng, stream):
    variant = ["plain", "exp", "time"][rng.integers(3)]
    family = ["full", "lm", "chol"][rng.integers(3)]
    n, d, q = 8, [1, 3][rng.integers(2)], 4
    X, _ = gen_points(rng, n, d, kind="plain", scale=1.0)
    qk = ["out", "in", "dup"][rng.integers(3)]
    Xq, _ = gen_points(rng, q, d, kind="plain", scale=1.2)
    if variant == "time":
        X = np.c_[X, rng.integers(0, 3, size=n).astype(float)]
        Xq = np.c_[Xq, rng.uniform(0, 2, size=q)]
    if qk == "in":
        Xq = X[rng.permutation(n)[:q]].copy()
    elif qk == "dup":
        Xq[1] = Xq[0]
        Xq[3] = X[0]
    ls = loguniform(rng, 0.7, 2.5)
    jitter = loguniform(rng, 1e-3, 1e-1) if stream == "sharp" else loguniform(rng, 1e-7, 1e-3)
    if variant == "time":
        tree = cu.time_tree(["M32", "M52", "EQ", "EX"][rng.integers(4)], ls, loguniform(rng, 0.5, 3.0))
    else:
        tree = cu.gen_stationary_tree(rng, d, ls)
    Xu = Xu_sub = None
    if family != "full":
        m = [4, 8, 11][rng.integers(3)]
        Xu, _ = gen_points(rng, m, d, kind="plain", scale=1.0)
        if variant == "time":
            Xu = np.c_[Xu, rng.integers(0, 3, size=m).astype(float)]
        if rng.random() < 0.3 and m == n:
            Xu = X.copy()
        Xu_sub = Xu[: max(2, Xu.shape[0] - 2)].copy()
    mu = float(rng.normal())
    y_is_mean = bool(rng.random() < 0.6)
    Y = Z = std = Lest = sigma = None
    if family == "chol":
        Z = rng.normal(size=Xu.shape[0])
        if y_is_mean or rng.random() < 0.5:
            source = "latent-std"
            std = np.exp(rng.uniform(-3, 0, size=Xu.shape[0]))
            y_is_mean = True
            sigma = None
        else:
            # sigma doubles as the latent standard deviation; with y_is_mean=False the code consumes sigma for the
            # factor and then refuses (ValueError) to build W — generated rarely, as a refusal case
            source = "sigma-scalar"
            sigma = loguniform(rng, 0.05, 1.0)
            y_is_mean = bool(rng.random() < 0.85)
    else:
        Y = rng.normal(size=n) * 1.5 + mu
        if variant == "exp":
            Y = np.exp(0.3 * (Y - mu)) + 0.1
        if y_is_mean:
            source = "latent-std-factor"
            r = [3, n][rng.integers(2)]
            Lest = rng.normal(size=(n, r)) * 0.5
            std = np.exp(rng.uniform(-3, 0, size=r))
        else:
            source = ["sigma-scalar", "sigma-vector"][rng.integers(2)]
            if family == "lm" and source == "sigma-vector" and rng.random() < 0.3:
                # a sigma vector is the noise of the CELLS for every number of landmarks (m = 4, 8, 11 above); here the
                # cells themselves, reordered (and slightly moved), are the landmarks
                Xu = X[rng.permutation(n)].copy() + ((0.05 * rng.normal(size=X.shape) if rng.random() < 0.5 else 0)
                                                     if variant != "time" else 0)
                Xu_sub = None
            nb = n
            sigma = loguniform(rng, 0.05, 1.0) if source == "sigma-scalar" else np.exp(rng.uniform(-3, 0, size=nb))
            if source == "sigma-vector" and rng.random() < 0.4:
                # exact and nearly exact cells: entries below sqrt(jitter) (their variance is floored at the jitter in the
                # weights, the propagated noise stays the stated one)
                mask = rng.random(nb) < 0.4
                sigma = np.where(mask, rng.choice([0.0, 0.3, 0.9], size=nb) * np.sqrt(jitter), sigma)
    return {"op": "unc", "variant": variant, "family": family, "tree": tree, "X": X, "Xu": Xu, "Xu_sub": Xu_sub,
            "Y": Y, "Z": Z, "std": std, "Lest": Lest, "sigma": sigma, "mu": mu, "jitter": jitter,
            "y_is_mean": y_is_mean, "Xq": Xq, "source": source, "query": qk, "stream": stream}


def run(ctx, res):
    rng = ctx["rng"]
    quick = ctx["tier"] == "quick"
    budget = ctx["budget"] or (60 if quick else 540)
    t_end = time.time() + budget
    mellon()
    i = 0
    while time.time() < t_end:
        run_case(ctx, res, gen_case(rng, "sharp" if i % 4 != 3 else "wide"))
        i += 1
