"""C09 — all GP types approximate the same Gaussian process."""
import time
import numpy as np
from ..common import (mellon, bits, unbits, fbit, cov_to_mellon, cov_tokens, cov_str, loguniform, gen_points, totuple,
                      exc_class)
from .. import condutil as cu
from .. import covoracle as co

EPS = np.finfo(float).eps
RULE = ("cases = (kernel tree, data, values, mu, jitter, query set); per case the three formulations are built on identical "
        "inputs with inducing points = training cells and compared through their exact jitter-proportional difference "
        "formulas (predictions, weights, posterior covariance, gradients); compute_L of 'fixed' with landmarks = cells vs "
        "'full'; rank-reduced factors vs the discarded eigenvalue mass; plus DensityEstimator('fixed', n_landmarks >= n) vs "
        "'full' fits; plus FunctionEstimator('fixed', landmarks = the cells in any order, sigma = per-cell vector) vs 'full' "
        "through the exact difference (K~ + K D^-1 K)(w_full - w) = jitter w_full (always-run regression cases + seeded); non-trivial = predictions differ from mu")
PARTIAL = ["DensityEstimator 'fixed' vs 'full' fitted values are compared at optimiser tolerance only (L-BFGS-B convergence is "
           "outside the model)"]
ASSUMPTIONS = ["numpy references for the difference formulas"]
CLAIM = {
    "text": "Lean theorems over R: with inducing points = cells the Cholesky-latent weights solve the same equation (K + jitter I) w = "
            "y - mu as the full GP; the DTC weights w satisfy (jitter K~ + K^2)(w_full - w) = jitter^2 w_full (explicit O(jitter^2) "
            "relation), and with a per-cell noise vector D = diag(max(sigma_i^2, jitter)) the DTC weights satisfy (K~ + K D^-1 K)(w_full - "
            "w) = jitter w_full (dtc_percell_vs_full); the 'fixed' factor has (K + jitter I) - L L^T = 2 jitter I - jitter^2 (K + jitter I)^-1, of norm <= 2 jitter; the posterior covariance "
            "expression is literally the same function of (basis, L) in all three families; for eigen-truncations the trace of "
            "the approximation error equals the discarded eigenvalue mass and vanishes for a full-rank request. Tied to /repo by "
            "building the three predictor families and the compute_L factors on identical inputs and checking the exact "
            "difference formulas.",
    "note": "Gradient agreement is checked numerically (through k_grad linearity, property C11/C12). Estimator-level agreement "
            "('fixed' with n_landmarks >= n vs 'full') is at optimiser tolerance.",
    "technique": "Lean 4 proof (matrix identities over the proved normal equations) + differential / metamorphic checks",
}


def run_case(ctx, res, p):
    if p["op"] == "families":
        return case_families(ctx, res, p)
    if p["op"] == "factors":
        return case_factors(ctx, res, p)
    if p["op"] == "estimators":
        return case_estimators(ctx, res, p)
    if p["op"] == "percell":
        return case_percell(ctx, res, p)
    raise ValueError(p["op"])


def case_percell(ctx, res, p):
    """FunctionEstimator(gp_type='fixed', landmarks = the cells in another order, sigma = per-cell vector) against
    FunctionEstimator(gp_type='full', sigma = the same vector): the inducing-point model with the cells as inducing points is
    the full model up to O(jitter) - exactly (K~ + K D^-1 K)(w_full - w) = jitter * w_full, D = diag(max(sigma_i^2, jitter)).
    (Fixed defect 20d7957: the vector used to be attached to the landmarks, deviation 1e-1 .. 5e-1, order dependent.)"""
    m = mellon()
    SIG = "C09:fixed-per-cell-sigma"
    tree = totuple(p["tree"])
    cov = cov_to_mellon(tree)
    X, Y, Xq, sg = (np.asarray(p[k], float) for k in ("X", "Y", "Xq", "sigma"))
    perm = np.asarray(p["perm"], int)
    mu, j = float(p["mu"]), float(p["jitter"])
    n = X.shape[0]
    res.count("op=percell")
    res.count("percell:" + ("identity-order" if np.array_equal(perm, np.arange(n)) else "permuted"))
    canon = repr([(k, v.tobytes() if isinstance(v, np.ndarray) else v) for k, v in sorted(p.items())])
    res.case(canon, True, {"op": "percell", "tree": cov_str(tree), "X": list(X.shape), "jitter": j})
    kw = dict(cov_func=cov, jitter=j, mu=mu, sigma=sg)
    try:
        ef = m.FunctionEstimator(gp_type="full", n_landmarks=0, **kw)
        a = np.asarray(ef.fit_predict(X, Y, Xq), float)
        ex = m.FunctionEstimator(gp_type="fixed", landmarks=X[perm], **kw)
        b = np.asarray(ex.fit_predict(X, Y, Xq), float)
    except Exception as e:
        res.oracle_fail(f"FunctionEstimator with a per-cell sigma vector ('full' / 'fixed' with the cells as landmarks) raised "
                        f"{exc_class(e)}: {str(e)[:100]}", p, signature=SIG)
        return
    if type(ex.predict).__name__ != "LandmarksConditional":
        res.oracle_fail("'fixed' FunctionEstimator did not build the Landmarks predictor", p, signature="C09:fixed-class")
    D = np.where(sg ** 2 < j, j, sg ** 2)
    K, Kq = cu.kernel_np(cov, X, X), cu.kernel_np(cov, Xq, X)
    r = Y - mu
    wf = np.linalg.solve(K + np.diag(D), r)
    M = K + j * np.eye(n) + (K / D[None, :]) @ K
    gapw = np.linalg.solve(M, j * wf)                       # = w_full - w_dtc (cells' order)
    scale = max(float(np.max(np.abs(a - mu))), 1e-300)
    cond = max(np.linalg.cond(M), np.linalg.cond(K + j * np.eye(n)), np.linalg.cond(K + np.diag(D)))
    lo_, hi_ = co.interval(tree, X, X)
    wK = float(np.max(hi_ - lo_))
    tol = 1e3 * EPS * cond + 50 * wK * cond * n + 1e-10
    sharp = tol < 1e-3
    # exact difference formula
    dv = float(np.max(np.abs((a - b) - Kq @ gapw))) / scale
    res.dev("percell_fixed_vs_full_formula_over_tol", dv / tol)
    res.dev("percell_fixed_vs_full_rel", float(np.max(np.abs(a - b))) / scale)
    if sharp and dv > tol:
        res.oracle_fail("'fixed' with the cells as landmarks and a per-cell sigma vector: the prediction differs from the full "
                        "model's by other than K_q (K~ + K D^-1 K)^-1 jitter w_full", p,
                        detail={"rel": dv, "tol": float(tol), "rel_diff_to_full": float(np.max(np.abs(a - b))) / scale},
                        signature=SIG)
    # O(jitter) bound: |K_q gap| <= jitter * |K_q| |M^-1| |w_full|
    bound = j * float(np.max(np.sum(np.abs(Kq), axis=1))) * float(np.linalg.norm(np.linalg.inv(M), np.inf)) * \
        float(np.max(np.abs(wf))) / scale
    if float(np.max(np.abs(a - b))) / scale > bound * (1 + 1e-6) + tol:
        res.oracle_fail("'fixed' (cells as landmarks, per-cell sigma) vs 'full' differ by more than the O(jitter) bound", p,
                        detail={"rel": float(np.max(np.abs(a - b))) / scale, "bound": bound}, signature=SIG)
    # the order of the landmarks is irrelevant
    if not np.array_equal(perm, np.arange(n)):
        e0 = m.FunctionEstimator(gp_type="fixed", landmarks=X.copy(), **kw)
        b0 = np.asarray(e0.fit_predict(X, Y, Xq), float)
        dvo = float(np.max(np.abs(b0 - b))) / scale
        res.dev("percell_landmark_order_over_tol", dvo / tol)
        if sharp and dvo > tol:
            res.oracle_fail("'fixed' with a per-cell sigma vector depends on the order of the landmarks", p,
                            detail={"rel": dvo, "tol": float(tol)}, signature=SIG)
    # the propagated input noise agrees too: mean_covariance = J D J^T with J the linear map from the values to the mean,
    # and J_fixed = J_full + O(jitter) (same weights up to the gap above)
    try:
        efu = m.FunctionEstimator(gp_type="full", n_landmarks=0, predictor_with_uncertainty=True, **kw)
        efu.fit(X, Y)
        exu = m.FunctionEstimator(gp_type="fixed", landmarks=X[perm], predictor_with_uncertainty=True, **kw)
        exu.fit(X, Y)
        mf = np.asarray(efu.predict.mean_covariance(Xq, diag=False), float)
        mx = np.asarray(exu.predict.mean_covariance(Xq, diag=False), float)
    except Exception as e:
        res.oracle_fail(f"FunctionEstimator with uncertainty and a per-cell sigma vector raised {exc_class(e)}: {str(e)[:100]}", p,
                        signature=SIG + "-uncertainty")
        return
    Jf = Kq @ np.linalg.inv(K + np.diag(D))
    Jd = Kq @ np.linalg.solve(M, K / D[None, :])
    # (both families propagate the stated sigma_i^2; the floor max(sigma_i^2, jitter) only enters the weights)
    ref_f, ref_d = (Jf * (sg ** 2)[None, :]) @ Jf.T, (Jd * (sg ** 2)[None, :]) @ Jd.T
    msc = max(float(np.max(np.abs(ref_f))), 1e-300)
    dvf, dvd = float(np.max(np.abs(mf - ref_f))) / msc, float(np.max(np.abs(mx - ref_d))) / msc
    gapm = float(np.max(np.abs(ref_f - ref_d))) / msc
    res.dev("percell_mcov_full_over_tol", dvf / tol)
    res.dev("percell_mcov_fixed_over_tol", dvd / tol)
    res.dev("percell_mcov_fixed_vs_full_rel", float(np.max(np.abs(mf - mx))) / msc)
    if sharp and (dvf > tol or dvd > tol or float(np.max(np.abs(mf - mx))) / msc > gapm + 2 * tol):
        res.oracle_fail("'fixed' with the cells as landmarks and a per-cell sigma vector: mean_covariance is not the per-cell "
                        "noise propagated through the mean / differs from the full model's by more than the O(jitter) gap", p,
                        detail={"full_vs_JDJt": dvf, "fixed_vs_JDJt": dvd, "fixed_vs_full": float(np.max(np.abs(mf - mx))) / msc,
                                "exact_gap": gapm, "tol": float(tol)}, signature=SIG + "-uncertainty")
    drv = ctx["driver"]
    if drv is not None:
        mlm = cu.model_lm(drv, tree, X, X[perm], Y, mu, sg, j, None, False, False, Xq)
        if mlm["status"] != "ok":
            res.corr_fail(f"model refuses the DTC family with a per-cell sigma: {mlm['status']}", p)
        else:
            dvm = float(np.max(np.abs(mlm["mean"].reshape(b.shape) - b))) / scale
            res.dev("model_percell_dtc_over_tol", dvm / tol)
            if sharp and dvm > tol:
                res.corr_fail("model and implementation differ for the DTC family with a per-cell sigma", p,
                              detail={"rel": dvm})


def percell_payloads():
    """Always-run regression cases of fixed defect 20d7957."""
    rng = np.random.default_rng(20260908)
    out = []
    for d, kind, perm in ((2, "M52", False), (2, "EQ", True), (1, "M32", True)):
        n = 8
        X = rng.uniform(-1.5, 1.5, size=(n, d))
        out.append({"op": "percell", "tree": (kind, 1.2, ("AN",)), "X": X,
                    "Y": np.sin(2 * X[:, 0]) + 0.3 * rng.normal(size=n), "Xq": rng.uniform(-1.5, 1.5, size=(4, d)),
                    "mu": 0.2, "jitter": 1e-6, "sigma": np.exp(rng.uniform(np.log(0.05), np.log(0.8), size=n)),
                    "perm": (rng.permutation(n) if perm else np.arange(n))})
    return out


def case_families(ctx, res, p):
    tree = totuple(p["tree"])
    cov = cov_to_mellon(tree)
    X, Y, Xq = (np.asarray(p[k], float) for k in ("X", "Y", "Xq"))
    mu, j = float(p["mu"]), float(p["jitter"])
    n = X.shape[0]
    res.count("op=families")
    res.count("kernel=" + tree[0])
    canon = repr([(k, v.tobytes() if isinstance(v, np.ndarray) else v) for k, v in sorted(p.items())])
    sample = {"op": "families", "tree": cov_str(tree), "X": list(X.shape), "jitter": j}
    K = cu.kernel_np(cov, X, X)
    Kt = K + j * np.eye(n)
    Lnp = np.linalg.cholesky(Kt)
    r = Y - mu
    z = np.linalg.solve(Lnp, r)
    try:
        pf = cu.build_impl("plain", X, None, None, None, Y, mu, cov, None, None, None, j, True, True if False else False)
        pl = cu.build_impl("plain", X, X + 0.0, None, None, Y, mu, cov, None, None, None, j, True, False)
        pc = cu.build_impl("plain", X, X + 0.0, z, None, Y, mu, cov, None, Lnp, None, j, True, False)
    except Exception as e:
        res.case(canon, False, sample)
        res.oracle_fail(f"building the three families raised {exc_class(e)}: {str(e)[:60]}", p, signature="C09:build")
        return
    names = (type(pf).__name__, type(pl).__name__, type(pc).__name__)
    if names != ("FullConditional", "LandmarksConditional", "LandmarksConditionalCholesky"):
        res.oracle_fail(f"unexpected predictor classes {names}", p, signature="C09:dispatch")
    mf, ml, mc = (np.asarray(q(Xq), float) for q in (pf, pl, pc))
    res.case(canon, bool(np.any(np.abs(mf - mu) > 1e-9)), sample)
    Kq = cu.kernel_np(cov, Xq, X)
    cond = np.linalg.cond(Kt)
    lo_, hi_ = co.interval(tree, X, X)
    wK = float(np.max(hi_ - lo_))
    scale = max(np.max(np.abs(mf - mu)), 1e-300)
    tol = 1e4 * EPS * cond ** 2 + 200 * wK * cond ** 2 * n + 1e-10
    sharp = tol < 1e-3
    res.dev("cond_max", cond)
    # latent form == full GP (same normal equations)
    dv = np.max(np.abs(mc - mf)) / scale
    res.dev("latent_vs_full_over_tol", dv / tol)
    if sharp and dv > tol:
        res.oracle_fail("Cholesky-latent model with landmarks = cells differs from the full GP", p,
                        detail={"rel": float(dv), "tol": float(tol)}, signature="C09:latent-vs-full")
    # DTC vs full: exact jitter^2 formula  mean_f - mean_dtc = j^2 k*^T (jK~ + K^2)^-1 (K + jI)^-1 r
    M = j * Kt + K @ K
    dref = j * j * Kq @ np.linalg.solve(M, np.linalg.solve(Kt, r))
    dv = np.max(np.abs((mf - ml) - dref)) / scale
    res.dev("dtc_vs_full_formula_over_tol", dv / tol)
    if sharp and dv > tol:
        res.oracle_fail("DTC model with landmarks = cells does not differ from the full GP by the jitter^2 formula", p,
                        detail={"rel": float(dv), "tol": float(tol)}, signature="C09:dtc-vs-full")
    wf = np.linalg.solve(Kt, r)
    bound = j * j * np.max(np.abs(Kq @ np.linalg.solve(M, wf)))
    if np.max(np.abs(mf - ml)) > bound * (1 + 1e-6) + tol * scale:
        res.oracle_fail("DTC vs full difference exceeds its jitter-proportional bound", p, signature="C09:dtc-bound")
    # posterior covariance: the same expression in all families (with uncertainty, latent std = 0 factor irrelevant)
    try:
        std = np.full(n, 0.1)
        qf = cu.build_impl("plain", X, None, None, std, Y, mu, cov, Lnp, None, None, j, True, True)
        ql = cu.build_impl("plain", X, X + 0.0, None, std, Y, mu, cov, Lnp, None, None, j, True, True)
        qc = cu.build_impl("plain", X, X + 0.0, z, std, Y, mu, cov, None, Lnp, None, j, True, True)
        cf, cl, cc = (np.asarray(q.covariance(Xq, diag=False), float) for q in (qf, ql, qc))
        vf, vl, vc = (np.asarray(q.covariance(Xq), float) for q in (qf, ql, qc))
        ks = max(np.max(np.abs(cu.kernel_np(cov, Xq, Xq))), 1e-300)
        dvc = max(np.max(np.abs(cf - cl)), np.max(np.abs(cf - cc)), np.max(np.abs(vf - vl)), np.max(np.abs(vf - vc)),
                  np.max(np.abs(vf - np.diag(cf)))) / ks
        res.dev("posterior_cov_agree_over_tol", dvc / tol)
        if sharp and dvc > tol:
            res.oracle_fail("posterior covariance differs between the three families on identical inputs", p,
                            detail={"rel": float(dvc)}, signature="C09:cov")
    except Exception as e:
        res.oracle_fail(f"covariance of the three families raised {exc_class(e)}", p, signature="C09:cov-raises")
    # gradients agree the same way (latent vs full exactly, DTC within the bound)
    try:
        gf, gc = np.asarray(pf.gradient(Xq), float), np.asarray(pc.gradient(Xq), float)
        gs = max(np.max(np.abs(gf)), 1e-300)
        dvg = np.max(np.abs(gf - gc)) / gs
        res.dev("gradient_latent_vs_full_over_tol", dvg / (tol * 10))
        if sharp and dvg > tol * 10:
            res.oracle_fail("gradients of the latent and full models differ", p, signature="C09:gradient")
    except Exception as e:
        res.notes.append(f"gradient check skipped: {exc_class(e)}")
    # correspondence: the same three constructions in the Lean model
    drv = ctx["driver"]
    if drv is not None:
        mfm = cu.model_full(drv, tree, X, Y, mu, None, None, j, None, True, False, Xq)
        mlm = cu.model_lm(drv, tree, X, X, Y, mu, None, j, None, True, False, Xq)
        mcm = cu.model_lmchol(drv, tree, X, z, mu, n, Lnp, None, j, True, False, Xq)
        for nm, mm, ref in (("full", mfm, mf), ("dtc", mlm, ml), ("latent", mcm, mc)):
            if mm["status"] != "ok":
                res.corr_fail(f"model refuses the {nm} family: {mm['status']}", p)
                continue
            dvm = np.max(np.abs(mm["mean"].reshape(-1) - ref)) / scale
            res.dev(f"model_{nm}_over_tol", dvm / tol)
            if sharp and dvm > tol:
                res.corr_fail(f"model and implementation differ for the {nm} family", p, detail={"rel": float(dvm)})


def case_factors(ctx, res, p):
    from mellon.parameters import compute_L
    import jax.numpy as jnp
    tree = totuple(p["tree"])
    cov = cov_to_mellon(tree)
    X = np.asarray(p["X"], float)
    j = float(p["jitter"])
    n = X.shape[0]
    res.count("op=factors")
    canon = repr([(k, v.tobytes() if isinstance(v, np.ndarray) else v) for k, v in sorted(p.items())])
    res.case(canon, True, {"op": "factors", "tree": cov_str(tree), "X": list(X.shape), "jitter": j, "ranks": p["ranks"]})
    K = cu.kernel_np(cov, X, X)
    Kt = K + j * np.eye(n)
    cond = np.linalg.cond(Kt)
    ks = max(np.max(np.abs(Kt)), 1e-300)
    lo_, hi_ = co.interval(tree, X, X)
    wK = float(np.max(hi_ - lo_))
    atol = (1e3 * EPS * cond + 50 * wK * cond * n) * ks + 1e-13
    Lfull = np.asarray(compute_L(jnp.asarray(X), cov, gp_type="full", jitter=j), float)
    Lfix = np.asarray(compute_L(jnp.asarray(X), cov, gp_type="fixed", landmarks=jnp.asarray(X), jitter=j), float)
    D = Lfull @ Lfull.T - Lfix @ Lfix.T
    Dref = 2 * j * np.eye(n) - j * j * np.linalg.inv(Kt)
    dv = np.max(np.abs(D - Dref))
    res.dev("fixed_vs_full_LLt_over_tol", dv / atol)
    if dv > atol and atol < 1e-4 * ks:
        res.oracle_fail("'fixed' with landmarks = cells: L L^T differs from the full factor's by other than 2j I - j^2 (K+jI)^-1",
                        p, detail={"abs": float(dv), "tol": float(atol)}, signature="C09:fixed-vs-full")
    if np.linalg.norm(D, 2) > 2 * j * (1 + 1e-6) + atol:
        res.oracle_fail("'fixed' vs 'full' L L^T differ by more than 2*jitter in operator norm", p, signature="C09:fixed-bound")
    # the same cells handed over as explicit inducing points in another order: the projection does not depend on the order
    # of the inducing points, and the non-sparse model is conditioned on the cells whatever landmarks are passed along
    import importlib
    P = importlib.import_module("mellon.parameters")
    perm = np.random.default_rng(n * 31 + X.shape[1]).permutation(n)
    Xp = jnp.asarray(X[perm])
    Lfix_p = np.asarray(compute_L(jnp.asarray(X), cov, gp_type="fixed", landmarks=Xp, jitter=j), float)
    dvp = np.max(np.abs(Lfix_p @ Lfix_p.T - Lfix @ Lfix.T))
    res.dev("fixed_permuted_landmarks_over_tol", dvp / atol)
    if dvp > atol and atol < 1e-4 * ks:
        res.oracle_fail("'fixed' with the cells as inducing points in another order changes L L^T", p,
                        detail={"abs": float(dvp), "tol": float(atol)}, signature="C09:fixed-permuted")
    Lp_full = P.compute_Lp(jnp.asarray(X), cov, gp_type="full", landmarks=Xp, jitter=j)
    Lfull_p = np.asarray(compute_L(jnp.asarray(X), cov, gp_type="full", landmarks=Xp, Lp=Lp_full, jitter=j), float)
    dvf = np.max(np.abs(Lfull_p @ Lfull_p.T - Lfull @ Lfull.T))
    res.dev("full_with_landmarks_over_tol", dvf / atol)
    if dvf > atol and atol < 1e-4 * ks:
        res.oracle_fail("the non-sparse ('full') factor changes when landmarks (the cells in another order) are passed along", p,
                        detail={"abs": float(dvf), "tol": float(atol)}, signature="C09:full-with-landmarks")
    # rank reduction: error = discarded eigenvalue mass, monotone in the request, zero for a full-rank request
    s = np.sort(np.linalg.eigvalsh(Kt))[::-1]
    prev = None
    prev_kind = None
    for rk in p["ranks"]:
        if prev_kind is not None and isinstance(rk, float) != prev_kind:
            prev = None          # integer and fractional requests are only comparable among themselves
        prev_kind = isinstance(rk, float)
        L = np.asarray(compute_L(jnp.asarray(X), cov, gp_type="full_nystroem", rank=rk, jitter=j), float)
        pk = L.shape[1]
        E = Kt - L @ L.T
        tr, mass = np.trace(E), float(np.sum(s[pk:]))
        res.dev("trace_error_vs_discarded_mass", abs(tr - mass) / (atol * n))
        if abs(tr - mass) > atol * n and atol < 1e-4 * ks:
            res.oracle_fail("trace of the rank-reduction error differs from the discarded eigenvalue mass", p,
                            detail={"trace": float(tr), "mass": mass, "rank": rk}, signature="C09:trunc-mass")
        if np.linalg.norm(E, 2) > mass * (1 + 1e-6) + atol * n:
            res.oracle_fail("operator-norm error exceeds the discarded eigenvalue mass", p, signature="C09:trunc-bound")
        if prev is not None and tr > prev + atol * n:
            res.oracle_fail("a larger rank request gave a worse approximation", p, signature="C09:trunc-monotone")
        prev = tr
        if pk == n and np.max(np.abs(E)) > atol:
            res.oracle_fail("full-rank request does not reproduce the un-reduced matrix", p, signature="C09:full-rank")


def case_estimators(ctx, res, p):
    m = mellon()
    X = np.asarray(p["X"], float)
    n = X.shape[0]
    res.count("op=estimators")
    canon = repr([(k, v.tobytes() if isinstance(v, np.ndarray) else v) for k, v in sorted(p.items())])
    res.case(canon, True, {"op": "estimators", "X": list(X.shape), "ls": p["ls"]})
    kw = dict(ls=float(p["ls"]), jitter=float(p["jitter"]))
    ef = m.DensityEstimator(gp_type="full", **kw)
    ex = m.DensityEstimator(gp_type="fixed", n_landmarks=n + int(p["extra"]), **kw)
    a = np.asarray(ef.fit_predict(X), float)
    b = np.asarray(ex.fit_predict(X), float)
    rng_ = max(np.ptp(a), 1e-12)
    dv = np.max(np.abs(a - b)) / rng_
    res.dev("fixed_vs_full_fit_rel", dv)
    if type(ex.predict).__name__ != "LandmarksConditionalCholesky":
        res.oracle_fail("'fixed' with n_landmarks >= n did not build the Cholesky-latent predictor", p,
                        signature="C09:fixed-class")
    if dv > 5e-3:
        res.oracle_fail("'fixed' with n_landmarks >= n does not reproduce the full model's fitted values", p,
                        detail={"rel": float(dv)}, signature="C09:fixed-fit")
    # the full model given the cells themselves (other order) as explicit landmarks is the same full model
    perm = np.random.default_rng(n).permutation(n)
    el = m.DensityEstimator(gp_type="full", landmarks=X[perm], **kw)
    c = np.asarray(el.fit_predict(X), float)
    dvl = np.max(np.abs(a - c)) / rng_
    res.dev("full_with_landmarks_fit_rel", dvl)
    if dvl > 5e-3:
        res.oracle_fail("'full' with the cells as explicit landmarks (other order) does not reproduce the full model", p,
                        detail={"rel": float(dvl)}, signature="C09:full-landmarks-fit")
    Xq = np.asarray(p["Xq"], float)
    pa, pb = np.asarray(ef.predict(Xq), float), np.asarray(ex.predict(Xq), float)
    if np.max(np.abs(pa - pb)) / rng_ > 5e-3:
        res.oracle_fail("'fixed' vs 'full' out-of-sample predictions differ", p, signature="C09:fixed-predict")


def run(ctx, res):
    rng = ctx["rng"]
    quick = ctx["tier"] == "quick"
    budget = ctx["budget"] or (60 if quick else 480)
    t_end = time.time() + budget
    mellon()
    for p in percell_payloads():
        run_case(ctx, res, p)
    i = 0
    while time.time() < t_end:
        n, d = 8, [1, 3][rng.integers(2)]
        X, _ = gen_points(rng, n, d, kind="plain", scale=1.0)
        Xq, _ = gen_points(rng, 4, d, kind="plain", scale=1.2)
        ls = loguniform(rng, 0.7, 2.5)
        j = loguniform(rng, 1e-3, 1e-1) if i % 4 != 3 else loguniform(rng, 1e-6, 1e-3)
        tree = cu.gen_stationary_tree(rng, d, ls)
        mu = float(rng.normal())
        if i % 3 == 0:
            run_case(ctx, res, {"op": "factors", "tree": tree, "X": X, "jitter": j,
                                "ranks": [1, 3, 0.9, 0.999, n - 1]})
        elif i % 10 == 4:
            run_case(ctx, res, {"op": "percell", "tree": tree, "X": X, "Y": rng.normal(size=n) * 1.5 + mu, "Xq": Xq,
                                "mu": mu, "jitter": j, "sigma": np.exp(rng.uniform(np.log(0.05), 0.0, size=n)),
                                "perm": rng.permutation(n) if rng.random() < 0.7 else np.arange(n)})
        elif i % 10 == 7:
            X2, _ = gen_points(rng, 24, 2, kind="plain", scale=1.0)
            run_case(ctx, res, {"op": "estimators", "X": X2, "Xq": gen_points(rng, 4, 2, kind="plain")[0],
                                "ls": loguniform(rng, 0.8, 2.0), "jitter": 1e-6, "extra": int(rng.integers(0, 5))})
        else:
            run_case(ctx, res, {"op": "families", "tree": tree, "X": X, "Y": rng.normal(size=n) * 1.5 + mu, "Xq": Xq,
                                "mu": mu, "jitter": j})
        i += 1
