"""C14 — within-time-point neighbour distances and sampling normalisation."""
import time, math
import numpy as np
from ..common import mellon, bits, unbits, fbit, exc_class
from .c13 import x_token, time_token, x_obj, time_obj, tdesc, xdesc, VAL_KINDS, TYPE_KINDS

RULE = ("three streams. (1) nn: compute_nn_distances_within_time_points(x, times, d, normalize) on data sets with 1..8 time "
        "points of unequal sizes (a fixed menu of partitions, so that XLA shapes repeat), unsorted / non-integer / negative "
        "time stamps, state dimension f in {1,2,3,25}, times as trailing column / (n,) / (n,1) / list / jax array, d in "
        "{None, int, float, numpy float, per-cell array/list/jax} and normalize in {False, None, True, list, jax array, "
        "tuple, numpy array, dict (float or int keys, extra keys)} plus the malformed stream (singleton time points, missing "
        "keys, wrong lengths, negative / missing / wrong-length d, mismatching times); (2) avg: compute_average_cell_count on the "
        "same forms; (3) est: TimeSensitiveDensityEstimator prepared/fitted on such data (est.nn_distances, est.ls, "
        "est.predict.n_obs) for the three predictor classes, ls_factor, explicit nn_distances. distinct = distinct (stream, data "
        "hash, forms); non-trivial = at least two time points or a normalisation target or a refusal")
PARTIAL = ["the KD/Ball tree is a contract (exact Euclidean nearest other point); the model uses brute force and the harness "
           "compares with tolerance", "float64 rounding of sqrt/pow is modelled away: values compared at 1e-9 relative",
           "validate_nn_distances (sanitising zero distances of duplicate cells) is outside the model: generated cells are distinct",
           "the model mirrors /repo AFTER the two C14 repairs (every sized target length-checked, NumPy arrays / tuples accepted "
           "like lists, dict n_obs averaged over the time points present); on a tree without them the old witnesses are reported"]
ASSUMPTIONS = ["sklearn KDTree/BallTree(metric='euclidean').query(k=2) returns the exact Euclidean distance to the nearest other row",
               "jnp.unique returns the sorted distinct values; boolean-mask indexing keeps row order"]
TRUSTED_EXTRA = ["sklearn.neighbors.KDTree / BallTree exact nearest neighbour", "jax.numpy.unique, boolean mask gather/scatter"]

TOL = 1e-9          # relative; clean runs show <= ~1e-15 (see REPORT_C.md)

NN_VAL = [("Missing time point", "missingKey"), ("Length of the normalize list", "wrongLength"), ("non-negative", "dNegative"),
          ("is a vector then it needs", "dLength"), ("Insufficient data", "singleton"), ("Unrecognized type", "unrecognized")]
NN_TYPE = [("d should be of type", "dNone")]


def nn_err_kind(e):
    c = exc_class(e)
    msg = str(e)
    if c == "ValueError":
        for frag, k in NN_VAL + VAL_KINDS:
            if frag in msg:
                return c + ":" + k
    elif c == "TypeError":
        for frag, k in NN_TYPE + TYPE_KINDS:
            if frag in msg:
                return c + ":" + k
    elif c == "Internal:IndexError":
        return c + ":indexError"
    elif c == "Internal:ZeroDivisionError":
        return c + (":dZero" if "float" in msg else ":noCells")
    return c + ":?"


# ------------------------------------------------------------------ argument descriptions

def d_obj(d):
    import jax.numpy as jnp
    k = d["kind"]
    v = np.asarray(d["data"], float)
    return {"none": lambda: None, "int": lambda: int(v[0]), "float": lambda: float(v[0]), "npfloat": lambda: np.float64(v[0]),
            "np": lambda: v.copy(), "list": lambda: v.tolist(), "jax": lambda: jnp.asarray(v)}[k]()


def d_token(d):
    k = d["kind"]
    if k == "none":
        return "DN"
    v = np.asarray(d["data"], float)
    if k in ("int", "float", "npfloat"):
        return "DS " + fbit(v[0])
    return ("DV %d %s" % (v.size, bits(v))).rstrip()


def norm_obj(m):
    import jax.numpy as jnp
    k = m["kind"]
    if k == "false":
        return False
    if k == "none":
        return None
    if k == "true":
        return True
    v = np.asarray(m["data"], float)
    asint = bool(m.get("ints"))
    vals = [int(a) for a in v] if asint else [float(a) for a in v]
    if k == "list":
        return vals
    if k == "tuple":
        return tuple(vals)
    if k == "np":
        return np.asarray(vals)
    if k == "jax":
        return jnp.asarray(vals)
    if k == "dict":
        keys = np.asarray(m["keys"], float)
        return {(int(a) if (m.get("intkeys") and float(a).is_integer()) else float(a)): b for a, b in zip(keys, vals)}
    raise ValueError(k)


def norm_token(m):
    k = m["kind"]
    if k in ("false", "none"):
        return "NO"
    if k == "true":
        return "NA"
    v = np.asarray(m["data"], float)
    if k == "dict":
        keys = np.asarray(m["keys"], float)
        return ("ND %d %s" % (v.size, " ".join(fbit(a) + " " + fbit(b) for a, b in zip(keys, v)))).rstrip()
    return ("NS %s %d %s" % ({"list": "L", "jax": "J", "tuple": "T", "np": "P"}[k], v.size, bits(v))).rstrip()


def ndesc(kind, data=(), keys=None, **kw):
    d = {"kind": kind, "data": np.asarray(data, float)}
    if keys is not None:
        d["keys"] = np.asarray(keys, float)
    d.update(kw)
    return d


def ddesc(kind, data=()):
    return {"kind": kind, "data": np.asarray(data, float)}


# ------------------------------------------------------------------ the independent oracle (numpy, no model)

def brute_nn(X, T):
    """min over other cells with the same time stamp of the Euclidean distance; None where there is no other cell."""
    n = X.shape[0]
    out = [None] * n
    for i in range(n):
        best = None
        for j in range(n):
            if j != i and T[j] == T[i]:
                dd = math.sqrt(float(np.sum((X[i] - X[j]) ** 2)))
                best = dd if best is None or dd < best else best
        out[i] = best
    return out


def targets(norm, T):
    """('ok', {t: N_t}) per the property | ('refuse',) | ('off',) | ('unspecified',)."""
    uniq = sorted(set(float(t) for t in T))
    k = norm["kind"]
    if k in ("false", "none"):
        return ("off",)
    if k == "true":
        return ("ok", {t: len(T) / len(uniq) for t in uniq})
    v = [float(a) for a in np.asarray(norm["data"], float)]
    if k == "dict":
        dd = dict(zip([float(a) for a in np.asarray(norm["keys"], float)], v))
        if any(t not in dd for t in uniq):
            return ("refuse",)
        return ("ok", {t: dd[t] for t in uniq})
    if len(v) != len(uniq):
        return ("refuse",)
    return ("ok", dict(zip(uniq, v)))


def rel(a, b):
    if math.isnan(a) and math.isnan(b):
        return 0.0
    return abs(a - b) / max(abs(b), 1e-300)


def merged_of(p):
    """(X, T, x description, times description) of a payload."""
    X = np.asarray(p["X"], float)
    T = np.asarray(p["T"], float)
    how = p.get("how", "column")
    if how == "column":
        return X, T, xdesc(np.column_stack([X, T])), tdesc("none", [], [])
    kind, shape = {"vec": ("np", [len(T)]), "col": ("np", [len(T), 1]), "list": ("list", [len(T)]), "jax": ("jax", [len(T)]),
                   "nested": ("list", [len(T), 1])}[how]
    return X, T, xdesc(X), tdesc(kind, shape, T)


def d_values(d, n, f=None):
    k = d["kind"]
    if k == "none":
        return None
    v = np.asarray(d["data"], float)
    return np.full(n, v[0]) if k in ("int", "float", "npfloat") else v


# ------------------------------------------------------------------ stream 1: the function

def case_nn(ctx, res, p):
    from mellon.parameters import compute_nn_distances_within_time_points as nnw
    from mellon.util import mle
    X, T, xd, td = merged_of(p)
    if "times_override" in p:                       # malformed: a times argument that does not fit x
        td = p["times_override"]
    d, norm = p["d"], p["norm"]
    n = X.shape[0]
    try:
        out = ("ok", np.asarray(nnw(x_obj(xd), time_obj(td), d_obj(d), norm_obj(norm)), float))
    except Exception as e:
        out = ("err", nn_err_kind(e), str(e)[:160])
    uniq = sorted(set(T.tolist()))
    sizes = sorted(int(np.sum(T == t)) for t in uniq)
    res.count("nn time_points=%d" % len(uniq))
    res.count("nn how=" + p.get("how", "column"))
    res.count("nn norm=" + norm["kind"])
    res.count("nn d=" + d["kind"])
    res.count("nn f=%d" % X.shape[1])
    res.count("nn outcome=" + (out[0] if out[0] == "ok" else out[1]))
    canon = ("nn", X.shape, X.tobytes(), T.tobytes(), p.get("how"), d["kind"], np.asarray(d["data"]).tobytes(), norm["kind"],
             np.asarray(norm["data"]).tobytes(), None if "keys" not in norm else np.asarray(norm["keys"]).tobytes(),
             None if "times_override" not in p else (td["kind"], tuple(td["shape"])))
    res.case(canon, len(uniq) >= 2 or norm["kind"] not in ("false", "none") or out[0] != "ok",
             {"op": "nn", "n": n, "f": int(X.shape[1]), "group_sizes": sizes, "how": p.get("how", "column"), "norm": norm["kind"],
              "d": d["kind"], "outcome": out[0] if out[0] == "ok" else out[1]})
    # ---- correspondence with the model
    if ctx["driver"] is not None:
        rep = ctx["driver"].ask(f"nnwithin {x_token(xd)} {time_token(td)} {d_token(d)} {norm_token(norm)}")
        if rep.startswith("ok"):
            tk = rep.split()
            M = unbits(tk[2:], (int(tk[1]),))
            if out[0] != "ok":
                res.corr_fail("model accepts what compute_nn_distances_within_time_points refuses", p, detail={"impl": out[1:]})
            elif M.shape != out[1].shape:
                res.corr_fail("output length differs from the model", p)
            else:
                dv = float(np.max(np.abs(M - out[1]) / np.maximum(np.abs(M), 1e-300), initial=0.0))
                res.dev("nn_impl_vs_model_rel", dv)
                if not dv <= TOL:
                    res.corr_fail("nearest-neighbour distances differ from the model", p, detail={"rel_dev": dv})
        elif ":" in rep and rep.split(":")[0] in ("ValueError", "TypeError", "Internal"):
            if out[0] == "ok":
                res.corr_fail("model refuses what the implementation accepts", p, detail={"model": rep})
            elif out[1] != rep:
                res.corr_fail("implementation and model refuse differently", p, detail={"impl": out[1:], "model": rep})
        else:
            res.corr_fail("driver: " + rep[:100], p)
    # ---- property oracle
    if "times_override" in p:
        return
    raw = brute_nn(X, T)
    if any(r is None for r in raw):
        if out[0] == "ok" or not out[1].startswith("ValueError"):
            res.oracle_fail("a time point with a single cell is not refused with ValueError", p,
                            detail={"got": "ok" if out[0] == "ok" else out[1:]}, signature="C14:singleton-not-refused")
        return
    tg = targets(norm, T)
    dv_ = d_values(d, n)
    if tg[0] == "refuse":
        if out[0] == "ok":
            sig = "C14:wrong-length-accepted:" + norm["kind"] if norm["kind"] != "dict" else "C14:missing-key-accepted"
            res.oracle_fail("normalisation targets of the wrong length / with a missing key are not refused", p,
                            detail={"kind": norm["kind"], "n_targets": int(np.asarray(norm["data"]).size), "n_time_points": len(uniq)},
                            signature=sig)
        return
    if tg[0] == "ok" and (dv_ is None or len(dv_) != n or np.any(dv_ <= 0)):
        return          # malformed d: refusal branches, correspondence only
    if out[0] != "ok":
        if norm["kind"] in ("np", "tuple", "list", "jax", "dict", "true", "false", "none"):
            res.oracle_fail("a valid call is refused", p, detail={"got": out[1:]}, signature="C14:valid-refused:" + norm["kind"])
        return
    o = out[1]
    if o.shape != (n,):
        res.oracle_fail("output does not have one entry per cell", p, signature="C14:shape")
        return
    for i in range(n):
        want = raw[i]
        if tg[0] == "ok":
            nt = float(np.sum(T == T[i]))
            want = (nt / tg[1][float(T[i])]) ** (1.0 / dv_[i]) * raw[i]
        dv = rel(float(o[i]), want)
        res.dev("nn_impl_vs_numpy_oracle_rel", dv)
        if not dv <= TOL:
            res.oracle_fail("distance is not (n_t/N_t)^(1/d) x the distance to the nearest other cell of the same time point", p,
                            detail={"cell": i, "impl": float(o[i]), "expected": want, "raw": raw[i]},
                            signature="C14:nn-value:" + ("raw" if tg[0] == "off" else norm["kind"]))
            return
    # density scaling: mle(out) = mle(nn) + log(N_t/n_t), with the implementation's own mle
    if tg[0] == "ok":
        dd = np.asarray(dv_, float)
        lhs = np.asarray(mle(o, dd), float) - np.asarray(mle(np.asarray(raw, float), dd), float)
        rhs = np.array([math.log(tg[1][float(T[i])] / float(np.sum(T == T[i]))) for i in range(n)])
        sc = np.max(np.abs(np.asarray(mle(np.asarray(raw, float), dd), float))) + 1.0
        dv = float(np.max(np.abs(lhs - rhs))) / sc
        res.dev("mle_shift_vs_log_ratio_rel", dv)
        if not dv <= 1e-9:
            res.oracle_fail("normalisation does not multiply the MLE density by N_t/n_t", p, detail={"dev": dv},
                            signature="C14:density-scale")


# ------------------------------------------------------------------ stream 2: compute_average_cell_count

def expected_nobs(norm, T):
    uniq = sorted(set(float(t) for t in T))
    k = norm["kind"]
    if k in ("false", "none", "true"):
        return ("ok", len(T) / len(uniq))
    v = [float(a) for a in np.asarray(norm["data"], float)]
    if k == "dict":
        dd = dict(zip([float(a) for a in np.asarray(norm["keys"], float)], v))
        if any(t not in dd for t in uniq):
            return ("unspecified",)
        return ("ok", sum(dd[t] for t in uniq) / len(uniq))
    if len(v) != len(uniq):
        return ("unspecified",)
    return ("ok", sum(v) / len(v))


def case_avg(ctx, res, p):
    from mellon.parameters import compute_average_cell_count as acc
    import jax.numpy as jnp
    X, T = np.asarray(p["X"], float), np.asarray(p["T"], float)
    norm = p["norm"]
    Xt = jnp.asarray(np.column_stack([X, T]))
    try:
        out = ("ok", float(acc(Xt, norm_obj(norm))))
    except Exception as e:
        out = ("err", nn_err_kind(e), str(e)[:120])
    res.count("avg norm=" + norm["kind"])
    res.count("avg outcome=" + (out[0] if out[0] == "ok" else out[1]))
    res.case(("avg", X.shape, T.tobytes(), norm["kind"], np.asarray(norm["data"]).tobytes(),
              None if "keys" not in norm else np.asarray(norm["keys"]).tobytes()), True,
             {"op": "avg", "n": len(T), "norm": norm["kind"], "outcome": out[0] if out[0] == "ok" else out[1]})
    if ctx["driver"] is not None:
        rep = ctx["driver"].ask(("avgcount %d %s %s" % (len(T), bits(T), norm_token(norm))))
        if rep.startswith("ok"):
            v = float(unbits(rep.split()[1:])[0])
            if out[0] != "ok":
                res.corr_fail("model accepts what compute_average_cell_count refuses", p, detail={"impl": out[1:]})
            else:
                dv = rel(out[1], v)
                res.dev("avgcount_impl_vs_model_rel", dv)
                if not dv <= TOL:
                    res.corr_fail("average cell count differs from the model", p, detail={"impl": out[1], "model": v})
        elif out[0] == "ok" or out[1] != rep:
            res.corr_fail("compute_average_cell_count and the model disagree on the refusal", p,
                          detail={"impl": out[:2], "model": rep})
    exp = expected_nobs(norm, T)
    if exp[0] == "ok":
        if out[0] != "ok":
            res.oracle_fail("average cell count refused for a valid target", p, detail={"got": out[1:]},
                            signature="C14:n_obs-refused:" + norm["kind"])
        elif not rel(out[1], exp[1]) <= TOL:
            extra = norm["kind"] == "dict" and len(np.asarray(norm["keys"])) > len(set(T.tolist()))
            res.oracle_fail("n_obs is not the average target count per time point", p,
                            detail={"impl": out[1], "expected": exp[1]},
                            signature="C14:n_obs:dict-extra-keys" if extra else "C14:n_obs-value:" + norm["kind"])


# ------------------------------------------------------------------ stream 3: the estimator

def case_est(ctx, res, p):
    m = mellon()
    X, T = np.asarray(p["X"], float), np.asarray(p["T"], float)
    norm, d = p["norm"], p["d"]
    how = p.get("how", "column")
    lsf = float(p.get("ls_factor", 1.0))
    supplied = None if p.get("supplied") is None else np.asarray(p["supplied"], float)
    fit = bool(p.get("fit", False))
    cfg = p.get("cfg", "full")
    kw = {"full": dict(n_landmarks=0), "lmchol": dict(n_landmarks=6), "lm": dict(n_landmarks=6, rank=0.9)}[cfg]
    n, f = X.shape
    got = {}
    stage = "init"
    try:
        est = m.TimeSensitiveDensityEstimator(normalize_per_time_point=norm_obj(norm), d=d_obj(d), ls_factor=lsf,
                                              nn_distances=supplied, ls_time=1.0, **kw)
        stage = "prepare"
        if how == "column":
            args = (np.column_stack([X, T]),)
        else:
            args = (X, {"vec": T, "col": T[:, None], "list": T.tolist()}[how])
        est.prepare_inference(*args)
        got["nn"] = np.asarray(est.nn_distances, float)
        got["ls"] = float(est.ls)
        if fit:
            stage = "fit"
            est.run_inference()
            est.process_inference()
            got["nobs"] = float(est.predict.n_obs)
            got["cls"] = type(est.predict).__name__
        err = None
    except Exception as e:
        err = (stage, nn_err_kind(e), str(e)[:140])
    res.count("est cfg=" + cfg)
    res.count("est norm=" + norm["kind"])
    res.count("est fit=%s supplied=%s" % (fit, supplied is not None))
    res.count("est outcome=" + ("ok" if err is None else err[0] + ":" + err[1]))
    res.case(("est", X.tobytes(), T.tobytes(), how, norm["kind"], np.asarray(norm["data"]).tobytes(), d["kind"],
              np.asarray(d["data"]).tobytes(), lsf, None if supplied is None else supplied.tobytes(), fit, cfg), True,
             {"op": "est", "n": n, "f": f, "cfg": cfg, "norm": norm["kind"], "d": d["kind"], "fit": fit,
              "supplied": supplied is not None, "outcome": "ok" if err is None else err[:2]})
    dm = d if d["kind"] != "none" else ddesc("float", [float(f)])          # d_method='embedding': d = number of state columns
    # ---- correspondence
    if ctx["driver"] is not None:
        Xt = np.column_stack([X, T])
        sup = "N" if supplied is None else ("Y %d %s" % (supplied.size, bits(supplied)))
        rep = ctx["driver"].ask(f"tsest {n} {f + 1} {bits(Xt)} {d_token(dm)} {norm_token(norm)} {sup} {fbit(lsf)}")
        parts = [s.strip() for s in rep.split(";")]
        if len(parts) != 3:
            res.corr_fail("driver: " + rep[:100], p)
        else:
            mnn, mls, mno = parts
            if "nn" in got:
                if not mnn.startswith("ok"):
                    res.corr_fail("model refuses nn_distances the estimator computes", p, detail={"model": mnn})
                else:
                    M = unbits(mnn.split()[2:])
                    dv = float(np.max(np.abs(M - got["nn"]) / np.maximum(np.abs(M), 1e-300), initial=0.0)) if M.shape == got["nn"].shape else np.inf
                    res.dev("est_nn_vs_model_rel", dv)
                    if not dv <= TOL:
                        res.corr_fail("est.nn_distances differs from the model", p, detail={"rel_dev": dv})
                if not mls.startswith("ok"):
                    res.corr_fail("model refuses the ls the estimator computes", p, detail={"model": mls})
                else:
                    v = float(unbits(mls.split()[1:])[0])
                    dv = rel(got["ls"], v)
                    res.dev("est_ls_vs_model_rel", dv)
                    if not dv <= TOL:
                        res.corr_fail("est.ls differs from the model", p, detail={"impl": got["ls"], "model": v})
            elif err is not None and err[0] == "prepare":
                first = mnn if not mnn.startswith("ok") else mls
                if first.startswith("ok") or first != err[1]:
                    res.corr_fail("estimator and model refuse differently in prepare_inference", p, detail={"impl": err, "model": [mnn[:40], mls[:40]]})
            if "nobs" in got:
                if not mno.startswith("ok"):
                    res.corr_fail("model refuses the n_obs the estimator sets", p, detail={"model": mno})
                else:
                    v = float(unbits(mno.split()[1:])[0])
                    dv = rel(got["nobs"], v)
                    res.dev("est_nobs_vs_model_rel", dv)
                    if not dv <= TOL:
                        res.corr_fail("predictor.n_obs differs from the model", p, detail={"impl": got["nobs"], "model": v})
            elif err is not None and err[0] == "fit":
                if mno.startswith("ok") or mno != err[1]:
                    res.corr_fail("estimator and model disagree on the refusal at predictor construction", p,
                                  detail={"impl": err, "model": mno[:60]})
    # ---- property oracle
    raw = brute_nn(X, T)
    if any(r is None for r in raw):
        if supplied is None and (err is None or not err[1].startswith("ValueError")):
            res.oracle_fail("estimator accepts a time point with a single cell", p, signature="C14:est:singleton-not-refused")
        return
    tg = targets(norm, T)
    if tg[0] == "refuse":
        if supplied is None and err is None:
            res.oracle_fail("estimator accepts normalisation targets of the wrong length / with a missing key", p,
                            signature="C14:est:wrong-targets-accepted:" + norm["kind"])
        return
    if err is not None and err[0] != "fit":
        res.oracle_fail("estimator refuses a valid configuration", p, detail={"err": err}, signature="C14:est:valid-refused:" + norm["kind"])
        return
    dv_ = d_values(dm, n)
    rawa = np.asarray(raw, float)
    if "nn" in got:
        if supplied is not None:
            if got["nn"].tobytes() != supplied.tobytes():
                res.oracle_fail("explicitly supplied nn_distances are modified", p, signature="C14:est:given-nn-touched")
        else:
            want = rawa if tg[0] == "off" else np.array([(float(np.sum(T == T[i])) / tg[1][float(T[i])]) ** (1.0 / dv_[i]) * raw[i]
                                                         for i in range(n)])
            dv = float(np.max(np.abs(got["nn"] - want) / want))
            res.dev("est_nn_vs_numpy_oracle_rel", dv)
            if not dv <= TOL:
                res.oracle_fail("est.nn_distances is not the (normalised) within-time-point neighbour distance", p,
                                detail={"rel_dev": dv}, signature="C14:est:nn-value:" + norm["kind"])
        base = supplied if (supplied is not None and tg[0] == "off") else rawa
        want_ls = math.exp(float(np.mean(np.log(base))) + 3.0) * lsf
        dv = rel(got["ls"], want_ls)
        res.dev("est_ls_vs_numpy_oracle_rel", dv)
        if not dv <= TOL:
            res.oracle_fail("length-scale heuristic does not use the un-normalised distances", p,
                            detail={"impl": got["ls"], "expected": want_ls}, signature="C14:est:ls:" + norm["kind"])
    exp = expected_nobs(norm, T)
    if "nobs" in got and exp[0] == "ok" and not rel(got["nobs"], exp[1]) <= TOL:
        extra = norm["kind"] == "dict" and len(np.asarray(norm["keys"])) > len(set(T.tolist()))
        res.oracle_fail("predictor.n_obs is not the average target count per time point", p,
                        detail={"impl": got["nobs"], "expected": exp[1]},
                        signature="C14:n_obs:dict-extra-keys" if extra else "C14:est:n_obs-value:" + norm["kind"])


def case_lstime_d(ctx, res, p):
    """A per-cell d with the time length scale computed (ls_time=None): every per-time-point helper fit must get the d of its
    own cells (fixed defect 724639b: it got the whole vector -> TypeError); a constant vector is the scalar."""
    m = mellon()
    rng = np.random.default_rng(int(p["seed"]))
    n = 36
    X = rng.normal(size=(n, 2))
    T = np.repeat([0.0, 1.0, 2.0], [15, 12, 9])[rng.permutation(n)]
    kw = dict(optimizer="adam", n_iter=3, n_landmarks=0)
    res.case(("lstime_d", p["seed"]), True, {"op": "lstime_d", "seed": p["seed"]})
    out = {}
    for name, d in (("scalar", 2.0), ("const-vector", np.full(n, 2.0)), ("vector", np.exp(rng.uniform(np.log(1.5), np.log(3.0), size=n)))):
        try:
            e = m.TimeSensitiveDensityEstimator(d=d, **kw)
            r = np.asarray(e.fit_predict(X, T), float)
            out[name] = (float(e.ls_time), r)
        except Exception as ex:
            res.oracle_fail(f"TimeSensitiveDensityEstimator(d={name}) with a computed ls_time raised {type(ex).__name__}: {str(ex)[:100]}",
                            p, signature="C14:per-cell-d-ls-time")
            return
        if not (np.isfinite(out[name][0]) and out[name][0] > 0 and np.all(np.isfinite(r))):
            res.oracle_fail("per-cell d with a computed ls_time gives a non-finite result", p, signature="C14:per-cell-d-ls-time")
    if out["scalar"][0] != out["const-vector"][0] or out["scalar"][1].tobytes() != out["const-vector"][1].tobytes():
        res.oracle_fail("a constant per-cell d does not give the result of the scalar when ls_time is computed", p,
                        detail={"ls_time": [out["scalar"][0], out["const-vector"][0]]}, signature="C14:per-cell-d-ls-time")
    res.count("lstime_d:done")


def run_case(ctx, res, p):
    mellon()
    if p["op"] == "lstime_d":
        return case_lstime_d(ctx, res, p)
    if p["op"] == "nn":
        return case_nn(ctx, res, p)
    if p["op"] == "avg":
        return case_avg(ctx, res, p)
    if p["op"] == "est":
        return case_est(ctx, res, p)
    raise ValueError(p["op"])


# ------------------------------------------------------------------ generation

# group-size menus (sum = n): few distinct (n, sizes) so that XLA shapes repeat
PARTS = {1: [[5], [9]], 2: [[2, 7], [4, 5]], 3: [[2, 3, 6], [3, 4, 5]], 4: [[2, 2, 3, 5]], 5: [[2, 3, 3, 4, 6]],
         6: [[2, 2, 3, 3, 4, 5]], 7: [[2, 2, 2, 3, 3, 4, 5]], 8: [[2, 2, 2, 3, 3, 3, 4, 5]]}


def gen_data(rng, k=None, f=None, sizes=None, singleton=False):
    k = len(sizes) if sizes is not None else (k or int(rng.integers(1, 9)))
    sizes = list(sizes or PARTS[k][int(rng.integers(len(PARTS[k])))])
    if singleton:
        sizes[int(rng.integers(len(sizes)))] = 1
    f = f or int(rng.choice([1, 2, 3, 25], p=[0.2, 0.4, 0.3, 0.1]))
    style = int(rng.integers(5))
    if style == 4:
        # large stamps that differ by far less than 1e-5 relative (dates, step counters): distinct time points all the same
        stamps = 738000.0 + np.cumsum(rng.choice([0.25, 0.5, 1.0, 2.0], size=k))
    elif style == 0:
        stamps = rng.permutation(20)[:k].astype(float)                    # integers
    elif style == 1:
        stamps = np.round(rng.normal(size=k) * 5, 2)                      # non-integer, negative
    elif style == 2:
        stamps = np.round(rng.uniform(0, 1, size=k), 3) + rng.integers(0, 3, size=k)
    else:
        stamps = rng.normal(size=k) * 10.0 ** int(rng.integers(-3, 4))           # full-precision floats
    while len(set(stamps.tolist())) < k:
        stamps = stamps + rng.normal(size=k) * 0.37
    stamps = stamps[rng.permutation(k)]                                   # sizes are not ordered by time
    T = np.repeat(stamps, sizes)
    n = len(T)
    perm = rng.permutation(n)                                             # unsorted
    T = T[perm]
    X = rng.normal(size=(n, f)) * float(np.exp(rng.uniform(-2, 2)))
    if rng.random() < 0.3:
        X = X + rng.normal(size=f) * 10
    return np.ascontiguousarray(X), np.ascontiguousarray(T)


def gen_norm(rng, T, kind=None, bad=None):
    uniq = sorted(set(T.tolist()))
    k = len(uniq)
    kind = kind or ["false", "none", "true", "list", "jax", "tuple", "np", "dict"][int(rng.integers(8))]
    if kind in ("false", "none", "true"):
        return ndesc(kind)
    ints = bool(rng.random() < 0.5)
    vals = rng.integers(3, 200, size=k).astype(float) if ints else np.round(rng.uniform(2, 150, size=k), 2)
    if kind == "dict":
        keys = np.asarray(uniq)[rng.permutation(k)]
        vals_k = vals
        if bad == "missing":
            drop = int(rng.integers(k))
            keys, vals_k = np.delete(keys, drop), np.delete(vals, drop)
        elif bad == "extra":
            keys = np.concatenate([keys, [max(uniq) + 1.5, min(uniq) - 2.0][: int(rng.integers(1, 3))]])
            vals_k = np.concatenate([vals, rng.integers(50, 900, size=len(keys) - k).astype(float)])
        return ndesc("dict", vals_k, keys=keys, ints=ints, intkeys=bool(rng.random() < 0.5))
    if bad == "short":
        vals = vals[:-1]
    elif bad == "long":
        vals = np.concatenate([vals, [77.0]])
    return ndesc(kind, vals, ints=ints)


def gen_d(rng, n, f, kind=None):
    kind = kind or ["int", "float", "npfloat", "np", "list", "jax"][int(rng.integers(6))]
    if kind == "int":
        return ddesc("int", [float(rng.integers(1, 6))])
    if kind in ("float", "npfloat"):
        return ddesc(kind, [float(np.round(rng.uniform(0.5, 6), 3))])
    return ddesc(kind, np.round(rng.uniform(0.5, 6, size=n), 3))


HOWS = ["column", "vec", "col", "list", "jax", "nested"]


def run(ctx, res):
    rng = ctx["rng"]
    quick = ctx["tier"] == "quick"
    budget = ctx["budget"] or (62 if quick else 600)
    t0 = time.time()
    t_end = t0 + budget
    mellon()
    # ---- (0) regression: the witnesses of the former counterexample theorems (now `wrong_length_witnesses_refused`,
    #          `n_obs_dict_witness`) must be refused / give the average over the time points present
    Xw, Tw = np.array([[0.0], [1.0]]), np.array([0.0, 0.0])
    for kind in ("tuple", "np"):
        run_case(ctx, res, {"op": "nn", "X": Xw, "T": Tw, "how": "column", "d": ddesc("int", [1.0]),
                            "norm": ndesc(kind, [2.0, 7.0], ints=True)})
    run_case(ctx, res, {"op": "avg", "X": Xw, "T": Tw, "norm": ndesc("dict", [30.0, 1000.0], keys=[0.0, 9.0], ints=True)})
    run_case(ctx, res, {"op": "lstime_d", "seed": 5})
    # ---- (1a) every number of time points x every normalisation form (valid), rotating d / how / f
    for k in range(1, 9):
        for kind in ["false", "none", "true", "list", "jax", "tuple", "np", "dict"]:
            if quick and k in (6, 7) and kind in ("none", "tuple"):
                continue
            X, T = gen_data(rng, k=k)
            n, f = X.shape
            d = gen_d(rng, n, f) if kind not in ("false", "none") or rng.random() < 0.3 else ddesc("none")
            run_case(ctx, res, {"op": "nn", "X": X, "T": T, "how": HOWS[int(rng.integers(len(HOWS)))], "d": d,
                                "norm": gen_norm(rng, T, kind)})
            run_case(ctx, res, {"op": "avg", "X": X, "T": T, "norm": gen_norm(rng, T, kind)})
    # ---- (1b) the malformed stream
    for k in (1, 2, 3, 5):
        X, T = gen_data(rng, k=k)
        n, f = X.shape
        dd = gen_d(rng, n, f)
        for kind in ("list", "jax", "tuple", "np"):
            for bad in ("short", "long"):
                nm = gen_norm(rng, T, kind, bad=bad)
                run_case(ctx, res, {"op": "nn", "X": X, "T": T, "how": "column", "d": dd, "norm": nm})
                run_case(ctx, res, {"op": "avg", "X": X, "T": T, "norm": nm})
        for bad in ("missing", "extra"):
            nm = gen_norm(rng, T, "dict", bad=bad)
            run_case(ctx, res, {"op": "nn", "X": X, "T": T, "how": "vec", "d": dd, "norm": nm})
            run_case(ctx, res, {"op": "avg", "X": X, "T": T, "norm": nm})
        nm = gen_norm(rng, T, "true")
        for bd in [ddesc("none"), ddesc("float", [-1.5]), ddesc("np", -np.ones(n)), ddesc("np", np.ones(n + 1)),
                   ddesc("list", np.ones(max(n - 1, 1))), ddesc("int", [0.0])]:
            run_case(ctx, res, {"op": "nn", "X": X, "T": T, "how": "column", "d": bd, "norm": nm})
        Xs, Ts = gen_data(rng, k=max(k, 2), singleton=True)
        for kind in ("false", "true", "dict", "np"):
            run_case(ctx, res, {"op": "nn", "X": Xs, "T": Ts, "how": "vec", "d": gen_d(rng, len(Ts), Xs.shape[1]),
                                "norm": gen_norm(rng, Ts, kind)})
        for td in [tdesc("np", [n + 1], rng.normal(size=n + 1)), tdesc("np", [n, 2], rng.normal(size=2 * n)),
                   tdesc("float", [], [1.0]), tdesc("np", [], [1.0]), tdesc("np", [1], [1.0])]:
            run_case(ctx, res, {"op": "nn", "X": X, "T": T, "how": "vec", "d": dd, "norm": gen_norm(rng, T, "false"),
                                "times_override": td})
    # ---- (3) estimator: one fixed shape (n = 24, f = 2), the three predictor classes, every normalisation form
    est_kinds = ["false", "true", "list", "jax", "dict", "np", "tuple", "none"]
    cfgs = ["full", "lmchol", "lm"]
    n_est = 0
    est_budget_end = t0 + (0.8 * budget if quick else 0.55 * budget)
    for rnd in range(1 if quick else 5):
        for j, kind in enumerate([est_kinds[i] for i in rng.permutation(8)]):
            if time.time() > est_budget_end:
                res.count("est skipped for time: " + kind)
                continue
            X, T = gen_data(rng, sizes=[[5, 8, 11], [4, 6, 14], [3, 9, 12]][int(rng.integers(3))], f=2)
            n, f = X.shape
            d = [ddesc("none"), gen_d(rng, n, f, "float"), gen_d(rng, n, f, "np")][int(rng.integers(3))]
            bad = "extra" if (kind == "dict" and rng.random() < 0.5) else None
            p = {"op": "est", "X": X, "T": T, "how": ["column", "vec", "col", "list"][int(rng.integers(4))], "d": d,
                 "norm": gen_norm(rng, T, kind, bad=bad), "ls_factor": float(np.round(rng.uniform(0.5, 2.5), 2)),
                 "cfg": cfgs[(j + int(rng.integers(3))) % 3], "fit": True}
            run_case(ctx, res, p)
            n_est += 1
            # explicit nn_distances (prepare only)
            if j % 2 == 0:
                q = dict(p)
                q["supplied"] = np.round(np.abs(rng.normal(size=n)) + 0.05, 4)
                q["fit"] = False
                run_case(ctx, res, q)
            # malformed targets / singleton through the estimator (prepare only)
            if j % 3 == 0:
                q = dict(p)
                q["fit"] = False
                if kind in ("list", "jax", "np", "tuple"):
                    q["norm"] = gen_norm(rng, T, kind, bad=["long", "short"][int(rng.integers(2))])
                elif kind == "dict":
                    q["norm"] = gen_norm(rng, T, "dict", bad="missing")
                else:
                    Xs, Ts = gen_data(rng, sizes=[1, 9, 14], f=2)
                    q["X"], q["T"] = Xs, Ts
                    q["norm"] = gen_norm(rng, Ts, kind)
                    if q["d"]["kind"] == "np":
                        q["d"] = ddesc("float", [2.0])
                run_case(ctx, res, q)
    res.count("est fitted", n_est)
    # a single time point (seeded change C14-g): the length-scale heuristic keeps using the un-normalised distances, also when
    # the target count of that one time point differs from its size
    for kind in ("list", "dict", "true", "np"):
        X, T = gen_data(rng, sizes=[20], f=2)
        run_case(ctx, res, {"op": "est", "X": X, "T": T, "how": "column", "d": ddesc("none"), "norm": gen_norm(rng, T, kind),
                            "ls_factor": 1.0, "cfg": "full", "fit": False})
    res.count("est single time point", 4)
    # ---- (1c) sampled
    i = 0
    while time.time() < t_end and i < ctx.get("max_sampled", 10 ** 9):
        X, T = gen_data(rng)
        n, f = X.shape
        u = rng.random()
        if u < 0.75:
            nm = gen_norm(rng, T)
            d = gen_d(rng, n, f) if nm["kind"] not in ("false", "none") or rng.random() < 0.3 else ddesc("none")
            run_case(ctx, res, {"op": "nn", "X": X, "T": T, "how": HOWS[int(rng.integers(len(HOWS)))], "d": d, "norm": nm})
        elif u < 0.9:
            run_case(ctx, res, {"op": "avg", "X": X, "T": T,
                                "norm": gen_norm(rng, T, bad=[None, "extra", "long"][int(rng.integers(3))] if rng.random() < 0.3 else None)})
        else:
            kind = ["list", "jax", "tuple", "np", "dict"][int(rng.integers(5))]
            bad = ["short", "long"][int(rng.integers(2))] if kind != "dict" else ["missing", "extra"][int(rng.integers(2))]
            run_case(ctx, res, {"op": "nn", "X": X, "T": T, "how": "column", "d": gen_d(rng, n, f), "norm": gen_norm(rng, T, kind, bad=bad)})
        i += 1
    res.count("sampled", i)


CLAIM = {
    "text": "Lean theorems: sorted-unique time stamps (contract of jnp.unique proved for the model); for every data set, every "
            "partition into time points and every cell i the un-normalised output is attained by another cell of the same time "
            "point and is <= the distance to every other such cell (over R, brute force = KD-tree contract), in the original "
            "order; a time point with a single cell is refused; with normalisation the output is (n_t/N_t)^(1/d_i) x that "
            "distance with N_t = n/#times (True), the entry at the rank of t among the sorted unique times (list/array), the "
            "dictionary entry (dict); missing keys and wrong-length targets of every sized form (list, tuple, JAX / NumPy array) "
            "are refused with ValueError and no call ends in IndexError; "
            "mle(out) = mle(nn) + log(N_t/n_t) (direction and exponent); n_obs per form; ls from un-normalised distances; "
            "explicit nn_distances untouched. Tied to /repo by running compute_nn_distances_within_time_points, "
            "compute_average_cell_count and fitted TimeSensitiveDensityEstimators against the model driver and a numpy oracle.",
    "note": "Mirrors /repo after the two C14 `fix:` commits (length check of every sized target; dict n_obs over the time points "
            "present); the former counterexample witnesses are regression cases. KD/Ball tree exactness is a contract; "
            "float rounding modelled away (1e-9 relative tolerance, observed ~1e-15).",
    "technique": "Lean 4 proof (list induction for unique/scatter/min, real analysis for the MLE scaling law) + differential "
                 "correspondence on the function, on compute_average_cell_count and on fitted estimators + numpy brute-force oracle",
}
