"""C10 — requested rank / variance fraction is honoured by the rank reduction.

Correspondence: `mellon.decomposition._eigendecomposition(A, rank)` (column count, returned eigenpairs) and
`mellon.parameters.compute_L(..., gp_type='full_nystroem'|'sparse_nystroem', rank=...)` against the Lean model
`selectRank` run (a) over exact rationals on the eigenvalues the implementation's own `eigh` returns (doubles are
rationals) and (b) over IEEE doubles; `lowRankFactor` against the returned factor.
Oracle (independent of the model): exact `fractions.Fraction` re-computation of "least p >= 1 whose prefix sum
reaches f * total" on the DESIGNED spectrum (or on a NumPy eigen-decomposition of the reference matrix), with an
explicit admissible band [p_lo, p_hi] that collapses to one value whenever f keeps a margin from every prefix
fraction; plus residual checks that the returned pairs are eigenpairs and that L L^T reproduces them."""
import time
from fractions import Fraction
import numpy as np
from ..common import mellon, bits, unbits, fbit, loguniform, exc_class, rel_err

RULE = ("cases = (symmetric matrix A = V diag(s) V^T with a designed spectrum s, rank request); spectra from 8 families "
        "(fast/slow decay, exact ties, clusters, tiny, exact zeros, slightly negative, dyadic) x sizes from the menu "
        "{1,2,3,5,8,13,50,200} x V in {permutation (eigh exact), random orthogonal}; requests: integers "
        "{1,2,nPos-1,nPos,nPos+1,n,n+5,0,-1}, fractions uniform, at relative distance 1e-3/1e-6/1e-8 from a prefix "
        "fraction (margin stream) or equal to one (tie stream, judged by the admissible band, i.e. |delta kept| <= 1), "
        "and the floats 0.0, 1.0, 2.0, -0.5; plus compute_L on point clouds (full_nystroem / sparse_nystroem; integer ranks "
        "also as NumPy / JAX integer scalars: np.int64 / int32 / uint8, 0-d np / jnp integer arrays, which must keep the "
        "columns of the same Python int, with and without an explicit gp_type) and "
        "monotonicity sweeps.  distinct = hash of (spectrum, V seed, request); non-trivial = 1 < kept < #positive or an "
        "integer request below #positive")
PARTIAL = ["float ties: when f*total coincides with a prefix sum up to rounding (relative margin < 1e-9) the number of "
           "directions is only checked to lie in the admissible band (at most one apart); the theorems are exact over "
           "ordered fields, the rounding of cumsum / f*total in float64 is modelled away",
           "spectra without any positive eigenvalue are outside the property (min(r, 0) = 0 contradicts 'at least one "
           "is kept'); code and model refuse them with a ValueError (since the fix), which oracle and correspondence check",
           "reproduces_eigenpairs assumes the eigh contract (orthonormal V, A = V diag s V^T); the harness checks the "
           "contract's consequences numerically (residuals) on every case"]
ASSUMPTIONS = ["jax.numpy.linalg.eigh returns ascending eigenvalues with orthonormal eigenvectors (contract; residuals "
               "checked on every case)",
               "jnp.searchsorted(side='left') on a non-decreasing array returns the index of the first element >= v "
               "(the model's linear scan; proved equal to 'number of elements < v' on sorted lists)",
               "total of the property = sum of the positive eigenvalues (what the code normalises by); equal to the trace "
               "for positive semi-definite input (theorem total_eq_sum_of_nonneg)"]
TRUSTED_EXTRA = ["LAPACK eigh / qr via jax (contract, exercised by residual checks)"]

EPS = 2.0 ** -52
SIZES_QUICK = [1, 2, 3, 5, 8, 13]
SIZES_BIG = [50, 200]


# ------------------------------------------------------------------ helpers

# integer rank given as a NumPy / JAX integer scalar (validate_float_or_int must hand it on as the Python int)
NPINT_FORMS = ["In", "In32", "Iu8", "Ia", "Ia32", "Ij", "Ij32"]
SIG_NPINT = "C10:numpy-integer-rank"


def rank_obj(r):
    k, v = r[0], r[1]
    if k == "I":
        return int(v)
    if k == "In":
        return np.int64(v)
    if k == "In32":
        return np.int32(v)
    if k == "Iu8":
        return np.uint8(v)
    if k == "Ia":
        return np.asarray(int(v), dtype=np.int64)
    if k == "Ia32":
        return np.asarray(int(v), dtype=np.int32)
    if k in ("Ij", "Ij32"):
        import jax.numpy as jnp
        a = jnp.asarray(np.asarray(int(v), dtype=np.int64 if k == "Ij" else np.int32))
        assert a.ndim == 0 and a.dtype.kind == "i"
        return a
    if k == "F":
        return float(v)
    if k == "Fn":
        return np.float64(v)
    raise ValueError(r)


def rank_is_float(r):
    return r[0] in ("F", "Fn")


def frac_tok(x):
    fr = Fraction(float(x))
    return f"{fr.numerator} {fr.denominator}"


def model_kept(ctx, desc, r, mode):
    """Ask the Lean model; desc = eigenvalues in descending order (floats)."""
    n = len(desc)
    if mode == "Q":
        body = " ".join(frac_tok(x) for x in desc)
        req = f"F {frac_tok(r[1])}" if rank_is_float(r) else f"I {int(r[1])}"
    else:
        body = bits(np.asarray(desc, float))
        req = f"F {fbit(r[1])}" if rank_is_float(r) else f"I {int(r[1])}"
    out = ctx["driver"].ask(f"selrank {mode} {n} {body} {req}".replace("  ", " "))
    if out.startswith("ok "):
        return int(out.split()[1])
    return out


def build_matrix(s_desc, mode, qseed):
    s = np.asarray(s_desc, float)
    n = len(s)
    rng = np.random.default_rng(int(qseed))
    if mode == "diag":
        perm = rng.permutation(n)
        A = np.zeros((n, n))
        A[perm, perm] = s
        return A
    Q, _ = np.linalg.qr(rng.normal(size=(n, n)))
    A = (Q * s) @ Q.T
    return (A + A.T) / 2


def prefix_fracs(pos):
    out, acc = [], Fraction(0)
    for x in pos:
        acc += x
        out.append(acc)
    return out


def band(s_desc, r, tol, delta_rel):
    """Admissible interval [lo, hi] for the number of kept directions, from exact arithmetic on the spectrum
    s_desc (floats, descending).  tol = uncertainty of each eigenvalue, delta_rel = relative slack of the target.
    Returns None when the spectrum has no (certainly) positive eigenvalue (outside the property)."""
    S = [Fraction(float(x)) for x in s_desc]
    T = Fraction(float(tol))
    pos_lo = sum(1 for x in S if x > T)
    pos_hi = sum(1 for x in S if x > -T) if T > 0 else pos_lo
    if pos_lo == 0:
        return None
    if not rank_is_float(r):
        rr = int(r[1])
        if rr < 1:
            return None
        return min(rr, pos_lo), min(rr, pos_hi)
    f = Fraction(float(r[1]))
    pre = prefix_fracs(S[:pos_hi])
    total = pre[pos_lo - 1]
    delta = Fraction(float(delta_rel)) * total * (1 + abs(f)) + T * len(S) * (1 + abs(f))
    target = f * total

    def least(t):
        for i, v in enumerate(pre):
            if v >= t:
                return i + 1
        return pos_hi
    lo = max(1, min(least(target - delta), pos_lo))
    hi = max(1, least(target + delta))
    return lo, max(lo, hi)


def margin_of(desc_hat, r):
    """Relative distance of f*total from the nearest prefix sum of the positive part (exact)."""
    if not rank_is_float(r):
        return float("inf")
    S = [Fraction(float(x)) for x in desc_hat if x > 0]
    if not S:
        return float("inf")
    pre = prefix_fracs(S)
    total = pre[-1]
    t = Fraction(float(r[1])) * total
    return float(min(abs(v - t) for v in pre) / total)


# ------------------------------------------------------------------ bare routine

def case_eig(ctx, res, p):
    m = mellon()
    from mellon import decomposition as dec
    import jax.numpy as jnp
    s_design = [float(v) for v in np.asarray(p["s"], float).ravel()]
    n = len(s_design)
    r = list(p["rank"])
    mode = p.get("mode", "dense")
    A = build_matrix(s_design, mode, p.get("qseed", 0))
    res.count("n=%d" % n)
    res.count("family=" + p.get("family", "?"))
    res.count("request=" + ("frac:" + p.get("fkind", "?") if rank_is_float(r) else "int"))
    res.count("V=" + mode)
    sample = {"op": "eig", "n": n, "family": p.get("family"), "rank": r, "mode": mode, "s_head": s_design[:5]}
    canon = ("eig", tuple(s_design), mode, p.get("qseed", 0), tuple(r))
    # read back the eigenvalues the implementation sees
    s_hat, v_hat = dec.eigh(jnp.asarray(A))
    s_hat, v_hat = np.asarray(s_hat, float), np.asarray(v_hat, float)
    desc_hat = s_hat[::-1].tolist()
    exact_spec = mode == "diag" and np.array_equal(np.sort(np.asarray(s_design)), s_hat)
    scale = max(1e-300, float(np.max(np.abs(s_design))))
    tol = 0.0 if exact_spec else 64 * EPS * scale * n
    try:
        S, V = dec._eigendecomposition(jnp.asarray(A), rank_obj(r))
        S, V = np.asarray(S, float), np.asarray(V, float)
        kept = int(S.shape[0])
        out = kept
    except Exception as e:
        out = exc_class(e)
        kept = None
    # dyadic spectra on a permutation matrix: every prefix sum and (if representable) f*total are exact in
    # float64, so the routine's float arithmetic is exact and the band collapses to the exact answer
    delta_rel = 8 * n * EPS
    if exact_spec and p.get("dyadic", False) and rank_is_float(r):
        tot = sum(Fraction(x) for x in s_design if x > 0)
        tf = Fraction(float(r[1])) * tot
        if tot > 0 and Fraction(float(tf)) == tf and float(tot) * float(r[1]) == float(tf):
            delta_rel = 0.0
            res.count("exact_float_arithmetic")
    b = band(sorted(s_design, reverse=True), r, tol, delta_rel)
    npos_design = sum(1 for x in s_design if x > tol)
    nontrivial = kept is not None and b is not None and (1 < kept < npos_design or
                                                          (not rank_is_float(r) and 1 <= int(r[1]) < npos_design))
    res.case(canon, nontrivial, sample)
    # ---------------- independent oracle
    if b is None:
        res.count("outside_property(no positive eigenvalue or request < 1)")
        if not np.any(s_hat > 0):
            # nothing can be retained: the routine refuses (it used to return every non-positive pair for an integer
            # request and to die with an IndexError for a fraction)
            res.count("no_positive_eigenvalue_refusal_checked")
            if out != "ValueError":
                res.oracle_fail("a matrix without a positive eigenvalue is not refused with a ValueError", p,
                                detail={"outcome": out}, signature="C10:no-positive-not-refused")
    else:
        lo, hi = b
        res.count("band_width=%d" % (hi - lo))
        if kept is None:
            res.oracle_fail(f"_eigendecomposition raised {out} on a spectrum with a positive eigenvalue", p,
                            detail={"outcome": out}, signature="C10:raises")
            return
        if not (lo <= kept <= hi):
            sig = "C10:frac-count" if rank_is_float(r) else "C10:int-count"
            res.oracle_fail("number of kept eigen-directions differs from the requested rank / least sufficient prefix",
                            p, detail={"kept": kept, "admissible": [lo, hi], "n": n}, signature=sig)
        if kept < 1:
            res.oracle_fail("no eigen-direction kept", p, signature="C10:none-kept")
    if kept is not None and kept >= 1 and V.shape == (n, kept):
        # retained directions are the largest ones
        if not np.array_equal(S, s_hat[n - kept:]) or not np.array_equal(V, v_hat[:, n - kept:]):
            res.oracle_fail("retained eigenpairs are not the leading block of eigh's output", p,
                            signature="C10:not-largest")
        dsort = np.sort(np.asarray(s_design))[::-1]
        dv = float(np.max(np.abs(np.sort(S)[::-1] - dsort[:kept]))) / scale
        res.dev("kept_eigs_vs_designed_rel", dv)
        if dv > 1e-9:
            res.oracle_fail("retained eigenvalues are not the largest of the designed spectrum", p,
                            detail={"rel_dev": dv}, signature="C10:not-largest")
        # retained fraction, a posteriori on the values returned
        if rank_is_float(r) and b is not None:
            f = float(r[1])
            tot = float(np.sum(s_hat[s_hat > 0]))
            ret = float(np.sum(S))
            if 0 < f < 1:
                if ret < f * tot * (1 - 1e-12):
                    res.oracle_fail("retained variance fraction below the requested one", p,
                                    detail={"retained": ret / tot, "f": f}, signature="C10:frac-retained")
                if kept > 1 and ret - float(np.min(S)) > f * tot * (1 + 1e-12):
                    res.oracle_fail("one direction fewer would still reach the requested fraction", p,
                                    detail={"retained_one_less": (ret - float(np.min(S))) / tot, "f": f},
                                    signature="C10:frac-not-minimal")
        # eigenpair reproduction by L = V sqrt(S)
        if np.all(S > 0):
            L = V * np.sqrt(S)
            r1 = float(np.max(np.abs(A @ V - V * S))) / scale
            r2 = float(np.max(np.abs(V.T @ V - np.eye(kept))))
            r3 = float(np.max(np.abs((L @ L.T) @ V - V * S))) / scale
            res.dev("eigpair_residual_rel", r1)
            res.dev("orthonormality", r2)
            res.dev("LLt_eigpair_residual_rel", r3)
            if max(r1, r2, r3) > 1e-9:
                res.oracle_fail("retained factor does not reproduce the kept eigenpairs", p,
                                detail={"AV-VS": r1, "VtV-I": r2, "LLtV-VS": r3}, signature="C10:eigenpairs")
    # ---------------- correspondence with the Lean model
    if ctx["driver"] is not None:
        mg = margin_of(desc_hat, r)
        kq = model_kept(ctx, desc_hat, r, "Q")
        kd = model_kept(ctx, desc_hat, r, "D")
        bh = band(desc_hat, r, 0.0, 8 * n * EPS) if kept is not None else None
        for name, km, exact in (("exact-rational", kq, mg > 1e-9), ("float", kd, mg > 1e-9 or p.get("dyadic", False))):
            if isinstance(km, str) or kept is None:
                if str(km) != str(out):
                    res.corr_fail(f"{name} model outcome {km} vs implementation {out}", p)
                continue
            res.count("corr_%s_%s" % (name, "exact" if exact else "tie"))
            if exact or bh is None:
                if km != kept:
                    res.corr_fail(f"{name} model keeps {km}, implementation {kept} (margin {mg:.3g})", p)
            else:
                # tie stream: both must lie in the admissible band of the spectrum the routine saw
                res.count("tie_band_width=%d" % min(bh[1] - bh[0], 3))
                res.count("tie_delta=%d" % min(abs(km - kept), 3))
                if not (bh[0] <= kept <= bh[1]) or not (bh[0] <= km <= bh[1]):
                    res.corr_fail(f"{name} model keeps {km}, implementation {kept}, admissible {bh}", p)
        if kept is not None and 1 <= kept <= n and n <= 13 and np.all(s_hat[n - kept:] > 0):
            Vd = v_hat[:, ::-1]
            o = ctx["driver"].ask(f"lowrank {n} {kept} {bits(Vd)} {bits(s_hat[::-1])}")
            Lm = unbits(o.split()[1:], (n, kept))
            Li = (np.asarray(V) * np.sqrt(np.asarray(S)))[:, ::-1]
            dv = rel_err(Lm, Li)
            res.dev("lowrank_model_vs_impl_rel", dv)
            if dv > 1e-13:
                res.corr_fail("model lowRankFactor differs from v * sqrt(s)", p, detail={"rel": dv})


# ------------------------------------------------------------------ through compute_L

def make_cov(kind, ls):
    m = mellon()
    return {"M52": m.cov.Matern52, "EQ": m.cov.ExpQuad, "M32": m.cov.Matern32}[kind](ls)


def case_L(ctx, res, p):
    m = mellon()
    from mellon import decomposition as dec
    from mellon.parameters import compute_L
    import jax.numpy as jnp
    x = np.asarray(p["x"], float)
    n = x.shape[0]
    gp = p["gp"]
    xu = np.asarray(p["landmarks"], float) if p.get("landmarks") is not None else None
    jitter = float(p.get("jitter", 1e-6))
    r = list(p["rank"])
    cov = make_cov(p["kind"], float(p["ls"]))
    res.count("L:" + gp)
    res.count("L:request=" + ("frac" if rank_is_float(r) else "int"))
    canon = ("L", gp, x.tobytes(), None if xu is None else xu.tobytes(), p["kind"], p["ls"], jitter, tuple(r))
    sample = {"op": "L", "gp": gp, "n": n, "m": None if xu is None else xu.shape[0], "rank": r, "kind": p["kind"]}
    npint = r[0] in NPINT_FORMS
    if npint:
        res.count("L:request=numpy-integer:" + r[0])
    try:
        L = np.asarray(compute_L(x, cov, gp_type=gp, landmarks=xu, rank=rank_obj(r), jitter=jitter), float)
    except Exception as e:
        res.case(canon, False, sample)
        res.oracle_fail(f"compute_L raised {exc_class(e)} for a valid Nystroem request", p,
                        detail={"exc": str(e)[:200]}, signature=SIG_NPINT if npint else "C10:L-raises")
        return
    kept = L.shape[1]
    # independent reference: NumPy spectrum of the matrix that is approximated
    K = np.asarray(cov(x, x), float)
    if gp == "full_nystroem":
        Aref = K + jitter * np.eye(n)
        lam = np.linalg.eigvalsh(Aref)[::-1]
        tol_rel = 1e-12
        cap = n
    else:
        mm = xu.shape[0]
        W = np.asarray(cov(xu, xu), float) + jitter * np.eye(mm)
        C = np.asarray(cov(x, xu), float)
        Aref = C @ np.linalg.solve(W, C.T)
        Aref = (Aref + Aref.T) / 2
        lam = np.linalg.eigvalsh(Aref)[::-1][:min(mm, n)]
        tol_rel = 1e-7
        cap = min(mm, n)
    scale = float(lam[0])
    b = band(lam.tolist(), r, tol_rel * scale, tol_rel)
    res.case(canon, b is not None and 1 < kept < cap, sample)
    if L.shape[0] != n or kept < 1:
        res.oracle_fail("factor has the wrong number of rows or no column", p, signature="C10:L-shape")
        return
    if b is not None:
        lo, hi = b
        res.count("L:band_width=%d" % min(hi - lo, 3))
        if not (lo <= kept <= hi):
            res.oracle_fail("compute_L keeps a number of directions different from the request", p,
                            detail={"kept": kept, "admissible": [lo, hi], "gp": gp},
                            signature=SIG_NPINT if npint else "C10:L-count-" + gp)
    # eigen reproduction: columns of L are orthogonal eigenvectors of Aref scaled by sqrt(eigenvalue)
    G = L.T @ L
    S = np.diag(G).copy()
    off = float(np.max(np.abs(G - np.diag(S)))) / scale
    r1 = float(np.max(np.abs(Aref @ L - L * S))) / scale
    dS = float(np.max(np.abs(np.sort(S)[::-1] - lam[:kept]))) / scale
    res.dev("L:%s:offdiag_rel" % gp, off)
    res.dev("L:%s:eig_residual_rel" % gp, r1)
    res.dev("L:%s:kept_eigs_rel" % gp, dS)
    lim = 1e-8 if gp == "full_nystroem" else 1e-4
    if max(off, r1, dS) > lim:
        res.oracle_fail("L L^T does not reproduce the leading eigenpairs of the approximated matrix", p,
                        detail={"offdiag": off, "residual": r1, "eigs": dS, "gp": gp},
                        signature="C10:L-eigenpairs-" + gp)
    # correspondence: read back the spectrum the routine sees and run the model on it
    if ctx["driver"] is not None:
        sig2 = jnp.where(jnp.square(0) < jitter, jitter, jnp.square(0))
        if gp == "full_nystroem":
            Wj = dec.stabilize(cov(x, x), sig2)
            sh, vh = dec.eigh(Wj)
            sh, vh = np.asarray(sh, float), np.asarray(vh, float)
            if 1 <= kept <= n and np.all(sh[n - kept:] > 0):
                o = ctx["driver"].ask(f"lowrank {n} {kept} {bits(vh[:, ::-1])} {bits(sh[::-1])}")
                Lm = unbits(o.split()[1:], (n, kept))
                dv = rel_err(Lm, L[:, ::-1])
                res.dev("L:lowrank_model_vs_compute_L_rel", dv)
                if dv > 1e-12:
                    res.corr_fail("model lowRankFactor differs from compute_L(full_nystroem)", p, detail={"rel": dv})
        else:
            Wj = dec.stabilize(cov(xu, xu), sig2)
            Cj = cov(x, xu)
            Qj, Rj = dec.qr(Cj, mode="reduced")
            s0, v0 = dec._eigendecomposition(Wj, rank=xu.shape[0])
            Tj = Rj @ v0
            sh = np.asarray(dec.eigh(Tj / s0 @ Tj.T)[0], float)
        desc_hat = sh[::-1].tolist()
        mg = margin_of(desc_hat, r)
        need = 1e-9 if gp == "full_nystroem" else 1e-6
        for mode in ("Q", "D"):
            km = model_kept(ctx, desc_hat, r, mode)
            if isinstance(km, str):
                res.corr_fail(f"model outcome {km}, implementation kept {kept}", p)
                continue
            d = abs(km - kept)
            res.count("L:corr_%s" % ("exact" if mg > need else "tie"))
            if (mg > need and d != 0) or d > 1:
                res.corr_fail(f"model({mode}) keeps {km}, compute_L {kept} (margin {mg:.3g}, {gp})", p)


# ------------------------------------------------------------------ integer rank as a NumPy / JAX integer scalar

def case_Lnp(ctx, res, p):
    """compute_L(rank = NumPy / JAX integer scalar k) keeps the columns of compute_L(rank = Python int k): k of them when
    0 < k < cap (cap = cells, resp. landmarks; every eigenvalue of the stabilised matrix is positive), all of them
    otherwise - with the type inferred from the rank (gp_type=None) or given.  (Before fix 4604925 the scalar became the
    float k.0 = 'no rank reduction': a full factor without gp_type, a refusal with an explicit Nystroem type.)"""
    from mellon.parameters import compute_L
    x = np.asarray(p["x"], float)
    n = x.shape[0]
    gp = p["gp"]
    xu = np.asarray(p["landmarks"], float) if p.get("landmarks") is not None else None
    jitter = float(p.get("jitter", 1e-6))
    k = int(p["k"])
    cov = make_cov(p["kind"], float(p["ls"]))
    cap = n if xu is None else min(n, xu.shape[0])
    want_cols = k if 0 < k < cap else cap
    res.count("Lnp:gp=" + str(gp))
    res.count("Lnp:" + ("reduces" if 0 < k < cap else "full"))
    res.case(("Lnp", gp, x.tobytes(), None if xu is None else xu.tobytes(), p["kind"], p["ls"], jitter, k, tuple(p["forms"])),
             0 < k < cap, {"op": "Lnp", "gp": gp, "n": n, "m": None if xu is None else xu.shape[0], "k": k, "forms": p["forms"]})

    def run(r):
        try:
            return "ok", np.asarray(compute_L(x, cov, gp_type=gp, landmarks=xu, rank=rank_obj(r), jitter=jitter), float)
        except Exception as e:          # noqa
            return exc_class(e), str(e)[:160]
    c0, L0 = run(["I", k])
    if c0 != "ok":
        # only generated for requests the Python int satisfies
        res.oracle_fail(f"compute_L(rank={k}) raised {c0} for a consistent request", p, detail={"exc": L0},
                        signature="C10:L-raises")
        return
    if L0.shape != (n, want_cols):
        res.oracle_fail("compute_L keeps a number of directions different from the integer request", p,
                        detail={"shape": list(L0.shape), "want_cols": want_cols}, signature="C10:L-count-int")
    for form in p["forms"]:
        res.count("Lnp:form=" + form)
        c1, L1 = run([form, k])
        if c1 != "ok":
            res.oracle_fail(f"compute_L(rank={form}({k})) raised {c1} although rank={k} is accepted", p,
                            detail={"form": form, "exc": L1, "gp": gp}, signature=SIG_NPINT)
            continue
        if L1.shape != L0.shape or L1.shape[1] != want_cols:
            res.oracle_fail(f"compute_L(rank={form}({k})) keeps {L1.shape[1]} columns, rank={k} keeps {L0.shape[1]} "
                            f"(requested: {want_cols})", p, detail={"form": form, "gp": gp, "shape": list(L1.shape)},
                            signature=SIG_NPINT)
            continue
        dv = rel_err(L1, L0)
        res.dev("Lnp:factor_vs_python_int_rel", dv)
        if dv > 1e-12:
            res.oracle_fail("compute_L with a NumPy / JAX integer rank returns another factor than with the Python int", p,
                            detail={"form": form, "rel": dv}, signature=SIG_NPINT)


# ------------------------------------------------------------------ monotone requests

def case_mono(ctx, res, p):
    from mellon import decomposition as dec
    import jax.numpy as jnp
    s_design = [float(v) for v in np.asarray(p["s"], float).ravel()]
    n = len(s_design)
    A = build_matrix(s_design, p.get("mode", "dense"), p.get("qseed", 0))
    scale = max(1e-300, float(np.max(np.abs(s_design))))
    res.count("mono")
    res.case(("mono", tuple(s_design), p.get("qseed", 0), tuple(p["fs"]), tuple(p["rs"])), True,
             {"op": "mono", "n": n, "fs": list(p["fs"])[:4], "rs": list(p["rs"])[:4]})
    for name, reqs in (("frac", [["F", float(f)] for f in sorted(p["fs"])]),
                       ("int", [["I", int(r)] for r in sorted(p["rs"])])):
        prev_k, prev_res = None, None
        for r in reqs:
            S, V = dec._eigendecomposition(jnp.asarray(A), rank_obj(r))
            S, V = np.asarray(S, float), np.asarray(V, float)
            k = S.shape[0]
            resid = float(np.linalg.norm(A - (V * S) @ V.T)) / scale
            if prev_k is not None:
                if k < prev_k:
                    res.oracle_fail("a larger request keeps fewer directions", p,
                                    detail={"kind": name, "request": r, "kept": k, "previous": prev_k},
                                    signature="C10:monotone-count")
                if resid > prev_res + 1e-10 * n:
                    res.oracle_fail("a larger request yields a worse approximation", p,
                                    detail={"kind": name, "request": r, "resid": resid, "previous": prev_res},
                                    signature="C10:monotone-error")
                res.dev("mono_resid_increase", max(0.0, resid - prev_res))
            prev_k, prev_res = k, resid
        if ctx["driver"] is not None:
            sh = np.asarray(dec.eigh(jnp.asarray(A))[0], float)[::-1].tolist()
            ks = [model_kept(ctx, sh, r, "Q") for r in reqs]
            if any(isinstance(a, str) for a in ks) or any(a > b for a, b in zip(ks, ks[1:])):
                res.corr_fail("model kept-counts are not monotone in the request", p, detail={"ks": ks})


def run_case(ctx, res, p):
    op = p["op"]
    if op == "eig":
        return case_eig(ctx, res, p)
    if op == "L":
        return case_L(ctx, res, p)
    if op == "Lnp":
        return case_Lnp(ctx, res, p)
    if op == "mono":
        return case_mono(ctx, res, p)
    raise ValueError(op)


# ------------------------------------------------------------------ generators

FAMILIES = ["fast", "slow", "ties", "clusters", "tiny", "zero", "negative", "dyadic", "nonpositive"]


def gen_spectrum(rng, n, family):
    a = loguniform(rng, 1e-3, 1e3)
    i = np.arange(n)
    dyadic = False
    if family == "fast":
        s = a * rng.uniform(0.1, 0.9) ** i
    elif family == "slow":
        s = a / (i + 1.0) ** rng.uniform(0.1, 1.5)
    elif family == "ties":
        lv = np.sort(rng.uniform(0.05, 1.0, size=max(1, min(n, int(rng.integers(1, 4))))))[::-1]
        s = a * lv[np.sort(rng.integers(len(lv), size=n))]
    elif family == "clusters":
        lv = a * np.sort(loguniform(rng, 1e-3, 1.0) ** rng.uniform(0, 1, size=max(1, min(n, 3))))[::-1]
        s = lv[np.sort(rng.integers(len(lv), size=n))] * (1 + 1e-9 * rng.normal(size=n))
    elif family == "tiny":
        s = a * 10.0 ** (-np.sort(rng.uniform(0, 1, size=n)) * rng.choice([12, 40, 300]))
    elif family == "zero":
        s = a * rng.uniform(0.1, 0.9) ** i
        k = int(rng.integers(1, n + 1)) if n > 1 else int(rng.integers(0, 2))
        s[n - k:] = 0.0
    elif family == "negative":
        s = a * rng.uniform(0.2, 0.9) ** i
        k = int(rng.integers(1, n)) if n > 1 else 0
        if k:
            s[n - k:] = -a * 10.0 ** rng.uniform(-14, -6, size=k)
    elif family == "nonpositive":
        # nothing can be retained: the routine must refuse
        s = -a * 10.0 ** rng.uniform(-14, -2, size=n) * (rng.random(size=n) < 0.6)
    elif family == "dyadic":
        if rng.random() < 0.5:
            # positive integer parts summing to a power of two: every prefix fraction is a dyadic rational, so
            # exact ties f*total == prefix occur with exact float arithmetic
            lo_e = max(1, int(np.ceil(np.log2(max(n, 2)))))
            N = 2 ** int(rng.integers(lo_e, lo_e + 4))
            cuts = np.sort(rng.choice(np.arange(1, N), size=n - 1, replace=False)) if n > 1 else np.array([], int)
            parts = np.diff(np.concatenate([[0], cuts, [N]])).astype(float)
            s = parts / 2.0 ** int(rng.integers(0, 3))
        else:
            s = rng.integers(1, 9, size=n).astype(float) / 2.0 ** int(rng.integers(0, 3))
            if rng.random() < 0.3 and n > 1:
                s[rng.integers(n)] = 0.0
        dyadic = True
    else:
        raise ValueError(family)
    return np.sort(np.asarray(s, float))[::-1].copy(), dyadic


def gen_request(rng, s, kind=None):
    """A rank request for the designed descending spectrum s; returns (request, fkind)."""
    n = len(s)
    pos = [Fraction(float(x)) for x in s if x > 0]
    npos = len(pos)
    kind = kind or rng.choice(["int", "uniform", "near", "tie", "special"], p=[0.25, 0.2, 0.3, 0.15, 0.1])
    if kind == "int":
        cands = [1, 2, max(1, npos - 1), max(1, npos), npos + 1, n, n + 5, int(rng.integers(1, n + 2))]
        if rng.random() < 0.1:
            cands = [0, -1, -n, -n - 1]
        r = int(cands[rng.integers(len(cands))])
        return [("In" if rng.random() < 0.15 else "I"), r], "int"
    tag = "Fn" if rng.random() < 0.15 else "F"
    if kind == "uniform" or not pos:
        return [tag, float(rng.uniform(0.01, 0.999))], "uniform"
    pre = prefix_fracs(pos)
    total = pre[-1]
    i = int(rng.integers(npos))
    base = float(pre[i] / total)
    if kind == "near":
        d = float(rng.choice([1e-3, 1e-6, 1e-8])) * float(rng.choice([-1, 1]))
        f = base * (1 + d)
        if not (0 < f < 1):
            f = base * (1 - abs(d))
        return [tag, float(f)], "near"
    if kind == "tie":
        f = base if base < 1 else float(np.nextafter(1.0, 0))
        return [tag, float(f)], "tie"
    return [tag, float(rng.choice([0.0, 1.0, 2.0, -0.5, 0.99, 1e-300, 1 - 2.0 ** -53, 0.5]))], "special"


def gen_eig(rng, n, family=None, kind=None, mode=None):
    family = family or FAMILIES[rng.integers(len(FAMILIES))]
    s, dyadic = gen_spectrum(rng, n, family)
    r, fkind = gen_request(rng, s, kind)
    mode = mode or ("diag" if (dyadic or rng.random() < 0.35) else "dense")
    return {"op": "eig", "s": s, "rank": r, "mode": mode, "qseed": int(rng.integers(1 << 30)), "family": family,
            "fkind": fkind, "dyadic": bool(dyadic and mode == "diag")}


def gen_L(rng, gp, n=None):
    n = n or int(rng.choice([8, 13]))
    d = int(rng.choice([1, 2]))
    x = rng.normal(size=(n, d)) * loguniform(rng, 0.5, 2.0)
    kind = ["M52", "EQ", "M32"][rng.integers(3)]
    ls = loguniform(rng, 0.3, 3.0)
    p = {"op": "L", "gp": gp, "x": x, "kind": kind, "ls": ls, "jitter": float(rng.choice([1e-6, 1e-3])),
         "landmarks": None}
    cap = n
    if gp == "sparse_nystroem":
        mm = int(rng.choice([3, 5]))
        p["landmarks"] = x[rng.permutation(n)[:mm]] + 0.05 * rng.normal(size=(mm, d))
        cap = mm
    if rng.random() < 0.4:
        form = NPINT_FORMS[int(rng.integers(len(NPINT_FORMS)))] if rng.random() < 0.3 else "I"
        p["rank"] = [form, int(rng.integers(1, cap))]
    else:
        p["rank"] = ["F", float(rng.choice([0.5, 0.8, 0.9, 0.99, 0.999, float(rng.uniform(0.05, 0.999))]))]
    return p


def gen_Lnp(rng, gp, with_landmarks, forms=None, k=None):
    n = int(rng.choice([8, 13]))
    d = int(rng.choice([1, 2]))
    x = rng.normal(size=(n, d)) * loguniform(rng, 0.5, 2.0)
    p = {"op": "Lnp", "gp": gp, "x": x, "kind": ["M52", "EQ", "M32"][rng.integers(3)], "ls": loguniform(rng, 0.3, 3.0),
         "jitter": float(rng.choice([1e-6, 1e-3])), "landmarks": None}
    cap = n
    if with_landmarks:
        mm = int(rng.choice([3, 5]))
        p["landmarks"] = x[rng.permutation(n)[:mm]] + 0.05 * rng.normal(size=(mm, d))
        cap = mm
    if k is None:
        # a reducing request; without an explicit type also the boundary / full-rank requests (cap, cap + 3, 0)
        k = int(rng.integers(1, cap)) if (gp is not None or rng.random() < 0.7) else int(rng.choice([cap, cap + 3, 0]))
    p["k"] = int(k)
    p["forms"] = list(forms) if forms else [NPINT_FORMS[i] for i in rng.permutation(len(NPINT_FORMS))[:3]]
    return p


def run(ctx, res):
    rng = ctx["rng"]
    quick = ctx["tier"] == "quick"
    budget = ctx["budget"] or (45 if quick else 480)
    t_end = time.time() + budget
    mellon()
    # ---- fixed part: the recorded (fixed) defect's witness and every family x request kind on a small size
    run_case(ctx, res, {"op": "eig", "s": [5.0, 3.0, 1.0, 0.5, 0.5], "rank": ["F", 0.8], "mode": "diag", "qseed": 1,
                        "family": "witness", "fkind": "tie", "dyadic": True})
    for f in (0.79, 0.81, 0.99, 1.0, 0.5):
        run_case(ctx, res, {"op": "eig", "s": [5.0, 3.0, 1.0, 0.5, 0.5], "rank": ["F", f], "mode": "dense", "qseed": 2,
                            "family": "witness", "fkind": "near"})
    for fam in FAMILIES:
        for kind in ["int", "uniform", "near", "tie", "special"]:
            run_case(ctx, res, gen_eig(rng, 5, fam, kind))
    for n in ([50] if quick else [50, 200, 200]):
        for kind in ["int", "near"]:
            run_case(ctx, res, gen_eig(rng, n, ["slow", "fast"][rng.integers(2)], kind))
    for gp in ("full_nystroem", "sparse_nystroem"):
        for _ in range(3 if quick else 12):
            run_case(ctx, res, gen_L(rng, gp))
    # integer rank given as np.int64 / np.int32 / np.uint8 / 0-d np / jnp integer array (always run; witness of the
    # defect repaired by fix 4604925, signature C10:numpy-integer-rank): type inferred and explicit, with and without landmarks
    run_case(ctx, res, gen_Lnp(rng, None, False, forms=NPINT_FORMS, k=3))
    run_case(ctx, res, gen_Lnp(rng, None, True, forms=["In", "In32", "Ij"], k=2))
    run_case(ctx, res, gen_Lnp(rng, "full_nystroem", False, forms=["In", "Ia", "Ij32"]))
    run_case(ctx, res, gen_Lnp(rng, "sparse_nystroem", True, forms=["In32", "Iu8", "Ij"]))
    run_case(ctx, res, gen_Lnp(rng, None, False, forms=["In", "Ij"], k=0))
    for _ in range(2 if quick else 10):
        n = int(rng.choice([5, 8]))
        s, _d = gen_spectrum(rng, n, ["slow", "fast", "ties", "negative"][rng.integers(4)])
        run_case(ctx, res, {"op": "mono", "s": s, "mode": "dense", "qseed": int(rng.integers(1 << 30)),
                            "fs": sorted(float(v) for v in rng.uniform(0.05, 0.999, size=5)),
                            "rs": sorted(int(v) for v in rng.integers(1, n + 3, size=4))})
    # ---- sampled part
    i = 0
    sizes = SIZES_QUICK if quick else SIZES_QUICK + [21, 34]
    while time.time() < t_end:
        u = rng.random()
        if u < 0.86:
            n = int(sizes[rng.integers(len(sizes))])
            if not quick and rng.random() < 0.03:
                n = int(SIZES_BIG[rng.integers(2)])
            run_case(ctx, res, gen_eig(rng, n))
        elif u < 0.94:
            run_case(ctx, res, gen_L(rng, ["full_nystroem", "sparse_nystroem"][rng.integers(2)]))
        elif u < 0.96:
            gp, lm = [(None, False), (None, True), ("full_nystroem", False), ("sparse_nystroem", True)][rng.integers(4)]
            run_case(ctx, res, gen_Lnp(rng, gp, lm))
        else:
            n = int(rng.choice([3, 5, 8]))
            s, _d = gen_spectrum(rng, n, FAMILIES[rng.integers(len(FAMILIES))])
            if not np.any(s > 0):
                continue
            run_case(ctx, res, {"op": "mono", "s": s, "mode": "dense", "qseed": int(rng.integers(1 << 30)),
                                "fs": sorted(float(v) for v in rng.uniform(0.05, 0.999, size=4)),
                                "rs": sorted(int(v) for v in rng.integers(1, n + 3, size=3))})
        i += 1
    res.count("sampled", i)


CLAIM = {
    "text": "Lean theorems over every linearly ordered field (hence exact over Q) for every descending spectrum with a "
            "positive eigenvalue, every integer r >= 1 and every fraction f: kept = min(r, #positive); kept is the least "
            "p >= 1 whose prefix sum reaches f * total (retained >= f, one fewer falls below, at least one, never more "
            "than #positive); the kept block is the leading (largest, positive) block; kept and retained variance are "
            "monotone in the request; and, from the eigh contract, L = V_p sqrt(S_p) satisfies L L^T v_i = s_i v_i for "
            "kept i, A - L L^T is the dropped tail and x^T L L^T x is monotone in p. Tied to /repo by running "
            "_eigendecomposition and compute_L (full_nystroem, sparse_nystroem) against the model over exact rationals "
            "and over doubles, and by an independent exact-Fraction oracle on designed spectra. An integer rank given as a "
            "NumPy / JAX integer scalar (np.int64/int32/uint8, 0-d np/jnp integer array) must keep the columns of the same "
            "Python int through compute_L, with the type inferred or explicit (regression witness C10:numpy-integer-rank; the "
            "coercion itself is C20.float_or_int_keeps_integers / C15.numpy_integer_rank_is_integer_rank).",
    "note": "Exact statement over ordered fields; float64 rounding of cumsum and f*total is modelled away (ties judged "
            "within one direction). 'total' is the sum of the positive eigenvalues (= trace for PSD input). Spectra with "
            "no positive eigenvalue are outside the property (code and model refuse them with a ValueError). "
            "eigh/qr enter as contracts. Correspondence is sampled differential testing.",
    "technique": "Lean 4 proof (induction over lists, ordered-field algebra, finite sums) + differential correspondence "
                 "over exact rationals and doubles + exact-arithmetic oracle",
}
