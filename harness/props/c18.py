"""C18 — staged, cached and repeated use is equivalent to one-shot fitting."""
import time, itertools, warnings
import numpy as np
from ..common import mellon, exc_class

RULE = ("cases = (estimator class, configuration, history of staged-API operations) and (configuration, subset of the 9 "
        "precomputable intermediates).  Operations: set_x / prepare_inference / fit / fit_predict with x in {None, the bound jax "
        "array, a numpy array of the same data, other data}, run_inference, process_inference(build_predict=T/F), lazy predict. "
        "quick: all histories of length <= 2 over the 14-symbol core alphabet + fixed histories on the other two estimators + 36 "
        "seeded histories of length 3-5 (model-guided legal ones and arbitrary ones) + 64 seeded subsets; thorough: all histories of "
        "length <= 2 for two configurations, all 2^9 subsets for two configurations, every (model state reachable within 4 steps, "
        "operation of the 26-symbol alphabet) transition as a history of length <= 5, the legal histories of length 3 (time-boxed), "
        "seeded histories of length 3-5 on all configurations and estimators (time-boxed).  distinct = distinct (class, "
        "configuration, history/subset); non-trivial = at least one step completes a fit (fitted values present)")
PARTIAL = [
    "histories of length 3-5 are not enumerated word by word on the implementation (the legal-order grammar has ~660 words of length "
    "3 and ~1e5 of length 5; a word costs 0.1-1 s on the real estimator): thorough covers every transition of the model's state "
    "graph (6-7 states x 26 operations) by a history of length <= 5, the legal words of length 3 time-boxed, and seeded words; "
    "the Lean theorem covers every history of every length",
    "bitwise equality with one-shot fitting is a statement about float64 execution (deterministic optimiser, XLA): test only; the "
    "theorem gives equality under ANY deterministic interpretation of the compute functions",
    "k-means landmarks are excluded (n_landmarks=0 or explicit landmarks): the compute functions must be deterministic",
    "same numpy data offered again after binding is refused with ValueError (identity semantics of `set_x`): modelled as such",
]
ASSUMPTIONS = [
    "compute functions are deterministic functions of (constructor arguments, data) — k-means excluded",
    "configurations are legal (parameter validation and every compute function succeed): failing configurations are C15's subject",
    "jnp.asarray(x, dtype=float) returns the very same object for a float64 jax array (identity-preserving validate_array)",
    "read-sets of the _compute_* methods as transcribed in MellonModel/Staged.lean (Pipeline.reads)",
]
TRUSTED_EXTRA = ["scipy L-BFGS-B / optax adam are deterministic for identical inputs in one process (contract; exercised here)"]

ATTRS = ["n_landmarks", "rank", "gp_type", "distances", "nn_distances", "d", "mu", "ls", "ls_time", "cov_func", "landmarks", "Lp", "L",
         "initial_value", "transform", "loss_func"]
CACHEABLES = ["nn_distances", "d", "mu", "ls", "cov_func", "landmarks", "Lp", "L", "initial_value"]
CORE = ["SX J", "SX N", "PR J", "PR N", "RU", "PC T", "PC F", "FI J T", "FI N T", "FI N F", "PD", "FP J F", "FP N F", "FP N T"]
EXTRA = ["SX P", "SX O", "PR P", "PR O", "FI P T", "FI O F", "FI J F", "FP P F", "FP O T", "FP Q F", "SX Q", "FP J T", "SX E", "PR E",
         "FP E F"]

N = 20
_DATA = {}


def data(kind):
    """J: the jax array, P: numpy array with the same content, O/Q: other data (jax / numpy)."""
    import jax.numpy as jnp
    if not _DATA:
        rng = np.random.default_rng(20240518)
        Xn = rng.normal(size=(N, 2))
        T = np.repeat([0.0, 1.0], N // 2)
        for est, base in (("D", Xn), ("M", Xn), ("T", np.c_[Xn, T])):
            _DATA[(est, "P")] = base.copy()
            _DATA[(est, "J")] = jnp.asarray(base)
            _DATA[(est, "Q")] = base + 1.0
            near = base.copy()
            near[3, 0] += 1e-9            # different data, equal within any reasonable closeness tolerance
            _DATA[(est, "E")] = jnp.asarray(near)
            _DATA[(est, "O")] = jnp.asarray(base + 1.0)
            _DATA[(est, "Y")] = base[:5] + 0.05
        _DATA["LM"] = jnp.asarray(Xn[:6] + 0.05)
        _DATA["LMT"] = jnp.asarray(np.c_[Xn[:6] + 0.05, T[[0, 1, 2, 10, 11, 12]]])
    return _DATA[kind]


# configuration := name -> (estimator tag, kwargs builder, attributes whose compute function returns None, predictor reads y)
def config(name):
    m = mellon()
    if name == "D-full":
        return "D", dict(n_landmarks=0), ["landmarks"], True
    if name == "D-sparse":
        return "D", dict(landmarks=data("LM")), [], False
    if name == "D-sparse-nystroem":
        return "D", dict(landmarks=data("LM"), gp_type="sparse_nystroem", rank=4), ["Lp"], True
    if name == "D-full-nystroem":
        return "D", dict(n_landmarks=0, gp_type="full_nystroem", rank=0.9), ["landmarks", "Lp"], True
    if name == "D-full-adam":
        return "D", dict(n_landmarks=0, optimizer="adam", n_iter=4), ["landmarks"], True
    if name == "D-fixed-over":   # more landmarks requested than cells: the cells become the landmarks (fixed defect 4eb34bd)
        return "D", dict(gp_type="fixed", n_landmarks=5000), [], False
    if name == "T-fixed-over":
        return "T", dict(gp_type="fixed", n_landmarks=5000, ls_time=1.0, optimizer="adam", n_iter=4), [], False
    if name == "M-fixed-over":
        return "M", dict(gp_type="fixed", n_landmarks=5000, optimizer="adam", n_iter=3), [], False
    if name == "T-full":
        return "T", dict(n_landmarks=0, ls_time=1.0, optimizer="adam", n_iter=4), ["landmarks"], True
    if name == "T-sparse":
        return "T", dict(landmarks=data("LMT"), ls_time=1.0, optimizer="adam", n_iter=4), [], False
    if name == "T-auto":     # ls_time is computed (per-time-point helper fits read nn_distances, d, ls, mu)
        return "T", dict(n_landmarks=0, optimizer="adam", n_iter=4), ["landmarks"], True
    if name == "T-norm":     # per-time-point normalisation with unequal targets: ls must keep using the un-normalised distances
        return "T", dict(n_landmarks=0, ls_time=1.0, optimizer="adam", n_iter=4, normalize_per_time_point=[6.0, 14.0]), ["landmarks"], True
    if name == "M-full":
        return "M", dict(n_landmarks=0, optimizer="adam", n_iter=3), ["landmarks"], True
    raise ValueError(name)


def make(est, kw):
    m = mellon()
    cls = {"D": m.DensityEstimator, "T": m.TimeSensitiveDensityEstimator, "M": m.DimensionalityEstimator}[est]
    return cls(**kw)


def attr_name(est, a):
    return "mu_dens" if (est == "M" and a == "mu") else a


def fitted_of(est, e):
    return getattr(e, "local_dim_x" if est == "M" else "log_density_x", None)


def predictor_of(est, e):
    return getattr(e, "local_dim_func" if est == "M" else "log_density_func", None)


def bitmap(est, e):
    bits = ["1" if getattr(e, attr_name(est, a), None) is not None else "0" for a in ATTRS]
    bits.append("1" if e.pre_transformation is not None else "0")
    bits.append("1" if fitted_of(est, e) is not None else "0")
    bits.append("1" if predictor_of(est, e) is not None else "0")
    bits.append("1" if e.x is not None else "0")
    return "".join(bits)


def predict_at(est, pred):
    Y = data((est, "Y"))
    if est == "T":
        return np.asarray(pred(Y[:, :-1], Y[:, -1]), float)
    return np.asarray(pred(Y), float)


_REF = {}


def reference(cname):
    """one-shot fit on a fresh estimator with the same constructor arguments"""
    if cname not in _REF:
        est, kw, _, _ = config(cname)
        e = make(est, kw)
        e.fit(data((est, "J")))
        _REF[cname] = {"pre": np.asarray(e.pre_transformation, float).tobytes(),
                       "fitted": np.asarray(fitted_of(est, e), float).tobytes(),
                       "pred": predict_at(est, e.predict).tobytes(),
                       "estimator": e}
    return _REF[cname]


def apply_op(est, e, op):
    t = op.split()
    arg = lambda a: None if a == "N" else data((est, a))
    flag = lambda b: b == "T"
    if t[0] == "SX":
        return e.set_x(arg(t[1]))
    if t[0] == "PR":
        return e.prepare_inference(arg(t[1]))
    if t[0] == "RU":
        return e.run_inference()
    if t[0] == "PC":
        return e.process_inference(build_predict=flag(t[1]))
    if t[0] == "FI":
        return e.fit(arg(t[1]), build_predict=flag(t[2]))
    if t[0] == "PD":
        return e.predict
    if t[0] == "FP":
        return e.fit_predict(arg(t[1]), build_predict=flag(t[2]))
    raise ValueError(op)


def outcome_class(exc):
    if exc is None:
        return "ok"
    c = exc_class(exc)
    return "ValueError" if c == "ValueError" else "Error"


def given_attrs(est, kw):
    return [a for a in ATTRS if kw.get(attr_name(est, a)) is not None or (a == "n_landmarks" and kw.get("n_landmarks") == 0)]


def model_line(est, kw, none_attrs, needs_y, seeds, ops):
    g = given_attrs(est, kw)
    return "staged %s %d %s %d %s %s %d %s %d %s" % (
        est, len(g), " ".join(g), len(none_attrs), " ".join(none_attrs), "T" if needs_y else "F",
        len(seeds), " ".join(seeds), len(ops), " ".join(ops))


def model_run(ctx, est, kw, none_attrs, needs_y, seeds, ops):
    out = ctx["driver"].ask(" ".join(model_line(est, kw, none_attrs, needs_y, seeds, ops).split())).split()
    if out[0] != "ok":
        raise RuntimeError("model driver: " + " ".join(out[:5]))
    steps = [s.split(":") for s in out[2:]]
    return out[1], steps


def eq_flag(value, ref_bytes, conv=lambda v: np.asarray(v, float).tobytes()):
    if value is None:
        return "N"
    return "E" if conv(value) == ref_bytes else "D"


def case_history(ctx, res, p):
    cname, ops = p["config"], list(p["ops"])
    est, kw, none_attrs, needs_y = config(cname)
    ref = reference(cname)
    with warnings.catch_warnings():
        warnings.simplefilter("ignore")
        e = make(est, kw)
        init_bm = bitmap(est, e)
        trace = []
        for op in ops:
            exc = None
            try:
                apply_op(est, e, op)
            except Exception as ex:  # noqa
                exc = ex
            f = fitted_of(est, e)
            pr = predictor_of(est, e)
            fe = eq_flag(f, ref["fitted"])
            pre = eq_flag(e.pre_transformation, ref["pre"])
            try:
                pe = "N" if pr is None else ("E" if predict_at(est, pr).tobytes() == ref["pred"] else "D")
            except Exception as ex:  # noqa
                pe = "X:" + type(ex).__name__
            trace.append((outcome_class(exc), bitmap(est, e), fe + pe[0] + pre, None if exc is None else type(exc).__name__))
    completes = any(t[2][0] != "N" for t in trace)
    res.case(("history", cname, tuple(ops)), completes,
             {"op": "history", "config": cname, "ops": ops, "outcomes": [t[0] for t in trace], "final": trace[-1][1] if trace else init_bm})
    res.count("history:est=" + est)
    res.count("history:len=%d" % len(ops))
    res.count("history:" + ("legal" if all(t[0] == "ok" for t in trace) else "with-refusal" if all(t[0] != "Error" for t in trace) else "with-error"))
    # which data set the estimator got bound to (first successful binding)
    content = None
    CONTENT = {"J": 0, "P": 0, "O": 1, "Q": 1, "E": 2}
    for i, op in enumerate(ops):
        t = op.split()
        if content is None and t[0] in ("SX", "PR", "FI", "FP") and t[1] in CONTENT and trace[i][1][-1] == "1":
            content = CONTENT[t[1]]
    # --- oracle: the property itself on the implementation (reference = one-shot fit on data set 0)
    if content == 0:
        for i, (cls, bm, flags, en) in enumerate(trace):
            if "D" in flags or "X" in flags:
                what = {0: "fitted values", 1: "predictions", 2: "optimised parameters"}[min(k for k, c in enumerate(flags) if c in "DX")]
                res.oracle_fail(f"{what} after a staged history differ from one-shot fitting (bitwise)", p,
                                detail={"step": i, "op": ops[i], "flags": flags}, signature=f"C18:staged-differs:{est}")
                break
    # rebinding with different data must be refused with ValueError and leave the estimator as it was
    bound_content = None
    bound_via = None
    for i, op in enumerate(ops):
        t = op.split()
        prev_bm = init_bm if i == 0 else trace[i - 1][1]
        bound = prev_bm[-1] == "1"
        if t[0] in ("SX", "PR", "FI", "FP") and bound and (t[1] == "N" or (t[1] == "J" and bound_via == "J")) \
                and trace[i][0] == "ValueError":
            res.oracle_fail("the bound data object itself (or x=None) offered to a bound estimator is refused", p,
                            detail={"step": i, "op": op, "exception": trace[i][3]}, signature=f"C18:same-data-refused:{est}")
        if t[0] in ("SX", "PR", "FI", "FP") and t[1] in CONTENT and bound and bound_content is not None \
                and CONTENT[t[1]] != bound_content:
            if trace[i][0] != "ValueError" or trace[i][1] != prev_bm:
                res.oracle_fail("different data offered to a bound estimator is not refused with ValueError (or state changed)", p,
                                detail={"step": i, "op": op, "outcome": trace[i][0], "exception": trace[i][3]},
                                signature=f"C18:rebind-not-refused:{est}")
        if t[0] in ("SX", "PR", "FI", "FP") and t[1] == "N" and not bound and trace[i][0] != "ValueError":
            res.oracle_fail("x=None on an unbound estimator is not refused with ValueError", p,
                            detail={"step": i, "op": op, "outcome": trace[i][0]}, signature=f"C18:unbound-not-refused:{est}")
        if bound_content is None and t[0] in ("SX", "PR", "FI", "FP") and t[1] in CONTENT and trace[i][1][-1] == "1":
            bound_content = CONTENT[t[1]]
            bound_via = t[1]
    # --- correspondence with the model: per-step outcome class, cache-occupancy bitmap, equal-to-one-shot flags
    if ctx["driver"] is not None:
        m_init, steps = model_run(ctx, est, kw, none_attrs, needs_y, [], ops)
        if m_init != init_bm:
            res.corr_fail("cache occupancy of the fresh estimator differs", p, detail={"model": m_init, "impl": init_bm})
        for i, ((cls, bm, flags, en), ms) in enumerate(zip(trace, steps)):
            if ms[0] != cls or ms[1] != bm:
                res.corr_fail(f"step {i} ({ops[i]}): model {ms[0]} {ms[1]}, implementation {cls} {bm}", p,
                              detail={"exception": en, "history": ops})
                break
            if ms[2] != flags:
                res.corr_fail(f"step {i} ({ops[i]}): equal-to-one-shot flags differ: model {ms[2]}, implementation {flags}", p)
                break


def case_pipeline(ctx, res, p):
    """Source facts the model transcribes: the order of the `_prepare_attribute` calls of prepare_inference and the
    estimator attributes every `_compute_<attr>` reads.  Observed on the real class through a recording subclass."""
    cname = p["config"]
    est, kw, none_attrs, needs_y = config(cname)
    m = mellon()
    cls = {"D": m.DensityEstimator, "T": m.TimeSensitiveDensityEstimator, "M": m.DimensionalityEstimator}[est]
    back = {attr_name(est, a): a for a in ATTRS}
    log = {"order": [], "reads": {}, "cur": None}

    class Spy(cls):
        def __getattribute__(self, name):
            cur = log["cur"]
            if cur is not None and name in back and name != cur:
                log["reads"][cur].add(name)
            return object.__getattribute__(self, name)

        def _prepare_attribute(self, attribute):
            log["order"].append(attribute)
            prev = log["cur"]
            if object.__getattribute__(self, attribute) is None:
                log["cur"] = attribute
                log["reads"].setdefault(attribute, set())
            try:
                return cls._prepare_attribute(self, attribute)
            finally:
                log["cur"] = prev

    res.case(("pipeline", cname), True, {"op": "pipeline", "config": cname})
    res.count("pipeline:est=" + est)
    with warnings.catch_warnings():
        warnings.simplefilter("ignore")
        e = Spy(**kw)
        e.prepare_inference(data((est, "J")))
    order = [back.get(a, a) for a in log["order"]]
    reads = {back[a]: sorted(back[r] for r in rs) for a, rs in log["reads"].items()}
    if ctx["driver"] is None:
        return
    out = ctx["driver"].ask("stagedpipe " + est).split()
    if out[0] != "ok":
        raise RuntimeError("model driver: " + " ".join(out[:4]))
    kv = dict(t.split("=", 1) for t in out[1:])
    m_order = kv["order"].split(",")
    m_reads = {a: [r for r in rs.split(",") if r] for a, rs in (t.split(":") for t in kv["reads"].split(";"))}
    if order != m_order:
        res.corr_fail("prepare_inference prepares the attributes in a different order than the model's pipeline", p,
                      detail={"impl": order, "model": m_order})
    n_obs = 0
    for a, rs in reads.items():
        extra = [r for r in rs if r not in m_reads.get(a, [])]
        n_obs += len(rs)
        if extra:
            res.corr_fail(f"_compute_{a} reads {extra}, which the model's read-set of {a} lacks", p,
                          detail={"impl": rs, "model": m_reads.get(a, [])})
        # an attribute must not be read before it is prepared (it would be None): order respects the observed reads
        early = [r for r in rs if r in order and order.index(r) > order.index(a)
                 and r not in ("n_landmarks", "rank", "gp_type", "landmarks")]
        if early:
            res.oracle_fail(f"_compute_{a} reads {early} before prepare_inference has prepared them", p,
                            detail={"order": order}, signature=f"C18:read-before-prepared:{est}:{a}")
    res.count("pipeline:observed_reads", n_obs)
    res.count("pipeline:model_reads", sum(len(v) for v in m_reads.values()))


def case_subset(ctx, res, p):
    cname, S = p["config"], list(p["subset"])
    est, kw, none_attrs, needs_y = config(cname)
    ref = reference(cname)
    A = ref["estimator"]
    seeds = {attr_name(est, a): getattr(A, attr_name(est, a)) for a in S}
    kw2 = dict(kw)
    for k, v in seeds.items():
        if v is not None:
            kw2[k] = v
    exc = None
    with warnings.catch_warnings():
        warnings.simplefilter("ignore")
        try:
            B = make(est, kw2)
            init_bm = bitmap(est, B)
            B.fit(data((est, p.get("data", "J"))))     # "P": the same cells as another array object (NumPy)
        except Exception as ex:  # noqa
            exc = ex
    res.case(("subset", cname, tuple(sorted(S)), p.get("data", "J")), len(S) > 0, {"op": "subset", "config": cname, "subset": S,
                                                              "outcome": outcome_class(exc)})
    res.count("subset:size=%d" % len(S))
    res.count("subset:est=" + est)
    if exc is not None:
        res.oracle_fail(f"a fresh estimator given precomputed intermediates of a fitted model fails ({type(exc).__name__})", p,
                        detail={"error": str(exc)[:200]}, signature=f"C18:subset-fails:{est}")
        return
    fe = eq_flag(fitted_of(est, B), ref["fitted"])
    pe = "E" if predict_at(est, B.predict).tobytes() == ref["pred"] else "D"
    pre = eq_flag(B.pre_transformation, ref["pre"])
    if fe != "E" or pe != "E":
        dev = float(np.max(np.abs(np.asarray(fitted_of(est, B), float) - np.frombuffer(ref["fitted"]))))
        res.dev("subset_fitted_abs_dev", dev)
        res.oracle_fail("precomputed intermediates of a fitted model do not reproduce its results exactly", p,
                        detail={"subset": S, "fitted": fe, "predictions": pe, "max_abs_dev": dev},
                        signature=f"C18:subset-differs:{est}")
    if ctx["driver"] is not None:
        m_init, steps = model_run(ctx, est, kw, none_attrs, needs_y, S, ["FI J T"])
        if m_init != init_bm:
            res.corr_fail("cache occupancy of the seeded estimator differs", p, detail={"model": m_init, "impl": init_bm})
        ms = steps[0]
        if ms[0] != "ok" or ms[1] != bitmap(est, B) or ms[2] != fe + pe + pre:
            res.corr_fail("seeded estimator: model and implementation differ", p,
                          detail={"model": ms, "impl": ["ok", bitmap(est, B), fe + pe + pre]})


def case_helper(ctx, res, p):
    """Intermediates obtained from the documented helper functions (not copied from a fitted model), on data that may
    contain duplicate cells: a fresh estimator given them must reproduce the one-shot fit exactly."""
    m = mellon()
    import jax.numpy as jnp
    from mellon import parameters as P
    rng = np.random.default_rng(int(p["dseed"]))
    n = 16
    X = rng.normal(size=(n, 2))
    for _ in range(int(p["dups"])):
        i, j = rng.integers(n, size=2)
        X[i] = X[j]
    est = p["est"]
    kw = dict(n_landmarks=0, optimizer="adam", n_iter=3)
    if est == "T":
        X = np.c_[X, np.repeat([0.0, 1.0], n // 2)]
        kw["ls_time"] = 1.0
    Xj = jnp.asarray(X)
    which = list(p["which"])
    res.case(("helper", est, p["dseed"], p["dups"], tuple(which)), True,
             {"op": "helper", "est": est, "dups": p["dups"], "which": which})
    res.count("helper:est=" + est)
    res.count("helper:dups=%d" % min(int(p["dups"]), 3))
    exc = None
    with warnings.catch_warnings():
        warnings.simplefilter("ignore")
        try:
            A = make(est, kw)
            A.fit(Xj)
        except Exception as ex:  # noqa
            res.notes.append(f"one-shot fit on duplicate data refused: {type(ex).__name__}")
            return
        try:
            seeds = {}
            if "nn_distances" in which:
                seeds["nn_distances"] = (P.compute_nn_distances_within_time_points(Xj) if est == "T"
                                         else P.compute_nn_distances(Xj))
            if "ls" in which:
                seeds["ls"] = float(A.ls)
            if "mu" in which:
                seeds["mu"] = float(A.mu)
            B = make(est, dict(kw, **seeds))
            B.fit(Xj)
        except Exception as ex:  # noqa
            exc = ex
    if exc is not None:
        res.oracle_fail(f"a fresh estimator given intermediates from the helper functions fails ({type(exc).__name__})", p,
                        detail={"error": str(exc)[:200]}, signature=f"C18:helper-fails:{est}")
        return
    fa, fb = np.asarray(fitted_of(est, A), float), np.asarray(fitted_of(est, B), float)
    if fa.tobytes() != fb.tobytes():
        res.oracle_fail("intermediates from the helper functions do not reproduce the one-shot results exactly", p,
                        detail={"max_abs_dev": float(np.max(np.abs(fa - fb)))}, signature=f"C18:helper-differs:{est}")


def case_times(ctx, res, p):
    """Time points are data too: offered alone to a bound time-sensitive estimator they must be the bound ones (any container
    form), anything else is refused with ValueError and leaves the estimator as it was.  (Outside the Lean alphabet: test.)"""
    import jax.numpy as jnp
    cname = p["config"]
    est, kw, none_attrs, needs_y = config(cname)
    ref = reference(cname)
    Xt = np.asarray(data((est, "P")), float)
    X, t = Xt[:, :-1], Xt[:, -1]
    res.case(("times", cname), True, {"op": "times", "config": cname})
    with warnings.catch_warnings():
        warnings.simplefilter("ignore")
        e = make(est, kw)
        e.fit(jnp.asarray(X), jnp.asarray(t))
        fitted0 = np.asarray(e.log_density_x, float).tobytes()
        same = [t.copy(), t.reshape(-1, 1), t.tolist(), jnp.asarray(t)]
        for i, ts in enumerate(same):
            try:
                [e.fit, e.fit_predict, lambda times: e.prepare_inference(None, times=times)][i % 3](times=ts)
            except Exception as ex:  # noqa
                res.oracle_fail(f"the bound time points offered again ({type(ts).__name__}) are refused: {type(ex).__name__}", p,
                                signature="C18:same-times-refused")
        other = [t + 1.0, t[::-1].copy(), t[:5], np.where(np.arange(len(t)) == 3, t + 1e-9, t)]
        for i, ts in enumerate(other):
            call = [e.fit, e.fit_predict, lambda times: e.prepare_inference(None, times=times)][i % 3]
            try:
                call(times=ts)
                res.oracle_fail("different time points offered to a bound estimator are not refused (silently ignored)", p,
                                detail={"variant": i}, signature="C18:foreign-times-accepted")
            except ValueError:
                pass
            except Exception as ex:  # noqa
                res.oracle_fail(f"different time points offered to a bound estimator raise {type(ex).__name__}", p,
                                signature="C18:foreign-times-error")
        if np.asarray(e.log_density_x, float).tobytes() != fitted0:
            res.oracle_fail("fitted values changed by calls that only offered time points", p, signature="C18:times-state")


def case_stale(ctx, res, p):
    """A predictor built from one latent state must not survive a later inference: after process_inference on a hand-made
    latent vector (documented override) a subsequent fit / run+process ends with the one-shot fitted values AND predictor.
    (process_inference(pre_transformation=...) is outside the Lean model's alphabet: test only.)"""
    cname, variant = p["config"], p["variant"]
    est, kw, none_attrs, needs_y = config(cname)
    ref = reference(cname)
    res.case(("stale", cname, variant), True, {"op": "stale", "config": cname, "variant": variant})
    res.count("stale:est=" + est)
    with warnings.catch_warnings():
        warnings.simplefilter("ignore")
        e = make(est, kw)
        e.prepare_inference(data((est, "J")))
        z0 = e.initial_value
        e.process_inference(pre_transformation=z0, build_predict=True)
        _ = predict_at(est, e.predict)                      # the predictor of the hand-made state exists and is used
        if variant == "fit":
            e.fit()
        elif variant == "run+process":
            e.run_inference()
            e.process_inference(build_predict=True)
        else:
            e.fit_predict()
            _ = e.predict
    fe = eq_flag(fitted_of(est, e), ref["fitted"])
    pe = "E" if predict_at(est, e.predict).tobytes() == ref["pred"] else "D"
    if fe != "E" or pe != "E":
        res.oracle_fail("after a process_inference on a hand-made latent state, a later fit does not end with the one-shot "
                        + ("fitted values" if fe != "E" else "predictor (a stale predictor survives)"), p,
                        detail={"fitted": fe, "predictions": pe}, signature=f"C18:stale-predictor:{est}")


def case_glue(ctx, res, p):
    """Every intermediate an estimator computes in prepare_inference is what the documented helper function of
    mellon.parameters returns for the estimator's other attributes - so that helper-made intermediates can be handed to a
    fresh model (and the other way round).  Recomputed here from the helpers, attribute by attribute."""
    m = mellon()
    import jax.numpy as jnp
    import importlib
    P = importlib.import_module("mellon.parameters")
    from mellon.validation import validate_nn_distances
    rng = np.random.default_rng(int(p["dseed"]))
    est, cfg = p["est"], p["cfg"]
    n = 16
    X = rng.normal(size=(n, 2)) * np.exp(rng.uniform(-1, 1))
    for _ in range(int(p.get("dups", 0))):
        i, j = rng.choice(n, size=2, replace=False)
        X[i] = X[j]
    kw = {}
    if est == "T":
        X = np.c_[X, rng.permutation(np.repeat([0.0, 1.0, 2.5], [5, 6, 5]))]      # unsorted, unequal time points
        kw.update(ls_time=1.3, normalize_per_time_point=cfg.get("normalize", False))
    if cfg.get("landmarks"):
        idx = rng.permutation(n)[:6]
        kw["landmarks"] = jnp.asarray(X[idx] + 0.05)
    else:
        kw["n_landmarks"] = 0
    if cfg.get("gp_type"):
        kw["gp_type"] = cfg["gp_type"]
    if cfg.get("rank") is not None:
        kw["rank"] = cfg["rank"]
    if cfg.get("ls_factor") is not None:
        kw["ls_factor"] = cfg["ls_factor"]
    if est == "M":
        kw["k"] = 5
    Xj = jnp.asarray(X)
    res.case(("glue", est, repr(sorted(cfg.items())), p["dseed"], p.get("dups", 0)), True, {"op": "glue", "est": est, "cfg": cfg})
    res.count("glue:est=" + est)
    with warnings.catch_warnings():
        warnings.simplefilter("ignore")
        e = make(est, kw)
        try:
            e.prepare_inference(Xj)
        except ValueError as ex:
            # a clean refusal (e.g. duplicate cells make the kernel matrix numerically singular): property C20's business
            res.count("glue:refused")
            res.notes.append(f"glue case refused by prepare_inference: {str(ex)[:80]}")
            return
        except Exception as ex:  # noqa
            res.oracle_fail(f"prepare_inference raised {type(ex).__name__}", p, detail={"error": str(ex)[:200]},
                            signature=f"C18:glue-raises:{est}")
            return
        exp = {}
        if est == "D":
            exp["nn_distances"] = validate_nn_distances(P.compute_nn_distances(Xj))
            exp["d"] = P.compute_d(Xj)
            exp["mu"] = P.compute_mu(exp["nn_distances"], exp["d"])
            exp["ls"] = P.compute_ls(exp["nn_distances"]) * e.ls_factor
            cov = P.compute_cov_func(e.cov_func_curry, exp["ls"])
        elif est == "T":
            nz = kw["normalize_per_time_point"]
            exp["d"] = P.compute_d(Xj[:, :-1])
            exp["nn_distances"] = validate_nn_distances(P.compute_nn_distances_within_time_points(Xj, d=exp["d"], normalize=nz))
            exp["mu"] = P.compute_mu(exp["nn_distances"], exp["d"])
            raw = validate_nn_distances(P.compute_nn_distances_within_time_points(Xj, normalize=False)) if nz else exp["nn_distances"]
            exp["ls"] = P.compute_ls(raw) * e.ls_factor
            cov = P.compute_cov_func(e.cov_func_curry, exp["ls"], e.ls_time)
        else:
            exp["distances"] = validate_nn_distances(P.compute_distances(Xj, k=5))
            exp["nn_distances"] = exp["distances"][:, 0]
            exp["ls"] = P.compute_ls(exp["nn_distances"]) * e.ls_factor
            cov = P.compute_cov_func(e.cov_func_curry, exp["ls"])
        exp["cov_func(x,x)"] = cov(Xj, Xj)
        got_cov = e.cov_func(Xj, Xj)
        exp["Lp"] = P.compute_Lp(Xj, e.cov_func, e.gp_type, e.landmarks, sigma=0, jitter=e.jitter)
        exp["L"] = P.compute_L(Xj, e.cov_func, e.gp_type, landmarks=e.landmarks, Lp=e.Lp, rank=e.rank, jitter=e.jitter)
        if est != "M":
            exp["initial_value"] = P.compute_initial_value(e.nn_distances, e.d, e.mu, e.L)
    for name, want in exp.items():
        got = got_cov if name == "cov_func(x,x)" else getattr(e, "mu_dens" if (est == "M" and name == "mu") else name)
        if want is None or got is None:
            ok, dev = (want is None) == (got is None), float("inf")
        else:
            a, b = np.asarray(got, float), np.asarray(want, float)
            ok = a.shape == b.shape
            dev = float(np.max(np.abs(a - b)) / max(np.max(np.abs(b)), 1e-300)) if ok and a.size else (0.0 if ok else float("inf"))
            # Nystroem factors are fixed up to the sign of each eigenvector: compare L L^T there
            if ok and name == "L" and dev > 1e-9 and "nystroem" in str(e.gp_type).lower():
                dev = float(np.max(np.abs(a @ a.T - b @ b.T)) / max(np.max(np.abs(b @ b.T)), 1e-300))
            ok = ok and dev <= 1e-9
        res.dev("glue_rel_dev", 0.0 if dev == float("inf") else dev)
        if not ok:
            res.oracle_fail(f"estimator attribute {name} is not what the documented helper returns for the estimator's own "
                            "other attributes", p, detail={"attribute": name, "rel_dev": dev},
                            signature=f"C18:glue:{est}:{name}")


def run_case(ctx, res, p):
    return {"history": case_history, "subset": case_subset, "helper": case_helper,
            "pipeline": case_pipeline, "glue": case_glue, "stale": case_stale,
            "times": case_times}[p["op"]](ctx, res, p)


def model_legal(ctx, cname, ops):
    est, kw, none_attrs, needs_y = config(cname)
    _, steps = model_run(ctx, est, kw, none_attrs, needs_y, [], ops)
    return all(s[0] == "ok" for s in steps)


def gen_legal(ctx, rng, cname, length, alphabet):
    """a history in which (according to the model) every step succeeds"""
    ops = []
    for _ in range(length):
        cand = [alphabet[i] for i in rng.permutation(len(alphabet))]
        for c in cand:
            if ctx["driver"] is None or model_legal(ctx, cname, ops + [c]):
                ops.append(c)
                break
    return ops


def transitions(ctx, cname, alphabet, depth):
    """Breadth-first search of the MODEL's state graph (state = occupancy bitmap): a shortest history to every
    state reachable within `depth` steps, extended by every operation of the alphabet -> histories of length <= depth+1
    covering every (reachable state, operation) transition."""
    est, kw, none_attrs, needs_y = config(cname)
    init_bm, _ = model_run(ctx, est, kw, none_attrs, needs_y, [], [])
    seen = {init_bm: []}
    frontier = [init_bm]
    for _ in range(depth):
        nxt = []
        for bm in frontier:
            h = seen[bm]
            for op in alphabet:
                _, steps = model_run(ctx, est, kw, none_attrs, needs_y, [], h + [op])
                nb = steps[-1][1]
                if nb not in seen:
                    seen[nb] = h + [op]
                    nxt.append(nb)
        frontier = nxt
    words = []
    for bm, h in seen.items():
        for op in alphabet:
            words.append(h + [op])
    return len(seen), words


def run_helpers(ctx, res, rng, count):
    for _ in range(count):
        run_case(ctx, res, {"op": "helper", "est": ["D", "D", "T"][int(rng.integers(3))],
                            "dseed": int(rng.integers(1 << 30)), "dups": int(rng.choice([0, 1, 3, 6])),
                            "which": [["nn_distances"], ["nn_distances", "ls"], ["nn_distances", "mu"]][int(rng.integers(3))]})


def run(ctx, res):
    rng = ctx["rng"]
    quick = ctx["tier"] == "quick"
    budget = ctx["budget"] or (70 if quick else 640)
    t0 = time.time()
    left = lambda: budget - (time.time() - t0)
    mellon()
    dconfigs = ["D-full", "D-sparse", "D-sparse-nystroem", "D-full-nystroem", "D-full-adam"]
    others = ["T-full", "T-sparse", "M-full"]
    all_subsets = [[a for j, a in enumerate(CACHEABLES) if (mask >> j) & 1] for mask in range(2 ** 9)]
    # the transcribed source facts (order of preparation, read-sets) against the real classes
    for c in dconfigs[:4] + others + ["T-auto"]:
        run_case(ctx, res, {"op": "pipeline", "config": c})
    # a computed ls_time depends on nn_distances, d, ls, mu: seeding those must reproduce the one-shot fit
    for S in (["mu"], ["ls", "d"], ["nn_distances", "mu", "ls"]) if quick else (["mu"], ["ls"], ["d"], ["nn_distances"], ["mu", "ls"],
                                                                              ["ls", "d"], ["nn_distances", "mu", "ls"], list(CACHEABLES)):
        run_case(ctx, res, {"op": "subset", "config": "T-auto", "subset": S})
    for c_, v_ in (("D-full", "fit"), ("D-sparse", "run+process"), ("T-full", "fit"), ("M-full", "fit"), ("D-sparse", "fit_predict")):
        run_case(ctx, res, {"op": "stale", "config": c_, "variant": v_})
    for c_ in ("T-full", "T-sparse"):
        run_case(ctx, res, {"op": "times", "config": c_})
    # repeated staged calls on a fixed-type model whose landmark request exceeds the number of cells
    for c_, ops in (("D-fixed-over", ["FI J T", "FI N T"]), ("D-fixed-over", ["FP J F", "PR N", "RU", "PC T"]),
                    ("T-fixed-over", ["FI J T", "FP N F"]), ("M-fixed-over", ["FI J T", "FI N T"])):
        run_case(ctx, res, {"op": "history", "config": c_, "ops": ops})
    run_case(ctx, res, {"op": "subset", "config": "D-fixed-over", "subset": ["landmarks"]})
    for S in (["nn_distances"], ["nn_distances", "mu", "d"], ["ls"]):
        run_case(ctx, res, {"op": "subset", "config": "T-norm", "subset": S})
    run_case(ctx, res, {"op": "history", "config": "T-norm", "ops": ["FI J T", "FP N F"]})
    run_case(ctx, res, {"op": "subset", "config": "D-fixed-over", "subset": ["landmarks", "L", "Lp"]})
    # ... also when the fresh model gets the same cells as another array object (seeded change C18-f: the cells were
    # recognised by object identity only)
    run_case(ctx, res, {"op": "subset", "config": "D-fixed-over", "subset": ["landmarks"], "data": "P"})
    run_case(ctx, res, {"op": "subset", "config": "M-fixed-over", "subset": ["landmarks"], "data": "P"})
    run_case(ctx, res, {"op": "subset", "config": "D-sparse", "subset": ["landmarks", "mu"], "data": "P"})
    glue_plan = [("D", {}), ("D", {"landmarks": True}), ("D", {"landmarks": True, "gp_type": "sparse_nystroem", "rank": 3}),
                 ("D", {"gp_type": "full_nystroem", "rank": 0.9, "ls_factor": 2.0}), ("T", {}), ("T", {"normalize": True}),
                 ("T", {"normalize": True, "landmarks": True}), ("T", {"normalize": [4.0, 9.0, 6.0]}), ("T", {"landmarks": True, "gp_type": "fixed"}), ("M", {})]
    for i, (est_, cfg_) in enumerate(glue_plan if quick else glue_plan * 3):
        run_case(ctx, res, {"op": "glue", "est": est_, "cfg": cfg_, "dseed": int(rng.integers(1 << 30)),
                            "dups": int(rng.choice([0, 0, 2]))})
    res.count("prefix_seconds", int(time.time() - t0))
    t0 = time.time()          # the time-boxed parts below get the whole budget
    # intermediates from the documented helper functions, incl. data with duplicate cells
    run_helpers(ctx, res, rng, 6 if quick else 40)

    def histories(cname, words, key, reserve):
        done = 0
        for w in words:
            if left() < reserve:
                break
            run_case(ctx, res, {"op": "history", "config": cname, "ops": w})
            done += 1
        res.count(key + ":planned", len(words))
        res.count(key + ":done", done)

    def subsets(plan, key, reserve):
        done = 0
        for cname, S in plan:
            if left() < reserve:
                break
            run_case(ctx, res, {"op": "subset", "config": cname, "subset": S})
            done += 1
        res.count(key + ":planned", len(plan))
        res.count(key + ":done", done)

    def seeded(n_seq, reserve):
        k = 0
        while k < n_seq and left() > reserve:
            if k % 6 == 4:
                cname = others[(k // 6) % (2 if (quick and k < 18) else 3)]
            else:
                cname = dconfigs[int(rng.integers(len(dconfigs)))]
            L = int(rng.integers(3, 6)) if not cname.startswith("M") else 3
            alphabet = CORE + EXTRA
            if k % 3 != 2:
                ops = gen_legal(ctx, rng, cname, L, CORE if k % 2 == 0 else alphabet)
            else:
                ops = [alphabet[int(rng.integers(len(alphabet)))] for _ in range(L)]
            run_case(ctx, res, {"op": "history", "config": cname, "ops": ops})
            k += 1
        res.count("history:seeded", k)

    # nearly identical but different data must be refused like any other foreign data
    for c in ("D-full", "D-sparse", "T-full", "M-full"):
        for ops in (["FI J T", "SX E"], ["SX J", "FP E F"], ["PR J", "PR E", "FI N T"]):
            run_case(ctx, res, {"op": "history", "config": c, "ops": ops})
    fixed_other = [(c, ops) for c in ("T-full", "M-full", "T-sparse")
                   for ops in (["PR J", "RU", "PC F", "PD", "FI N T"], ["RU", "SX J", "PD", "FP N F", "SX O"], ["FP P F", "PD", "FP P F"])
                   if not (quick and c == "M-full" and ops[0] == "RU")]
    words2 = [list(w) for w in itertools.product(CORE, repeat=2)]
    if quick:
        # every history of length <= 2 over the core alphabet (a length-2 word contains its prefix), alternating configurations
        for i, w in enumerate(words2):
            if left() < budget * 0.55:
                break
            run_case(ctx, res, {"op": "history", "config": "D-full" if i % 2 == 0 else "D-sparse", "ops": w})
        for c, ops in fixed_other:
            run_case(ctx, res, {"op": "history", "config": c, "ops": ops})
        seeded(36, budget * 0.25)
        idx = rng.permutation(2 ** 9)[:64]
        plan = [("D-full" if i % 2 == 0 else "D-sparse", all_subsets[int(j)]) for i, j in enumerate(idx)]
        plan += [("D-sparse-nystroem", all_subsets[-1]), ("D-full-nystroem", all_subsets[-1]), ("T-full", all_subsets[-1]),
                 ("T-sparse", ["landmarks", "L", "mu"]), ("D-full", all_subsets[-1]), ("D-sparse", all_subsets[-1]),
                 ("M-full", ["L", "Lp", "distances"])]
        subsets(plan, "subset", 1.0)
    else:
        for c in ("D-full", "D-sparse"):
            histories(c, words2, "history:all-len2:" + c, budget * 0.5)
        for c, ops in fixed_other:
            run_case(ctx, res, {"op": "history", "config": c, "ops": ops})
        subsets([("D-sparse", s) for s in all_subsets], "subset:all512:D-sparse", budget * 0.4)
        subsets([("D-full", s) for s in all_subsets], "subset:all512:D-full", budget * 0.4)
        if ctx["driver"] is not None:
            # every (model state reachable within 4 steps, operation) transition: histories of length <= 5
            for c in ("D-sparse", "D-full"):
                nstates, words = transitions(ctx, c, CORE + EXTRA, 4)
                res.count("history:model-states:" + c, nstates)
                histories(c, words, "history:transitions:" + c, budget * 0.25)
            # every legal history of length 3
            for c in ("D-sparse", "D-full"):
                legal3 = [list(w) for w in itertools.product(CORE, repeat=3) if model_legal(ctx, c, list(w))]
                histories(c, legal3, "history:legal3:" + c, budget * (0.18 if c == "D-sparse" else 0.1))
        m_all = ["distances" if a == "nn_distances" else a for a in CACHEABLES]
        plan = [(c, all_subsets[int(j)]) for c in ("D-sparse-nystroem", "D-full-nystroem", "T-full", "T-sparse")
                for j in rng.permutation(2 ** 9)[:12]]
        # DimensionalityEstimator takes the k-NN `distances` (not nn_distances) as constructor argument
        plan += [("M-full", s) for s in (m_all, ["L", "Lp"], ["distances", "d"], ["initial_value", "mu"])]
        subsets(plan, "subset:other", budget * 0.06)
        seeded(10 ** 6, 2.0)
    res.exhaustive = False


CLAIM = {
    "text": "Lean theorems about the staged estimator API as a state machine with uninterpreted compute functions, for every stage "
            "pipeline that is well staged (the three inference estimators are instances), every interpretation of the compute "
            "functions, every constructor-argument set, every data set and EVERY history of operations of any length: the invariant "
            "'every filled cache equals what one-shot fit computes' holds initially and is preserved by every operation whatever its "
            "outcome (induction over histories); hence fitted values / optimised parameters / predictor after any history equal those "
            "of one fit on a fresh estimator; fit completes to the reference; lazy predict; refit is a no-op; EVERY subset of "
            "precomputed intermediates handed to a fresh estimator reproduces the fitted model (exact side condition on landmarks); "
            "rebinding with another object is refused with ValueError and changes nothing. Tied to /repo by running histories on the "
            "real DensityEstimator / TimeSensitiveDensityEstimator / DimensionalityEstimator and on the model driver (free "
            "interpretation) and comparing per-step outcome class, cache-occupancy bitmap and equal-to-one-shot flags, with bitwise "
            "comparison of fitted values, parameters and predictions against a one-shot fit as the independent oracle.",
    "note": "Determinism of the compute functions is an assumption (k-means excluded); bitwise reproducibility of float64 execution "
            "is tested, not proved; histories of length 4-5 are sampled on the implementation (all lengths in Lean).",
    "technique": "Lean 4 proof (induction over operation lists and stage lists, uninterpreted functions) + model-guided differential "
                 "testing of call histories and intermediate subsets",
}
