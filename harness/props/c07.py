"""C07 — predictor persistence (JSON, gzip, bz2, dict, copy) is lossless."""
import os, json, time, copy, gzip, bz2, tempfile, shutil, pathlib, itertools, sys
import numpy as np
from ..common import mellon, gen_cov, gen_ad, loguniform, exc_class, ad_tokens
from .. import pyval as pv
from ..pyval import fbits, spec_tokens, py_to_spec, py_canon, canon, reply_canon, hexs, unhexs
from . import c19

RULE = ("predictor cases = a real predictor of one of the 9 classes of mellon.conditional (3 families x plain/exp/time), built "
        "with mellon.inference.compute_conditional[_times|_explog] on small data (n<=7, d<=3), with and without uncertainty, "
        "kernel = expression tree from the Cov grammar (active dims, scalar operands) or the time kernel, state optionally "
        "rescaled to extreme magnitudes / subnormals / with NaN, inf, -0.0 entries; pushed through to_dict/from_dict, "
        "to_json/from_json_str, copy and re-serialisation. file cases = (file name from 9 forms, str or Path, compress keyword "
        "in {None, gzip, bz2, bogus}, read with the same keyword or none, under the name actually written or the name "
        "given). legacy cases = dicts synthesised as written by versions < 1.4.0 (old class names, no n_obs, no "
        "_state_variables, arrays without dtype/shape). distinct = distinct payload; non-trivial = every predictor case.")
PARTIAL = [
    "the file system and gzip/bz2/open are contracts of the model (bytes written in one format are read back by the same "
    "opener, and refused by the others); exercised on real files in a temp dir by the correspondence",
    "json text layer is the contract JsonCodec (see C19)",
    "NaN entries of the state: JSON text has the single token NaN, so after to_json / a file a NaN comes back as +NaN "
    "0x7ff8000000000000 whatever its sign / payload was (the NaNs the hardware produces have the sign bit set: known finding "
    "C19:nan-sign-bit, shown by a witness in the C19 check). When the serialised text contains NaN, outputs, attributes and "
    "kernel parameters of the routes through text are therefore compared up to NaN sign / payload (NaNs at the same "
    "places, all other entries bit for bit: same_out / pv.equiv with relax); the routes without text (copy, to_dict / "
    "from_dict) are compared bit for bit including NaNs",
    "the order of set records: the model keeps the elements of a set record in the order of its input, the implementation "
    "writes them sorted (repair of H3-C1); the correspondence compares set records as unordered, the ORACLE compares the "
    "re-serialised JSON text exactly (C07:reserialise-order), demands the sorted order (C07:state-variables-order) and "
    "runs fresh interpreters under several PYTHONHASHSEED values (C07:reserialise-hashseed, C07:text-depends-on-hashseed)",
    "bit-identical mean/covariance/derivative outputs follow in Lean from equality of (class, attributes, kernel) for any "
    "evaluation function of these (eval_congr); the JAX evaluation itself is exercised by the bitwise oracle only",
    "compress_select excludes by design (test-suite pins it) the pairs Path + explicit keyword + name without the matching "
    "extension read back without keyword (compress_select_excluded_pair)",
    "copy_fresh is a statement of the allocation-id model (every mutable container of the copy is freshly allocated); the "
    "object graph of the real copy is exercised by mutating every container reachable from it",
    "version strings: dotted numerals only (packaging pre/dev/local versions are Unmodelled)",
]
ASSUMPTIONS = ["predictor attributes and kernel parameters are values of the C19 grammar",
               "file names are given in normal form (str(Path(name)) == name)"]
TRUSTED_EXTRA = ["gzip.open/bz2.open/open: text written in one mode is read back identically in the same mode",
                 "packaging.version ordering of dotted-numeral versions"]

FLAVOR = {"": "compute_conditional", "Exp": "compute_conditional_explog", "Time": "compute_conditional_times"}
CLASSES = ["FullConditional", "ExpFullConditional", "FullConditionalTime",
           "LandmarksConditional", "ExpLandmarksConditional", "LandmarksConditionalTime",
           "LandmarksConditionalCholesky", "ExpLandmarksConditionalCholesky", "LandmarksConditionalCholeskyTime"]


def class_parts(name):
    fam = "Full" if "Full" in name else ("Chol" if "Cholesky" in name else "Lm")
    fl = "Exp" if name.startswith("Exp") else ("Time" if name.endswith("Time") else "")
    return fam, fl


# ------------------------------------------------------------------ building real predictors

def build_predictor(p):
    """Deterministic from the payload."""
    m = mellon()
    import jax.numpy as jnp
    from mellon import inference
    fam, fl = class_parts(p["cls"])
    rng = np.random.default_rng(int(p["seed"]))
    n, d, k = int(p["n"]), int(p["d"]), int(p.get("m", 3))
    width = d + (1 if fl == "Time" else 0)
    x = rng.normal(size=(n, width))
    if fl == "Time":
        x[:, -1] = rng.integers(0, 3, size=n).astype(float)
    y = rng.normal(size=n)
    if fl == "Exp":
        y = np.exp(y)          # compute_conditional_explog conditions on log(y)
    xu = x[rng.permutation(n)[:k]]
    cov = c19.tree_to_mellon(c19.totuple_keep_specs(p["tree"]))
    unc = bool(p["unc"])
    fn = getattr(inference, FLAVOR[fl])
    mu = float(rng.normal())
    kw = dict(jitter=float(p.get("jitter", 1e-4)), with_uncertainty=unc)
    X, Y = jnp.asarray(x), jnp.asarray(y)
    if fam == "Full":
        pred = fn(X, None, None, None, Y, mu, cov, None, None, sigma=0.3, **kw)
    elif fam == "Chol":
        pre = jnp.asarray(rng.normal(size=k))
        std = jnp.asarray(np.abs(rng.normal(size=k)) + 0.1) if unc else None
        pred = fn(X, jnp.asarray(xu), pre, std, Y, mu, cov, None, None, sigma=0, y_is_mean=True, **kw)
    else:
        r = 2
        L = jnp.asarray(rng.normal(size=(n, r)))
        std = jnp.asarray(np.abs(rng.normal(size=r)) + 0.1) if unc else None
        pred = fn(X, jnp.asarray(xu), None, std, Y, mu, cov, L, None, sigma=0, y_is_mean=True, **kw)
    kind = p.get("state", "plain")
    if kind != "plain":
        tweak_state(pred, kind, rng)
    if p.get("n_obs_kind") == "np":
        pred.n_obs = np.int64(pred.n_obs)
    elif p.get("n_obs_kind") == "frac":        # time-sensitive fits carry the mean cell count per time point
        pred.n_obs = float(pred.n_obs) / 3.0 + 0.25
    elif p.get("n_obs_kind") == "npfrac":
        pred.n_obs = np.float64(pred.n_obs) / 3.0 + 0.25
    if p.get("arr_kind") == "np":
        # predictors built directly from NumPy input keep NumPy arrays (mutable) as state: a copy must not share them
        for k in list(pred._state_variables):
            v = getattr(pred, k, None)
            if hasattr(v, "shape") and not isinstance(v, np.ndarray) and hasattr(v, "dtype") and np.ndim(v) > 0:
                setattr(pred, k, np.array(v))
    if p.get("mu_kind") == "jnp":
        pred.mu = jnp.asarray(pred.mu)
    elif p.get("mu_kind") == "np":
        pred.mu = np.float64(pred.mu)
    return pred


def tweak_state(pred, kind, rng):
    """Extreme magnitudes / subnormals / special entries in the state arrays."""
    import jax.numpy as jnp
    for name in sorted(pred._state_variables):
        v = getattr(pred, name)
        if not hasattr(v, "shape") or np.ndim(v) == 0:
            continue
        a = np.array(v, dtype=float)
        if kind == "huge":
            a = a * 1e300
        elif kind == "tiny":
            a = a * 1e-310
        elif kind == "special":
            flat = a.reshape(-1)
            vals = [np.nan, np.inf, -np.inf, -0.0, 5e-324, 1.7976931348623157e308]
            for i in rng.permutation(flat.size)[: max(1, flat.size // 3)]:
                flat[i] = vals[int(rng.integers(len(vals)))]
        setattr(pred, name, jnp.asarray(a))
    if kind == "huge":
        pred.mu = 1e308
    elif kind == "tiny":
        pred.mu = 5e-324
    elif kind == "special":
        pred.mu = float("nan") if rng.random() < 0.5 else -0.0


def same_out(a, b, relax_nan):
    """Outputs equal bit for bit (dtype, shape, bytes); when the state went through JSON text and holds NaNs, a NaN may
    come back with another sign / payload (JSON has one NaN token), so NaNs then only have to sit at the same places."""
    if isinstance(a[0], str) or isinstance(b[0], str):
        return isinstance(a[0], str) and isinstance(b[0], str) and a == b
    if len(a) != len(b):
        return False
    for x, y in zip(a, b):
        if x.dtype != y.dtype or x.shape != y.shape:
            return False
        if x.dtype.kind != "f":
            if x.tobytes() != y.tobytes():
                return False
        elif not c19.same_bits(x, y, relax_nan):
            return False
    return True


def queries(p, d):
    rng = np.random.default_rng(int(p["seed"]) + 7)
    return rng.normal(size=(4, d))


def evaluate(pred, Xq, fl, with_derivs):
    """Every output the property names, as bytes (or the exception class)."""
    out = {}
    tkw = {"time": 1.0} if fl == "Time" else {}

    def rec(name, fn):
        try:
            with np.errstate(all="ignore"):
                v = fn()
            out[name] = tuple(np.asarray(a) for a in v) if isinstance(v, tuple) else (np.asarray(v),)
        except Exception as e:  # noqa
            out[name] = ("raises", exc_class(e))

    rec("mean", lambda: pred(Xq, **tkw))
    if fl == "Exp":
        rec("mean_log", lambda: pred.mean(Xq, logscale=True))
    else:
        rec("mean_norm", lambda: pred.mean(Xq, normalize=True, **tkw))
    for diag in (True, False):
        rec(f"cov{diag}", lambda: pred.covariance(Xq, diag=diag, **tkw))
        rec(f"mcov{diag}", lambda: pred.mean_covariance(Xq, diag=diag, **tkw))
        rec(f"unc{diag}", lambda: pred.uncertainty(Xq, diag=diag, **tkw))
    if with_derivs:
        if fl == "Time":
            rec("grad", lambda: pred.gradient(Xq, 1.0, jit=False))
            rec("hess", lambda: pred.hessian(Xq, 1.0, jit=False))
            rec("tder", lambda: pred.time_derivative(Xq, 1.0, jit=False))
        else:
            rec("grad", lambda: pred.gradient(Xq, jit=False))
            rec("hess", lambda: pred.hessian(Xq, jit=False))
            rec("hld", lambda: pred.hessian_log_determinant(Xq, jit=False))
    return out


# ------------------------------------------------------------------ predictor <-> model tokens / canonical form

def kernel_spec_tree(c):
    """Kernel object -> tree with spec parameters and canonical active dims (for driver tokens)."""
    from mellon.base_cov import Covariance
    name = type(c).__name__
    leaf = {"Matern32": "M32", "Matern52": "M52", "ExpQuad": "EQ", "Exponential": "EX", "Linear": "LIN"}
    ad = lambda o: ad_unc(c19.obj_to_ad(o))
    if name in leaf:
        return (leaf[name], py_to_spec(c.ls), ad(c.active_dims))
    if name == "RatQuad":
        return ("RQ", py_to_spec(c.alpha), py_to_spec(c.ls), ad(c.active_dims))
    op = {"Add": "ADD", "Mul": "MUL", "Pow": "POW"}[name]
    if isinstance(c.right, Covariance):
        return (op, kernel_spec_tree(c.left), kernel_spec_tree(c.right), ad(c.active_dims))
    return (op + "C" if op != "POW" else "POW", kernel_spec_tree(c.left), py_to_spec(c.right), ad(c.active_dims))


def ad_unc(ad):
    return (ad[0], list(ad[1])) if ad[0] in ("AL", "AM") else ad


def pred_tokens(pred):
    attrs = [(k, v) for k, v in pred.__dict__.items() if k != "cov_func"]
    toks = ["P", hexs(type(pred).__name__), str(len(attrs))]
    for k, v in attrs:
        toks += [hexs(k), spec_tokens(py_to_spec(v))]
    toks.append(c19.tree_tokens(kernel_spec_tree(pred.cov_func)))
    return " ".join(toks)


def pred_canon(pred):
    attrs = tuple(sorted((k, py_canon(v)) for k, v in pred.__dict__.items() if k != "cov_func"))
    return (type(pred).__name__, attrs, c19.mellon_to_tree(pred.cov_func))


def pred_reply(reply):
    if not reply.startswith("ok "):
        cls = reply.split(":")[0]
        return ("err", cls if cls in ("ValueError", "TypeError") else reply.strip())
    r = pv._Rd(reply.split()[1:])
    assert r.tok() == "P"
    name = unhexs(r.tok())
    n = int(r.tok())
    attrs = []
    for _ in range(n):
        k = unhexs(r.tok())
        attrs.append((k, canon(pv._parse(r))))
    cov = c19._parse_cov(r)
    return ("ok", (name, tuple(sorted(attrs)), cov))


def meta_tokens(version=None):
    m = mellon()
    return " ".join(hexs(s) for s in (version or m.__version__, "D", sys.version))


def _outcome(fn):
    try:
        return ("ok", fn())
    except Exception as e:  # noqa
        return ("err", exc_class(e))


def unmodelled(mo):
    return mo[0] == "err" and str(mo[1]).startswith("Unmodelled")


# ------------------------------------------------------------------ cases

def case_pred(ctx, res, p):
    m = mellon()
    from mellon.base_predictor import Predictor
    fam, fl = class_parts(p["cls"])
    res.count("cls=" + p["cls"])
    res.count("unc=%s" % bool(p["unc"]))
    res.count("state=" + p.get("state", "plain"))
    res.count("kernel_root=" + p["tree"][0])
    res.case(("pred", json.dumps(p, sort_keys=True, default=str)), True,
             {k: (str(v)[:120] if k == "tree" else v) for k, v in p.items()})
    pred = build_predictor(p)
    if type(pred).__name__ != p["cls"]:
        res.corr_fail(f"builder produced {type(pred).__name__}, wanted {p['cls']}", p)
        return
    Xq = queries(p, int(p["d"]))
    derivs = bool(p.get("derivs"))
    ref = evaluate(pred, Xq, fl, derivs)
    d0 = _outcome(pred.to_dict)
    js0 = _outcome(pred.to_json)
    if d0[0] != "ok" or js0[0] != "ok":
        res.oracle_fail(f"predictor does not serialise: {d0[1] if d0[0] != 'ok' else js0[1]}", p,
                        signature="C07:serialise-raises")
        return
    d0, js0 = d0[1], js0[1]
    # ---- oracle: plain JSON-compatible data
    if not pv.only_json_types(json.loads(js0)) or not pv.only_json_types(d0):
        res.oracle_fail("to_dict is not plain JSON-compatible data", p, signature="C07:json-types")
    routes = {
        "from_dict": lambda: Predictor.from_dict(pred.to_dict()),
        "from_json_str": lambda: Predictor.from_json_str(js0),
        "copy": lambda: pred.copy(),
        "from_dict_of_json": lambda: Predictor.from_dict(json.loads(js0)),
    }
    loaded = {}
    for name, fn in routes.items():
        o = _outcome(fn)
        if o[0] != "ok":
            res.oracle_fail(f"{name} raises {o[1]}", p, signature="C07:load-raises:" + name)
            continue
        q = o[1]
        loaded[name] = q
        if type(q) is not type(pred):
            res.oracle_fail(f"{name} yields class {type(q).__name__} instead of {type(pred).__name__}", p,
                            signature="C07:class:" + name)
            continue
        got = evaluate(q, Xq, fl, derivs and name in ("from_json_str", "copy"))
        relax = name in ("from_json_str", "from_dict_of_json") and "NaN" in js0
        for key, val in got.items():
            if not same_out(ref[key], val, relax):
                res.oracle_fail(f"{key} output differs after {name}", p, detail={"route": name, "output": key},
                                signature=f"C07:output:{name}")
                break
        # every persisted attribute is there again with an equivalent value (a dropped state variable that has no
        # influence on the outputs would otherwise pass)
        for attr in sorted(set(pred._state_variables) | {"_state_variables", "n_obs", "n_input_features"}):
            if not hasattr(q, attr) or not pv.equiv(getattr(q, attr), getattr(pred, attr), relax_json(name)):
                res.oracle_fail(f"attribute {attr} lost or changed by {name}", p, detail={"attr": attr},
                                signature="C07:attr:" + name)
                break
        # metadata: training size, feature count, kernel
        missing = object()
        if not (same_scalar(getattr(q, "n_obs", missing), pred.n_obs)
                and same_scalar(getattr(q, "n_input_features", missing), pred.n_input_features)):
            res.oracle_fail(f"n_obs / n_input_features not preserved by {name}", p, signature="C07:meta:" + name)
        try:
            if c19.mellon_to_tree(q.cov_func) != c19.tree_canon(
                    kernel_spec_tree(pred.cov_func), lambda sp: c19.norm_param(sp, name != "copy" and name != "from_dict")):
                res.oracle_fail(f"kernel not preserved by {name}", p, signature="C07:kernel:" + name)
        except Exception as e:
            res.oracle_fail(f"kernel unreadable after {name}: {type(e).__name__}", p, signature="C07:kernel:" + name)
        # re-serialising gives the same content apart from the time stamp
        again = _outcome(q.to_dict)
        if again[0] != "ok":
            res.oracle_fail(f"re-serialising after {name} raises {again[1]}", p, signature="C07:reserialise:" + name)
        else:
            a, b = c19.strip_dates(json.loads(json.dumps(again[1]))), c19.strip_dates(json.loads(js0))
            if py_sorted(a) != py_sorted(b):
                res.oracle_fail(f"re-serialised content differs after {name}", p, signature="C07:reserialise:" + name)
            elif json.dumps(a) != json.dumps(b):
                # EXACT comparison (finding H3-C1, repaired): same JSON text, i.e. also the element order of every set
                # record (_state_variables) and the key order of "data" - they followed set-iteration order, which a
                # reloaded set need not share with the original (insertion history, hash seed)
                res.oracle_fail(f"re-serialised content equal only up to the order of a set record / of the keys after "
                                f"{name}", p, signature="C07:reserialise-order:" + name)
    # the state-variable set is written in sorted order (reproducible text, independent of the hash seed)
    sv = json.loads(js0)["data"].get("_state_variables")
    if isinstance(sv, dict) and sv.get("type") == "set" and sv.get("data") != sorted(sv["data"]):
        res.oracle_fail("the _state_variables set is not written in sorted order", p, detail={"written": sv["data"]},
                        signature="C07:state-variables-order")
    # ---- copy shares no mutable state
    if "copy" in loaded:
        shared = mutate_all(loaded["copy"])
        after = _outcome(pred.to_dict)
        if after[0] != "ok" or py_sorted(c19.strip_dates(json.loads(json.dumps(after[1])))) != \
                py_sorted(c19.strip_dates(json.loads(js0))):
            sig = "C07:copy-shares-list" if copy_shares_only_lists(pred, loaded["copy"]) else "C07:copy-shares"
            res.oracle_fail("mutating the copy's containers changes the source", p,
                            detail={"mutated": shared[:6]}, signature=sig)
    # ---- correspondence
    if ctx["driver"] is None:
        return
    pred = build_predictor(p)          # fresh (the copy test may have mutated shared state)
    try:
        toks = pred_tokens(pred)
    except pv.Unsupported as e:
        res.count("unsupported:" + str(e))
        return
    mt = meta_tokens()
    ms = reply_canon(ctx["driver"].ask(f"predstate {mt} {toks}"))
    want = ("ok", c19.sort_set_records(py_canon(c19.strip_dates(pred.to_dict()))))
    if (ms[0], c19.sort_set_records(ms[1]) if ms[0] == "ok" else ms[1]) != want:
        res.corr_fail("to_dict: model and implementation differ", p,
                      detail={"impl": str(want)[:600], "model": str(ms)[:600]})
    for op, route in (("predrtjson", "from_json_str"), ("predrtdict", "from_dict"), ("predcopy", "copy")):
        mo = pred_reply(ctx["driver"].ask(f"{op} {mt} {toks}"))
        q = _outcome({"from_json_str": lambda: Predictor.from_json_str(pred.to_json()),
                      "from_dict": lambda: Predictor.from_dict(pred.to_dict()),
                      "copy": lambda: pred.copy()}[route])
        try:
            io = ("ok", pred_canon(q[1])) if q[0] == "ok" else q
        except Exception as e:
            io = ("malformed", type(e).__name__)
        if mo != io and not unmodelled(mo):
            res.corr_fail(f"{route}: model and implementation differ", p,
                          detail={"impl": str(io)[:700], "model": str(mo)[:700]})


def relax_json(route):
    return route in ("from_json_str", "from_dict_of_json")


def same_scalar(a, b):
    if a is None or b is None:
        return a is None and b is None
    return pv.equiv(a, b, True)


def py_sorted(o):
    """Order-insensitive canonical form of JSON data in which 'set' records are unordered."""
    return c19.sort_set_records(py_canon(o))


def walk_mutables(obj, path, seen, out):
    """All mutable containers reachable from a predictor: (path, object)."""
    from mellon.base_cov import Covariance
    if id(obj) in seen:
        return
    if isinstance(obj, (list, dict, set, np.ndarray)):
        seen.add(id(obj))
        out.append((path, obj))
        if isinstance(obj, list):
            for i, v in enumerate(obj):
                walk_mutables(v, f"{path}[{i}]", seen, out)
        elif isinstance(obj, dict):
            for k, v in obj.items():
                walk_mutables(v, f"{path}[{k!r}]", seen, out)
    elif isinstance(obj, Covariance) or hasattr(obj, "_state_variables"):
        seen.add(id(obj))
        for k, v in list(obj.__dict__.items()):
            walk_mutables(v, f"{path}.{k}", seen, out)


def mutate_all(q):
    out = []
    walk_mutables(q, "copy", set(), out)
    names = []
    for path, o in out:
        names.append(path)
        if isinstance(o, list):
            o.append(0)
        elif isinstance(o, dict):
            o["__mutated__"] = 1
        elif isinstance(o, set):
            o.add("__mutated__")
        elif isinstance(o, np.ndarray) and o.size and o.flags.writeable:
            o.reshape(-1)[0] = o.reshape(-1)[0] + 1 if o.dtype != bool else ~o.reshape(-1)[0]
    # attributes themselves are mutable too: rebinding must not leak either
    return names


def copy_shares_only_lists(p, q):
    a, b = [], []
    walk_mutables(p, "src", set(), a)
    walk_mutables(q, "copy", set(), b)
    ids = {id(o): o for _, o in a}
    shared = [o for _, o in b if id(o) in ids]
    return bool(shared) and all(isinstance(o, list) for o in shared)


def case_copyshare(ctx, res, p):
    """Does deserialize(make_serializable(v)) share a mutable container with v?  (allocation model)"""
    from mellon.util import make_serializable, deserialize
    sp = p["spec"]
    res.count("copyshare:" + sp[0])
    res.case(("copyshare", repr(canon(sp))), True, {"op": "copyshare", "spec": str(sp)[:120]})
    v = pv.spec_to_py(sp)
    o = _outcome(lambda: deserialize(make_serializable(v)))
    if o[0] != "ok":
        return
    a, b = [], []
    walk_mutables(v, "v", set(), a)
    walk_mutables(o[1], "w", set(), b)
    ids = {id(x) for _, x in a}
    shared = any(id(x) in ids for _, x in b)
    if ctx["driver"] is not None:
        r = ctx["driver"].ask("copyshare " + spec_tokens(sp)).split()
        if r[0] != "ok" or (r[1] == "T") != shared:
            res.corr_fail("allocation model: sharing between a value and its state round trip differs", p,
                          detail={"impl_shared": shared, "model": r})
    if p.get("expect_fresh") and shared:
        res.oracle_fail("state round trip of a value without lists shares a mutable container", p,
                        signature="C07:copy-shares")


NAMES = ["p.json", "p", "p.json.gz", "p.gz", "p.json.bz2", "p.bz2", "p.gz.bz2", "p.bz2.gz", "p.gzip"]
KEYWORDS = [None, "gzip", "bz2", "bogus"]


def sniff(path):
    with open(path, "rb") as f:
        head = f.read(3)
    if head[:2] == b"\x1f\x8b":
        return "gzip"
    if head == b"BZh":
        return "bz2"
    return "plain"


def case_file(ctx, res, p):
    """One (name, str|Path, write keyword, read keyword, read under written|given name) combination."""
    m = mellon()
    from mellon.base_predictor import Predictor
    name, is_path, wc, rc_kind, rname_kind = p["name"], bool(p["is_path"]), p["compress"], p["read"], p["rname"]
    res.count(f"file:w={wc}:path={is_path}")
    res.case(("file", name, is_path, wc, rc_kind, rname_kind), True, dict(p))
    pred = file_predictor()
    ref = np.asarray(pred(FILE_X)).tobytes()
    tmp = tempfile.mkdtemp(prefix="c07_")
    try:
        full = os.path.join(tmp, name)
        arg = pathlib.Path(full) if is_path else full
        w = _outcome(lambda: pred.to_json(arg, compress=wc))
        files = sorted(os.listdir(tmp))
        rc = wc if rc_kind == "same" else None
        # ---- oracle (independent of the model)
        if wc not in (None, "gzip", "bz2"):
            if w != ("err", "ValueError") or files:
                res.oracle_fail("unknown compression keyword is not refused with ValueError (or a file was written)", p,
                                detail={"outcome": str(w), "files": files}, signature="C07:file-unknown-keyword")
            written = None
        else:
            if w[0] != "ok" or len(files) != 1:
                res.oracle_fail(f"to_json to a file failed: {w[1]} files={files}", p, signature="C07:file-write")
                return
            written = files[0]
            fmt = sniff(os.path.join(tmp, written))
            want_fmt = wc or ("gzip" if name.endswith(".gz") else "bz2" if name.endswith(".bz2") else "plain")
            if fmt != want_fmt:
                res.oracle_fail(f"file written as {fmt}, selected {want_fmt}", p, signature="C07:file-format")
            if not is_path and want_fmt != "plain" and not written.endswith({"gzip": ".gz", "bz2": ".bz2"}[want_fmt]):
                res.oracle_fail("str file name without the extension of the selected format", p, signature="C07:file-suffix")
            if is_path and written != name:
                res.oracle_fail("a Path file name was not used as is", p, signature="C07:file-path-name")
        rname = written if rname_kind == "written" else name
        r = None
        if written is not None:
            rfull = os.path.join(tmp, rname)
            rarg = pathlib.Path(rfull) if is_path else rfull
            r = _outcome(lambda: Predictor.from_json(rarg, compress=rc))
            ext_ok = (want_fmt == "plain" and not written.endswith((".gz", ".bz2"))) or \
                     (want_fmt == "gzip" and written.endswith(".gz")) or (want_fmt == "bz2" and written.endswith(".bz2"))
            consistent = rname == written and (rc_kind == "same" and (wc is not None or ext_ok) or (rc is None and ext_ok))
            if consistent:
                if r[0] != "ok":
                    res.oracle_fail(f"consistent write/read pair fails: {r[1]}", p, signature="C07:file-roundtrip")
                elif type(r[1]) is not type(pred) or np.asarray(r[1](FILE_X)).tobytes() != ref or \
                        py_sorted(c19.strip_dates(json.loads(r[1].to_json()))) != py_sorted(c19.strip_dates(json.loads(pred.to_json()))):
                    res.oracle_fail("predictor read back from file differs", p, signature="C07:file-content")
            res.count("file:consistent=%s" % consistent)
        # ---- correspondence
        if ctx["driver"] is not None:
            opt = lambda c: "N" if c is None else "S " + hexs(c)
            ws = ctx["driver"].ask(f"wsel {hexs(name)} {'T' if is_path else 'F'} {opt(wc)}").split()
            if written is None:
                if not ws[0].startswith("ValueError"):
                    res.corr_fail("write selection: model accepts an unknown keyword", p, detail={"model": ws})
            else:
                if ws[0] != "ok" or unhexs(ws[1]) != written or ws[2] != fmt:
                    res.corr_fail("write selection: model and implementation differ", p,
                                  detail={"impl": [written, fmt], "model": ws})
                fo = ctx["driver"].ask(f"fileio {hexs(name)} {'T' if is_path else 'F'} {opt(wc)} {hexs(rname)} {opt(rc)}").split()
                if r[0] == "ok":
                    agree = fo[0] == "ok"
                else:
                    agree = fo[0] == "read" and fo[1] == r[1]
                if not agree:
                    res.corr_fail("file read-back outcome: model and implementation differ", p,
                                  detail={"impl": str(r)[:200], "model": fo})
    finally:
        shutil.rmtree(tmp, ignore_errors=True)


_FILE_PRED = None
FILE_X = np.array([[0.3, -1.2], [1.5, 0.2], [0.0, 0.0]])


def file_predictor():
    global _FILE_PRED
    if _FILE_PRED is None:
        _FILE_PRED = build_predictor({"cls": "LandmarksConditionalCholesky", "seed": 11, "n": 5, "d": 2, "m": 3, "unc": True,
                                      "tree": ["MULC", ["M52", 1.3, ["AL", [0, -1]]], 2.0, ["AN"]]})
    return _FILE_PRED


LEGACY_NAME = {c: c.replace("Conditional", "ConditionalMean") for c in CLASSES}


def case_legacy(ctx, res, p):
    """A dict as written before 1.4.0, synthesised from a current one."""
    from mellon.base_predictor import Predictor
    fam, fl = class_parts(p["cls"])
    res.count("legacy:" + p["variant"])
    res.case(("legacy", json.dumps(p, sort_keys=True, default=str)), True, {k: str(v)[:100] for k, v in p.items()})
    pred = build_predictor(p)
    Xq = queries(p, int(p["d"]))
    ref = evaluate(pred, Xq, fl, False)
    d = json.loads(pred.to_json())
    var = p["variant"]
    d["metadata"]["module_version"] = p.get("version", "1.3.1")
    if "oldname" in var:
        d["metadata"]["classname"] = LEGACY_NAME[p["cls"]]
    if "no_n_obs" in var:
        d["data"].pop("n_obs", None)
    if "no_statevars" in var:
        d["data"].pop("_state_variables", None)
    if "old_arrays" in var:
        for v in d["data"].values():
            if isinstance(v, dict) and v.get("type") == "jax.numpy":
                v.pop("dtype", None)
                v.pop("shape", None)
    sp = py_to_spec(d)
    o = _outcome(lambda: Predictor.from_dict(copy.deepcopy(d)))
    # ---- oracle: still loads and predicts identically, with the documented defaults
    if o[0] != "ok":
        res.oracle_fail(f"dict written before 1.4.0 does not load: {o[1]}", p, signature="C07:legacy-load")
    else:
        q = o[1]
        if type(q).__name__ != p["cls"]:
            res.oracle_fail(f"legacy dict loads as {type(q).__name__}", p, signature="C07:legacy-class")
        got = evaluate(q, Xq, fl, False)
        for key in got:
            if key == "mean_norm" and "no_n_obs" in var:
                if not same_out(got[key], ("raises", "ValueError"), False):
                    res.oracle_fail("normalize without n_obs is not refused with ValueError", p, signature="C07:legacy-n_obs")
                continue
            if not same_out(got[key], ref[key], "NaN" in json.dumps(d)):
                res.oracle_fail(f"{key} output of the legacy load differs", p, signature="C07:legacy-output")
                break
        if "no_n_obs" in var and getattr(q, "n_obs", 0) is not None:
            res.oracle_fail("n_obs of a legacy dict is not None", p, signature="C07:legacy-n_obs")
        if getattr(q, "n_input_features", None) != pred.n_input_features:
            res.oracle_fail("n_input_features of a legacy dict not preserved", p, signature="C07:legacy-meta")
        again = _outcome(lambda: Predictor.from_json_str(q.to_json()))
        if again[0] != "ok" or not same_out(evaluate(again[1], Xq, fl, False).get("mean"), ref["mean"], "NaN" in json.dumps(d)):
            res.oracle_fail("re-saving a legacy load does not round trip", p, signature="C07:legacy-resave")
    if ctx["driver"] is not None:
        mo = pred_reply(ctx["driver"].ask("predfromdict " + spec_tokens(sp)))
        try:
            io = ("ok", pred_canon(o[1])) if o[0] == "ok" else o
        except Exception as e:
            io = ("malformed", type(e).__name__)
        if mo != io and not unmodelled(mo):
            res.corr_fail("from_dict of a legacy dict: model and implementation differ", p,
                          detail={"impl": str(io)[:700], "model": str(mo)[:700]})


def case_version(ctx, res, p):
    from packaging import version
    v = p["version"]
    res.count("version")
    res.case(("version", v), True, dict(p))
    o = _outcome(lambda: version.parse(v) < version.parse("1.4.0"))
    if ctx["driver"] is not None:
        r = ctx["driver"].ask("verlt " + hexs(v)).split()
        if r[0] == "ok":
            if o != ("ok", r[1] == "T"):
                res.corr_fail("version comparison: model and packaging differ", p, detail={"impl": str(o), "model": r})
        up = ctx["driver"].ask("upname " + hexs(p.get("name", "X"))).split()
        if unhexs(up[1]) != p.get("name", "X").replace("ConditionalMean", "Conditional"):
            res.corr_fail("class-name upgrade: model and str.replace differ", p, detail={"model": up})



HASHSEED_SCRIPT = r"""
import sys, json, logging, warnings, hashlib
sys.path.insert(0, sys.argv[1]); warnings.filterwarnings("ignore")
import numpy as np, mellon
logging.getLogger("mellon").setLevel(logging.CRITICAL)
from mellon.conditional import FullConditional, LandmarksConditional
from mellon.cov import Matern52
def strip(o):
    if isinstance(o, dict):
        return {k: ("D" if k == "serialization_date" else strip(v)) for k, v in o.items()}
    return [strip(v) for v in o] if isinstance(o, list) else o
rng = np.random.default_rng(1)
X = rng.normal(size=(12, 3)); y = rng.normal(size=12)
out = {}
for name, p in (("full", FullConditional(X, y, 0.1, Matern52(1.3), sigma=0.1, with_uncertainty=True)),
                ("lm", LandmarksConditional(X, X[:5], y, 0.1, Matern52(1.3), sigma=0.1, with_uncertainty=True))):
    q = mellon.Predictor.from_json_str(p.to_json())
    a, b = json.dumps(strip(json.loads(p.to_json()))), json.dumps(strip(json.loads(q.to_json())))
    out[name] = {"same_text": a == b, "sha": hashlib.sha1(a.encode()).hexdigest(),
                 "state_variables": json.loads(a)["data"]["_state_variables"]["data"],
                 "reloaded": json.loads(b)["data"]["_state_variables"]["data"]}
print("RESULT " + json.dumps(out))
"""


def case_hashseed(ctx, res, p):
    """Finding H3-C1 (repaired): string hashing is randomised per process, so the order in which a set of attribute names
    iterates differs between processes and between a set and its reloaded copy.  Fresh interpreters under the given
    PYTHONHASHSEED values serialise the same predictors, reload them and serialise again: the text (time stamp apart)
    must be the same before and after the reload, and the same under every seed."""
    import subprocess
    from ..common import REPO
    res.count("hashseed")
    res.case(("hashseed", tuple(p["seeds"])), True, {"op": "hashseed", "seeds": list(p["seeds"])})
    outs = {}
    for hs in p["seeds"]:
        env = dict(os.environ, PYTHONHASHSEED=str(hs), JAX_PLATFORMS="cpu")
        r = subprocess.run([sys.executable, "-c", HASHSEED_SCRIPT, REPO], env=env, capture_output=True, text=True, timeout=300)
        line = [l for l in r.stdout.splitlines() if l.startswith("RESULT ")]
        if r.returncode != 0 or not line:
            res.oracle_fail(f"serialising under PYTHONHASHSEED={hs} failed", p, detail={"stderr": r.stderr[-300:]},
                            signature="C07:hashseed-run")
            return
        outs[hs] = json.loads(line[0][7:])
    for hs, o in outs.items():
        for name, v in o.items():
            if not v["same_text"]:
                res.oracle_fail(f"re-serialising a reloaded predictor gives a different text under PYTHONHASHSEED={hs}", p,
                                detail={"predictor": name, "original": v["state_variables"], "reloaded": v["reloaded"]},
                                signature="C07:reserialise-hashseed")
                return
    first = outs[p["seeds"][0]]
    for hs, o in outs.items():
        if any(o[name]["sha"] != first[name]["sha"] for name in first):
            res.oracle_fail(f"the serialised text depends on PYTHONHASHSEED ({p['seeds'][0]} vs {hs})", p,
                            detail={str(k): {n: v[n]["state_variables"] for n in v} for k, v in outs.items()},
                            signature="C07:text-depends-on-hashseed")
            return


def run_case(ctx, res, p):
    return {"pred": case_pred, "file": case_file, "legacy": case_legacy, "copyshare": case_copyshare,
            "version": case_version, "hashseed": case_hashseed}[p["op"]](ctx, res, p)


# ------------------------------------------------------------------ generation

def gen_tree(rng, width, depth, list_ad=True):
    """Positive-definite kernels (stationary leaves, sums / products, positive scalars) so that the fitted state is
    finite; every active_dims form."""
    forms = ["AN", "AI", "AIneg", "AM", "AS"] + (["AL"] if list_ad else [])
    from ..common import STATIONARY, ad_indices
    def go(w, dep):
        ad = gen_ad(rng, w, forms=forms)
        if dep == 0:
            k = STATIONARY[int(rng.integers(len(STATIONARY)))]
            ls = ["F", fbits(loguniform(rng, 0.5, 5.0))]
            return ("RQ", ["F", fbits(loguniform(rng, 0.5, 5.0))], ls, ad) if k == "RQ" else (k, ls, ad)
        op = ["ADD", "ADDC", "MUL", "MULC"][int(rng.integers(4))]
        wi = len(ad_indices(ad, w))
        if op in ("ADD", "MUL"):
            return (op, go(wi, dep - 1), go(wi, int(rng.integers(0, dep))), ad)
        return (op, go(wi, dep - 1), ["F", fbits(loguniform(rng, 0.2, 3.0))], ad)
    return go(width, depth)


def gen_pred(rng, cls, unc, state="plain", depth=None, derivs=False, list_ad=True, **kw):
    fam, fl = class_parts(cls)
    d = 2                                       # one shape family: XLA compiles per shape
    width = d + (1 if fl == "Time" else 0)
    depth = int(rng.integers(0, 3)) if depth is None else depth
    p = {"op": "pred", "cls": cls, "seed": int(rng.integers(1 << 30)), "n": 6, "d": d, "m": 3,
         "unc": bool(unc), "state": state, "tree": gen_tree(rng, width, depth, list_ad), "derivs": bool(derivs)}
    p.update(kw)
    return p


def run(ctx, res):
    rng = ctx["rng"]
    quick = ctx["tier"] == "quick"
    budget = ctx["budget"] or (55 if quick else 480)
    t0 = time.time()
    mellon()
    # --- regression case of the repaired defect F3 (a list-valued active_dims was shared by copy()): must PASS
    run_case(ctx, res, {"op": "pred", "cls": "FullConditional", "seed": 5, "n": 5, "d": 2, "m": 3, "unc": False,
                        "state": "plain", "tree": ["M52", 1.3, ["AL", [0, 1]]], "derivs": False})
    # --- regression case of the repaired finding H3-C1 (set-iteration order in the serialised text): two hash seeds, 8 is
    # one of those under which the reloaded set iterated differently (also 9, 31, 35, 36, 43, 54, 56)
    run_case(ctx, res, {"op": "hashseed", "seeds": [8, 31] if quick else [8, 9, 31, 0]})
    # --- allocation model on values
    L = lambda xs: ["L", xs]
    for sp, fresh in [(["A", "np", "f", [2], [fbits(1.0), fbits(2.0)]], True), (["ST", [["S", "a"], ["I", 1]]], True),
                      (["D", [["a", ["A", "np", "i", [1], [3]]], ["b", ["ST", [["I", 1]]]]]], True),
                      (["D", [["a", ["D", [["b", ["A", "jnp", "f", [1], [fbits(1.0)]]]]]]]], True),
                      (L([["I", 0], ["I", 1]]), True), (["D", [["a", L([["I", 0]])]]], True),
                      (L([L([["I", 1]]), ["D", [["b", L([])]]]]), True),
                      (["I", 3], True), (["SL", ["N"], ["I", 1], ["N"]], True), (L([]), True)]:
        run_case(ctx, res, {"op": "copyshare", "spec": sp, "expect_fresh": fresh})
    # --- versions / class names
    for v, nm in [("1.3.1", "FullConditionalMean"), ("1.4.0", "LandmarksConditionalMeanCholeskyTime"), ("1.4", "X"),
                  ("1.10.0", "ConditionalMeanConditionalMean"), ("0.9", "ExpLandmarksConditionalMean"), ("1.3.99", ""),
                  ("2", "ConditionalMea"), ("1.4.0.0", "aConditionalMeanb"), ("1.3.1.1", "Mean"), ("1.04.0", "FullConditional")]:
        run_case(ctx, res, {"op": "version", "version": v, "name": nm})
    # --- files: every name form x str/Path x keyword x read keyword x read name
    combos = list(itertools.product(NAMES, [False, True], KEYWORDS, ["same", "none"], ["written", "given"]))
    if quick:
        keep = [c for c in combos if c[4] == "written"]
        extra = [c for c in combos if c[4] == "given"]
        combos = keep + [extra[i] for i in rng.permutation(len(extra))[:24]]
    for name, is_path, wc, rd, rn in combos:
        if rn == "given" and (is_path or wc is None):
            continue   # same name as written
        run_case(ctx, res, {"op": "file", "name": name, "is_path": is_path, "compress": wc, "read": rd, "rname": rn})
    # --- all 9 classes x with/without uncertainty; derivatives on a subset
    for i, cls in enumerate(CLASSES):
        for unc in (False, True):
            run_case(ctx, res, gen_pred(rng, cls, unc, derivs=(not quick) or (i, unc) in ((0, True), (4, False), (8, True))))
        if i % 3 == 0:               # NumPy arrays as state (mutable): copy / round trips, no sharing
            run_case(ctx, res, gen_pred(rng, cls, True, arr_kind="np"))
        if cls.endswith("Time"):     # the training size of a time-sensitive fit is a mean over time points: fractional
            run_case(ctx, res, gen_pred(rng, cls, False, n_obs_kind=["frac", "npfrac"][i % 2]))
    # --- legacy dicts
    variants = ["oldname+no_n_obs+no_statevars+old_arrays", "oldname+no_n_obs+no_statevars", "no_n_obs", "no_statevars",
                "oldname", "old_arrays", "plain"]
    for i, cls in enumerate(CLASSES):
        vs = variants if not quick else [variants[0], variants[1 + (i % 6)]]
        for var in vs:
            p = gen_pred(rng, cls, bool(i % 2), depth=1)
            p.update({"op": "legacy", "variant": var, "version": ["1.3.1", "1.0.0", "0.9", "1.3.99"][int(rng.integers(4))]})
            run_case(ctx, res, p)
    # --- extreme state, scalar kinds (time-boxed sampled part)
    i = 0
    states = ["huge", "tiny", "special", "plain"]
    while time.time() - t0 < budget:
        cls = CLASSES[int(rng.integers(9))]
        kw = {}
        r = rng.random()
        if r < 0.2:
            kw["n_obs_kind"] = ["np", "frac", "npfrac"][i % 3]
        elif r < 0.4:
            kw["mu_kind"] = ["jnp", "np"][int(rng.integers(2))]
        elif r < 0.55:
            kw["arr_kind"] = "np"
        run_case(ctx, res, gen_pred(rng, cls, bool(rng.integers(2)), state=states[i % 4], derivs=(i % 7 == 3), **kw))
        i += 1
    res.count("sampled", i)


CLAIM = {
    "text": "Lean theorems over the exact value/kernel syntax of C19 for every predictor object (class tag of the 9 classes, "
            "attribute dict, nested kernel): from_dict(to_dict p), from_json_str(to_json p) for every codec meeting the JSON "
            "text contract, and copy() return the object whose attributes are the data dict in normal form with the same class "
            "and kernel (hence every function of (class, attributes, kernel) evaluates identically), n_obs / n_input_features / "
            "kernel preserved, re-serialisation equal to the normal form of the first serialisation; the complete compression "
            "decision table of to_json/from_json over (name, str|Path, keyword) with read(write) = p for every consistent pair, "
            "unknown keyword -> ValueError and nothing written, and the excluded pairs enumerated; copy allocates fresh ids for "
            "every mutable container; dicts written before 1.4.0 "
            "load with the documented defaults. Tied to /repo by exact comparison of real predictors of all 9 classes with the "
            "model driver through every route and by a bitwise oracle on mean/covariance/mean_covariance/uncertainty/gradient/"
            "hessian outputs, real files in a temp dir, mutation of every container of the copy, synthesised legacy dicts.",
    "note": "file system, gzip/bz2 and the JSON text layer are contracts; JAX evaluation is exercised by the oracle only; "
            "'bitwise' is up to the sign / payload of NaN entries on the routes through JSON text (known finding "
            "C19:nan-sign-bit); Correspondence is sampled differential testing.",
    "technique": "Lean 4 proof (induction over value/kernel syntax, decision-table case analysis over character lists, "
                 "allocation-id model) + exact differential correspondence + bitwise oracle",
}
