"""C08 — density estimates transform correctly under symmetries of the data."""
import time
import numpy as np
from ..common import mellon, loguniform, gen_points, exc_class

EPS = np.finfo(float).eps
RULE = ("cases = (estimator in {density, time-sensitive, dimensionality}, gp configuration in {full, full_nystroem, "
        "sparse_cholesky / fixed with explicit landmarks transformed together with the data}, transformation in {random "
        "orthogonal map + translation, scaling a in [1e-3,1e3], permutation of cells, affine change of the time axis}); each "
        "case fits X and T(X) and compares the inference problem tightly (nn distances, ls, mu, loss at common latent "
        "vectors, start values) and fitted / predicted values at optimiser tolerance; non-trivial = transformation differs "
        "from the identity and fitted values are not constant")
PARTIAL = ["fitted values / predictions are compared at optimiser tolerance (L-BFGS-B convergence is outside the model); the "
           "inference problem itself (loss, start point, ls, mu) is compared tightly",
           "the 1e-12 squared-distance regulariser does not scale with the data: exact statement carries eps/a^2, its effect "
           "(<= 1e-12/a^2 on squared distances) is checked numerically"]
ASSUMPTIONS = ["moderate translations (|t| <= 10) so that xx - 2xy + yy cancellation stays below the tight tolerance"]
CLAIM = {
    "text": "Lean theorems over R: util.distance depends on its arguments only through the squared Euclidean distance, which is "
            "invariant under translations and orthogonal maps and scales with a^2 (regulariser eps -> eps/a^2 made explicit); every "
            "stationary kernel value is a function of distance/ls, so Gram matrices are invariant when ls scales with the data; "
            "mle(a r, d) = mle(r, d) - d log a, hence mu and the fitted log-densities shift by -d log a and the likelihood by "
            "-n log a with the same minimiser; L L^T determines the set {(loss z, L z + mu)}, which is what makes permutation "
            "equivariance hold although Cholesky factors do not permute. Tied to /repo metamorphically: fit X and T(X) on the "
            "real estimators.",
    "note": "Optimiser convergence (fitted values, predictions) is at tolerance; time-derivative scaling is checked "
            "numerically. Tight comparisons are on the inference problem.",
    "technique": "Lean 4 proof (invariance of the squared distance, scaling laws of the likelihood) + metamorphic checks on the "
                 "real estimators",
}


def make(p, X, landmarks, ls=None, ls_time=None):
    m = mellon()
    kw = dict(p["gp_kwargs"])
    if landmarks is not None:
        kw["landmarks"] = landmarks
    if ls is not None:
        kw["ls"] = ls
    if p["estimator"] == "density":
        return m.DensityEstimator(**kw)
    if p["estimator"] == "time":
        return m.TimeSensitiveDensityEstimator(ls_time=ls_time, **kw)
    return m.DimensionalityEstimator(k=5, **kw)


def transform(p, A):
    """Apply the case's transformation to an array of points (state columns; time column separately)."""
    if A is None:
        return None
    A = np.asarray(A, float)
    if p["estimator"] == "time":
        S, T = A[:, :-1], A[:, -1:]
    else:
        S, T = A, None
    kind = p["kind"]
    if kind == "isometry":
        S2 = S @ np.asarray(p["Q"], float).T + np.asarray(p["t"], float)
    elif kind == "scale":
        S2 = S * float(p["a"])
    elif kind == "time":
        S2 = S
        T = T * float(p["a"]) + float(p["b"])
    else:
        S2 = S
    return S2 if T is None else np.c_[S2, T]


def case_regulariser(ctx, res, p):
    m = mellon()
    rng = np.random.default_rng(5)
    X = rng.normal(size=(12, 2)) * 0.05
    ls = 0.02
    a = 1e-3
    k1 = np.asarray(m.cov.Matern52(ls)(X, X), float)
    k2 = np.asarray(m.cov.Matern52(a * ls)(a * X, a * X), float)
    dv = float(np.max(np.abs(k1 - k2)))
    res.case(("regulariser",), True, {"op": "regulariser", "a": a, "ls": ls})
    res.dev("kernel_scale_covariance_abs_dev_at_a=1e-3", dv)
    if dv > 1e-9:
        res.oracle_fail("the kernel is not exactly scale covariant: k(a x, a y; a ls) != k(x, y; ls) for a = 1e-3 (absolute 1e-12 "
                        "regulariser of the squared distance)", p, detail={"max_abs_dev": dv, "rho": 1e-12 / (a * ls) ** 2},
                        signature="C08:regulariser-scale")


def run_case(ctx, res, p):
    if p.get("op") == "regulariser":
        return case_regulariser(ctx, res, p)
    if p["estimator"] == "dim" and p["kind"] == "scale":
        # Known finding C08:dim-scale — the joint dimensionality/density MAP is not scale covariant: the likelihood maps
        # (d_i, log rho_i) -> (d_i, log rho_i - d_i log a) exactly, but the GP prior on the log-density is not invariant under
        # that non-constant shift (and mu_dim = 0 pins the prior dimensionality), so fitted dimensionalities change with the
        # unit of length.  Every failure of this configuration is reported under that one signature.
        class _R:
            def __init__(self, r): self.r = r
            def __getattr__(self, k): return getattr(self.r, k)
            def oracle_fail(self, what, case, detail=None, signature=None):
                self.r.oracle_fail("DimensionalityEstimator is not scale covariant: " + what, case, detail, "C08:dim-scale")
        res = _R(res)
    X = np.asarray(p["X"], float)
    Xu = None if p.get("Xu") is None else np.asarray(p["Xu"], float)
    Xq = np.asarray(p["Xq"], float)
    n = X.shape[0]
    d_state = X.shape[1] - (1 if p["estimator"] == "time" else 0)
    kind = p["kind"]
    for k in ("estimator", "config", "kind"):
        res.count(f"{k}={p[k]}")
    sample = {k: (v if not isinstance(v, np.ndarray) else list(v.shape)) for k, v in p.items()}
    canon = repr([(k, v.tobytes() if isinstance(v, np.ndarray) else v) for k, v in sorted(p.items())])
    a = float(p.get("a", 1.0))
    perm = np.asarray(p["perm"]) if kind == "perm" else np.arange(n)
    X2 = transform(p, X)[perm]
    Xu2 = transform(p, Xu)
    Xq2 = transform(p, Xq)
    ls_time1 = float(p.get("ls_time", 1.0))
    ls_time2 = ls_time1 * (a if kind == "time" else 1.0)
    try:
        e1 = make(p, X, Xu, ls_time=ls_time1)
        e1.fit(X)
        e2 = make(p, X2, Xu2, ls_time=ls_time2)
        e2.fit(X2)
    except Exception as e:
        res.case(canon, False, sample)
        res.oracle_fail(f"fit raised {exc_class(e)}: {str(e)[:80]}", p, signature="C08:fit:" + exc_class(e))
        return
    dens1 = np.asarray(e1.log_density_x, float)
    dens2 = np.asarray(e2.log_density_x, float)
    res.case(canon, bool(np.ptp(dens1) > 1e-9), sample)
    dd = float(e1.d) if np.ndim(e1.d) == 0 else None
    shift = 0.0
    sa = 1.0
    if kind == "scale":
        sa = a
        shift = -(dd if dd is not None else d_state) * np.log(a)
    tight = 1e-7
    # the 1e-12 squared-distance regulariser does not scale with the data: in units of the length scale it is
    # rho = 1e-12 / ls^2, different in the two problems when the data are rescaled (exact law carries eps/a^2)
    rho = abs(1e-12 / float(e2.ls) ** 2 - 1e-12 / float(e1.ls) ** 2)
    if p["estimator"] == "time":
        # the time kernel carries the same regulariser in units of ls_time (rescaled with the time axis)
        rho += abs(1e-12 / float(ls_time2) ** 2 - 1e-12 / float(ls_time1) ** 2)
    res.dev("regulariser_rho", rho)
    # ---- tight: the inference problem
    if p["estimator"] != "dim":
        nn1, nn2 = np.asarray(e1.nn_distances, float), np.asarray(e2.nn_distances, float)
        dv = np.max(np.abs(nn2 - sa * nn1[perm])) / np.max(np.abs(sa * nn1))
        res.dev("nn_distances_rel", dv)
        if dv > tight:
            res.oracle_fail("nearest-neighbour distances do not transform (invariant / scale by a / permute)", p,
                            detail={"rel": float(dv)}, signature="C08:nn")
        dv = abs(float(e2.mu) - (float(e1.mu) + shift)) / max(abs(float(e1.mu)), 1.0)
        res.dev("mu_rel", dv)
        if dv > tight:
            res.oracle_fail("mu does not shift by -d log a / stay invariant", p, detail={"rel": float(dv)},
                            signature="C08:mu")
    dv = abs(float(e2.ls) - sa * float(e1.ls)) / (sa * float(e1.ls))
    res.dev("ls_rel", dv)
    if dv > tight:
        res.oracle_fail("length scale does not scale with the data / stay invariant", p, detail={"rel": float(dv)},
                        signature="C08:ls")
    # loss at corresponding latent vectors: same Gram matrices => same L L^T for isometry/scale/time (not for
    # permutations).  L itself is only determined up to an orthogonal map R of the latent coordinates for the Nystroem
    # types (signs / rotations of eigenvectors: L2 = L1 R), under which the inference problem is the same problem
    # (Lean: loss_orthogonal_reparam): compare loss2(R^T z) with loss1(z) and z0' with R^T z0.
    if kind != "perm" and p["config"] != "sparse_kmeans":
        z0 = np.asarray(e1.initial_value, float)
        z0b = np.asarray(e2.initial_value, float)
        L1, L2 = np.asarray(e1.L, float), np.asarray(e2.L, float)
        R = None
        if L1.shape == L2.shape:
            lscale = max(np.max(np.abs(L2)), 1e-300)
            ftol = 1e-5 + 2e4 * rho
            if np.max(np.abs(L1 - L2)) / lscale <= ftol:
                R = np.eye(L1.shape[1])
                res.dev("factor_map_fit_over_tol", float(np.max(np.abs(L1 - L2)) / lscale / ftol))
            else:
                # orthogonal Procrustes: the orthogonal R closest to mapping L1 onto L2 (exactly orthogonal also when L
                # is rank deficient, e.g. inducing points far from every cell)
                U_, _, Vt_ = np.linalg.svd(L1.T @ L2)
                Rp = U_ @ Vt_
                r_fit = float(np.max(np.abs(L1 @ Rp - L2)) / lscale)
                res.dev("factor_map_fit_over_tol", r_fit / ftol)
                if r_fit <= ftol:
                    R = Rp
        if R is None:
            res.oracle_fail("the covariance factors of the two problems are not related by an orthogonal map of the latent "
                            "coordinates (L L^T changes under the transformation)", p,
                            detail={"shapes": [list(L1.shape), list(L2.shape)]}, signature="C08:factor")
        else:
            res.count("latent_map=" + ("identity" if np.max(np.abs(R - np.eye(R.shape[0]))) < 1e-6 else "orthogonal"))
            rr = R.shape[0]
            back = lambda z: (np.asarray(z, float).reshape(-1, rr) @ R).reshape(np.shape(z))     # R^T z, block-wise
            zs = [z0, z0 + 0.1 * np.random.default_rng(p["zseed"]).normal(size=z0.shape)]
            const = 0.0
            if kind == "scale" and p["estimator"] != "dim":
                const = n * np.log(a)
            for z in zs:
                l1, l2 = float(e1.loss_func(z)), float(e2.loss_func(back(z)))
                if p["estimator"] == "dim" and kind == "scale":
                    continue
                dv = abs(l2 - (l1 + const)) / max(abs(l1), 1.0)
                res.dev("loss_rel", dv)
                if dv > 1e-6 + 2e3 * rho:
                    res.oracle_fail("loss at corresponding latent vectors does not transform (invariant / + n log a)", p,
                                    detail={"rel": float(dv), "l1": l1, "l2": l2}, signature="C08:loss")
            if p["estimator"] != "dim":
                dv = np.max(np.abs(z0b - back(z0))) / max(np.max(np.abs(z0)), 1e-300)
                res.dev("initial_value_rel", dv)
                if dv > 1e-5 + 2e4 * rho:
                    res.oracle_fail("starting point changes under the transformation", p, detail={"rel": float(dv)},
                                    signature="C08:initial-value")
    # ---- loose: fitted values and predictions (optimiser tolerance)
    rng_ = max(np.ptp(dens1), 1e-9)
    loose = 5e-3
    dv = np.max(np.abs(dens2 - (dens1[perm] + shift))) / rng_
    res.dev("fitted_rel", dv)
    if dv > loose:
        res.oracle_fail("fitted log-densities do not transform (invariant / permute / shift by -d log a)", p,
                        detail={"rel": float(dv)}, signature="C08:fitted")
    pred1 = e1.predict_density if p["estimator"] == "dim" else e1.predict
    pred2 = e2.predict_density if p["estimator"] == "dim" else e2.predict
    q1, q2 = np.asarray(pred1(Xq), float), np.asarray(pred2(Xq2), float)
    dv = np.max(np.abs(q2 - (q1 + shift))) / rng_
    res.dev("predicted_rel", dv)
    if dv > loose:
        res.oracle_fail("predictions at transformed query points do not transform", p, detail={"rel": float(dv)},
                        signature="C08:predicted")
    if p["estimator"] == "dim":
        l1, l2 = np.asarray(e1.local_dim_x, float), np.asarray(e2.local_dim_x, float)
        dv = np.max(np.abs(l2 - l1[perm])) / max(np.ptp(l1), 1e-3 * np.max(np.abs(l1)))
        res.dev("local_dim_rel", dv)
        if dv > 2e-2:
            res.oracle_fail("local dimensionality is not invariant", p, detail={"rel": float(dv)}, signature="C08:dim")
    if kind == "time":
        t1 = np.asarray(e1.predict.time_derivative(Xq[:, :-1], Xq[:, -1]), float)
        t2 = np.asarray(e2.predict.time_derivative(Xq2[:, :-1], Xq2[:, -1]), float)
        dv = np.max(np.abs(t2 * a - t1)) / max(np.max(np.abs(t1)), 1e-6)
        res.dev("time_derivative_rel", dv)
        if dv > 2e-2:
            res.oracle_fail("time derivatives do not scale by 1/a under an affine change of the time axis", p,
                            detail={"rel": float(dv)}, signature="C08:time-derivative")


CONFIGS = ["full", "full_nystroem", "sparse_cholesky", "fixed"]


def gen_case(rng, est=None, kind=None, normalize=None, const_col=None, float_d=None):
    est = est or ["density", "density", "time", "dim"][rng.integers(4)]
    if kind is None:
        kinds_ = ["isometry", "scale", "perm"] + (["time"] if est == "time" else [])
        kind = kinds_[rng.integers(len(kinds_))]
    n, d = 20, 2
    X, _ = gen_points(rng, n, d, kind=["plain", "clustered"][rng.integers(2)], scale=1.0)
    if rng.random() < 0.4:
        # a few near-coincident cells (some but not all): separations 1e-5 .. 1e-2 of the data scale
        for _ in range(int(rng.integers(1, 4))):
            i, j = rng.choice(n, size=2, replace=False)
            v = rng.normal(size=d)
            X[i] = X[j] + v / np.linalg.norm(v) * loguniform(rng, 1e-5, 1e-2)
    if kind == "isometry" and (const_col if const_col is not None else rng.random() < 0.2):
        # the cells lie in a coordinate hyperplane (one exactly constant coordinate): after a rotation every coordinate
        # varies; d, mu, the loss and the fit must not notice
        X[:, int(rng.integers(d))] = float(np.round(rng.normal(), 2))
    Xq, _ = gen_points(rng, 4, d, kind="plain", scale=0.8)
    if est == "time":
        # two time points of unequal size, cells not grouped by time (a per-time-point quantity laid out in time-sorted order
        # would land on the wrong cells)
        X = np.c_[X, np.repeat(np.arange(2.0), [7, 13])[rng.permutation(n)]]
        Xq = np.c_[Xq, rng.uniform(0, 1, size=4)]
    cfg = CONFIGS[rng.integers(len(CONFIGS))]
    gp, Xu = {}, None
    lm = lambda k: (np.c_[gen_points(rng, k, d, kind="plain")[0], rng.integers(0, 2, size=k).astype(float)]
                    if est == "time" else gen_points(rng, k, d, kind="plain")[0])
    if cfg == "full":
        gp = dict(n_landmarks=0)
    elif cfg == "full_nystroem":
        gp = dict(gp_type="full_nystroem", rank=[0.95, 4][rng.integers(2)])
    elif cfg == "sparse_cholesky":
        Xu = lm(6)
    else:
        Xu = lm(6); gp = dict(gp_type="fixed")
    if est == "time" and (normalize if normalize is not None else rng.random() < 0.4):
        # per-time-point normalisation: the ls heuristic must keep using within-time-point distances
        # (True: equal targets, so the correction differs between the unequal time points; a list: explicit unequal targets)
        gp = dict(gp, normalize_per_time_point=[True, [4.0, 9.0]][int(rng.integers(2))])
    if est != "dim" and (float_d if float_d is not None else rng.random() < 0.3):
        # a supplied non-integer dimensionality (what d_method="fractal" produces): every place that uses d - the MLE behind
        # mu, the loss, the starting point - must use the same real number, or the -d*log(a) shift is broken
        gp = dict(gp, d=float([2.5, 1.7, 0.6, 3.3][int(rng.integers(4))]))
    kinds = ["isometry", "scale", "perm"] + (["time"] if est == "time" else [])
    kind = kind or kinds[rng.integers(len(kinds))]
    p = {"op": "sym", "estimator": est, "config": cfg, "gp_kwargs": gp, "X": X, "Xu": Xu, "Xq": Xq, "kind": kind,
         "zseed": int(rng.integers(1 << 30)), "ls_time": loguniform(rng, 0.5, 2.0)}
    if kind == "isometry":
        Q, _ = np.linalg.qr(rng.normal(size=(d, d)))
        p["Q"] = Q
        p["t"] = rng.normal(size=d) * loguniform(rng, 0.1, 10.0)
    elif kind == "scale":
        p["a"] = [1e-3, 1e3, loguniform(rng, 1e-3, 1e3), loguniform(rng, 1e-3, 1e3)][rng.integers(4)]
    elif kind == "perm":
        p["perm"] = rng.permutation(n)
    else:
        p["a"] = [1e-3, 1e3, loguniform(rng, 1e-3, 1e3), loguniform(rng, 0.1, 10.0)][rng.integers(4)]
        p["b"] = float(rng.normal() * 3)
    return p


def run(ctx, res):
    rng = ctx["rng"]
    quick = ctx["tier"] == "quick"
    budget = ctx["budget"] or (100 if quick else 780)
    t_end = time.time() + budget
    mellon()
    # recorded finding (inherent, not repaired): the squared-distance regulariser 1e-12 of util.distance is absolute, so the kernel
    # is not exactly scale covariant - k(a x, a y; a ls) differs from k(x, y; ls) by O(1e-12 / (a ls)^2), which reaches 1e-4 for
    # data of spread 0.05 scaled by a = 1e-3 (the estimator-level comparisons below budget this with `rho`)
    run_case(ctx, res, {"op": "regulariser"})
    # every (estimator, transformation) pair once, then sampled
    plan = [("time", "time", True), ("time", "time", False), ("density", "scale", None), ("time", "scale", True),
            ("dim", "scale", None), ("density", "isometry", None), ("time", "isometry", None), ("dim", "isometry", None),
            ("density", "perm", None), ("time", "perm", True), ("dim", "perm", None)]
    for est, kind, nz in plan:
        if time.time() > t_end + budget:       # at most twice the budget for the fixed plan
            break
        run_case(ctx, res, gen_case(rng, est, kind, nz, const_col=(est == "density" and kind == "isometry") or None,
                                    float_d=False))
    for est, kind in (("density", "scale"), ("time", "scale")):     # non-integer d under rescaling
        if time.time() > t_end + budget:
            break
        run_case(ctx, res, gen_case(rng, est, kind, None, float_d=True))
    while time.time() < t_end:
        run_case(ctx, res, gen_case(rng))
