"""C19 — covariance-function and value serialisation is a faithful inverse pair."""
import json, time, itertools
import numpy as np
from ..common import (mellon, gen_cov, gen_ad, gen_points, loguniform, LEAVES, ad_indices, ad_tokens, ad_to_py,
                      cov_depth, totuple, exc_class)
from .. import pyval as pv
from ..pyval import fbits, unfbits, spec_to_py, spec_tokens, py_to_spec, py_canon, canon, reply_canon

RULE = ("value cases = one Python value from the grammar of the property (None, bool, int incl. > 2^64, float incl. NaN "
        "(several payloads), +-inf, -0.0, subnormals, extreme magnitudes, str incl. unicode and near-misses of the reserved "
        "token, NumPy scalars of 8 dtypes, JAX scalars, NumPy/JAX arrays rank 0..3 with dims in 0..3 and dtype "
        "float64/int64/bool, slices incl. NumPy-integer members, dicts incl. keys 'type'/'data'/'None', sets, lists of any of "
        "these, nesting to depth 3) pushed through "
        "make_serializable -> json.dumps -> json.loads -> deserialize and through the dict path; kernel cases = expression "
        "tree (6 kernels, 5 operators, every active_dims form incl. array-likes, parameters as float / int / NumPy scalar / "
        "rank-0 array incl. NaN, inf, subnormal) through to_dict/from_dict/to_json/from_json; refusal cases = objects that "
        "are not serialised kernels; malformed cases = the state of a valid kernel (all 6 classes, all 5 operators, nested "
        "pairs) with ONE thing broken at ONE node (root or any nested operand): each of type / metadata / classname / "
        "module_name / data / left_data / right_data deleted, renamed, or replaced by a value of another type; the class name "
        "replaced by an unknown name, the abstract base class, a non-class or non-kernel name of the module, a leaf class on "
        "a pair state and vice versa; the module replaced by one that does not exist / cannot be imported / lacks the class; "
        "a parameter, scalar operand or active_dims record replaced by a record deserialize cannot read - through from_dict "
        "and (as text) from_json, outcome must be ValueError. distinct = distinct canonical value / tree / state; "
        "non-trivial = anything but a bare scalar.")
PARTIAL = [
    "json text layer (float.__repr__ shortest round trip, NaN/Infinity tokens, string escaping) is the contract JsonCodec; "
    "the theorems hold for every codec satisfying it, the driver runs the identity codec; CPython's json is exercised by the "
    "correspondence only",
    "NaN payload / sign: JSON text keeps only 'NaN', so a NaN comes back as the quiet NaN 0x7ff8000000000000 (normal form "
    "normF canonNaN); 'bits preserved' is proved for every non-NaN double and only NaN-ness for NaNs. This is a literal "
    "deviation from 'bits preserved' for the NaNs the hardware produces (0/0 = 0xfff8000000000000 on x86, sign bit set): "
    "it is shown on every run by the witness op 'nansign' and reported as KNOWN-FINDING C19:nan-sign-bit. All other value, "
    "kernel-parameter and kernel-evaluation comparisons of this check (pyval.equiv with through_json, same_bits with "
    "relax_nan, norm_param) identify NaNs that differ only in sign / payload when the value went through JSON text; on the "
    "dict path (to_dict / from_dict, no text) NaN bits are compared exactly",
    "a kernel state whose 'data' lacks an attribute of its class is accepted (the format does not declare the attributes): "
    "model outcome 'unmodelled' (kernel-attributes), witness op 'attrmissing', KNOWN-FINDING "
    "C19:kernel-attribute-missing-accepted; states accepted although they are not what to_dict writes and NOT counted as "
    "malformed: missing active_dims on a pair (read as None, older files), missing version / date entries of metadata, a "
    "wrong module name on Add / Mul / Pow (looked up by class name only), classname 'CovariancePair', a non-kernel scalar or "
    "list as right operand",
    "module lookup (import_module) is outside the model: states naming a module other than 'mellon.cov' are 'unmodelled' "
    "there (except for Add / Mul / Pow); their refusal is checked by the oracle on the implementation only",
    "tuples come back as lists (JSON has no tuple): the normal form maps a tuple to the list of its elements, so the theorem "
    "covers tuples up to tuple-vs-list identity; the regression witnesses of the three repaired defects (numpy.bool_, NumPy "
    "scalars inside lists / slices) are run on every check and must pass",
    "bitwise equality of k / k_grad after the round trip follows in Lean from structural equality (eval_after_roundtrip) for "
    "the model's evaluation; for the JAX evaluation it is checked by the oracle on sampled points",
    "a set holding two distinct NaN objects (possible in Python because nan != nan) comes back with one element; excluded "
    "by WF (elements must stay pairwise distinct after the round trip)",
]
ASSUMPTIONS = [
    "kernel parameters and active_dims objects are values of the modelled grammar; objects of other types (float32 arrays, "
    "user classes) are reported by the model as Unmodelled and are not generated",
    "dict keys are strings (json.dumps would coerce other keys to strings)",
]
TRUSTED_EXTRA = ["CPython json.dumps/json.loads satisfy JsonCodec (text round trip of every finite double, NaN/Infinity "
                 "tokens, ints, strings)", "jnp.array(nested list, dtype).reshape(shape) rebuilds a row-major array"]


# ------------------------------------------------------------------ helpers

def _outcome(fn):
    try:
        return ("ok", fn())
    except Exception as e:  # noqa
        return ("err", exc_class(e))


def _canon_outcome(o):
    if o[0] == "ok":
        try:
            return ("ok", py_canon(o[1]))
        except pv.Unsupported as e:
            return ("unsupported", str(e))
    return o


def contains(sp, pred, inside=None):
    """Does the spec contain a node satisfying pred (optionally: inside a container of the given tags)?"""
    t = sp[0]
    if inside is None and pred(sp):
        return True
    kids = []
    if t == "SL":
        kids = [(sp[1], t), (sp[2], t), (sp[3], t)]
    elif t == "D":
        kids = [(v, t) for _, v in sp[1]]
    elif t in ("ST", "L", "T"):
        kids = [(v, t) for v in sp[1]]
    for k, parent in kids:
        if inside is not None and parent in inside and contains(k, pred):
            return True
        if contains(k, pred, inside):
            return True
    return False


def finding_class(sp):
    """Signature class of the three defects repaired by the fix commits (used to name a regression)."""
    if contains(sp, lambda s: s[0] == "NB"):
        return "np-bool-scalar"
    if contains(sp, lambda s: s[0] in ("NI", "NF", "A"), inside=("L", "SL", "T")):
        return "numpy-scalar-in-list-or-slice"
    return None


def sort_set_records(c):
    """Canonical form of make_serializable output with the element list of every set record sorted (a set has no
    order; the implementation lists it in hash order, the model in the order of its input)."""
    if not isinstance(c, tuple) or not c:
        return c
    if c[0] == "D":
        items = dict(c[1])
        if items.get("type") == ("S", "set") and isinstance(items.get("data"), tuple) and items["data"][0] == "L":
            items["data"] = ("L", tuple(sorted((sort_set_records(x) for x in items["data"][1]), key=repr)))
            return ("D", tuple(sorted(items.items())))
        return ("D", tuple((k, sort_set_records(v)) for k, v in c[1]))
    if c[0] in ("L", "T", "ST"):
        return (c[0], tuple(sort_set_records(x) for x in c[1]))
    return c


def _ssr(o):
    return (o[0], sort_set_records(o[1])) if o[0] == "ok" else o


def unmodelled(mo):
    return mo[0] == "err" and str(mo[1]).startswith("Unmodelled")


def ask(ctx, line):
    return ctx["driver"].ask(line)


# ------------------------------------------------------------------ value cases

def case_value(ctx, res, p):
    m = mellon()
    from mellon.util import make_serializable, deserialize
    sp = p["spec"]
    expect = p.get("expect", "ok")
    res.count("value:" + sp[0])
    res.count("expect=" + expect)
    v = spec_to_py(sp)
    toks = spec_tokens(sp)
    key = ("value", repr(canon(sp)))
    res.case(key, sp[0] not in ("N", "B", "I", "F", "S"), {"op": "value", "spec": str(sp)[:160], "expect": expect})

    ser = _outcome(lambda: make_serializable(v))
    txt = _outcome(lambda: json.dumps(ser[1])) if ser[0] == "ok" else ser
    back = _outcome(lambda: deserialize(json.loads(txt[1]))) if txt[0] == "ok" else txt
    backd = _outcome(lambda: deserialize(make_serializable(v)))

    # ---- property oracle (independent of the model)
    if expect == "ok":
        if back[0] != "ok":
            cls = finding_class(sp)
            sig = "C19:" + cls if (cls and back[1] == "TypeError") else "C19:value-roundtrip-raises"
            res.oracle_fail(f"value of the grammar does not survive the JSON round trip: {back[1]}", p,
                            detail={"spec": sp, "outcome": back[1]}, signature=sig)
        else:
            if not pv.only_json_types(ser[1]):
                # tuples are the only non-JSON type json.dumps lets through
                res.oracle_fail("make_serializable output contains non-JSON types", p, signature="C19:json-types")
            if not pv.equiv(back[1], v, True):
                res.oracle_fail("value changed in the JSON round trip", p,
                                detail={"spec": sp, "back": str(_canon_outcome(back))[:400]},
                                signature="C19:value-roundtrip")
        if backd[0] != "ok" or not pv.equiv(backd[1], v, False):
            if not (finding_class(sp) and backd[0] == "ok"):
                res.oracle_fail("value changed in the dict round trip (deserialize(make_serializable(v)))", p,
                                detail={"spec": sp, "back": str(_canon_outcome(backd))[:400]},
                                signature="C19:value-roundtrip-dict")
    elif expect == "reserved":
        # the reserved token: the string "None" comes back as None (the property excludes it)
        if back != ("ok", None):
            res.oracle_fail("the reserved token 'None' does not read back as None", p, signature="C19:reserved")
    elif expect == "tuple":
        if back[0] != "ok" or not isinstance(back[1], list):
            cls = finding_class(sp)
            res.oracle_fail("a tuple does not come back as a list", p,
                            signature="C19:" + cls if (cls and back == ("err", "TypeError")) else "C19:tuple")

    # ---- correspondence with the model (exact)
    if ctx["driver"] is None:
        return
    mser = reply_canon(ask(ctx, "ms " + toks))
    if _ssr(_canon_outcome(ser)) != _ssr(mser) and _canon_outcome(ser)[0] != "unsupported":
        res.corr_fail("make_serializable: model and implementation differ", p,
                      detail={"impl": str(_canon_outcome(ser))[:400], "model": str(mser)[:400]})
    mback = reply_canon(ask(ctx, "rtjson " + toks))
    cb = _canon_outcome(back)
    if cb != mback and cb[0] != "unsupported" and not unmodelled(mback):
        res.corr_fail("JSON round trip: model and implementation differ", p,
                      detail={"impl": str(cb)[:400], "model": str(mback)[:400]})
    mbackd = reply_canon(ask(ctx, "rtdict " + toks))
    cbd = _canon_outcome(backd)
    if cbd != mbackd and cbd[0] != "unsupported" and not unmodelled(mbackd):
        res.corr_fail("dict round trip: model and implementation differ", p,
                      detail={"impl": str(cbd)[:400], "model": str(mbackd)[:400]})
    # WF (the hypothesis of value_roundtrip) must imply success and the normal form
    wf = ask(ctx, "wf " + toks).split()
    if wf[1] == "T":
        nrm = reply_canon(ask(ctx, "norm " + toks))
        if mback != nrm:
            res.corr_fail("model: WF value whose round trip is not its normal form (theorem hypothesis broken?)", p)
        res.count("wf=T")
    else:
        res.count("wf=F")
        if expect == "ok":
            res.corr_fail("model WF rejects a value of the property grammar", p, detail={"spec": sp})


def case_deser(ctx, res, p):
    """deserialize applied to a hand-written record (legacy arrays without dtype/shape, unknown types)."""
    from mellon.util import deserialize
    sp = p["spec"]
    res.count("deser")
    res.case(("deser", repr(canon(sp))), True, {"op": "deser", "spec": str(sp)[:160]})
    out = _canon_outcome(_outcome(lambda: deserialize(spec_to_py(sp))))
    if "expect" in p:
        exp = canon(p["expect"])
        if out != ("ok", exp):
            res.oracle_fail("record written by an older version does not load as the expected array", p,
                            detail={"got": str(out)[:300]}, signature="C19:legacy-array")
    if ctx["driver"] is not None:
        mo = reply_canon(ask(ctx, "deser " + spec_tokens(sp)))
        if out != mo and not unmodelled(mo):
            res.corr_fail("deserialize: model and implementation differ", p,
                          detail={"impl": str(out)[:300], "model": str(mo)[:300]})


# ------------------------------------------------------------------ kernel trees with Python-valued parameters
# tree := (KIND, p, ad) | ('RQ', alpha, ls, ad) | ('ADD'|'MUL', l, r, ad) | ('ADDC'|'MULC'|'POW', l, p, ad)
# p := float | spec ; ad as in common (+ 'adobj' nodes are handled by op 'adform')

def pspec(x):
    return x if isinstance(x, list) else ["F", fbits(float(x))]


def tree_to_mellon(t):
    m = mellon()
    from mellon.base_cov import Add, Mul, Pow
    k = t[0]
    cls = {"M32": m.cov.Matern32, "M52": m.cov.Matern52, "EQ": m.cov.ExpQuad, "EX": m.cov.Exponential,
           "LIN": m.cov.Linear}
    if k in cls:
        return cls[k](ls=spec_to_py(pspec(t[1])), active_dims=ad_to_py(t[2]))
    if k == "RQ":
        return m.cov.RatQuad(alpha=spec_to_py(pspec(t[1])), ls=spec_to_py(pspec(t[2])), active_dims=ad_to_py(t[3]))
    if k in ("ADD", "MUL"):
        c = {"ADD": Add, "MUL": Mul}[k](tree_to_mellon(t[1]), tree_to_mellon(t[2]))
        c.active_dims = ad_to_py(t[3])
        return c
    c = {"ADDC": Add, "MULC": Mul, "POW": Pow}[k](tree_to_mellon(t[1]), spec_to_py(pspec(t[2])))
    c.active_dims = ad_to_py(t[3])
    return c


def tree_tokens(t):
    k = t[0]
    if k in ("M32", "M52", "EQ", "EX", "LIN"):
        return f"{k} {spec_tokens(pspec(t[1]))} {ad_tokens(t[2])}"
    if k == "RQ":
        return f"RQ {spec_tokens(pspec(t[1]))} {spec_tokens(pspec(t[2]))} {ad_tokens(t[3])}"
    if k in ("ADD", "MUL"):
        return f"{k} {tree_tokens(t[1])} {tree_tokens(t[2])} {ad_tokens(t[3])}"
    return f"{k} {tree_tokens(t[1])} {spec_tokens(pspec(t[2]))} {ad_tokens(t[3])}"


def obj_to_ad(o):
    """active_dims object -> canonical form (independent of the model)."""
    import jax
    if o is None:
        return ("AN",)
    if isinstance(o, (bool, np.bool_)):
        raise pv.Unsupported("bool active_dims")
    if isinstance(o, (int, np.integer)):
        return ("AI", int(o))
    if isinstance(o, slice):
        f = lambda v: None if v is None else int(v)
        return ("AS", f(o.start), f(o.stop), f(o.step))
    if isinstance(o, (np.ndarray, jax.Array)):
        a = np.asarray(o)
        if a.ndim == 0:
            return ("AI", int(a))
        if a.dtype == bool:
            return ("AM", tuple(bool(b) for b in a))
        return ("AL", tuple(int(z) for z in a))
    if isinstance(o, (list, tuple)):
        if len(o) and all(isinstance(b, (bool, np.bool_)) for b in o):
            return ("AM", tuple(bool(b) for b in o))
        return ("AL", tuple(int(z) for z in o))
    raise pv.Unsupported("active_dims " + type(o).__name__)


def ad_canon(ad):
    k = ad[0]
    if k in ("AL", "AM"):
        return (k, tuple(ad[1]))
    return tuple(ad)


def mellon_to_tree(c):
    """Structure of a kernel object: (kind, params as canonical values..., ad canonical)."""
    from mellon.base_cov import Add, Mul, Pow, Covariance
    name = type(c).__name__
    leaf = {"Matern32": "M32", "Matern52": "M52", "ExpQuad": "EQ", "Exponential": "EX", "Linear": "LIN"}
    if name in leaf:
        return (leaf[name], py_canon(c.ls), obj_to_ad(c.active_dims))
    if name == "RatQuad":
        return ("RQ", py_canon(c.alpha), py_canon(c.ls), obj_to_ad(c.active_dims))
    op = {"Add": "ADD", "Mul": "MUL", "Pow": "POW"}[name]
    if isinstance(c.right, Covariance):
        return (op, mellon_to_tree(c.left), mellon_to_tree(c.right), obj_to_ad(c.active_dims))
    return (op + "C" if op != "POW" else "POW", mellon_to_tree(c.left), py_canon(c.right), obj_to_ad(c.active_dims))


def tree_canon(t, f=lambda sp: canon(sp)):
    k = t[0]
    if k in ("M32", "M52", "EQ", "EX", "LIN"):
        return (k, f(pspec(t[1])), ad_canon(t[2]))
    if k == "RQ":
        return (k, f(pspec(t[1])), f(pspec(t[2])), ad_canon(t[3]))
    if k in ("ADD", "MUL"):
        return (k, tree_canon(t[1], f), tree_canon(t[2], f), ad_canon(t[3]))
    return (k, tree_canon(t[1], f), f(pspec(t[2])), ad_canon(t[3]))


def _parse_ad(r):
    t = r.tok()
    oi = lambda s: None if s == "N" else int(s)
    if t == "AN":
        return ("AN",)
    if t == "AI":
        return ("AI", int(r.tok()))
    if t == "AL":
        n = int(r.tok())
        return ("AL", tuple(int(r.tok()) for _ in range(n)))
    if t == "AM":
        n = int(r.tok())
        return ("AM", tuple(r.tok() == "T" for _ in range(n)))
    if t == "AS":
        return ("AS", oi(r.tok()), oi(r.tok()), oi(r.tok()))
    raise ValueError(t)


def _parse_cov(r):
    k = r.tok()
    if k in ("M32", "M52", "EQ", "EX", "LIN"):
        return (k, canon(pv._parse(r)), _parse_ad(r))
    if k == "RQ":
        return (k, canon(pv._parse(r)), canon(pv._parse(r)), _parse_ad(r))
    if k in ("ADD", "MUL"):
        return (k, _parse_cov(r), _parse_cov(r), _parse_ad(r))
    return (k, _parse_cov(r), canon(pv._parse(r)), _parse_ad(r))


def cov_reply(reply):
    if reply.startswith("ok "):
        return ("ok", _parse_cov(pv._Rd(reply.split()[1:])))
    cls = reply.split(":")[0]
    return ("err", cls if cls in ("ValueError", "TypeError") else reply.strip())


def strip_dates(o):
    if isinstance(o, dict):
        return {k: ("D" if k == "serialization_date" else strip_dates(v)) for k, v in o.items()}
    if isinstance(o, list):
        return [strip_dates(v) for v in o]
    return o


def norm_param(sp, through_json):
    """Expected normal form of a parameter (independent of the model): NumPy scalar -> Python scalar."""
    t = sp[0]
    cn = pv.canon_nan if through_json else (lambda b: b)
    if t in ("F", "NF"):
        return ("F", cn(sp[1]))
    if t in ("I", "NI"):
        return ("I", sp[1])
    if t == "A":
        return ("A", sp[2], tuple(sp[3]), tuple(cn(e) if sp[2] == "f" else e for e in sp[4]))
    return canon(sp)


def case_cov(ctx, res, p):
    m = mellon()
    import sys
    from mellon.base_cov import Covariance
    tree = totuple_keep_specs(p["tree"])
    X, Y = np.asarray(p["X"], float), np.asarray(p["Y"], float)
    res.count("cov:depth=%d" % cov_depth(tree))
    res.count("cov:root=" + tree[0])
    res.count("cov:ad=" + tree[-1][0])
    res.count("cov:stream=" + p.get("stream", "?"))
    key = ("cov", repr(tree_canon(tree)), X.tobytes())
    res.case(key, True, {"op": "cov", "tree": str(tree)[:200], "X_shape": list(X.shape)})
    try:
        c = tree_to_mellon(tree)
        d = c.to_dict()
        js = c.to_json()
        c2 = Covariance.from_json(js)
        c3 = Covariance.from_dict(c.to_dict())
    except Exception as e:
        res.oracle_fail(f"kernel serialisation round trip raised {type(e).__name__}: {e}"[:300], p,
                        signature="C19:cov-roundtrip-raises")
        return
    # ---- property oracle: JSON-compatible, same structure, evaluates / differentiates identically
    if not pv.only_json_types(json.loads(js)) or not pv.only_json_types(d):
        res.oracle_fail("to_dict is not JSON-compatible data", p, signature="C19:cov-json-types")
    want_j = tree_canon(tree, lambda sp: norm_param(sp, True))
    want_d = tree_canon(tree, lambda sp: norm_param(sp, False))
    try:
        t2, t3 = mellon_to_tree(c2), mellon_to_tree(c3)
    except Exception as e:
        res.oracle_fail(f"reloaded kernel has malformed attributes: {type(e).__name__}: {e}"[:200], p,
                        signature="C19:cov-structure")
        return
    if t2 != want_j:
        res.oracle_fail("from_json(to_json()) has a different structure / parameters", p,
                        detail={"got": str(t2)[:400], "want": str(want_j)[:400]}, signature="C19:cov-structure")
    if t3 != want_d:
        res.oracle_fail("from_dict(to_dict()) has a different structure / parameters", p,
                        detail={"got": str(t3)[:400], "want": str(want_d)[:400]}, signature="C19:cov-structure-dict")
    with np.errstate(all="ignore"):
        K = np.asarray(c(X, Y))
        G = np.asarray(c.k_grad(X)(Y))
        for name, cc in (("from_json", c2), ("from_dict", c3)):
            try:
                K2 = np.asarray(cc(X, Y))
                G2 = np.asarray(cc.k_grad(X)(Y))
            except Exception as e:
                res.oracle_fail(f"kernel cannot be evaluated after {name}: {type(e).__name__}", p,
                                signature="C19:cov-eval")
                continue
            relax = name == "from_json" and "NaN" in js
            if K2.dtype != K.dtype or K2.shape != K.shape or not same_bits(K2, K, relax):
                res.oracle_fail(f"kernel value differs after {name}", p, signature="C19:cov-eval")
            if G2.dtype != G.dtype or G2.shape != G.shape or not same_bits(G2, G, relax):
                res.oracle_fail(f"kernel gradient differs after {name}", p, signature="C19:cov-grad")
            dg, dg2 = np.asarray(c.diag(X)), np.asarray(cc.diag(X))
            if not same_bits(dg, dg2, relax):
                res.oracle_fail(f"kernel diag differs after {name}", p, signature="C19:cov-eval")
    # re-serialising gives the same content (apart from the time stamps)
    if strip_dates(c2.to_dict()) != strip_dates(json.loads(js)) and not has_nan(js):
        res.oracle_fail("re-serialised kernel differs from the first serialisation", p, signature="C19:cov-reserialise")
    # ---- correspondence
    if ctx["driver"] is None:
        return
    toks = tree_tokens(tree)
    meta_toks = " ".join(pv.hexs(s) for s in (m.__version__, "D", sys.version))
    md = reply_canon(ask(ctx, f"covdict {meta_toks} {toks}"))
    if md != ("ok", py_canon(strip_dates(d))):
        res.corr_fail("to_dict: model and implementation differ", p,
                      detail={"impl": str(py_canon(strip_dates(d)))[:500], "model": str(md)[:500]})
    mj = cov_reply(ask(ctx, "covrtjson " + toks))
    if mj != ("ok", t2):
        res.corr_fail("from_json(to_json()): model and implementation differ", p,
                      detail={"impl": str(t2)[:400], "model": str(mj)[:400]})
    mdd = cov_reply(ask(ctx, "covrtdict " + toks))
    if mdd != ("ok", t3):
        res.corr_fail("from_dict(to_dict()): model and implementation differ", p,
                      detail={"impl": str(t3)[:400], "model": str(mdd)[:400]})


def same_bits(a, b, relax_nan=False):
    """Bitwise equality; with relax_nan (a NaN parameter went through JSON text, which keeps no payload)
    any NaN matches any NaN."""
    if a.tobytes() == b.tobytes():
        return True
    if not relax_nan or a.shape != b.shape:
        return False
    na, nb = np.isnan(a), np.isnan(b)
    return bool(np.array_equal(na, nb) and np.where(na, 0, a).tobytes() == np.where(nb, 0, b).tobytes())


def has_nan(js):
    return "NaN" in js


def totuple_keep_specs(o):
    """JSON lists -> tuples for tree nodes, but parameter specs (lists starting with a spec tag) stay lists."""
    if isinstance(o, (list, tuple)):
        if len(o) and isinstance(o[0], str) and o[0] in ("F", "I", "NF", "NI", "A", "N", "B", "S", "NB"):
            return list(o)
        if len(o) and isinstance(o[0], str) and o[0] in ("AL", "AM"):
            return (o[0], list(o[1]))
        return tuple(totuple_keep_specs(v) for v in o)
    return o


def case_adform(ctx, res, p):
    """A kernel whose active_dims is an arbitrary object of the grammar (array-likes included)."""
    m = mellon()
    from mellon.base_cov import Covariance
    sp = p["ad"]
    d = int(p["d"])
    res.count("adform:" + sp[0] + (":" + sp[1] if sp[0] == "A" else ""))
    res.case(("adform", repr(canon(sp)), p["kind"]), True, {"op": "adform", "ad": str(sp)[:120], "kind": p["kind"]})
    rng = np.random.default_rng(p.get("seed", 0))
    X, Y = rng.normal(size=(4, d)), rng.normal(size=(3, d))
    obj = spec_to_py(sp)
    cls = {"M32": m.cov.Matern32, "M52": m.cov.Matern52, "EQ": m.cov.ExpQuad, "EX": m.cov.Exponential,
           "LIN": m.cov.Linear, "RQ": m.cov.RatQuad}[p["kind"]]
    wrap = p.get("wrap")
    c = cls(ls=1.7, active_dims=None if wrap == "outer" else obj)
    if wrap:
        c = (c * 2.0 + m.cov.Matern32(0.9)) ** 1.5
        c.active_dims = obj if wrap == "outer" else None
    try:
        K, G = np.asarray(c(X, Y)), np.asarray(c.k_grad(X)(Y))
    except Exception as e:
        res.count("adform:not-evaluable:" + sp[0] + ":" + type(e).__name__)
        return
    try:
        c2 = Covariance.from_json(c.to_json())
        c3 = Covariance.from_dict(c.to_dict())
    except Exception as e:
        fc = finding_class(sp)
        sig = "C19:" + fc if (fc and exc_class(e) == "TypeError") else "C19:cov-roundtrip-raises"
        res.oracle_fail(f"kernel with {sp[0]} active_dims does not serialise: {type(e).__name__}", p,
                        detail={"ad": sp, "exc": str(e)[:200]}, signature=sig)
        return
    for name, cc in (("from_json", c2), ("from_dict", c3)):
        try:
            K2, G2 = np.asarray(cc(X, Y)), np.asarray(cc.k_grad(X)(Y))
        except Exception as e:
            res.oracle_fail(f"kernel with {sp[0]} active_dims cannot be evaluated after {name}: {type(e).__name__}", p,
                            signature="C19:adform-eval")
            continue
        if K2.tobytes() != K.tobytes() or G2.tobytes() != G.tobytes() or K2.shape != K.shape or G2.shape != G.shape:
            res.oracle_fail(f"kernel with {sp[0]} active_dims evaluates differently after {name}", p,
                            signature="C19:adform-eval")
    node = lambda k: k if not wrap else (k if wrap == "outer" else k.left.left.left)
    try:
        a2 = node(c2).active_dims
        py_canon(a2)
    except Exception as e:
        res.oracle_fail(f"reloaded kernel has no readable active_dims: {type(e).__name__}", p, signature="C19:adform-sel")
        return
    try:
        same_sel = obj_to_ad(a2) == obj_to_ad(obj) or (
            # tuple/list/array forms of the same index list are the same selection
            obj_to_ad(a2)[0] == obj_to_ad(obj)[0] and tuple(obj_to_ad(a2)[1:]) == tuple(obj_to_ad(obj)[1:]))
    except pv.Unsupported:
        same_sel = True
    except Exception:
        same_sel = False
    if not same_sel:
        res.oracle_fail("active_dims denotes a different selection after the round trip", p, signature="C19:adform-sel")
    if ctx["driver"] is not None:
        mo = reply_canon(ask(ctx, "rtjson " + spec_tokens(sp)))
        if mo != ("ok", py_canon(a2)):
            res.corr_fail("active_dims object after from_json: model and implementation differ", p,
                          detail={"impl": str(py_canon(a2))[:300], "model": str(mo)[:300]})
        before = ask(ctx, "pytoad " + spec_tokens(sp))
        after = ask(ctx, "pytoad " + spec_tokens(py_to_spec(a2)))
        if before != after or before == "none":
            res.corr_fail("model: active_dims reading changes over the round trip", p,
                          detail={"before": before, "after": after})


def case_notkernel(ctx, res, p):
    from mellon.base_cov import Covariance
    sp = p["spec"]
    res.count("notkernel:" + sp[0])
    res.case(("notkernel", repr(canon(sp))), True, {"op": "notkernel", "spec": str(sp)[:160]})
    obj = spec_to_py(sp)
    out = _outcome(lambda: Covariance.from_dict(obj))
    if p.get("expect") == "ValueError":
        if out != ("err", "ValueError"):
            res.oracle_fail("input that is not a serialised kernel is not refused with ValueError", p,
                            detail={"outcome": str(out)[:200]}, signature="C19:not-a-kernel")
        try:
            js = json.dumps(obj)
        except Exception:
            js = None
        if js is not None:
            out2 = _outcome(lambda: Covariance.from_json(js))
            if out2 != ("err", "ValueError"):
                res.oracle_fail("JSON text that is not a serialised kernel is not refused with ValueError", p,
                                detail={"outcome": str(out2)[:200]}, signature="C19:not-a-kernel-json")
    if ctx["driver"] is not None:
        mo = cov_reply(ask(ctx, "covfromdict " + spec_tokens(sp)))
        try:
            io = out if out[0] == "err" else ("ok", mellon_to_tree(out[1]))
        except Exception as e:
            io = ("malformed", type(e).__name__)
        if mo != io and not unmodelled(mo):
            res.corr_fail("from_dict on a hand-written state: model and implementation differ", p,
                          detail={"impl": str(io)[:300], "model": str(mo)[:300]})



# ------------------------------------------------------------------ malformed kernel states (finding A7, repaired)

def case_malformed(ctx, res, p):
    """A state that carries the marker "type": "mellon.Covariance" but is not what to_dict writes (a required field
    deleted / renamed / of the wrong type, an unknown, abstract or non-kernel class, a module that does not exist, a
    stored value that deserialize cannot read).  p["spec"] is the complete (already mutated) state, p["label"] says what
    was done to which node.  Demanded: ValueError - from from_dict and, as JSON text, from from_json."""
    from mellon.base_cov import Covariance
    sp = p["spec"]
    label = p.get("label", "?")
    res.count("malformed:" + label.split("@")[0].split("=")[0])
    res.case(("malformed", repr(canon(sp))), True, {"op": "malformed", "label": label, "spec": str(sp)[:120]})
    obj = spec_to_py(sp)
    out = _outcome(lambda: Covariance.from_dict(spec_to_py(sp)))
    js = json.dumps(obj)
    outj = _outcome(lambda: Covariance.from_json(js))
    for how, o in (("from_dict", out), ("from_json", outj)):
        if o != ("err", "ValueError"):
            got = "accepted" if o[0] == "ok" else str(o[1]).split(":")[-1]
            res.oracle_fail(f"malformed serialised kernel ({label}) is not refused with ValueError by {how}: {got}", p,
                            detail={"label": label, "outcome": str(o)[:200]},
                            signature="C19:malformed-kernel-dict:" + got)
            break
    if ctx["driver"] is not None:
        mo = cov_reply(ask(ctx, "covfromdict " + spec_tokens(sp)))
        try:
            io = out if out[0] == "err" else ("ok", mellon_to_tree(out[1]))
        except Exception as e:
            io = ("malformed", type(e).__name__)
        if mo != io and not unmodelled(mo):
            res.corr_fail("from_dict on a malformed state: model and implementation differ", p,
                          detail={"label": label, "impl": str(io)[:300], "model": str(mo)[:300]})


def case_attrmissing(ctx, res, p):
    """A leaf state whose `data` lacks an attribute of its class.  The format does not say which attributes a class
    needs, so from_dict cannot refuse it: the kernel is built and fails with AttributeError when evaluated.  Reported
    under its own signature (known finding), not as a malformed-field case."""
    from mellon.base_cov import Covariance
    sp = p["spec"]
    res.count("attrmissing")
    res.case(("attrmissing", repr(canon(sp))), True, {"op": "attrmissing", "spec": str(sp)[:120]})
    out = _outcome(lambda: Covariance.from_dict(spec_to_py(sp)))
    if out == ("err", "ValueError"):
        return
    if out[0] != "ok":
        res.oracle_fail(f"kernel state without the attribute {p.get('attr')} raises {out[1]}", p,
                        signature="C19:malformed-kernel-dict:" + str(out[1]).split(":")[-1])
        return
    X = np.zeros((2, 2))
    ev = _outcome(lambda: np.asarray(out[1](X, X)))
    res.oracle_fail(f"a kernel state whose data lacks the attribute {p.get('attr')!r} is accepted by from_dict "
                    f"(evaluation then gives {ev[1] if ev[0] == 'err' else 'a value'})", p,
                    detail={"evaluation": str(ev)[:200]}, signature="C19:kernel-attribute-missing-accepted")


def case_nansign(ctx, res, p):
    """Deterministic witness of finding B1: the sign bit of a NaN does not survive JSON text (one token `NaN`); the
    dict path (no text) must keep it.  Everywhere else in this check NaNs are compared up to sign and payload."""
    from mellon.util import make_serializable, deserialize
    b = int(p["bits"])
    form = p["form"]
    res.count("nansign:" + form)
    res.case(("nansign", b, form), True, {"op": "nansign", "bits": hex(b), "form": form})
    v = spec_to_py({"float": ["F", b], "npfloat": ["NF", b, "float64"], "array": ["A", "np", "f", [2], [b, fbits(1.0)]],
                    "jax": ["A", "jnp", "f", [2], [b, fbits(1.0)]]}[form])
    first = lambda o: int(np.asarray(o, dtype=np.float64).reshape(-1)[:1].view(np.uint64)[0])
    if first(v) != b:
        res.count("nansign:not-representable")     # the platform did not keep the bits on construction
        return
    back = _outcome(lambda: deserialize(json.loads(json.dumps(make_serializable(v)))))
    backd = _outcome(lambda: deserialize(make_serializable(v)))
    if backd[0] != "ok" or first(backd[1]) != b:
        res.oracle_fail("NaN bits change on the dict path (no JSON text involved)", p, signature="C19:nan-bits-dict-path")
    if back[0] != "ok" or not pv.is_nan_bits(first(back[1])):
        res.oracle_fail("a NaN does not come back as a NaN from JSON text", p, signature="C19:value-roundtrip")
    elif first(back[1]) != b:
        res.oracle_fail(f"NaN bits {b:#018x} come back as {first(back[1]):#018x} from JSON text: sign bit / payload lost",
                        p, detail={"before": hex(b), "after": hex(first(back[1]))},
                        signature="C19:nan-sign-bit" if (b ^ first(back[1])) >> 63 else "C19:nan-payload")


def run_case(ctx, res, p):
    op = p["op"]
    return {"value": case_value, "deser": case_deser, "cov": case_cov, "adform": case_adform,
            "notkernel": case_notkernel, "malformed": case_malformed, "attrmissing": case_attrmissing,
            "nansign": case_nansign}[op](ctx, res, p)


# ------------------------------------------------------------------ generators

SPECIAL_BITS = [0x0000000000000000, 0x8000000000000000, 0x7FF0000000000000, 0xFFF0000000000000,
                0x7FF8000000000000, 0xFFF8000000000000, 0x7FF0000000000001, 0x7FF8000000000123,
                0x0000000000000001, 0x800000000000000F, 0x000FFFFFFFFFFFFF, 0x0010000000000000,
                0x7FEFFFFFFFFFFFFF, 0xFFEFFFFFFFFFFFFF, 0x3FF0000000000000, 0x3FB999999999999A,
                0x3FF0000000000001, 0x4340000000000000, 0x4340000000000001, 0x7E37E43C8800759C]
STRINGS = ["", "abc", "none", "None ", " None", "NONE", "null", "NaN", "type", "jax.numpy", "mellon.Covariance",
           "é∂ü 😀", "a\"b\\c\n\t", "\u0000x", "1", "True", "Infinity"]
KEYS = ["a", "b", "type", "data", "None", "dtype", "shape", "x y", "é", ""]
NP_INT = ["int8", "int16", "int32", "int64", "uint8", "uint16", "uint32", "uint64"]
NP_FLT = ["float16", "float32", "float64"]


def gen_float_bits(rng):
    r = rng.random()
    if r < 0.4:
        return int(SPECIAL_BITS[rng.integers(len(SPECIAL_BITS))])
    if r < 0.7:
        return fbits(float(rng.normal() * 10.0 ** rng.integers(-20, 20)))
    return int(rng.integers(0, 2 ** 64, dtype=np.uint64))


def gen_int(rng):
    r = rng.random()
    if r < 0.5:
        return int(rng.integers(-10, 10))
    if r < 0.8:
        return int(rng.integers(-2 ** 62, 2 ** 62))
    return int(rng.choice([2 ** 63 - 1, -2 ** 63, 2 ** 64, -2 ** 70, 10 ** 30]))


def gen_npint(rng):
    dt = NP_INT[rng.integers(len(NP_INT))]
    info = np.iinfo(dt)
    v = [int(info.min), int(info.max), 0, 1][int(rng.integers(4))] if rng.random() < 0.5 else int(rng.integers(max(int(info.min), -100), min(int(info.max), 100)))
    return ["NI", v, dt]


def gen_npfloat(rng):
    dt = NP_FLT[rng.integers(len(NP_FLT))]
    with np.errstate(all="ignore"):
        x = getattr(np, dt)(unfbits(gen_float_bits(rng)))
    return ["NF", fbits(float(x)), dt]


def gen_atom(rng, for_set=False, plain=False):
    """Scalars.  plain: only what a Python list may hold (JSON-native)."""
    kinds = ["N", "B", "I", "F", "S"] if plain else ["N", "B", "I", "F", "S", "NI", "NF"]
    k = kinds[rng.integers(len(kinds))]
    if k == "N":
        return ["N"]
    if k == "B":
        return ["B", bool(rng.integers(2))]
    if k == "I":
        return ["I", gen_int(rng)]
    if k == "F":
        return ["F", gen_float_bits(rng)]
    if k == "S":
        s = STRINGS[rng.integers(len(STRINGS))]
        return ["S", s]
    if k == "NI":
        return gen_npint(rng)
    return gen_npfloat(rng)


def gen_array(rng, lib=None, rank=None):
    lib = lib or ["np", "jnp"][rng.integers(2)]
    dt = ["f", "i", "b"][rng.integers(3)]
    rank = int(rng.integers(0, 4)) if rank is None else rank
    shape = [int(rng.choice([0, 1, 2, 3], p=[0.2, 0.2, 0.3, 0.3])) for _ in range(rank)]
    n = int(np.prod(shape)) if shape else 1
    if dt == "f":
        el = [gen_float_bits(rng) for _ in range(n)]
    elif dt == "i":
        el = [int(rng.integers(-2 ** 63, 2 ** 63 - 1)) if rng.random() < 0.3 else int(rng.integers(-5, 5)) for _ in range(n)]
    else:
        el = [bool(rng.integers(2)) for _ in range(n)]
    return ["A", lib, dt, shape, el]


def gen_slice(rng):
    def f():
        r = rng.random()
        if r < 0.4:
            return ["N"]
        if r < 0.8:
            return ["I", int(rng.integers(-5, 6))]
        return ["NI", int(rng.integers(-5, 6)), ["int64", "int32"][int(rng.integers(2))]]
    return ["SL", f(), f(), f()]


def gen_plain_list(rng, depth):
    """Lists of anything of the grammar (they are rebuilt element-wise since the fix)."""
    n = int(rng.integers(0, 4))
    out = []
    for _ in range(n):
        r = rng.random()
        if depth > 0 and r < 0.2:
            out.append(gen_plain_list(rng, depth - 1))
        elif depth > 0 and r < 0.35:
            out.append(gen_value(rng, depth - 1))
        elif r < 0.5:
            out.append(gen_array(rng, rank=int(rng.integers(0, 2))))
        else:
            a = gen_atom(rng)
            while a == ["S", "None"]:
                a = gen_atom(rng)
            out.append(a)
    return ["L", out]


def gen_set(rng):
    # build the real set so that Python's own de-duplication (1 == True == 1.0, 0.0 == -0.0) is respected
    n = int(rng.integers(0, 5))
    s, seen_nan = {}, False
    for _ in range(n):
        a = gen_atom(rng)
        if a[0] == "S" and a[1] == "None":
            continue
        if a[0] in ("F", "NF") and pv.is_nan_bits(a[1]):
            if seen_nan:
                continue
            seen_nan = True
        o = spec_to_py(a)
        try:
            if o in s:
                continue
        except Exception:
            continue
        s[o] = a
    # keys equal under Python == collapse (dict keeps the first); after the round trip NumPy scalars turn into
    # Python scalars of equal value, which cannot create new collisions
    return ["ST", list(s.values())]


def gen_value(rng, depth):
    r = rng.random()
    if depth == 0 or r < 0.3:
        a = gen_atom(rng)
        while a == ["S", "None"]:
            a = gen_atom(rng)
        return a
    if r < 0.5:
        return gen_array(rng)
    if r < 0.58:
        return gen_slice(rng)
    if r < 0.68:
        return gen_set(rng)
    if r < 0.78:
        return gen_plain_list(rng, 2)
    n = int(rng.integers(0, 4))
    keys = [KEYS[i] for i in rng.permutation(len(KEYS))[:n]]
    return ["D", [[k, gen_value(rng, depth - 1)] for k in keys]]


def gen_param(rng, kind=None):
    kind = kind or ["float", "float", "int", "np", "jnp", "special"][rng.integers(6)]
    x = loguniform(rng, 0.1, 30.0)
    if kind == "float":
        return ["F", fbits(x)]
    if kind == "int":
        return ["I", int(rng.integers(1, 6))]
    if kind == "np":
        # float64 only: a float16/float32 NumPy scalar makes JAX evaluate parts of the kernel in reduced precision, and
        # the (allowed) conversion to a Python float on reload changes that (see REPORT_D.md, observation O1)
        return ["NF", fbits(x), "float64"]
    if kind == "jnp":
        return ["A", "jnp", "f", [], [fbits(x)]]
    # no signalling NaN as a kernel parameter: JSON text turns it into the quiet NaN and IEEE pow(1, qNaN) = 1 while
    # pow(1, sNaN) = NaN, so the evaluation itself (not just a payload) would change (PARTIAL: NaN payloads)
    b = int(SPECIAL_BITS[rng.integers(len(SPECIAL_BITS))])
    while pv.is_nan_bits(b) and not (b & 0x0008000000000000):
        b = int(SPECIAL_BITS[rng.integers(len(SPECIAL_BITS))])
    return ["F", b]


def reparam(rng, t, kind=None):
    """Replace the float parameters of a common.gen_cov tree by Python-valued ones."""
    k = t[0]
    g = lambda x: ["F", fbits(x)] if (kind == "float" or (kind is None and rng.random() < 0.6)) else gen_param(rng, kind)
    if k in ("M32", "M52", "EQ", "EX", "LIN"):
        return (k, g(t[1]), t[2])
    if k == "RQ":
        return (k, g(t[1]), g(t[2]), t[3])
    if k in ("ADD", "MUL"):
        return (k, reparam(rng, t[1], kind), reparam(rng, t[2], kind), t[3])
    return (k, reparam(rng, t[1], kind), g(t[2]), t[3])


def gen_cov_case(rng, depth, stream, tree=None, d=None):
    d = d or int(rng.choice([2, 3, 5]))
    if tree is None:
        tree = reparam(rng, gen_cov(rng, d, depth))
    X, _ = gen_points(rng, 4, d, kind="plain")
    Y, _ = gen_points(rng, 3, d, kind="plain")
    return {"op": "cov", "tree": tree, "X": X, "Y": Y, "stream": stream}


def ad_objects(rng, d):
    """Every way of writing an active_dims the property lists, incl. array-likes."""
    idx = [int(z) for z in rng.permutation(d)[: max(1, d - 1)]]
    neg = [z - d if rng.random() < 0.5 else z for z in idx]
    mask = [bool(b) for b in (rng.random(d) < 0.6)]
    if not any(mask):
        mask[0] = True
    out = [["N"], ["I", idx[0]], ["I", -1 - int(rng.integers(d))], ["NI", idx[0], "int64"], ["NI", idx[0], "int32"],
           ["L", [["I", z] for z in neg]], ["T", [["I", z] for z in idx]],
           ["A", "np", "i", [len(idx)], neg], ["A", "jnp", "i", [len(idx)], idx],
           ["A", "np", "b", [d], mask], ["A", "jnp", "b", [d], mask], ["L", [["B", b] for b in mask]],
           ["SL", ["N"], ["I", -1], ["N"]], ["SL", ["I", 1], ["N"], ["N"]], ["SL", ["N"], ["N"], ["I", 2]],
           ["SL", ["I", -1], ["N"], ["I", -1]], ["A", "jnp", "i", [], [idx[0]]]]
    return out


def meta(cls, module):
    return ["D", [["classname", ["S", cls]], ["module_name", ["S", module]], ["module_version", ["S", "1.4.3"]],
                  ["serialization_date", ["S", "D"]], ["python_version", ["S", "3"]]]]


def leaf_state(cls="Matern52", typ="mellon.Covariance"):
    return ["D", [["type", ["S", typ]], ["data", ["D", [["active_dims", ["S", "None"]], ["ls", ["F", fbits(1.5)]]]]],
                  ["metadata", meta(cls, "mellon.cov")]]]


def pair_state(left, right, cls="Add", typ="mellon.Covariance"):
    return ["D", [["type", ["S", typ]], ["left_data", left], ["right_data", right], ["active_dims", ["S", "None"]],
                  ["metadata", meta(cls, "mellon")]]]


def not_kernels():
    """(spec, expect) — things that are not serialised kernels must be refused with ValueError."""
    V = "ValueError"
    out = [(["N"], V), (["I", 3], V), (["F", fbits(1.5)], V), (["S", "mellon.Covariance"], V), (["L", []], V),
           (["L", [leaf_state()]], V), (["T", [["I", 1]]], V), (["D", []], V),
           (["D", [["type", ["S", "dict"]], ["data", ["D", []]]]], V),
           (["D", [["type", ["S", "mellon.covariance"]]]], V), (["D", [["type", ["N"]]]], V),
           (["D", [["type", ["S", "jax.numpy"]], ["data", ["L", []]]]], V),
           (["D", [["data", ["D", []]], ["metadata", meta("Matern52", "mellon.cov")]]], V),
           (leaf_state(typ="mellon.Predictor"), V),
           (pair_state(["I", 1], leaf_state()), V),                        # left operand is not a kernel
           (pair_state(leaf_state(typ="x"), ["F", fbits(2.0)]), V),
           (pair_state(pair_state(["S", "k"], ["I", 1], "Mul"), leaf_state(), "Add"), V),
           (pair_state(leaf_state(), leaf_state(), typ="nope"), V),
           # well-formed states (must load; correspondence only)
           (leaf_state(), None), (pair_state(leaf_state("Matern32"), ["F", fbits(2.0)], "Mul"), None),
           (pair_state(leaf_state(), leaf_state("ExpQuad"), "Add"), None),
           (pair_state(leaf_state(), ["I", 2], "Pow"), None),
           # carry the marker but are malformed (finding A7, repaired): refused with ValueError as well
           (leaf_state("NoSuchKernel"), V),
           (["D", [["type", ["S", "mellon.Covariance"]]]], V),
           (leaf_state("Covariance"), V),
           ]
    return out


def legacy_records():
    """Array records as written before dtype/shape were stored."""
    rec = lambda data, extra=(): ["D", [["type", ["S", "jax.numpy"]], ["data", data]] + list(extra)]
    L = lambda xs: ["L", xs]
    F = lambda x: ["F", fbits(x)]
    out = [
        (rec(L([F(1.0), F(2.5)])), ["A", "jnp", "f", [2], [fbits(1.0), fbits(2.5)]]),
        (rec(L([L([["I", 1], ["I", 2]]), L([["I", 3], ["I", 4]])])), ["A", "jnp", "i", [2, 2], [1, 2, 3, 4]]),
        (rec(L([["B", True], ["B", False]])), ["A", "jnp", "b", [2], [True, False]]),
        (rec(F(3.5)), ["A", "jnp", "f", [], [fbits(3.5)]]),
        (rec(L([])), ["A", "jnp", "f", [0], []]),
        (rec(L([["I", 1], F(2.5)])), ["A", "jnp", "f", [2], [fbits(1.0), fbits(2.5)]]),
        (rec(L([["B", True], ["I", 2]])), ["A", "jnp", "i", [2], [1, 2]]),
        (rec(L([F(float("nan")), F(float("-inf"))])), ["A", "jnp", "f", [2], [0x7FF8000000000000, 0xFFF0000000000000]]),
        (rec(L([["I", 1], ["I", 2]]), [["dtype", ["S", "float64"]]]), ["A", "jnp", "f", [2], [fbits(1.0), fbits(2.0)]]),
        (rec(L([F(1.0), F(2.0)]), [["shape", L([["I", 2], ["I", 1]])]]), ["A", "jnp", "f", [2, 1], [fbits(1.0), fbits(2.0)]]),
    ]
    return out



# ------------------------------------------------------------------ malformed-state generator

MARK = "mellon.Covariance"
BAD_RECORDS = [("no-type", {}), ("no-type-data", {"data": 1.0}), ("array-no-data", {"type": "jax.numpy"}),
               ("array-bad-shape", {"type": "jax.numpy", "data": [1.0, 2.0], "dtype": "float64", "shape": [3]}),
               ("slice-4", {"type": "slice", "data": [1, 2, 3, 4]}), ("set-unhashable", {"type": "set", "data": [[1]]}),
               ("dict-data-int", {"type": "dict", "data": 3}), ("slice-no-data", {"type": "slice"})]
BAD_CLASSES = ["NoSuchKernel", "matern52", "", "Matern52 ", "Covariance", "json", "logger", "ABC", "deserialize",
               "import_module", "_state_field", "__name__", "Predictor", "MELLON_NAME"]
BAD_MODULES = ["no.such.module", "mellon.nosuch", "", "mellon.cov ", ".cov", "os", "json", "mellon.util", "mellon.base_cov",
               "mellon.cov.Matern52"]


def base_state(tree):
    """to_dict of a kernel tree as JSON data, with the time stamps replaced (stable case keys)."""
    return strip_dates(json.loads(tree_to_mellon(tree).to_json()))


def kernel_nodes(d, path=()):
    yield path, d
    for key in ("left_data", "right_data"):
        v = d.get(key)
        if isinstance(v, dict) and v.get("type") == MARK:
            yield from kernel_nodes(v, path + (key,))


def node_mutations(node):
    """(label, function mutating the node in place) for one kernel-state node; every result must be refused."""
    pair = "left_data" in node
    out = []

    def delete(key, sub=None):
        def f(n):
            del (n[sub] if sub else n)[key]
        return ("delete:" + key, f)

    def rename(key, new, sub=None):
        def f(n):
            d = n[sub] if sub else n
            d[new] = d.pop(key)
        return (f"rename:{key}->{new}", f)

    def setv(key, val, tag, sub=None, kind="retype"):
        def f(n):
            (n[sub] if sub else n)[key] = json.loads(json.dumps(val))
        return (f"{kind}:{key}={tag}", f)

    out += [delete("type"), delete("metadata"), delete("classname", "metadata"), delete("module_name", "metadata"),
            rename("type", "Type"), rename("metadata", "meta_data"), rename("classname", "class_name", "metadata"),
            rename("module_name", "module", "metadata")]
    out += [setv("type", v, t) for t, v in (("None", None), ("int", 1), ("lower", "mellon.covariance"), ("list", [MARK]),
                                            ("predictor", "mellon.Predictor"))]
    out += [setv("metadata", v, t) for t, v in (("None", None), ("list", []), ("str", "x"), ("int", 3))]
    out += [setv("classname", v, t, "metadata") for t, v in (("None", None), ("int", 3), ("list", ["Matern52"]), ("dict", {}))]
    out += [setv("module_name", v, t, "metadata") for t, v in (("None", None), ("int", 3), ("list", []))]
    out += [setv("classname", c, repr(c), "metadata", kind="class") for c in BAD_CLASSES]
    if pair:
        def swap(n):
            n["metadata"]["classname"], n["metadata"]["module_name"] = "Matern52", "mellon.cov"
        out += [("class:pair-as-leaf", swap), delete("left_data"), delete("right_data"),
                rename("left_data", "left"), rename("right_data", "right"), rename("left_data", "data")]
        out += [setv("left_data", v, t) for t, v in (("None", None), ("int", 3), ("list", []), ("str", "k"), ("dict", {}),
                                                     ("marker-only", {"type": MARK}), ("float", 2.0))]
        out += [setv("right_data", v, t) for t, v in (("marker-only", {"type": MARK}),)]
        out += [setv("right_data", v, t, kind="value") for t, v in BAD_RECORDS]
        out += [setv("active_dims", v, t, kind="value") for t, v in BAD_RECORDS]
    else:
        out += [setv("classname", "Add", "'Add'", "metadata", kind="class"), delete("data"), rename("data", "Data"),
                rename("data", "left_data")]
        out += [setv("data", v, t) for t, v in (("None", None), ("list", []), ("str", "x"), ("int", 3))]
        out += [setv("module_name", mo, repr(mo), "metadata", kind="module") for mo in BAD_MODULES]
        out += [setv("ls", v, t, "data", kind="value") for t, v in BAD_RECORDS]
        out += [setv("active_dims", v, t, "data", kind="value") for t, v in BAD_RECORDS[:3]]
    return out


def malformed_cases(tree, rng=None, per_node=None):
    """Payloads: every (node, mutation) of the state of `tree`, or `per_node` sampled mutations per node."""
    base = base_state(tree)
    for path, node in list(kernel_nodes(base)):
        muts = node_mutations(node)
        if per_node is not None and rng is not None and per_node < len(muts):
            muts = [muts[i] for i in sorted(rng.permutation(len(muts))[:per_node])]
        for label, f in muts:
            d = json.loads(json.dumps(base))
            n = d
            for key in path:
                n = n[key]
            f(n)
            yield {"op": "malformed", "spec": py_to_spec(d), "label": label + "@" + ("/".join(path) or "root"),
                   "expect": "ValueError"}


A7_TREE = ("ADD", ("MULC", ("M52", 1.2, ("AN",)), 2.0, ("AN",)), ("EQ", 0.5, ("AN",)), ("AN",))


def run(ctx, res):
    rng = ctx["rng"]
    quick = ctx["tier"] == "quick"
    budget = ctx["budget"] or (40 if quick else 420)
    t0 = time.time()
    mellon()
    V = lambda sp, expect="ok": run_case(ctx, res, {"op": "value", "spec": sp, "expect": expect})
    # --- fixed witnesses: the reserved token, tuples, and regression cases of the three repaired defects (F1: numpy.bool_,
    # F2: NumPy scalars inside lists / slices) — they must PASS; on a tree without the fixes they are reported as VIOLATION
    V(["S", "None"], "reserved")
    V(["D", [["a", ["S", "None"]]]], "free")
    V(["T", [["I", 1], ["I", 2]]], "tuple")
    V(["T", []], "tuple")
    V(["NB", True])
    V(["D", [["flag", ["NB", False]]]])
    V(["L", [["NI", 0, "int64"], ["NI", 1, "int64"]]])
    V(["SL", ["NI", 0, "int64"], ["NI", 2, "int64"], ["N"]])
    V(["L", [["NB", True], ["NF", fbits(0.5), "float32"], ["A", "np", "i", [2], [1, 2]], ["L", [["NI", 3, "uint8"]]]]])
    V(["D", [["k", ["L", [["D", [["a", ["NI", 1, "int64"]]]], ["SL", ["N"], ["NI", 2, "int64"], ["N"]]]]]]])
    V(["L", [["S", "None"]]], "free")          # the reserved token now also applies inside lists
    V(["T", [["NI", 1, "int64"], ["L", [["N"]]]]], "tuple")
    run_case(ctx, res, {"op": "adform", "ad": ["L", [["NI", 0, "int64"], ["NI", 1, "int64"]]], "d": 3, "kind": "M52"})
    for name in ("bytes", "complex", "frozenset"):
        V(["O", name], "free")
    V(["L", [["T", [["I", 1]]], ["D", [["a", ["I", 1]]]]]], "free")
    V(["ST", [["T", [["I", 1], ["I", 2]]]]], "free")
    # --- every special double in every position
    for b in SPECIAL_BITS:
        V(["F", b]); V(["NF", b, "float64"]); V(["A", "jnp", "f", [], [b]])
        V(["A", "np", "f", [2], [b, SPECIAL_BITS[0]]]); V(["D", [["v", ["F", b]]]]); V(["ST", [["F", b]]])
        V(["L", [["F", b], ["N"]]])
    # --- every shape with a zero extent up to rank 3, every dtype
    shapes = [s for r in range(0, 4) for s in itertools.product([0, 1, 2], repeat=r)]
    if quick:
        shapes = [shapes[i] for i in rng.permutation(len(shapes))[:14]]
    for s in shapes:
        for dt in "fib":
            n = int(np.prod(s)) if len(s) else 1
            el = {"f": [fbits(float(i) + 0.5) for i in range(n)], "i": list(range(n)),
                  "b": [bool(i % 2) for i in range(n)]}[dt]
            V(["A", ["np", "jnp"][int(rng.integers(2))], dt, list(s), el])
    for dt in NP_INT:
        V(["NI", int(np.iinfo(dt).max), dt]); V(["NI", int(np.iinfo(dt).min), dt])
    for s in STRINGS:
        V(["S", s])
    # --- legacy array records, refusals
    for sp, exp in legacy_records():
        run_case(ctx, res, {"op": "deser", "spec": sp, "expect": exp})
    for sp in (["D", [["type", ["S", "unknown"]], ["data", ["I", 1]]]], ["D", [["data", ["I", 1]]]],
               ["D", [["type", ["S", "slice"]], ["data", ["L", [["S", "None"], ["I", 2]]]]]],
               ["D", [["type", ["S", "set"]], ["data", ["L", [["I", 1], ["I", 1], ["S", "None"]]]]]],
               ["L", [["S", "None"]]], ["S", "None"], ["N"]):
        run_case(ctx, res, {"op": "deser", "spec": sp})
    for sp, exp in not_kernels():
        run_case(ctx, res, {"op": "notkernel", "spec": sp, "expect": exp})
    # --- malformed kernel states (regression of finding A7; every case fails on a tree without the fix with
    # C19:malformed-kernel-dict:KeyError / AttributeError / TypeError): the reproducer's expression in full, then every
    # class and operator (quick: sampled mutations per node)
    for pl in malformed_cases(A7_TREE):
        run_case(ctx, res, pl)
    others = [(k, 0.7 + 0.1 * i, ("AL", [0, 1])) for i, k in enumerate(["M32", "M52", "EQ", "EX", "LIN"])]
    others.append(("RQ", 1.5, 0.8, ("AI", 1)))
    leaf = lambda i: others[i % 6]
    others += [("ADD", leaf(0), leaf(5), ("AN",)), ("MUL", leaf(1), leaf(2), ("AS", None, -1, None)),
               ("ADDC", leaf(3), 0.25, ("AN",)), ("MULC", leaf(4), 3.0, ("AI", 0)), ("POW", leaf(2), 2.0, ("AN",)),
               ("MUL", ("ADD", leaf(0), ("POW", leaf(1), 1.5, ("AN",)), ("AN",)), ("MULC", leaf(5), 2.0, ("AN",)), ("AN",))]
    for t in others:
        for pl in malformed_cases(t, rng, per_node=6 if quick else None):
            run_case(ctx, res, pl)
    # --- witness: a state whose data lacks an attribute is accepted (known finding, own signature)
    d = base_state(("EQ", 0.5, ("AN",)))
    del d["data"]["ls"]
    run_case(ctx, res, {"op": "attrmissing", "spec": py_to_spec(d), "attr": "ls"})
    # --- witness of finding B1: the sign bit of NaN does not survive JSON text
    for form in ("float", "npfloat", "array", "jax"):
        run_case(ctx, res, {"op": "nansign", "bits": 0xFFF8000000000000, "form": form})
    run_case(ctx, res, {"op": "nansign", "bits": 0x7FF8000000000000, "form": "float"})     # survives: must pass
    with np.errstate(all="ignore"):
        hw = fbits(float(np.float64(0.0) / np.float64(0.0)))
    res.count("hardware-nan-sign=%d" % (hw >> 63))
    # --- kernels: every leaf x every canonical active_dims form; every way of writing active_dims
    forms = ["AN", "AI", "AIneg", "AL", "AM", "AS"]
    for kind in LEAVES:
        for f in (forms if not quick else [forms[i] for i in rng.permutation(6)[:3]]):
            d = int(rng.choice([2, 3, 5]))
            ad = gen_ad(rng, d, forms=[f])
            t = ("RQ", gen_param(rng), gen_param(rng, "float"), ad) if kind == "RQ" else (kind, gen_param(rng), ad)
            run_case(ctx, res, gen_cov_case(rng, 0, "leaf", tree=t, d=d))
    kinds6 = ["M32", "M52", "EQ", "EX", "LIN", "RQ"]
    for i, sp in enumerate(ad_objects(rng, 3)):
        run_case(ctx, res, {"op": "adform", "ad": sp, "d": 3, "kind": kinds6[i % 6], "seed": int(rng.integers(1 << 30))})
        if not quick or i % 3 == 0:
            run_case(ctx, res, {"op": "adform", "ad": sp, "d": 3, "kind": kinds6[(i + 1) % 6], "wrap": ["outer", "inner"][i % 2],
                                "seed": int(rng.integers(1 << 30))})
    # --- depth 1: every (operator, left kind, right kind); depth 2 / 3 sampled
    ops = ["ADD", "ADDC", "MUL", "MULC", "POW"]
    combos = list(itertools.product(ops, LEAVES, LEAVES))
    if quick:
        combos = [combos[i] for i in rng.permutation(len(combos))[:30]]
    for op, kl, kr in combos:
        d = int(rng.choice([2, 3, 5]))
        ad = gen_ad(rng, d)
        w = len(ad_indices(ad, d))
        mk = lambda k: (("RQ", gen_param(rng), gen_param(rng, "float"), gen_ad(rng, w)) if k == "RQ"
                        else (k, gen_param(rng), gen_ad(rng, w)))
        if op in ("ADD", "MUL"):
            t = (op, mk(kl), mk(kr), ad)
        else:
            t = (op, mk(kl), gen_param(rng), ad)
        run_case(ctx, res, gen_cov_case(rng, 1, "depth1", tree=t, d=d))
    # --- sampled part (time-boxed)
    i = 0
    while time.time() - t0 < budget:
        r = i % 4
        if r == 0:
            depth = int(rng.choice([1, 2, 3], p=[0.2, 0.5, 0.3]))
            run_case(ctx, res, gen_cov_case(rng, depth, "sampled"))
        else:
            V(gen_value(rng, int(rng.integers(0, 4))))
        i += 1
    res.count("sampled", i)


CLAIM = {
    "text": "Lean theorems over an exact syntax of Python values (IEEE bit patterns, NumPy/JAX scalars, arrays with dtype/"
            "shape/flat data, slices, dicts, sets, lists) and JSON: for every well-formed value, deserialize(loads(dumps("
            "make_serializable v))) is exactly the normal form of v (NumPy scalars -> Python scalars, NaN -> quiet NaN) for "
            "every JSON codec meeting the text contract, and deserialize(make_serializable v) on the dict path; for every "
            "kernel expression tree (induction over Cov), every active-dims form and every parameter value, from_dict(to_dict c) "
            "= c and from_json(to_json c) = c up to that normal form, hence equal k / k_grad; anything that is not a kernel "
            "state is refused with ValueError, and so is (malformed_kernel_refused, never_internal_error: for EVERY value of the "
            "model, at any nesting depth) a state with the marker in which a required field is missing or ill-typed, the class "
            "is not a concrete kernel class or a stored value is unreadable - from_dict ends in a kernel, in ValueError or in "
            "the model's 'unmodelled' mark, never in KeyError / AttributeError / TypeError; the string 'None' is the only "
            "string that does not survive. Tied to /repo by "
            "exact comparison (dtype, shape, bits, structure) of the real functions with the model driver on generated values "
            "and trees, plus an independent bitwise oracle on values and on kernel evaluations.",
    "note": "json text layer is a contract (JsonCodec); the sign and payload of a NaN are NOT kept by JSON text (known finding "
            "C19:nan-sign-bit, witness on every run; NaNs are otherwise compared up to sign / payload); tuples come back as "
            "lists (normal form); a kernel state lacking a class attribute is accepted (known finding "
            "C19:kernel-attribute-missing-accepted). Correspondence is sampled differential testing.",
    "technique": "Lean 4 proof (mutual structural induction over value and kernel syntax) + exact differential correspondence "
                 "+ bitwise round-trip oracle",
}
