"""C12 — derivative methods return true derivatives of what the predictor returns."""
import time
import numpy as np
from ..common import (mellon, bits, unbits, cov_to_mellon, cov_tokens, cov_str, loguniform, totuple, fbit, exc_class,
                      ad_indices)
from .. import covoracle as co
from .. import gradoracle as go

RULE = ("cases = (predictor class (3 conditional families x Predictor/ExpPredictor/PredictorTime = 9 classes), kernel "
        "expression, conditioning points, values/latent vector, query rows, query times, jit flag); predictors are built "
        "through mellon.conditional on small data (6 cells, 6 landmarks, 1..6 state features, 1 or 3 query rows, one or "
        "two output columns); query rows keep a margin >= 0.05*scale from every conditioning point in EVERY column (time "
        "included) so that central differences resolve the kernel; distinct = distinct (class, kernel, data) hash; "
        "non-trivial = gradient has a non-zero entry")
PARTIAL = ["predictors with a 2-D output of k >= 1 columns (fixed defects C12:hld-raises:multi-output, "
           "C12:shape:hld:single-column): gradient (n,k,d), hessian (n,k,d,d) and the (n,k) sign/log-determinant pairs - "
           "(n,1) for a single column - are checked by finite differences / numpy slogdet; the model "
           "has the shape logic (Lean hld_columns_target, hld_shape_columns, hld_one_column) but no closed form per column "
           "beyond running the driver once per column",
           "JAX autodiff is an external call: the Lean model takes it as the operator `Diff.jac` with the contract 'returns "
           "the partial derivatives'; that jacrev/jacfwd honour it is checked here by finite differences only",
           "second derivatives have no closed form in the model: the Hessian is modelled as jac-of-jac of the call operator; "
           "its values are checked against central differences of p.gradient, symmetry and slogdet here",
           "Hessian symmetry is proved for C^2 functions (Mathlib, Frechet form); that the GP mean is C^2 away from the "
           "conditioning points is not proved in Lean (kernels are compositions of smooth maps there) - tests only",
           "jit on/off agreement is a float64/XLA statement: tests only"]
ASSUMPTIONS = ["jax.jacrev / jax.jacfwd / jax.vmap / jax.jit return derivatives of the traced function (contract `DiffContract`)",
               "numpy.linalg.slogdet as reference for jax.numpy.linalg.slogdet"]
TRUSTED_EXTRA = ["JAX autodiff (jacrev, jacfwd), vmap and jit", "LAPACK LU behind slogdet"]

KINDS = {"P": "plain", "E": "exp", "T": "time"}
FAMILIES = ["full", "lm", "lmchol"]
CLASSNAME = {("full", "P"): "FullConditional", ("full", "E"): "ExpFullConditional", ("full", "T"): "FullConditionalTime",
             ("lm", "P"): "LandmarksConditional", ("lm", "E"): "ExpLandmarksConditional",
             ("lm", "T"): "LandmarksConditionalTime",
             ("lmchol", "P"): "LandmarksConditionalCholesky", ("lmchol", "E"): "ExpLandmarksConditionalCholesky",
             ("lmchol", "T"): "LandmarksConditionalCholeskyTime"}


# ------------------------------------------------------------------ building predictors

def build(p):
    m = mellon()
    from mellon import conditional as C
    cls = getattr(C, CLASSNAME[(p["family"], p["kind"])])
    cov = cov_to_mellon(totuple(p["tree"]))
    x = np.asarray(p["x"], float)
    mu = float(p["mu"])
    sigma = float(p["sigma"])
    if p["family"] == "full":
        return cls(x, np.asarray(p["y"], float), mu, cov, sigma=sigma)
    if p["family"] == "lm":
        return cls(x, np.asarray(p["xu"], float), np.asarray(p["y"], float), mu, cov, sigma=sigma)
    return cls(np.asarray(p["xu"], float), np.asarray(p["y"], float), mu, cov, x.shape[0], sigma=sigma)


def call(pred, kind, X, T):
    return np.asarray(pred(X, T) if kind == "T" else pred(X), float)


def grad(pred, kind, X, T, jit):
    return np.asarray(pred.gradient(X, T, jit=jit) if kind == "T" else pred.gradient(X, jit=jit), float)


def hess(pred, kind, X, T, jit):
    return np.asarray(pred.hessian(X, T, jit=jit) if kind == "T" else pred.hessian(X, jit=jit), float)


def hld(pred, kind, X, T, jit):
    s, l = pred.hessian_log_determinant(X, T, jit=jit) if kind == "T" else pred.hessian_log_determinant(X, jit=jit)
    return np.asarray(s, float), np.asarray(l, float)


def richardson(f, Z, h, cols=None):
    """Central differences of f (rows -> (q,) or (q, k...)) in the given columns of Z (default: all) with steps
    h, h/2.  Returns (R, est) with a trailing axis for the column."""
    q, d = Z.shape
    D1, D2 = [], []
    for c in (range(d) if cols is None else cols):
        for hh, D in ((h, D1), (h / 2, D2)):
            Zp, Zm = Z.copy(), Z.copy()
            Zp[:, c] += hh
            Zm[:, c] -= hh
            den = (Zp[:, c] - Zm[:, c])
            v = (f(Zp) - f(Zm))
            D.append(v / den.reshape((q,) + (1,) * (v.ndim - 1)))
    D1, D2 = np.stack(D1, -1), np.stack(D2, -1)
    return (4 * D2 - D1) / 3, np.abs(D2 - D1)


# ------------------------------------------------------------------ one case

def case_rows(ctx, res, p):
    """Many rows: every derivative method is row-wise, so row i of the result on a large batch is the result on a
    small batch holding that row (and, for the small batch, the main case checks it against finite differences)."""
    fam, kind = p["family"], p["kind"]
    cname = CLASSNAME[(fam, kind)]
    Xq = np.asarray(p["q"], float)
    T = np.asarray(p["t"], float) if kind == "T" else None
    Q = Xq.shape[0]
    res.count("manyrows:class=" + cname)
    res.count("manyrows:rows=%d" % Q)
    res.case(("rows", cname, Xq.tobytes()), True, {"op": "rows", "class": cname, "rows": Q})
    pred = build(p)
    jit = bool(p["jit"][0])
    picks = sorted(set([0, 1, 2] + [i for i in range(509, 516) if i < Q] + [i for i in range(1021, 1027) if i < Q]
                       + [Q - 3, Q - 2, Q - 1]))
    chunks = [picks[i:i + 3] for i in range(0, len(picks) - len(picks) % 3, 3)] + [[Q - 3, Q - 2, Q - 1]]
    methods = [("gradient", lambda A, B: grad(pred, kind, A, B, jit)), ("hessian", lambda A, B: hess(pred, kind, A, B, jit)),
               ("hessian_log_determinant", lambda A, B: hld(pred, kind, A, B, jit)[1]),
               ("hessian_log_determinant sign", lambda A, B: hld(pred, kind, A, B, jit)[0]),
               ("call", lambda A, B: call(pred, kind, A, B))]
    if kind == "T":
        methods.append(("time_derivative", lambda A, B: np.asarray(pred.time_derivative(A, B, jit=jit), float)))
    for name, f in methods:
        try:
            big = f(Xq, T)
        except Exception as e:
            res.oracle_fail(f"{cname}.{name} raised {type(e).__name__} on {Q} rows", p, signature=f"C12:rows-raises:{name}")
            continue
        if big.shape[0] != Q:
            res.oracle_fail(f"{cname}.{name} on {Q} rows does not return {Q} rows", p, detail={"shape": list(big.shape)},
                            signature=f"C12:rows-shape:{name}")
            continue
        worst = 0.0
        for ch in chunks:
            small = f(Xq[ch], None if T is None else T[ch])
            ref = big[ch]
            sc = np.maximum(np.abs(small), np.abs(ref)) + 1e-9 * (np.max(np.abs(big[np.isfinite(big)]), initial=0) + 1e-300)
            dv = np.abs(small - ref) / sc
            dv = np.where(np.isfinite(small) & np.isfinite(ref), dv, np.where(np.isnan(small) & np.isnan(ref), 0.0, np.inf))
            if np.max(dv, initial=0) > worst:
                worst, wrow = float(np.max(dv)), ch[int(np.unravel_index(np.argmax(dv), dv.shape)[0])]
        res.dev("manyrows_vs_small_batch_rel", worst)
        if worst > 1e-7:
            res.oracle_fail(f"{cname}.{name} on {Q} rows: row {wrow} is not what the method returns for that row alone "
                            "(derivatives of other rows)", p, detail={"row": int(wrow), "rel": worst},
                            signature=f"C12:rows:{name}")


def run_case(ctx, res, p):
    if p["op"] == "rows":
        return case_rows(ctx, res, p)
    if p["op"] != "deriv":
        raise ValueError(p["op"])
    fam, kind = p["family"], p["kind"]
    tree = totuple(p["tree"])
    Xq = np.asarray(p["q"], float)
    T = np.asarray(p["t"], float) if kind == "T" else None
    q, ds = Xq.shape                      # ds = number of state features
    jit_modes = [bool(j) for j in p["jit"]]
    cname = CLASSNAME[(fam, kind)]
    res.count("class=" + cname)
    res.count("features=%d" % ds)
    res.count("rows=%d" % q)
    res.count("root=" + tree[0])
    ycols = 1 if np.ndim(p["y"]) == 1 else np.shape(p["y"])[1]
    res.count("ycols=%d%s" % (ycols, "(2-D)" if ycols == 1 and np.ndim(p["y"]) == 2 else ""))
    canon = ("deriv", cname, cov_str(tree), np.asarray(p["x"], float).tobytes(), np.asarray(p["y"], float).tobytes(),
             Xq.tobytes(), None if T is None else T.tobytes())
    sample = {"op": "deriv", "class": cname, "tree": cov_str(tree), "q_shape": list(Xq.shape), "jit": jit_modes,
              "ycols": ycols}
    try:
        pred = build(p)
    except Exception as e:
        res.case(canon, False, sample)
        res.notes.append(f"could not build {cname}: {type(e).__name__}: {e}")
        res.corr_fail(f"harness could not build {cname}: {type(e).__name__}", p)
        return
    pts = np.asarray(pred.x if fam == "full" else pred.landmarks, float)
    W = np.asarray(pred.weights, float)
    W2 = W.reshape(W.shape[0], -1)                       # (n_pts, k)
    k = W2.shape[1]
    mu = float(pred.mu)
    Z = np.c_[Xq, T] if kind == "T" else Xq              # merged coordinates the kernel sees
    d = Z.shape[1]
    val = call(pred, kind, Xq, T)
    val2 = val.reshape(q, -1)
    # scales: mass of the value and of the gradient of `_mean` (sum of absolute contributions)
    Kiv = co.interval(tree, Z, pts)                      # (q, n)
    Kabs = np.maximum(np.abs(Kiv[0]), np.abs(Kiv[1]))
    vmass = np.abs(mu) + Kabs @ np.abs(W2)               # (q, k)
    giv = go.grad_interval(tree, pts, Z)                 # arrays (n, q, d): d/d(second argument)
    gmass = np.einsum("nqd,nk->qkd", giv["mass"], np.abs(W2))     # (q, k, d)
    gam = 1 - float(np.min(giv["gmin"]))
    scale_call = np.abs(val2) if kind == "E" else np.ones_like(val2)
    cmass = gmass * scale_call[..., None] + 1e-300        # mass of the gradient of the call value

    # ---------------- gradient: shape, finite differences of p(x) / p(x, t), jit on/off, model
    G = {}
    for j in jit_modes:
        try:
            G[j] = grad(pred, kind, Xq, T, j)
        except Exception as e:
            res.case(canon, False, sample)
            res.oracle_fail(f"{cname}.gradient raised {type(e).__name__}: {e}", p, signature=f"C12:gradient-raises:{kind}")
            return
    G0 = G[jit_modes[0]]
    res.case(canon, bool(np.any(G0 != 0)), sample)
    want = Xq.shape if k == 1 and W.ndim == 1 else (q, k, ds)
    if G0.shape != tuple(want):
        res.oracle_fail(f"{cname}.gradient does not have the shape of x", p,
                        detail={"shape": list(G0.shape), "expected": list(want)}, signature=f"C12:shape:gradient:{kind}")
        return
    G0k = G0.reshape(q, k, ds)
    if kind == "T":
        # the same call with the time as last column of x and no time argument (seeded change C12-f: the slice that drops
        # the time entry cut the value-column axis for 2-D values)
        try:
            Gabs = np.asarray(pred.gradient(np.c_[Xq, np.broadcast_to(np.asarray(T, float), (q,))], jit=jit_modes[0]), float)
        except Exception as e:
            res.oracle_fail(f"{cname}.gradient(x with time as last column) raised {type(e).__name__}: {e}", p,
                            signature="C12:gradient-time-column")
            Gabs = None
        if Gabs is not None and (Gabs.shape != G0.shape or Gabs.tobytes() != G0.tobytes()):
            res.oracle_fail(f"{cname}.gradient(x with time as last column) differs from gradient(x, time)", p,
                            detail={"shape": list(Gabs.shape), "expected": list(G0.shape)}, signature="C12:gradient-time-column")
        res.count("gradient:time-column-form")
    h = float(p["fd_h"])
    noise = 16 * go.EPS * (vmass * scale_call)           # rounding of one call value
    fcall = (lambda A: call(pred, kind, A[:, :-1], A[:, -1]).reshape(q, -1)) if kind == "T" else \
            (lambda A: call(pred, kind, A, None).reshape(q, -1))
    R, est = richardson(fcall, Z, h)                     # (q, k, d)
    tolfd = est + 4 * noise[..., None] / h + 2e-6 * cmass
    devg = np.abs(G0k - R[..., :ds]) / tolfd[..., :ds]
    res.dev("gradient_vs_richardson_over_tol", np.max(devg, initial=0))
    res.dev("gradient_fd_rel_resolution", np.max(tolfd / cmass))
    if np.max(devg, initial=0) > 1.0:
        i, kk, c = np.unravel_index(np.argmax(devg), devg.shape)
        # tell apart the classic defect: derivative of the log-scale value instead of the returned value
        detail = {"row": int(i), "col": int(c), "gradient": float(G0k[i, kk, c]), "finite_diff": float(R[i, kk, c]),
                  "tol": float(tolfd[i, kk, c])}
        res.oracle_fail(f"{cname}.gradient is not the derivative of the value the predictor returns "
                        "(central differences of p(x)" + (", time fixed)" if kind == "T" else ")"), p, detail=detail,
                        signature=f"C12:gradient:{kind}")
    if len(jit_modes) > 1:
        dj = np.abs(G[jit_modes[0]] - G[jit_modes[1]]).reshape(q, k, ds) / (1e-11 * cmass[..., :ds])
        res.dev("gradient_jit_on_off_over_tol", np.max(dj, initial=0))
        if np.max(dj, initial=0) > 1.0:
            res.oracle_fail(f"{cname}.gradient differs between jit=True and jit=False", p,
                            detail={"max_over_tol": float(np.max(dj))}, signature=f"C12:jit:gradient:{kind}")

    # ---------------- time derivative
    TD = None
    if kind == "T":
        try:
            TD = np.asarray(pred.time_derivative(Xq, T, jit=jit_modes[0]), float)
        except Exception as e:
            res.oracle_fail(f"{cname}.time_derivative raised {type(e).__name__}: {e}", p,
                            signature="C12:time_derivative-raises")
        if TD is not None:
            wantt = (q,) if k == 1 and W.ndim == 1 else (q, k)
            if TD.shape != wantt:
                res.oracle_fail(f"{cname}.time_derivative has the wrong shape", p,
                                detail={"shape": list(TD.shape), "expected": list(wantt)},
                                signature="C12:shape:time_derivative")
                TD = None
        if TD is not None:
            devt = np.abs(TD.reshape(q, k) - R[..., -1]) / tolfd[..., -1]
            res.dev("time_derivative_vs_richardson_over_tol", np.max(devt, initial=0))
            if np.max(devt, initial=0) > 1.0:
                i, kk = np.unravel_index(np.argmax(devt), devt.shape)
                res.oracle_fail(f"{cname}.time_derivative is not the derivative of p(x, t) in t", p,
                                detail={"row": int(i), "time_derivative": float(TD.reshape(q, k)[i, kk]),
                                        "finite_diff": float(R[i, kk, -1]), "tol": float(tolfd[i, kk, -1])},
                                signature="C12:time_derivative")
            if len(jit_modes) > 1:
                TD2 = np.asarray(pred.time_derivative(Xq, T, jit=jit_modes[1]), float)
                dj = np.abs(TD - TD2).reshape(q, k) / (1e-11 * cmass[..., -1])
                res.dev("time_derivative_jit_on_off_over_tol", np.max(dj, initial=0))
                if np.max(dj, initial=0) > 1.0:
                    res.oracle_fail(f"{cname}.time_derivative differs between jit=True and jit=False", p,
                                    signature="C12:jit:time_derivative")

    # ---------------- correspondence with the Lean model (closed form  sum_j w_j grad k  (+ exp chain))
    if ctx["driver"] is not None:
        model_check(ctx, res, p, tree, kind, mu, pts, W2, Z, Xq, T, val2, G0k, TD, vmass, cmass, scale_call, gam, cname)

    # ---------------- hessian: shape, symmetry, finite differences of p.gradient, slogdet pair, jit
    if p.get("hessian", True):
        hessian_check(res, p, pred, kind, cname, Xq, T, q, k, ds, W, jit_modes, cmass, h)


def model_check(ctx, res, p, tree, kind, mu, pts, W2, Z, Xq, T, val2, G0k, TD, vmass, cmass, scale_call, gam, cname):
    drv = ctx["driver"]
    q, d = Z.shape
    n = pts.shape[0]
    ds = Xq.shape[1]
    for kk in range(W2.shape[1]):
        w = W2[:, kk]
        head = f"{cov_tokens(tree)} {fbit(mu)} {n} {d} {bits(pts)} {bits(w)} {q}"
        out = drv.ask(f"pmean {kind} {head} {bits(Z)}")
        if not out.startswith("ok"):
            res.corr_fail(f"model refuses pmean: {out}", p)
            return
        vm = unbits(out.split()[1:], (q,))
        dv = np.abs(vm - val2[:, kk]) / (1e-11 * vmass[:, kk] * scale_call[:, kk] + 1e-300)
        res.dev("model_call_value_over_tol", np.max(dv, initial=0))
        if np.max(dv, initial=0) > 1.0:
            res.corr_fail(f"model call value differs from {cname}(x)", p, detail={"max_over_tol": float(np.max(dv))})
        tolm = (gam + 3e-9) * cmass[:, kk, :] + 1e-300
        if kind == "T":
            out = drv.ask(f"ptime {head} {bits(Xq)} {bits(T)}")
            if not out.startswith("ok"):
                res.corr_fail(f"model refuses ptime: {out}", p)
                return
            a = unbits(out.split()[1:])
            tdm, gm = a[:q], a[q:].reshape(q, ds)
            if TD is not None:
                dt = np.abs(tdm - TD.reshape(q, -1)[:, kk]) / tolm[:, -1]
                res.dev("model_time_derivative_over_tol", np.max(dt, initial=0))
                if np.max(dt, initial=0) > 1.0:
                    res.corr_fail(f"model time derivative differs from {cname}.time_derivative", p,
                                  detail={"max_over_tol": float(np.max(dt))})
        else:
            out = drv.ask(f"pgrad {kind} {head} {bits(Z)}")
            if not out.startswith("ok"):
                res.corr_fail(f"model refuses pgrad: {out}", p)
                return
            gm = unbits(out.split()[1:], (q, d))
        dg = np.abs(gm - G0k[:, kk, :]) / tolm[:, :ds]
        res.dev("model_gradient_over_tol", np.max(dg, initial=0))
        if np.max(dg, initial=0) > 1.0:
            res.corr_fail(f"model closed-form gradient differs from {cname}.gradient", p,
                          detail={"max_over_tol": float(np.max(dg))})


def hessian_check(res, p, pred, kind, cname, Xq, T, q, k, ds, W, jit_modes, cmass, h):
    H = {}
    for j in jit_modes:
        try:
            H[j] = hess(pred, kind, Xq, T, j)
        except Exception as e:
            res.oracle_fail(f"{cname}.hessian raised {type(e).__name__}: {e}", p, signature=f"C12:hessian-raises:{kind}")
            return
    H0 = H[jit_modes[0]]
    scalar_out = (k == 1 and W.ndim == 1)
    want = (q, ds, ds) if scalar_out else (q, k, ds, ds)
    if H0.shape != want:
        res.oracle_fail(f"{cname}.hessian does not have shape x.shape + (d,)", p,
                        detail={"shape": list(H0.shape), "expected": list(want)}, signature=f"C12:shape:hessian:{kind}")
        return
    Hk = H0.reshape(q, k, ds, ds)
    # finite differences of the gradient method (state columns; time fixed)
    fg = (lambda A: grad(pred, kind, A, T, False).reshape(q, k, ds)) if kind == "T" else \
         (lambda A: grad(pred, kind, A, None, False).reshape(q, k, ds))
    cols = [int(c) for c in p.get("hcols", range(ds))]
    R, est = richardson(fg, Xq, h, cols)                 # (q, k, ds, len(cols)): [..., a, b] = d grad_a / d x_cols[b]
    gscale = cmass[..., :ds]
    hmass = np.abs(Hk).max(axis=(-1, -2), keepdims=True) + np.abs(R).max(axis=(-1, -2), keepdims=True)
    tol = est + 64 * go.EPS * gscale[..., None] / h + 2e-6 * hmass + 1e-300
    dev = np.abs(Hk[..., cols] - R) / tol
    res.dev("hessian_vs_richardson_of_gradient_over_tol", np.max(dev, initial=0))
    res.dev("hessian_fd_rel_resolution", float(np.max(tol / (hmass + 1e-300))))
    if np.max(dev, initial=0) > 1.0:
        i, kk, a, b = np.unravel_index(np.argmax(dev), dev.shape)
        res.oracle_fail(f"{cname}.hessian is not the derivative of {cname}.gradient (central differences)", p,
                        detail={"row": int(i), "a": int(a), "b": int(cols[b]), "hessian": float(Hk[i, kk, a, cols[b]]),
                                "finite_diff": float(R[i, kk, a, b]), "tol": float(tol[i, kk, a, b])},
                        signature=f"C12:hessian:{kind}")
    # symmetry
    asym = np.abs(Hk - np.swapaxes(Hk, -1, -2)) / (1e-10 * hmass + 1e-300)
    res.dev("hessian_asymmetry_over_tol", np.max(asym, initial=0))
    if np.max(asym, initial=0) > 1.0:
        res.oracle_fail(f"{cname}.hessian is not symmetric", p, detail={"max_over_tol": float(np.max(asym))},
                        signature=f"C12:hessian-symmetry:{kind}")
    if len(jit_modes) > 1:
        dj = np.abs(H[jit_modes[0]] - H[jit_modes[1]]).reshape(q, k, ds, ds) / (1e-10 * hmass + 1e-300)
        res.dev("hessian_jit_on_off_over_tol", np.max(dj, initial=0))
        if np.max(dj, initial=0) > 1.0:
            res.oracle_fail(f"{cname}.hessian differs between jit=True and jit=False", p,
                            signature=f"C12:jit:hessian:{kind}")
    # sign / log-determinant pair
    if not scalar_out:
        # several output columns: one (sign, logdet) pair per row and column is what "the pair of the returned
        # Hessian" means; the implementation reshapes to (d, d) and raises
        try:
            s, l = hld(pred, kind, Xq, T, jit_modes[0])
        except Exception as e:
            res.oracle_fail(f"{cname}.hessian_log_determinant raised {type(e).__name__} for a predictor with "
                            f"{k} output columns: {str(e)[:120]}", p, signature="C12:hld-raises:multi-output")
            return
        s0, l0 = np.linalg.slogdet(Hk)
        # one pair per row and output column, the column axis kept like in value (q, k), gradient (q, k, d) and hessian
        # (q, k, d, d) - also for a single column (finding H3-C3, repaired: it was returned unbatched, (q,))
        wanth = (q, k)
        res.count("hld_output_columns=%d" % k)
        if s.shape != wanth or l.shape != wanth:
            res.oracle_fail(f"{cname}.hessian_log_determinant of a predictor with {k} output column(s) has the wrong "
                            "shape", p, detail={"shape": list(s.shape), "expected": list(wanth)},
                            signature="C12:shape:hld:single-column" if k == 1 else "C12:shape:hld:multi-output")
            return
        s0, l0 = s0.reshape(wanth), l0.reshape(wanth)
        cond = np.linalg.cond(Hk).reshape(wanth)
        okc = cond < 1e8
        dl = np.where(okc, np.abs(l - l0) / (1e-12 * cond * ds + 1e-12), 0.0)
        res.dev("hld_logdet_over_tol", np.max(dl, initial=0))
        if np.any(okc & (s != s0)) or np.max(dl, initial=0) > 1.0:
            res.oracle_fail(f"{cname}.hessian_log_determinant of a multi-output predictor is not slogdet of its hessian",
                            p, detail={"shape": list(s.shape)}, signature="C12:hld:multi-output")
        return
    for j in jit_modes:
        try:
            s, l = hld(pred, kind, Xq, T, j)
        except Exception as e:
            res.oracle_fail(f"{cname}.hessian_log_determinant raised {type(e).__name__}: {e}", p,
                            signature=f"C12:hld-raises:{kind}")
            return
        if s.shape != (q,) or l.shape != (q,):
            res.oracle_fail(f"{cname}.hessian_log_determinant does not return two (n,) arrays", p,
                            detail={"shapes": [list(s.shape), list(l.shape)]}, signature=f"C12:shape:hld:{kind}")
            return
        s0, l0 = np.linalg.slogdet(H[j])
        cond = np.array([np.linalg.cond(H[j][i]) for i in range(q)])
        okc = cond < 1e8
        res.count("hld_rows_checked", int(okc.sum()))
        tol = 1e-12 * cond * ds + 1e-12
        dl = np.where(okc, np.abs(l - l0) / tol, 0.0)
        res.dev("hld_logdet_over_tol", np.max(dl, initial=0))
        if np.any(okc & (s != s0)) or np.max(dl, initial=0) > 1.0:
            i = int(np.argmax(np.where(okc, (s != s0) * 1e9 + dl, 0)))
            res.oracle_fail(f"{cname}.hessian_log_determinant is not slogdet of {cname}.hessian", p,
                            detail={"row": i, "sign": float(s[i]), "logdet": float(l[i]), "ref_sign": float(s0[i]),
                                    "ref_logdet": float(l0[i])}, signature=f"C12:hld:{kind}")
            return


# ------------------------------------------------------------------ generators

BASE = ["M32", "M52", "EQ", "EX", "RQ"]


def gen_tree(rng, d, scale, kind, form):
    """Kernel expression over `d` merged columns (for kind T the last one is time)."""
    ls = lambda: loguniform(rng, 0.7, 4.0) * scale
    leaf = lambda b, ad: ("RQ", loguniform(rng, 0.5, 5.0), ls(), ad) if b == "RQ" else (b, ls(), ad)
    b = BASE[int(rng.integers(len(BASE)))]
    if kind == "T":
        b = ["M32", "M52", "EQ", "EX"][int(rng.integers(4))]
        t = ("MUL", (b, ls(), ("AS", None, -1, None)), (b, loguniform(rng, 0.7, 3.0), ("AI", -1)), ("AN",))
        if form == "composite":
            t = ("ADD", t, ("MULC", ("EQ", ls(), ("AN",)), loguniform(rng, 0.1, 1.0), ("AN",)), ("AN",))
        return t
    if form == "base" or d == 1:
        return leaf(b, ("AN",))
    b2 = BASE[int(rng.integers(len(BASE)))]
    choice = int(rng.integers(4))
    if choice == 0:
        return ("ADD", leaf(b, ("AN",)), ("LIN", loguniform(rng, 5, 50) * scale, ("AI", -1)), ("AN",))
    if choice == 1:
        return ("MUL", leaf(b, ("AS", None, -1, None)), leaf(b2, ("AL", [-1, 0])), ("AN",))
    if choice == 2:
        return ("POW", ("ADDC", leaf(b, ("AN",)), loguniform(rng, 0.05, 0.5), ("AN",)), loguniform(rng, 0.5, 2.5), ("AN",))
    return ("MULC", ("ADD", leaf(b, ("AM", [True] * (d - 1) + [False])), leaf(b2, ("AI", d - 1)), ("AN",)),
            loguniform(rng, 0.3, 3.0), ("AN",))


def margin_points(rng, pts, q, scale, tcol=None, tvals=None):
    """q query rows whose every column keeps a gap >= 0.05*scale (0.15 in the time column) from every conditioning point."""
    d = pts.shape[1]
    Z = rng.normal(size=(q, d)) * scale
    if tcol is not None:
        Z[:, tcol] = rng.uniform(min(tvals) - 0.4, max(tvals) + 0.4, size=q)
    for _ in range(500):
        gap = np.abs(Z[:, None, :] - pts[None, :, :])
        lim = np.full(d, 0.05 * scale)
        if tcol is not None:
            lim[tcol] = 0.15
        bad = np.argwhere(gap < lim[None, None, :])
        if len(bad) == 0:
            return Z
        for i, _, c in bad:
            Z[i, c] = (rng.uniform(min(tvals) - 0.4, max(tvals) + 0.4) if c == tcol else rng.normal() * scale)
    raise RuntimeError("no margin points found")


def gen_case(rng, fam, kind, ds, q, form="base", ycols=1, jit=(False,), hessian=True):
    # ycols: 1 = 1-D values, k > 1 = (n, k) values, -1 = (n, 1) values (one column, 2-D)
    scale = loguniform(rng, 0.5, 2.0)
    n = 6          # fixed sizes: XLA compiles every primitive once per shape
    xs = rng.normal(size=(n, ds)) * scale
    if kind == "T":
        tvals = [0.0, 1.0, 2.0]
        x = np.c_[xs, rng.choice(tvals, size=n)]
    else:
        tvals = None
        x = xs
    d = x.shape[1]
    tree = gen_tree(rng, d, scale, kind, form)
    mu = float(rng.normal() * 0.3)
    p = {"op": "deriv", "family": fam, "kind": kind, "tree": tree, "x": x, "mu": mu, "sigma": loguniform(rng, 0.05, 0.5),
         "jit": [bool(j) for j in jit], "hessian": bool(hessian)}
    if fam == "full":
        pts = x
        p["y"] = mu + (rng.normal(size=(n, abs(ycols))) if ycols != 1 else rng.normal(size=n))
    else:
        m = 6          # as many landmarks as cells: all families evaluate kernels of the same shapes
        xu = x[rng.permutation(n)[:m]] + 0.1 * scale * rng.normal(size=(m, d)) * (np.arange(d) < ds)
        p["xu"] = xu
        pts = xu
        if fam == "lm":
            p["y"] = mu + (rng.normal(size=(n, abs(ycols))) if ycols != 1 else rng.normal(size=n))
        else:
            p["y"] = rng.normal(size=(m, abs(ycols))) if ycols != 1 else rng.normal(size=m)
    Z = margin_points(rng, pts, q, scale, tcol=(d - 1 if kind == "T" else None), tvals=tvals)
    if kind == "T":
        p["q"], p["t"] = np.ascontiguousarray(Z[:, :-1]), np.ascontiguousarray(Z[:, -1])
    else:
        p["q"] = Z
    p["fd_h"] = 2e-3 * scale * 0.7
    p["hcols"] = [int(rng.integers(ds))] if ds > 2 else list(range(ds))
    return p


def run(ctx, res):
    rng = ctx["rng"]
    quick = ctx["tier"] == "quick"
    budget = ctx["budget"] or (50 if quick else 560)
    t0 = time.time()
    mellon()
    # every class once (features / rows / jit drawn from the menus), then sampled until the budget is used
    combos = [(f, k) for f in FAMILIES for k in "PET"]
    order = [combos[i] for i in rng.permutation(len(combos))]
    # shapes: every new (features, rows) pair costs seconds of XLA compilation per class family, so a quick run draws
    # two pairs (one with 1-3 features and many rows, one with 4-6 features and a single row); thorough uses all
    if quick:
        menu = [(int(rng.integers(1, 4)), 3), (int(rng.integers(4, 7)), 1)]
    else:
        menu = [(ds, q) for ds in range(1, 7) for q in (1, 3)]
    # many rows (row-wise batching): one class per quick run, three per thorough run
    for fam, kind in order[: (1 if quick else 3)]:
        pr = gen_case(rng, fam, kind, 2, [700, 515, 1030][int(rng.integers(3))], "base", 1, (bool(rng.integers(2)),), True)
        pr["op"] = "rows"
        run_case(ctx, res, pr)
    # always run (regression of finding H3-C3, signature C12:shape:hld:single-column): values given as ONE 2-D column
    run_case(ctx, res, gen_case(rng, ["full", "lm"][int(rng.integers(2))], "P", menu[0][0], menu[0][1], "base", -1, (False,),
                                True))
    # always run (regression of finding H6-3, signatures C12:shape:time_derivative / C12:time_derivative): a time-aware
    # predictor with several value columns - the time partial of EVERY column, not all partials of the last one
    run_case(ctx, res, gen_case(rng, "full", "T", 2, 3, "base", 2, (False,), False))
    run_case(ctx, res, gen_case(rng, "lm", "T", 2, 3, "base", 3, (False,), False))
    i = 0
    did_multi = False
    while True:
        fam, kind = order[i % len(order)]
        if i >= len(order) and time.time() > t0 + budget:
            break
        if i < len(order) and time.time() > t0 + 2.5 * budget:
            break
        ds, q = menu[(i // len(order) + i) % len(menu)] if quick else menu[int(rng.integers(len(menu)))]
        form = "base" if rng.random() < 0.55 else "composite"
        ycols = 1
        if kind in ("P", "T") and fam != "lmchol" and (not did_multi or rng.random() < 0.25):
            ycols = [2, 3, -1][int(rng.integers(3))] if did_multi else 2
        did_multi = did_multi or ycols != 1
        jit = (False, True) if (i % 4 == 0) else ((True,) if i % 4 == 2 else (False,))
        hessian = ds <= 3 or not quick or i % 2 == 0
        run_case(ctx, res, gen_case(rng, fam, kind, ds, q, form, ycols, jit, hessian))
        i += 1
    res.count("generated", i)


CLAIM = {
    "text": "Lean model of which function each derivative method hands to autodiff and how the result is sliced "
            "(Predictor.gradient/hessian/hessian_log_determinant differentiate the call operator - exp o _mean for "
            "ExpPredictor; PredictorTime.time_derivative is the last column of the gradient in merged (x,t) coordinates; "
            "time-aware gradient/hessian/log-determinant differentiate in x with the row's time fixed; the log-determinant "
            "pair is slogdet of the very Hessian rows), with autodiff as an operator under the contract 'returns partial "
            "derivatives'. Theorems over R: under that contract every method returns the partial derivatives of the value "
            "the predictor returns; exp chain rule; closed form grad mean(x*) = sum_j w_j grad k(x*, x_j) for the three "
            "conditional families (linearity + kernel symmetry + C11), hence the closed-form gradient of the call value; "
            "time derivative / fixed-time gradient are the corresponding slices of the merged gradient; Hessian symmetric "
            "for C^2 call functions; shapes. Tied to /repo by running p.gradient / p.time_derivative / p(x) for all 9 "
            "classes and the model's executable closed form on the same state (weights, mu, points read back from the "
            "predictor), with central differences (Richardson) of p(x), p(x,t) and of p.gradient as independent oracles, "
            "Hessian symmetry, slogdet consistency and jit on/off.",
    "note": "JAX autodiff is trusted through a contract (checked by finite differences only); second derivatives have no "
            "closed form in the model; C^2-ness of the GP mean away from conditioning points is not proved; theorems are over "
            "R. Correspondence is sampled differential testing on small predictors.",
    "technique": "Lean 4 model with autodiff as a contract-carrying parameter + HasDerivAt calculus (exp chain, linearity, "
                 "C11 kernel gradients) + differential correspondence with finite-difference oracles",
}
