"""C11 — analytic kernel gradients equal the true derivatives for every expression."""
import time, itertools
import numpy as np
from ..common import (mellon, bits, unbits, cov_to_mellon, cov_tokens, cov_depth, cov_str, gen_cov, gen_ad,
                      gen_points, loguniform, LEAVES, STATIONARY, ad_indices, rel_err, totuple, fbit, cov_positive)
from .. import covoracle as co
from .. import gradoracle as go

RULE = ("cases = (kernel expression tree, point sets X (n,d), Y (m,d)); trees from the Cov grammar (6 kernels, 5 operators, "
        "scalar operands, 6 active_dims forms incl. lists with repeated and negative indices, real powers over 3 decades "
        "over positive bases, natural powers 1..4 over bases of any sign) x "
        "three point streams: 'sharp' (well separated in every column: finite differences applicable), 'wide' "
        "(clustered/near-duplicate/anisotropic, scales 1e-2..1e2, exactly coincident and 1e-7-near rows) and 'adv' "
        "(coincident, collinear, offsets up to 1e4); plus, first on every run, the regression witnesses of the "
        "Pow.k_grad guard defect and a grid 'natpow': natural exponents {1,2,3,4} over bases containing Linear (Linear, "
        "Linear + small c, Linear * stationary, Linear * Linear) at depth 1 and nested under Add / Mul / Pow, on "
        "'lattice' point sets (integer x, half-integer or integer y, scaled by a power of two) built to contain pairs "
        "with negative, positive and EXACTLY zero dot product (orthogonal vectors) and on 'sharp' real points; "
        "distinct = distinct (tree, data) hash; non-trivial = gradient has "
        "a non-zero entry and (for trees with an inactive column) a zero one")
PARTIAL = ["finite everywhere / agreement with autodiff and finite differences are float64 statements: the Lean theorems are "
           "over R (denominators never vanish; exact factor dist/(dist+1e-12); |kGrad - dk/dy| <= 1e-6*devBound for every "
           "tree); the float side is covered by these runs",
           "where a power node with exponent < 1 sees a base kernel value that underflowed to exactly 0.0 (fixed defect "
           "C11:finite:pow-lt1-base-underflow: NaN before the guard `where((base_k == 0) & (p < 1), 0.0, ...)`), only "
           "finiteness, exact zeros in unreachable columns and the model's guarded value are claimed - the true "
           "derivative is below the float range of the factors; Lean: kgrad_pow_base_zero_lt1",
           "non-integer powers of a base value <= 0 are outside the property (base ** p is nan for a negative base, not "
           "differentiable at 0 for p < 1): never generated; natural powers m >= 1 are covered for a base of any sign "
           "(Lean: kgrad_pow_nat_directional/_partial, kgrad_pow_linear_eq, Regular/Smooth; runs: 'natpow' grid + "
           "regression witnesses, signature C11:pow-nonpositive-base)",
           "finite differences are only applied to the 'sharp' stream (every column gap >= 0.05*scale), because a central "
           "difference cannot resolve the 1e-6-wide regularised kink of the distance at coincident points"]
ASSUMPTIONS = ["JAX forward-mode AD (`jax.jacfwd`) of `cov.k` returns the derivative of the float computation (trusted contract; "
               "cross-checked by the closed-form interval oracle and by central differences)",
               "the interval oracle harness/gradoracle.py bounds float64 evaluation of the documented gradient formula for "
               "every summation order of xx-2xy+yy+1e-12"]
TRUSTED_EXTRA = ["jax.jacfwd / jax.vmap (autodiff fallback Covariance.k_grad) as an oracle"]

SHAPES = [(3, 4, 1), (3, 4, 2), (3, 4, 3), (3, 4, 5)]


# ------------------------------------------------------------------ implementation / model

def impl_grad(tree, X, Y):
    c = cov_to_mellon(tree)
    return np.asarray(c.k_grad(X)(Y), dtype=float), c


def autodiff_grad(c, X, Y):
    from mellon.base_cov import Covariance
    import jax.numpy as jnp
    return np.asarray(Covariance.k_grad(c, jnp.asarray(X))(jnp.asarray(Y)), dtype=float)


def model_grad(ctx, tree, X, Y):
    n, d = X.shape
    m = Y.shape[0]
    out = ctx["driver"].ask(f"kgrad {cov_tokens(tree)} {n} {d} {bits(X)} {m} {bits(Y)}")
    if not out.startswith("ok"):
        return out
    return unbits(out.split()[1:], (n, m, d))


def has_kind(t, kind):
    if t[0] in LEAVES:
        return t[0] == kind
    if t[0] in ("ADD", "MUL"):
        return has_kind(t[1], kind) or has_kind(t[2], kind)
    return has_kind(t[1], kind)


def min_ls(t):
    if t[0] == "RQ":
        return t[2]
    if t[0] in LEAVES:
        return t[1]
    if t[0] in ("ADD", "MUL"):
        return min(min_ls(t[1]), min_ls(t[2]))
    return min_ls(t[1])


# ------------------------------------------------------------------ one case

def run_case(ctx, res, p):
    if p["op"] != "kgrad":
        raise ValueError(p["op"])
    tree = totuple(p["tree"])
    X, Y = np.asarray(p["X"], float), np.asarray(p["Y"], float)
    n, d = X.shape
    m = Y.shape[0]
    stream = p.get("stream", "?")
    res.count("depth=%d" % cov_depth(tree))
    res.count("root=" + tree[0])
    res.count("ad=" + tree[-1][0])
    res.count("d=%d" % d)
    res.count("stream=" + stream)
    canon = ("kgrad", cov_str(tree), X.tobytes(), Y.tobytes())
    sample = {"op": "kgrad", "tree": cov_str(tree), "X_shape": list(X.shape), "Y_shape": list(Y.shape),
              "stream": stream}
    try:
        G, c = impl_grad(tree, X, Y)
    except Exception as e:
        res.case(canon, False, sample)
        res.oracle_fail(f"k_grad raised {type(e).__name__}: {e}", p, signature="C11:raises")
        return
    reach = co.reachable_columns(tree, list(range(d)))
    inactive = [j for j in range(d) if j not in reach]
    res.count("inactive_cols=%d" % min(len(inactive), 3))
    res.case(canon, bool(np.any(G != 0)), sample)

    # --- shape
    if G.shape != (n, m, d):
        res.oracle_fail("k_grad(x)(y) is not shaped (n_x, n_y, n_features)", p,
                        detail={"shape": list(G.shape), "expected": [n, m, d]}, signature="C11:shape")
        return
    # --- a stationary leaf kernel is Lipschitz: |dk/dy| <= sup|phi'| / ls <= 1 / ls for all five profiles, for EVERY pair -
    # also the ill-conditioned ones (near-coincident points far from the origin) that the comparisons below have to skip
    # (fixed defect: the distance was taken from the cancelling expanded form, delta / distance reached 1e6)
    lsof = lambda t: float(t[2] if t[0] == "RQ" else t[1])
    stat = ("M32", "M52", "EQ", "EX", "RQ")
    if tree[0] in stat or (tree[0] == "MUL" and tree[1][0] in stat and tree[2][0] in stat):
        # product of two stationary kernels (values in [0, 1]): |grad| <= 1/ls1 + 1/ls2, written as one effective 1/ls
        ls_ = lsof(tree) if tree[0] in stat else 1.0 / (1.0 / lsof(tree[1]) + 1.0 / lsof(tree[2]))
        with np.errstate(all="ignore"):
            gn = np.sqrt(np.sum(np.where(np.isfinite(G), G, 0.0) ** 2, axis=2))
        ratio = float(np.max(gn, initial=0.0) * ls_)
        res.dev("leaf_gradient_norm_over_lipschitz_bound", ratio)
        if ratio > 1.001:
            i, j = np.unravel_index(np.argmax(gn), gn.shape)
            res.oracle_fail("k_grad of a stationary kernel exceeds the kernel's Lipschitz bound 1/ls", p,
                            detail={"i": int(i), "j": int(j), "norm": float(gn[i, j]), "bound": 1.0 / ls_},
                            signature="C11:lipschitz:" + tree[0])
    # --- finite everywhere
    bad_pairs = np.zeros((n, m), bool)
    if not np.all(np.isfinite(G)):
        bad_pairs = ~np.all(np.isfinite(G), axis=2)
        under = pow_underflow_pairs(tree, X, Y)
        explained = bool(np.all(under[bad_pairs]))
        res.oracle_fail("k_grad returns a non-finite value"
                        + (" (power < 1 of a kernel value that underflowed to 0: p * 0**(p-1) * 0 = nan)" if explained else ""),
                        p, detail={"n_nonfinite": int((~np.isfinite(G)).sum()),
                                   "pairs": np.argwhere(bad_pairs)[:5].tolist()},
                        signature="C11:finite:pow-lt1-base-underflow" if explained else "C11:finite")
        res.count("nonfinite_pairs", int(bad_pairs.sum()))
        G = np.where(bad_pairs[..., None], 0.0, G)
    # --- exact zeros in inactive dimensions
    if inactive and np.any(G[:, :, inactive] != 0):
        res.oracle_fail("k_grad is non-zero in an inactive dimension", p,
                        detail={"inactive": inactive, "max_abs": float(np.max(np.abs(G[:, :, inactive])))},
                        signature="C11:inactive")
    # --- coincident rows: exact zero gradient of distance-based expressions
    if not has_kind(tree, "LIN"):
        eq = np.all(X[:, None, :] == Y[None, :, :], axis=2)
        if eq.any():
            res.count("coincident_pairs", int(eq.sum()))
            if np.any(G[eq] != 0):
                res.oracle_fail("k_grad is non-zero at a coincident pair", p,
                                detail={"max_abs": float(np.max(np.abs(G[eq])))}, signature="C11:coincident")

    # --- regression witnesses with a hand-computed gradient (defect: Pow.k_grad zeroed the gradient wherever the base
    #     value was not positive; stable signature so that the old guard is reported if it comes back)
    if p.get("expect") is not None:
        E = np.asarray(p["expect"], float).reshape(n, m, d)
        res.count("regression_witnesses")
        if not np.allclose(G, E, rtol=1e-12, atol=1e-12):
            i, j, cc = np.unravel_index(np.argmax(np.abs(G - E)), E.shape)
            res.oracle_fail("Pow.k_grad is not the chain rule where the base kernel value is negative or exactly zero "
                            "(natural-number exponent)", p,
                            detail={"i": int(i), "j": int(j), "col": int(cc), "impl": float(G[i, j, cc]),
                                    "expected": float(E[i, j, cc])},
                            signature="C11:pow-nonpositive-base")
    if has_nat_pow_any_sign(tree):
        sg = nat_pow_base_signs(tree, X, Y)
        for key, v in sg.items():
            res.count("natpow_pairs_base_" + key, int(v))

    # --- closed-form interval oracle (independent of code and model)
    iv = go.grad_interval(tree, X, Y)
    well = iv["wellcond"] & ~bad_pairs
    under = np.zeros((n, m), bool)
    if has_pow_lt1(tree):
        # pairs where a power < 1 sees a base value that underflowed to 0.0: the true derivative is below the float
        # range of the factors (0**(p-1) = inf); only finiteness is claimed there
        under = pow_underflow_pairs(tree, X, Y)
        res.count("pairs_pow_base_underflow", int(under.sum()))
        well &= ~under
    bounded = np.all(np.isfinite(iv["lo"]) & np.isfinite(iv["hi"]) & np.isfinite(iv["mass"]), axis=2)
    res.count("pairs_oracle_unbounded", int((well & ~bounded).sum()))
    well &= bounded
    res.count("pairs_wellcond", int(well.sum()))
    res.count("pairs_illcond", int((~well).sum()))
    ok = go.inside(G, iv["lo"], iv["hi"], iv["mass"]) | ~well[..., None]
    if not np.all(ok):
        i, j, cc = np.argwhere(~ok)[0]
        res.oracle_fail("k_grad differs from the derivative of the documented kernel formula", p,
                        detail={"i": int(i), "j": int(j), "col": int(cc), "impl": float(G[i, j, cc]),
                                "lo": float(iv["lo"][i, j, cc]), "hi": float(iv["hi"][i, j, cc])},
                        signature="C11:closed-form:" + sig_class(tree))
    # --- autodiff of cov.k (base-class fallback)
    try:
        A = autodiff_grad(c, X, Y)
    except Exception as e:
        A = None
        res.oracle_fail(f"autodiff of cov.k raised {type(e).__name__}", p, signature="C11:autodiff-raises")
    if A is not None:
        if A.shape != G.shape:
            res.oracle_fail("autodiff fallback and analytic k_grad have different shapes", p,
                            signature="C11:autodiff-shape")
        else:
            # systematic part: the guard factor gamma = dist/(dist+1e-12) (an exact bound, see Lean `kgrad_radial_eq`);
            # noise part: rounding of both evaluations (a-posteriori, >= 100x head-room)
            sysb = (1 - iv["gmin"])[..., None] * iv["mass"] * (1 + 1e-9)
            tol = 3e-10 * iv["mass"] + 8 * iv["massd"] + 1e-300
            with np.errstate(all="ignore"):
                dev = np.maximum(np.abs(G - A) - sysb, 0.0) / tol
                devsys = np.abs(G - A) / (sysb + tol)
            dev = np.where(well[..., None], dev, 0.0)
            dev = np.where(np.isfinite(A), dev, np.where(well[..., None], np.inf, 0.0))
            # k_grad takes the distance from the differences y - x, cov.k (and so its autodiff) from the expanded form
            # xx - 2xy + yy, which cancels for points far from the origin: a disagreement is explained when BOTH values lie in the
            # closed-form interval, whose width is exactly that cancellation (fix 'distance_grad from differences')
            with np.errstate(all="ignore"):
                explained = go.inside(A, iv["lo"], iv["hi"], iv["mass"]) & go.inside(G, iv["lo"], iv["hi"], iv["mass"])
            res.count("autodiff_entries_explained_by_cancellation_interval", int(np.sum(explained & (dev > 1.0))))
            dev = np.where(explained, np.minimum(dev, 1.0), dev)
            res.dev("analytic_vs_autodiff_excess_over_noise_tol", np.max(dev, initial=0))
            if stream in ("natpow", "regress"):
                res.dev("natpow:analytic_vs_autodiff_excess_over_noise_tol", np.max(dev, initial=0))
            res.dev("analytic_vs_autodiff_use_of_gamma_bound_(exact_bound,_1_at_coincident_pairs)", np.max(np.where(well[..., None], devsys, 0.0), initial=0))
            if np.max(dev, initial=0) > 1.0:
                i, j, cc = np.unravel_index(np.argmax(dev), dev.shape)
                res.oracle_fail("k_grad disagrees with automatic differentiation of cov.k", p,
                                detail={"i": int(i), "j": int(j), "col": int(cc), "analytic": float(G[i, j, cc]),
                                        "autodiff": float(A[i, j, cc]), "tol": float(tol[i, j, cc])},
                                signature="C11:autodiff:" + sig_class(tree))
    # --- central differences with Richardson extrapolation (sharp stream only)
    if p.get("fd_h"):
        h = float(p["fd_h"])
        def knoise(Z):
            kiv = go.value_interval(tree, X, Z)
            return (kiv[1] - kiv[0]) + 4 * go.EPS * np.maximum(np.abs(kiv[0]), np.abs(kiv[1]))
        # rounding noise of the kernel values that enter the difference quotients: at y and at the displaced points
        # (where a natural power sees a base value of exactly 0 at y, the value at y says nothing about y +- h)
        noise = np.repeat(knoise(Y)[..., None], d, axis=2)
        kf = lambda Z: np.asarray(c(X, Z), float)
        D1 = np.zeros((n, m, d))
        D2 = np.zeros((n, m, d))
        for cc in range(d):
            for hh, D in ((h, D1), (h / 2, D2)):
                Yp, Ym = Y.copy(), Y.copy()
                Yp[:, cc] += hh
                Ym[:, cc] -= hh
                D[:, :, cc] = (kf(Yp) - kf(Ym)) / (Yp[:, cc] - Ym[:, cc])[None, :]
                noise[:, :, cc] = np.maximum(noise[:, :, cc], np.maximum(knoise(Yp), knoise(Ym)))
        R = (4 * D2 - D1) / 3
        est = 2 * np.abs(D2 - D1) + 16 * noise / h
        tol = est + 2e-6 * iv["mass"] + 1e-300
        dev = np.abs(G - R) / tol
        res.dev("analytic_vs_richardson_over_tol", np.max(dev, initial=0))
        if stream in ("natpow", "regress"):
            res.dev("natpow:analytic_vs_richardson_over_tol", np.max(dev, initial=0))
        res.count("fd_cases")
        if np.max(dev, initial=0) > 1.0:
            i, j, cc = np.unravel_index(np.argmax(dev), dev.shape)
            res.oracle_fail("k_grad disagrees with central differences of cov(x, y)", p,
                            detail={"i": int(i), "j": int(j), "col": int(cc), "analytic": float(G[i, j, cc]),
                                    "richardson": float(R[i, j, cc]), "tol": float(tol[i, j, cc])},
                            signature="C11:finite-diff:" + sig_class(tree))
    # --- correspondence with the Lean model
    if ctx["driver"] is not None:
        Gm = model_grad(ctx, tree, X, Y)
        if isinstance(Gm, str):
            res.corr_fail(f"model refuses a tree the implementation evaluates: {Gm}", p)
        elif Gm.shape != G.shape:
            res.corr_fail("model gradient has a different shape", p)
        else:
            if not np.all(np.isfinite(Gm) | bad_pairs[..., None]):
                res.corr_fail("model gradient is not finite where the implementation's is", p)
            Gm = np.where((bad_pairs | under)[..., None] & ~np.isfinite(Gm), 0.0, Gm)
            if inactive and np.any(Gm[:, :, inactive] != 0):
                res.corr_fail("model gradient is non-zero in an unreachable column", p)
            Gm = np.where((bad_pairs | under)[..., None], 0.0, Gm)
            okm = go.inside(Gm, iv["lo"], iv["hi"], iv["mass"]) | ~well[..., None]
            width = (iv["hi"] - iv["lo"]) + 2e-13 * iv["mass"] + 1e-300
            dev = np.where(well[..., None], np.abs(Gm - G) / width, 0.0)
            res.dev("model_vs_impl_in_interval_widths", np.max(dev, initial=0))
            if stream in ("natpow", "regress"):
                res.dev("natpow:model_vs_impl_in_interval_widths", np.max(dev, initial=0))
            zero_mismatch = bool(inactive and np.any(Gm[:, :, inactive] != 0))
            if not np.all(okm) or np.max(dev, initial=0) > 1.5 or zero_mismatch:
                res.corr_fail("model and implementation gradients differ", p,
                              detail={"max_dev_in_widths": float(np.max(dev, initial=0)),
                                      "model_inside": bool(np.all(okm))})


def has_pow_lt1(t):
    if t[0] in LEAVES:
        return False
    if t[0] == "POW" and float(t[2]) < 1:
        return True
    if t[0] in ("ADD", "MUL"):
        return has_pow_lt1(t[1]) or has_pow_lt1(t[2])
    return has_pow_lt1(t[1])


def has_nat_pow_any_sign(t):
    """Some power node has a natural exponent over a base that is not provably positive."""
    if t[0] in LEAVES:
        return False
    if t[0] == "POW" and go.is_natural(t[2]) and not cov_positive(t[1]):
        return True
    if t[0] in ("ADD", "MUL"):
        return has_nat_pow_any_sign(t[1]) or has_nat_pow_any_sign(t[2])
    return has_nat_pow_any_sign(t[1])


def nat_pow_base_signs(tree, X, Y, acc=None):
    """Number of pairs whose base value under a natural power (base of any sign) is negative / exactly 0 / positive."""
    acc = acc if acc is not None else {"negative": 0, "zero": 0, "positive": 0}
    k = tree[0]
    if k in LEAVES:
        return acc
    Xs, Ys = co.sel(tree[-1], X), co.sel(tree[-1], Y)
    if k == "POW" and go.is_natural(tree[2]) and not cov_positive(tree[1]):
        b = np.asarray(cov_to_mellon(tree[1])(Xs, Ys), float)
        acc["negative"] += int((b < 0).sum())
        acc["zero"] += int((b == 0).sum())
        acc["positive"] += int((b > 0).sum())
    nat_pow_base_signs(tree[1], Xs, Ys, acc)
    if k in ("ADD", "MUL"):
        nat_pow_base_signs(tree[2], Xs, Ys, acc)
    return acc


def pow_underflow_pairs(tree, X, Y):
    """(n, m) bool: some power node with exponent < 1 sees a base kernel value that is exactly 0 in float64."""
    k = tree[0]
    out = np.zeros((X.shape[0], Y.shape[0]), bool)
    if k in LEAVES:
        return out
    Xs, Ys = co.sel(tree[-1], X), co.sel(tree[-1], Y)
    if k == "POW" and float(tree[2]) < 1:
        out |= np.asarray(cov_to_mellon(tree[1])(Xs, Ys), float) == 0
    out |= pow_underflow_pairs(tree[1], Xs, Ys)
    if k in ("ADD", "MUL"):
        out |= pow_underflow_pairs(tree[2], Xs, Ys)
    return out


def sig_class(tree):
    """Signature class: root operator / leaf kind and whether an index list with a repeated column is involved."""
    def rep(t, d=None):
        ad = t[-1]
        r = ad[0] == "AL" and len(set(int(z) for z in ad[1])) < len(ad[1])
        if t[0] in LEAVES:
            return r
        if t[0] in ("ADD", "MUL"):
            return r or rep(t[1]) or rep(t[2])
        return r or rep(t[1])
    return tree[0] + ("+repeat" if rep(tree) else "")


# ------------------------------------------------------------------ generators

def sharp_points(rng, n, m, d, scale):
    """X, Y with every column gap |X[i,c]-Y[j,c]| >= 0.05*scale (finite differences resolve the kernel)."""
    X = rng.normal(size=(n, d)) * scale
    Y = rng.normal(size=(m, d)) * scale
    for _ in range(200):
        gap = np.abs(X[:, None, :] - Y[None, :, :])
        bad = np.argwhere(gap < 0.05 * scale)
        if len(bad) == 0:
            break
        for i, j, c in bad:
            Y[j, c] = rng.normal() * scale
    return X, Y


def adv_points(rng, n, m, d):
    kind = ["coincident", "collinear", "offset", "offset-near"][int(rng.integers(4))]
    if kind == "coincident":
        X = rng.normal(size=(n, d)) * loguniform(rng, 0.1, 10)
        Y = X[rng.integers(n, size=m)].copy()
        if rng.random() < 0.5:
            Y[int(rng.integers(m))] += 1e-7 * rng.normal(size=d)
    elif kind == "collinear":
        a, b = rng.normal(size=d), rng.normal(size=d)
        X = a[None, :] + np.linspace(-1, 1, n)[:, None] * b[None, :]
        Y = a[None, :] + rng.uniform(-2, 2, size=m)[:, None] * b[None, :]
        Y[0] = X[0]
    elif kind == "offset":
        off = loguniform(rng, 1e2, 1e4) * rng.choice([-1, 1], size=d)
        X = off + rng.normal(size=(n, d))
        Y = off + rng.normal(size=(m, d))
    else:
        off = loguniform(rng, 1e2, 1e4) * rng.choice([-1, 1], size=d)
        X = off + rng.normal(size=(n, d))
        Y = X[rng.integers(n, size=m)] + loguniform(rng, 1e-6, 1e-2) * rng.normal(size=(m, d))
    return np.ascontiguousarray(X), np.ascontiguousarray(Y), kind


def gen_tree(rng, d, depth, ls_range, allow_repeat=True):
    t = gen_cov(rng, d, depth, ls_range=ls_range, pow_range=(0.03, 30.0), nat_pow_prob=0.3)
    if allow_repeat and rng.random() < 0.35:
        t = with_repeat(rng, t, d)
    return t


def with_repeat(rng, t, d, prob=0.4):
    """Walk the tree; with probability `prob` replace a node's active_dims by an index list of the same length that
    may repeat columns and mixes negative indices (operand widths are unchanged)."""
    ad = t[-1]
    w = len(ad_indices(ad, d))
    if rng.random() < prob:
        ad = ("AL", [int(z) for z in rng.integers(-d, d, size=w)])
    if t[0] in LEAVES:
        return t[:-1] + (ad,)
    if t[0] in ("ADD", "MUL"):
        return (t[0], with_repeat(rng, t[1], w, prob), with_repeat(rng, t[2], w, prob), ad)
    return (t[0], with_repeat(rng, t[1], w, prob), t[2], ad)


# ---- natural powers over bases of any sign (the repaired Pow.k_grad guard)

AN = ("AN",)

REGRESSION = [
    # (Linear(1.0) ** 2).k_grad([[1, 2]])([[-1, -1]]) = 2 * (-3) * [1, 2]; the guard `where(base_k > 0, ..., 0)` gave 0
    {"op": "kgrad", "stream": "regress", "tree": ("POW", ("LIN", 1.0, AN), 2.0, AN),
     "X": [[1.0, 2.0]], "Y": [[-1.0, -1.0]], "expect": [[[-6.0, -12.0]]], "fd_h": 1e-3},
    # Linear(ls) ** 1 at orthogonal points (base value exactly 0): the gradient is x / ls; the old guard gave 0
    {"op": "kgrad", "stream": "regress", "tree": ("POW", ("LIN", 2.0, AN), 1.0, AN),
     "X": [[1.0, 0.0], [0.0, 3.0]], "Y": [[0.0, 1.0], [2.0, 0.0]],
     "expect": [[[0.5, 0.0], [0.5, 0.0]], [[0.0, 1.5], [0.0, 1.5]]], "fd_h": 1e-3},
    # a negative, an exactly-zero and a positive base value under an odd power:
    # (Linear(1) ** 3).k_grad: 3 * <x,y>^2 * x
    {"op": "kgrad", "stream": "regress", "tree": ("POW", ("LIN", 1.0, AN), 3.0, AN),
     "X": [[1.0, -2.0]], "Y": [[-1.0, 1.0], [2.0, 1.0], [3.0, 1.0]],
     "expect": [[[27.0, -54.0], [0.0, 0.0], [3.0, -6.0]]], "fd_h": 1e-3},
]

NAT_BASES = ["LIN", "LIN+c", "LIN*STAT", "LIN*LIN"]
NAT_WRAPS = ["depth1", "ADD", "MUL", "POW"]


def lattice_points(rng, n, m, d, half=True):
    """X on the integer lattice, Y on the half-integer lattice (half=True: every column gap >= 0.5, so central
    differences resolve distance-based factors) or on the integer lattice; rows are re-drawn so that the set contains
    pairs with negative, exactly zero (orthogonal) and positive dot product; a power-of-two scale keeps the zeros exact."""
    off = 0.5 if half else 0.0
    X = rng.integers(-3, 4, size=(n, d)).astype(float)
    for i in range(n):
        while not np.any(X[i]):
            X[i] = rng.integers(-3, 4, size=d)
    Y = rng.integers(-3, 3, size=(m, d)).astype(float) + off
    if not half:
        for j in range(m):
            while not np.any(Y[j]):
                Y[j] = rng.integers(-3, 4, size=d)

    def draw(j, i, want):
        for _ in range(400):
            y = rng.integers(-3, 3, size=d).astype(float) + off
            s = float(X[i] @ y)
            if (want < 0 and s < 0) or (want > 0 and s > 0) or (want == 0 and s == 0 and (half or np.any(y))):
                Y[j] = y
                return True
        return False
    draw(0, 0, -1)
    draw(1 % m, 1 % n, +1)
    if not draw(2 % m, 2 % n, 0):
        # no orthogonal partner on this lattice (d = 1, or half-integers against this x): make the dot product
        # vanish through a zero row of X instead (the gradient x/ls is then 0 and so is the base value)
        X[2 % n] = 0.0
    scale = float(2.0 ** int(rng.integers(-2, 3)))
    return np.ascontiguousarray(X * scale), np.ascontiguousarray(Y * scale), scale


def nat_base(rng, kind, w, scale, plain_ad):
    ad = (lambda: AN) if plain_ad else (lambda: gen_ad(rng, w, allow_repeat=bool(rng.random() < 0.3)))
    ls = lambda: float(rng.choice([1.0, 0.5, 2.0, 3.0])) * scale if rng.random() < 0.5 else loguniform(rng, 0.5, 30) * scale
    lin = lambda: ("LIN", ls(), ad())
    if kind == "LIN":
        return lin()
    if kind == "LIN+c":
        return ("ADDC", lin(), loguniform(rng, 1e-3, 0.3), AN)
    if kind == "LIN*LIN":
        return ("MUL", lin(), lin(), AN)
    sk = STATIONARY[int(rng.integers(len(STATIONARY)))]
    st = ("RQ", loguniform(rng, 0.1, 10), ls(), ad()) if sk == "RQ" else (sk, ls(), ad())
    return ("MUL", lin(), st, AN) if rng.random() < 0.5 else ("MUL", st, lin(), AN)


def natpow_case(rng, base_kind, mexp, wrap, points):
    """One case of the 'natpow' grid."""
    n, m, d = SHAPES[int(rng.integers(1, len(SHAPES)))]
    plain = bool(rng.random() < 0.6)
    if points == "real":
        scale = loguniform(rng, 0.3, 3.0)
        X, Y = sharp_points(rng, n, m, d, scale)
    else:
        X, Y, scale = lattice_points(rng, n, m, d, half=(points == "half"))
    ad = AN if plain else gen_ad(rng, d, allow_repeat=bool(rng.random() < 0.3))
    w = len(ad_indices(ad, d))
    pw = ("POW", nat_base(rng, base_kind, w, scale, plain), float(mexp), AN)
    if wrap == "depth1":
        tree = pw[:3] + (ad,)
    elif wrap == "POW":
        tree = ("POW", ("ADDC", pw, loguniform(rng, 1e-3, 0.3) * (-1 if rng.random() < 0.5 else 1), AN),
                float(rng.integers(1, 4)), ad)
    else:
        ok = STATIONARY[int(rng.integers(len(STATIONARY)))]
        ls_o = loguniform(rng, 0.5, 30) * scale
        other = ("RQ", loguniform(rng, 0.1, 10), ls_o, AN) if ok == "RQ" else (ok, ls_o, AN)
        if rng.random() < 0.4:
            other = ("POW", ("LIN", loguniform(rng, 0.5, 30) * scale, AN), float(rng.integers(1, 5)), AN)
        tree = (wrap, pw, other, ad) if rng.random() < 0.5 else (wrap, other, pw, ad)
    p = {"op": "kgrad", "stream": "natpow", "natpow": f"{base_kind}^{mexp}/{wrap}/{points}", "tree": tree, "X": X, "Y": Y}
    # central differences: polynomial factors are always resolved; distance-based factors need every column gap
    sharp = bool(np.all(np.abs(X[:, None, :] - Y[None, :, :]) >= 0.05 * scale))
    if sharp or not any(has_kind(tree, s) for s in STATIONARY):
        p["fd_h"] = 1e-3 * min(scale, min_ls(tree))
    return p


def run_natpow(ctx, res, quick):
    rng = ctx["rng"]
    for p in REGRESSION:
        run_case(ctx, res, dict(p, X=np.asarray(p["X"], float), Y=np.asarray(p["Y"], float)))
    grid = [(b, mexp, wr) for b in NAT_BASES for mexp in (1, 2, 3, 4) for wr in NAT_WRAPS]
    if quick:
        # every (base, exponent) at depth 1, and a random third of the nested combinations
        nested = [g for g in grid if g[2] != "depth1"]
        grid = [g for g in grid if g[2] == "depth1"] + [nested[i] for i in rng.permutation(len(nested))[:16]]
    for b, mexp, wr in grid:
        kinds = ["half", "int"] if quick else ["half", "int", "real", "half"]
        if quick:
            kinds = [kinds[int(rng.integers(2))]] if wr != "depth1" else kinds
        for pts in kinds:
            run_case(ctx, res, natpow_case(rng, b, mexp, wr, pts))
            res.count("natpow_cases")


def gen_case(rng, stream, depth, shape=None, tree=None):
    n, m, d = shape or SHAPES[int(rng.integers(len(SHAPES)))]
    p = {"op": "kgrad", "stream": stream}
    if stream == "sharp":
        scale = loguniform(rng, 0.3, 3.0)
        X, Y = sharp_points(rng, n, m, d, scale)
        ls_range = (0.5 * scale, 30.0 * scale)
        tree = tree or gen_tree(rng, d, depth, ls_range)
        p["fd_h"] = 1e-3 * min(scale, min_ls(tree))
    elif stream == "wide":
        X, _ = gen_points(rng, n, d, scale=loguniform(rng, 0.01, 100.0))
        Y, _ = gen_points(rng, m, d, scale=loguniform(rng, 0.01, 100.0))
        for _ in range(int(rng.integers(0, 3))):
            i, j = int(rng.integers(n)), int(rng.integers(m))
            Y[j] = X[i] + (0 if rng.random() < 0.5 else 1e-7 * rng.normal(size=d))
        tree = tree or gen_tree(rng, d, depth, (0.01, 100.0))
    else:
        X, Y, kind = adv_points(rng, n, m, d)
        p["adv"] = kind
        tree = tree or gen_tree(rng, d, depth, (0.1, 100.0))
    p.update(tree=tree, X=X, Y=Y)
    return p


def run(ctx, res):
    rng = ctx["rng"]
    quick = ctx["tier"] == "quick"
    budget = ctx["budget"] or (55 if quick else 540)
    t0 = time.time()
    t_end = t0 + budget
    mellon()
    # first, on every run and outside the time box: the regression witnesses of the Pow.k_grad guard defect and the
    # grid of natural powers over bases of any sign
    run_natpow(ctx, res, quick)
    res.count("natpow_wall_s", int(time.time() - t0))
    # near-coincident pairs far from the origin, on the one leaf whose gradient does not vanish at distance 0 (Exponential) and on
    # a product with it: the gradient stays within the kernel's Lipschitz bound (fixed defect of distance_grad, see above)
    for d_, off_ in ((2, 1e2), (5, 1e3), (25, 1e2)):
        Xn = off_ * rng.choice([-1.0, 1.0], size=d_) + rng.normal(size=(4, d_))
        u_ = rng.normal(size=(4, d_))
        Yn = Xn + (10.0 ** rng.uniform(-8, -5, size=(4, 1))) * u_ / np.linalg.norm(u_, axis=1, keepdims=True)
        for tree_ in (("EX", loguniform(rng, 0.5, 2.0), ("AN",)),
                      ("MUL", ("EX", 1.0, ("AN",)), ("M52", 3.0, ("AN",)), ("AN",))):
            # (no finite differences here: the separation is far below any usable step and Exponential has a kink at 0)
            run_case(ctx, res, {"op": "kgrad", "stream": "adv", "adv": "offset-coincident", "tree": tree_, "X": Xn, "Y": Yn})
    # bounded-exhaustive skeleton: every leaf kind x every active_dims form (plus repeated-index lists)
    ad_forms = ["AN", "AI", "AIneg", "AL", "AM", "AS"]
    combos = [(k, f) for k in LEAVES for f in ad_forms + ["ALrep"]]
    if quick:
        combos = [combos[i] for i in rng.permutation(len(combos))[:14]]
    for kind, f in combos:
        n, m, d = SHAPES[int(rng.integers(1, len(SHAPES)))]
        scale = loguniform(rng, 0.3, 3.0)
        if f == "ALrep":
            ad = gen_ad(rng, d, allow_repeat=True, forms=["AL"])
        else:
            ad = gen_ad(rng, d, forms=[f])
        ls = loguniform(rng, 0.5, 30.0) * scale
        tree = ("RQ", loguniform(rng, 0.1, 10), ls, ad) if kind == "RQ" else (kind, ls, ad)
        X, Y = sharp_points(rng, n, m, d, scale)
        run_case(ctx, res, {"op": "kgrad", "stream": "sharp", "tree": tree, "X": X, "Y": Y,
                            "fd_h": 1e-3 * min(scale, ls)})
    # every operator over every pair of leaf kinds at depth 1 (thorough), sampled in quick
    ops = ["ADD", "ADDC", "MUL", "MULC", "POW"]
    trip = list(itertools.product(ops, LEAVES, LEAVES))
    if quick:
        trip = [trip[i] for i in rng.permutation(len(trip))[:14]]
    for op, kl, kr in trip:
        if time.time() > t0 + 0.6 * budget:
            break
        n, m, d = SHAPES[int(rng.integers(1, len(SHAPES)))]
        scale = loguniform(rng, 0.3, 3.0)
        ad = gen_ad(rng, d, allow_repeat=bool(rng.random() < 0.3))
        w = len(ad_indices(ad, d))
        mk = lambda k: (("RQ", loguniform(rng, 0.1, 10), loguniform(rng, 0.5, 30) * scale,
                         gen_ad(rng, w, allow_repeat=bool(rng.random() < 0.3))) if k == "RQ"
                        else (k, loguniform(rng, 0.5, 30) * scale, gen_ad(rng, w, allow_repeat=bool(rng.random() < 0.3))))
        if op in ("ADD", "MUL"):
            tree = (op, mk(kl), mk(kr), ad)
        elif op == "POW":
            if kl == "LIN":
                # a base of any sign: natural-number exponents only
                tree = (op, mk(kl), float(rng.integers(1, 5)), ad)
            else:
                tree = (op, mk(kl), loguniform(rng, 0.03, 30), ad)
        else:
            tree = (op, mk(kl), loguniform(rng, 0.01, 10), ad)
        X, Y = sharp_points(rng, n, m, d, scale)
        run_case(ctx, res, {"op": "kgrad", "stream": "sharp", "tree": tree, "X": X, "Y": Y,
                            "fd_h": 1e-3 * min(scale, min_ls(tree))})
    # sampled part
    i = 0
    while time.time() < t_end:
        stream = ["sharp", "wide", "adv"][i % 3]
        depth = int(rng.choice([0, 1, 2, 3], p=[0.2, 0.3, 0.3, 0.2]))
        run_case(ctx, res, gen_case(rng, stream, depth))
        i += 1
    res.count("sampled", i)


CLAIM = {
    "text": "Lean theorems over R, by structural induction over every kernel expression tree with any active-dims form at "
            "every node (index lists with repeated and negative indices, masks, slices): the gradient recursion of "
            "cov.k_grad with exact division (kGradE 0) is the directional derivative of k(x, .) in every direction, hence "
            "its j-th entry is the partial derivative d k / d y_j (HasDerivAt); the coded recursion is the same with the "
            "denominator dist+1e-12, which on each distance-based leaf multiplies the derivative by exactly "
            "gamma = dist/(dist+1e-12) in [1/(1+1e-6), 1) and changes nothing for Linear, so that for every tree "
            "|k_grad - true derivative| <= 1e-6 * (sum of absolute leaf contributions); five radial profile derivatives; "
            "derivative of the regularised distance; exact zeros in unreachable columns; zero gradient at coincident "
            "points; result width = width of y. Tied to /repo by running cov.k_grad(x)(y) and the model's executable "
            "kGrad on the same inputs, and checked against three independent oracles (closed-form interval oracle, "
            "jax.jacfwd of cov.k, Richardson-extrapolated central differences of cov(x, y)). Power nodes: the chain rule "
            "p*base^(p-1)*grad(base) is proved to be the derivative for a positive base value (any exponent) and for a "
            "natural-number exponent m >= 1 over a base value of ANY sign (negative, zero, positive; e.g. Linear ** 2); the "
            "guard where((base == 0) & (p < 1), 0, ...) is proved inactive in both cases and to give exactly 0 where it "
            "is active.",
    "note": "Theorems are about the model at alpha = R: 'finite' and 'agrees with autodiff/finite differences' are float64 "
            "statements exercised by the runs only. Non-integer powers need a positive base value (base ** p is nan for a "
            "negative base and u^p is not differentiable at 0 for p < 1); natural powers m >= 1 are covered for any base "
            "value (theorems kgrad_pow_nat_*, kgrad_pow_linear_eq, regular_of_smooth; runs: regression witnesses "
            "C11:pow-nonpositive-base and the natpow grid on point sets with negative, zero and positive base values). "
            "RatQuad needs alpha > 0. Correspondence is sampled differential testing.",
    "technique": "Lean 4 proof (HasDerivAt calculus + structural induction over kernel syntax; scatter-add proved to be the "
                 "transpose of column selection) + differential correspondence with interval, autodiff and "
                 "finite-difference oracles",
}
