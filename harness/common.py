"""Shared machinery of the correspondence checks: driver process, float<->bit encoding,
kernel-expression grammar (Python objects <-> mellon objects <-> driver tokens), data generators,
verdict protocol, evidence writer."""
import os, sys, json, time, hashlib, subprocess, itertools, math, traceback

VERIF = os.path.dirname(os.path.dirname(os.path.abspath(__file__)))
LEAN_DIR = os.path.join(VERIF, "lean")
DRIVER = os.path.join(LEAN_DIR, ".lake", "build", "bin", "mellon_driver")
REPO = os.environ.get("MELLON_REPO", "/repo")
sys.path.insert(0, os.path.join(VERIF, ".pydeps"))
if REPO not in sys.path:
    sys.path.insert(0, REPO)

os.environ.setdefault("JAX_PLATFORMS", "cpu")
os.environ.setdefault("MELLON_VERIF", "1")
import logging
import numpy as np

_mellon = None


def mellon():
    """Import mellon from /repo's working tree (never from an installed copy)."""
    global _mellon
    if _mellon is None:
        import mellon as m
        root = os.path.realpath(os.path.dirname(os.path.dirname(m.__file__)))
        if root != os.path.realpath(REPO):
            raise RuntimeError(f"mellon imported from {root}, expected {REPO}")
        logging.getLogger("mellon").setLevel(logging.CRITICAL)
        logging.getLogger("mellon").propagate = False
        for h in list(logging.getLogger("mellon").handlers):
            logging.getLogger("mellon").removeHandler(h)
        logging.getLogger("mellon").addHandler(logging.NullHandler())
        _mellon = m
    return _mellon


# ------------------------------------------------------------------ floats <-> bits

def bits(a):
    a = np.ascontiguousarray(np.asarray(a, dtype=np.float64))
    return " ".join(map(str, a.ravel().view(np.uint64).tolist()))


def fbit(x):
    return str(int(np.float64(x).view(np.uint64)))


def unbits(tokens, shape=None):
    a = np.array([int(t) for t in tokens], dtype=np.uint64).view(np.float64)
    return a.reshape(shape) if shape is not None else a


# ------------------------------------------------------------------ driver

class Driver:
    """Persistent Lean model process speaking the line protocol."""

    def __init__(self):
        if os.path.exists(DRIVER):
            cmd = [DRIVER]
        else:  # interpreter fallback
            cmd = ["lake", "env", "lean", "--run", "Main.lean"]
        self.p = subprocess.Popen(cmd, cwd=LEAN_DIR, stdin=subprocess.PIPE, stdout=subprocess.PIPE,
                                  text=True, bufsize=1 << 20)
        self.n = 0
        if self.ask("ping") != "pong":
            raise RuntimeError("driver does not answer")

    def ask(self, line):
        self.p.stdin.write(line + "\n")
        self.p.stdin.flush()
        out = self.p.stdout.readline()
        if not out:
            raise RuntimeError("driver died on: " + line[:200])
        self.n += 1
        return out.rstrip("\n")

    def close(self):
        try:
            self.p.stdin.close()
            self.p.wait(timeout=5)
        except Exception:
            self.p.kill()


# ------------------------------------------------------------------ kernel expression grammar
# tree  := (KIND, ls, ad) | ('RQ', alpha, ls, ad) | ('ADD'|'MUL', l, r, ad)
#        | ('ADDC'|'MULC'|'POW', l, scalar, ad)
# ad    := ('AN',) | ('AI', z) | ('AL', [z..]) | ('AM', [b..]) | ('AS', a, b, c)

LEAVES = ["M32", "M52", "EQ", "EX", "RQ", "LIN"]
STATIONARY = ["M32", "M52", "EQ", "EX", "RQ"]


def ad_to_py(ad):
    k = ad[0]
    if k == "AN":
        return None
    if k == "AI":
        return int(ad[1])
    if k == "AL":
        return [int(z) for z in ad[1]]
    if k == "AM":
        return np.array(ad[1], dtype=bool)
    if k == "AS":
        return slice(ad[1], ad[2], ad[3])
    raise ValueError(ad)


def ad_tokens(ad):
    k = ad[0]
    opt = lambda v: "N" if v is None else str(int(v))
    if k == "AN":
        return "AN"
    if k == "AI":
        return f"AI {int(ad[1])}"
    if k == "AL":
        return "AL %d %s" % (len(ad[1]), " ".join(str(int(z)) for z in ad[1]))
    if k == "AM":
        return "AM %d %s" % (len(ad[1]), " ".join("T" if b else "F" for b in ad[1]))
    if k == "AS":
        return f"AS {opt(ad[1])} {opt(ad[2])} {opt(ad[3])}"
    raise ValueError(ad)


def ad_indices(ad, d):
    """Resolved column indices for width d (python semantics), used for width bookkeeping."""
    k = ad[0]
    if k == "AN":
        return list(range(d))
    if k == "AI":
        return [range(d)[ad[1]]]
    if k == "AL":
        return [range(d)[z] for z in ad[1]]
    if k == "AM":
        assert len(ad[1]) == d
        return [i for i, b in enumerate(ad[1]) if b]
    if k == "AS":
        return list(range(d))[slice(ad[1], ad[2], ad[3])]
    raise ValueError(ad)


def cov_to_mellon_ops(t):
    """The same expression tree built the way users write it: with the `+`, `*`, `**` operators (scalars on the
    left or on the right, chosen by the tree so that a case replays), the node's own active_dims assigned afterwards."""
    k = t[0]
    if k in LEAVES:
        return cov_to_mellon(t)
    a = cov_to_mellon_ops(t[1])
    if k in ("ADD", "MUL"):
        b = cov_to_mellon_ops(t[2])
        c = a + b if k == "ADD" else a * b
    else:
        v = float(t[2])
        left = int(abs(v) * 1e6) % 2 == 1
        if k == "ADDC":
            c = (v + a) if left else (a + v)
        elif k == "MULC":
            c = (v * a) if left else (a * v)
        else:
            c = a ** v
    c.active_dims = ad_to_py(t[3])
    return c


def cov_to_mellon(t):
    m = mellon()
    k = t[0]
    cls = {"M32": m.cov.Matern32, "M52": m.cov.Matern52, "EQ": m.cov.ExpQuad,
           "EX": m.cov.Exponential, "LIN": m.cov.Linear}
    from mellon.base_cov import Add, Mul, Pow
    if k in cls:
        return cls[k](ls=float(t[1]), active_dims=ad_to_py(t[2]))
    if k == "RQ":
        return m.cov.RatQuad(alpha=float(t[1]), ls=float(t[2]), active_dims=ad_to_py(t[3]))
    if k in ("ADD", "MUL"):
        c = {"ADD": Add, "MUL": Mul}[k](cov_to_mellon(t[1]), cov_to_mellon(t[2]))
        c.active_dims = ad_to_py(t[3])
        return c
    if k in ("ADDC", "MULC", "POW"):
        c = {"ADDC": Add, "MULC": Mul, "POW": Pow}[k](cov_to_mellon(t[1]), float(t[2]))
        c.active_dims = ad_to_py(t[3])
        return c
    raise ValueError(t)


def cov_tokens(t):
    k = t[0]
    if k in ("M32", "M52", "EQ", "EX", "LIN"):
        return f"{k} {fbit(t[1])} {ad_tokens(t[2])}"
    if k == "RQ":
        return f"RQ {fbit(t[1])} {fbit(t[2])} {ad_tokens(t[3])}"
    if k in ("ADD", "MUL"):
        return f"{k} {cov_tokens(t[1])} {cov_tokens(t[2])} {ad_tokens(t[3])}"
    if k in ("ADDC", "MULC", "POW"):
        return f"{k} {cov_tokens(t[1])} {fbit(t[2])} {ad_tokens(t[3])}"
    raise ValueError(t)


def cov_depth(t):
    if t[0] in LEAVES:
        return 0
    if t[0] in ("ADD", "MUL"):
        return 1 + max(cov_depth(t[1]), cov_depth(t[2]))
    return 1 + cov_depth(t[1])


def cov_str(t):
    return json.dumps(t, default=lambda o: o.tolist() if hasattr(o, "tolist") else str(o))


def gen_ad(rng, d, allow_repeat=False, forms=None):
    """A random active_dims form valid for width d, selecting at least one column."""
    forms = forms or ["AN", "AI", "AIneg", "AL", "AM", "AS"]
    f = forms[rng.integers(len(forms))]
    if f == "AN":
        return ("AN",)
    if f == "AI":
        return ("AI", int(rng.integers(0, d)))
    if f == "AIneg":
        return ("AI", -int(rng.integers(1, d + 1)))
    if f == "AL":
        k = int(rng.integers(1, d + 1))
        if allow_repeat:
            zs = rng.integers(-d, d, size=k)
        else:
            zs = rng.permutation(d)[:k]
            zs = [int(z) - (d if rng.random() < 0.3 else 0) for z in zs]
        return ("AL", [int(z) for z in zs])
    if f == "AM":
        while True:
            bs = [bool(b) for b in rng.random(d) < 0.6]
            if any(bs):
                return ("AM", bs)
    if f == "AS":
        while True:
            a = None if rng.random() < 0.4 else int(rng.integers(-d, d + 1))
            b = None if rng.random() < 0.4 else int(rng.integers(-d, d + 1))
            c = None if rng.random() < 0.5 else int(rng.choice([1, 2, -1, -2, 3]))
            if len(list(range(d))[slice(a, b, c)]) >= 1:
                return ("AS", a, b, c)
    raise ValueError(f)


def loguniform(rng, lo, hi):
    return float(np.exp(rng.uniform(np.log(lo), np.log(hi))))


def gen_leaf(rng, d, kinds=None, ls_range=(0.1, 100.0), ad_forms=None):
    kinds = kinds or LEAVES
    k = kinds[rng.integers(len(kinds))]
    ad = gen_ad(rng, d, forms=ad_forms)
    ls = loguniform(rng, *ls_range)
    if k == "RQ":
        return ("RQ", loguniform(rng, 0.05, 50.0), ls, ad)
    return (k, ls, ad)


def gen_cov(rng, d, depth, kinds=None, ls_range=(0.1, 100.0), ad_forms=None, pow_range=(0.1, 10.0),
            allow_linear_in_pow=False, nat_pow_prob=0.0):
    """Random kernel expression of the given depth for inputs of width d.

    nat_pow_prob (default 0: behaviour and random stream unchanged): probability that a power node gets a
    natural-number exponent (1..4) over a base of ANY sign (Linear leaves allowed) instead of a real exponent from
    pow_range over a positive base."""
    if depth == 0:
        return gen_leaf(rng, d, kinds, ls_range, ad_forms)
    op = ["ADD", "ADDC", "MUL", "MULC", "POW"][rng.integers(5)]
    ad = gen_ad(rng, d, forms=ad_forms)
    w = len(ad_indices(ad, d))
    sub = lambda dep, kk=kinds: gen_cov(rng, w, dep, kk, ls_range, ad_forms, pow_range, nat_pow_prob=nat_pow_prob)
    if op in ("ADD", "MUL"):
        dl = depth - 1
        dr = int(rng.integers(0, depth))
        if rng.random() < 0.5:
            dl, dr = dr, dl
        return (op, sub(dl), sub(dr), ad)
    if op in ("ADDC", "MULC"):
        return (op, sub(depth - 1), loguniform(rng, 0.01, 10.0), ad)
    if nat_pow_prob > 0 and rng.random() < nat_pow_prob:
        # natural-number power: defined and smooth for a base value of any sign
        return ("POW", sub(depth - 1), float(rng.integers(1, 5)), ad)
    # power: base must be positive for non-integer powers -> stationary kernels only
    kk = [k for k in (kinds or LEAVES) if k != "LIN"] or STATIONARY
    base = gen_cov(rng, w, depth - 1, kk, ls_range, ad_forms, pow_range, nat_pow_prob=nat_pow_prob)
    while not cov_positive(base):
        base = gen_cov(rng, w, depth - 1, kk, ls_range, ad_forms, pow_range, nat_pow_prob=nat_pow_prob)
    return ("POW", base, loguniform(rng, *pow_range), ad)


def cov_positive(t):
    """Values provably > 0 (so that real powers are defined)."""
    k = t[0]
    if k in STATIONARY:
        return True
    if k == "LIN":
        return False
    if k in ("ADD", "MUL"):
        return cov_positive(t[1]) and cov_positive(t[2])
    if k in ("ADDC", "MULC"):
        return cov_positive(t[1]) and t[2] > 0
    if k == "POW":
        return cov_positive(t[1])
    return False


# ------------------------------------------------------------------ data generators

def gen_points(rng, n, d, kind=None, scale=None):
    """Structured data: clustered / near-duplicate / anisotropic / plain."""
    kind = kind or ["plain", "clustered", "neardup", "aniso"][rng.integers(4)]
    scale = scale if scale is not None else loguniform(rng, 0.1, 10.0)
    if kind == "plain":
        X = rng.normal(size=(n, d))
    elif kind == "clustered":
        k = int(rng.integers(1, 4))
        centers = rng.normal(size=(k, d)) * 3
        X = centers[rng.integers(k, size=n)] + 0.3 * rng.normal(size=(n, d))
    elif kind == "neardup":
        X = rng.normal(size=(n, d))
        for _ in range(max(1, n // 4)):
            i, j = rng.integers(n, size=2)
            X[i] = X[j] + 1e-3 * rng.normal(size=d)
    elif kind == "aniso":
        X = rng.normal(size=(n, d)) * np.exp(rng.uniform(-2, 2, size=d))
    else:
        raise ValueError(kind)
    return np.ascontiguousarray(X * scale), kind


# ------------------------------------------------------------------ results / verdict

class Finding:
    def __init__(self, kind, what, case, detail=None, signature=None):
        self.kind = kind            # 'oracle' (property fails on the implementation) | 'corr' (model≠impl)
        self.what = what            # short text
        self.case = case            # JSON-able replay payload
        self.detail = detail
        self.signature = signature  # key into known_findings.json


class Result:
    def __init__(self, pid):
        self.pid = pid
        self.evaluations = 0
        self.nontrivial = set()
        self.samples = []
        self.dist = {}
        self.findings = []
        self.max_dev = {}
        self.notes = []
        self.partial_clauses = []
        self.exhaustive = False
        self.rule = ""

    def count(self, key, n=1):
        self.dist[key] = self.dist.get(key, 0) + n

    def case(self, canon, nontrivial=True, sample=None):
        self.evaluations += 1
        if nontrivial:
            self.nontrivial.add(hashlib.sha1(repr(canon).encode()).hexdigest())
        if sample is not None and len(self.samples) < 6:
            self.samples.append(sample)

    def dev(self, key, v):
        v = float(v)
        if v != v:
            # a NaN deviation makes every `dev > tol` comparison False: remember it, the runner turns it into a finding
            # for the case unless the case reported one itself
            self.nan_devs = getattr(self, "nan_devs", [])
            self.nan_devs.append(key)
        if not math.isfinite(v):
            v = 1e300
        if key not in self.max_dev or v > self.max_dev[key]:
            self.max_dev[key] = v

    def oracle_fail(self, what, case, detail=None, signature=None):
        self.findings.append(Finding("oracle", what, case, detail, signature))

    def corr_fail(self, what, case, detail=None):
        self.findings.append(Finding("corr", what, case, detail))


def jsonable(o):
    if isinstance(o, np.ndarray):
        return {"__nd__": True, "dtype": str(o.dtype), "shape": list(o.shape),
                "bits": [int(v) for v in o.astype(np.float64).ravel().view(np.uint64)]
                if o.dtype.kind == "f" else o.ravel().tolist()}
    if isinstance(o, (np.floating,)):
        return float(o)
    if isinstance(o, (np.integer,)):
        return int(o)
    if isinstance(o, (np.bool_,)):
        return bool(o)
    if isinstance(o, (set, frozenset)):
        return sorted(o, key=repr)
    if isinstance(o, tuple):
        return list(o)
    if hasattr(o, "tolist"):
        return o.tolist()
    return repr(o)


def from_jsonable(o):
    if isinstance(o, dict) and o.get("__nd__"):
        if o["dtype"].startswith("float"):
            return np.array(o["bits"], dtype=np.uint64).view(np.float64).reshape(o["shape"])
        return np.array(o["bits"], dtype=o["dtype"]).reshape(o["shape"])
    if isinstance(o, dict):
        return {k: from_jsonable(v) for k, v in o.items()}
    if isinstance(o, list):
        return [from_jsonable(v) for v in o]
    return o


def totuple(o):
    """lists -> tuples recursively (cov trees come back from JSON as lists)."""
    if isinstance(o, list):
        return tuple(totuple(v) for v in o)
    return o


def rel_err(a, b, scale=None):
    a = np.asarray(a, dtype=float)
    b = np.asarray(b, dtype=float)
    if a.shape != b.shape:
        return float("inf")
    if a.size == 0:
        return 0.0
    s = scale if scale is not None else max(np.max(np.abs(a)), np.max(np.abs(b)), 1e-300)
    with np.errstate(invalid="ignore"):
        dlt = np.abs(a - b)
    if np.any(np.isnan(dlt)):
        # NaN positions must coincide
        if np.array_equal(np.isnan(a), np.isnan(b)):
            dlt = np.where(np.isnan(dlt), 0.0, dlt)
        else:
            return float("inf")
    return float(np.max(dlt) / s)


def exc_class(e):
    """Canonical outcome class of an exception."""
    if isinstance(e, ValueError) and type(e).__name__ in ("ValueError",):
        return "ValueError"
    if isinstance(e, TypeError) and type(e).__name__ == "TypeError":
        return "TypeError"
    return "Internal:" + type(e).__name__
