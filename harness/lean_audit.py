"""Build the Lean project and audit the theorems that decide a property:
 * `lake build` of the model, the driver and the property's proof module;
 * textual audit (no sorry/admit/axiom/native_decide/bv_decide/implemented_by/unsafe/maxHeartbeats 0
   outside comments);
 * `#print axioms` of every obligation  ⊆ {propext, Classical.choice, Quot.sound}.
Results are cached under lean/.lake keyed by a hash of the Lean sources (the proofs do not depend on
/repo; the tie to /repo is the correspondence check)."""
import os, re, json, hashlib, subprocess, time
from .common import LEAN_DIR, VERIF

ALLOWED_AXIOMS = {"propext", "Classical.choice", "Quot.sound"}
FORBIDDEN = re.compile(r"\b(sorry|admit|native_decide|bv_decide|implemented_by|unsafe)\b|^\s*axiom\s|maxHeartbeats\s+0\b",
                       re.M)


def obligations():
    with open(os.path.join(LEAN_DIR, "obligations.json")) as f:
        return json.load(f)


def lean_sources():
    out = []
    for root, dirs, files in os.walk(LEAN_DIR):
        dirs[:] = [d for d in dirs if d != ".lake"]
        for fn in sorted(files):
            if fn.endswith(".lean") or fn in ("lakefile.toml", "obligations.json"):
                out.append(os.path.join(root, fn))
    return sorted(out)


def source_hash():
    h = hashlib.sha256()
    for p in lean_sources():
        h.update(p.encode())
        with open(p, "rb") as f:
            h.update(f.read())
    return h.hexdigest()


def strip_comments(src):
    # block comments (nested) then line comments
    out = []
    i, depth, n = 0, 0, len(src)
    while i < n:
        if src.startswith("/-", i):
            depth += 1
            i += 2
        elif src.startswith("-/", i) and depth > 0:
            depth -= 1
            i += 2
        elif depth > 0:
            if src[i] == "\n":
                out.append("\n")
            i += 1
        elif src.startswith("--", i):
            while i < n and src[i] != "\n":
                i += 1
        else:
            out.append(src[i])
            i += 1
    return "".join(out)


def textual_audit():
    hits = []
    for p in lean_sources():
        if not p.endswith(".lean"):
            continue
        with open(p) as f:
            body = strip_comments(f.read())
        # string literals may legitimately mention words; drop them
        body = re.sub(r'"(\\.|[^"\\])*"', '""', body)
        for m in FORBIDDEN.finditer(body):
            line = body.count("\n", 0, m.start()) + 1
            hits.append(f"{os.path.relpath(p, VERIF)}:{line}: {m.group(0).strip()}")
    return hits


def run(cmd, timeout=3600):
    p = subprocess.run(cmd, cwd=LEAN_DIR, stdout=subprocess.PIPE, stderr=subprocess.STDOUT, text=True,
                       timeout=timeout)
    return p.returncode, p.stdout


def build(targets):
    rc, out = run(["lake", "build"] + targets)
    return rc == 0, out


def print_axioms(module, names):
    src = f"import {module}\n" + "\n".join(f"#print axioms {n}" for n in names) + "\n"
    tmp = os.path.join(LEAN_DIR, ".lake", f"_audit_{module.replace('.', '_')}.lean")
    with open(tmp, "w") as f:
        f.write(src)
    rc, out = run(["lake", "env", "lean", tmp])
    res = {}
    # "'Name' depends on axioms: [a, b]"  /  "'Name' does not depend on any axioms"
    for m in re.finditer(r"'([^']+)' depends on axioms: \[([^\]]*)\]", out, re.S):
        res[m.group(1)] = [a.strip() for a in m.group(2).replace("\n", " ").split(",") if a.strip()]
    for m in re.finditer(r"'([^']+)' does not depend on any axioms", out):
        res[m.group(1)] = []
    return rc, out, res


def audit(pid, thorough=False):
    """Returns a dict: build_ok, obligations, discharged, failed (name -> reason), hits, log."""
    t0 = time.time()
    obl = obligations().get(pid, {})
    module = obl.get("module", f"MellonProofs.{pid}")
    names = obl.get("theorems", [])
    key = source_hash()
    cache = os.path.join(LEAN_DIR, ".lake", f"audit_{pid}.json")
    if os.path.exists(cache) and os.path.exists(os.path.join(LEAN_DIR, ".lake", "build", "bin", "mellon_driver")):
        try:
            with open(cache) as f:
                c = json.load(f)
            if c.get("key") == key and (c.get("leanchecker") or not thorough):
                c["cached"] = True
                c["wall_s"] = time.time() - t0
                return c
        except Exception:
            pass
    res = {"key": key, "module": module, "obligations": names, "discharged": [], "failed": {}, "hits": [],
           "build_ok": False, "driver_ok": False, "log": "", "cached": False, "leanchecker": None}
    ok, out = build(["MellonModel", "mellon_driver"])
    res["driver_ok"] = ok
    if not ok:
        res["log"] = out[-4000:]
    okp, outp = build([module])
    res["build_ok"] = okp
    if not okp:
        res["log"] += outp[-4000:]
    res["hits"] = textual_audit()
    if okp and names:
        rc, out, ax = print_axioms(module, names)
        for n in names:
            if n not in ax:
                res["failed"][n] = "not found / did not elaborate"
            elif not set(ax[n]) <= ALLOWED_AXIOMS:
                res["failed"][n] = "axioms: " + ", ".join(ax[n])
            else:
                res["discharged"].append(n)
        if rc != 0 and not res["failed"]:
            res["failed"]["#print axioms"] = out[-2000:]
    else:
        for n in names:
            res["failed"][n] = "proof module does not build"
    if thorough and okp:
        rc, out = run(["lake", "env", "leanchecker", module], timeout=3600)
        res["leanchecker"] = {"rc": rc, "tail": out[-500:]}
        if rc != 0:
            res["failed"]["leanchecker"] = out[-1000:]
    res["wall_s"] = time.time() - t0
    if res["driver_ok"] and res["build_ok"]:
        os.makedirs(os.path.dirname(cache), exist_ok=True)
        with open(cache, "w") as f:
            json.dump(res, f)
    return res
