"""Shared helpers for the conditional-predictor properties (C01, C02, C06, C09, C16):
building predictors through mellon.inference.compute_conditional*, the same construction through the
Lean driver, and numpy reference matrices."""
import numpy as np
from .common import (mellon, bits, unbits, fbit, cov_to_mellon, cov_tokens, exc_class, loguniform, gen_points,
                     gen_cov, STATIONARY)

EPS = np.finfo(float).eps


def sigma_tokens(sigma):
    if sigma is None:
        return "SN"
    s = np.asarray(sigma, float)
    if s.ndim == 0:
        return "SS " + fbit(float(s))
    return "SV " + bits(s)


def sigma_tokens_cells(sigma):
    """`sigma` of the landmark (DTC) family: a vector is the noise of the CELLS and travels with its length (the
    driver refuses a length other than the number of cells, as the implementation does)."""
    if sigma is None:
        return "SN"
    s = np.asarray(sigma, float)
    if s.ndim == 0:
        return "SS " + fbit(float(s))
    return f"SVL {s.shape[0]} " + bits(s)


def opt_mat(M):
    return "N" if M is None else "Y " + bits(M)


def opt_any(M):
    if M is None:
        return "N"
    M = np.atleast_2d(np.asarray(M, float))
    return f"Y {M.shape[0]} {M.shape[1]} {bits(M)}"


def as2d(y):
    y = np.asarray(y, float)
    return y[:, None] if y.ndim == 1 else y


def parse_state(out, m, c, q):
    """Parse the driver's evalState reply into a dict."""
    if not out.startswith("ok"):
        return {"status": out.strip()}
    parts = [p.strip() for p in out.split("|")]
    res = {"status": "ok"}
    for p in parts[1:]:
        toks = p.split()
        name = toks[0]
        if name in ("weights", "mean"):
            shape = (m, c) if name == "weights" else (q, c)
            res[name] = unbits(toks[1:], shape)
        else:
            if toks[1] == "ok":
                shape = {"var": (q,), "cov": (q, q), "mvar": (q,), "mcov": (q, q), "unc": (q, q), "uncd": (q,)}[name]
                res[name] = unbits(toks[2:], shape)
            else:
                res[name] = toks[1]
    return res


def model_full(drv, tree, X, Y, mu, L, sigma, jitter, ycf, y_is_mean, with_unc, Xq):
    n, d = X.shape
    Y2 = as2d(Y)
    line = (f"fullcond {cov_tokens(tree)} {n} {d} {bits(X)} {Y2.shape[1]} {bits(Y2)} {fbit(mu)} {opt_mat(L)} "
            f"{sigma_tokens(sigma)} {fbit(jitter)} {opt_any(ycf)} {'T' if y_is_mean else 'F'} "
            f"{'T' if with_unc else 'F'} {Xq.shape[0]} {bits(Xq)}")
    return parse_state(drv.ask(line), n, Y2.shape[1], Xq.shape[0])


def model_lm(drv, tree, X, Xu, Y, mu, sigma, jitter, ycf, y_is_mean, with_unc, Xq):
    n, d = X.shape
    m = Xu.shape[0]
    Y2 = as2d(Y)
    line = (f"lmcond {cov_tokens(tree)} {n} {d} {bits(X)} {m} {bits(Xu)} {Y2.shape[1]} {bits(Y2)} {fbit(mu)} "
            f"{sigma_tokens_cells(sigma)} {fbit(jitter)} {opt_any(ycf)} {'T' if y_is_mean else 'F'} "
            f"{'T' if with_unc else 'F'} {Xq.shape[0]} {bits(Xq)}")
    return parse_state(drv.ask(line), m, Y2.shape[1], Xq.shape[0])


def model_lmchol(drv, tree, Xu, Z, mu, n_obs, L, sigma, jitter, y_is_mean, with_unc, Xq):
    m, d = Xu.shape
    Z2 = as2d(Z)
    line = (f"lmcholcond {cov_tokens(tree)} {m} {d} {bits(Xu)} {Z2.shape[1]} {bits(Z2)} {fbit(mu)} {int(n_obs)} "
            f"{opt_mat(L)} {sigma_tokens(sigma)} {fbit(jitter)} {'T' if y_is_mean else 'F'} "
            f"{'T' if with_unc else 'F'} {Xq.shape[0]} {bits(Xq)}")
    return parse_state(drv.ask(line), m, Z2.shape[1], Xq.shape[0])


def build_impl(variant, x, landmarks, pre_transformation, pre_transformation_std, y, mu, cov, L, Lp, sigma, jitter,
               y_is_mean, with_unc):
    """variant in {'plain','exp','time'} -> predictor object (or raises)."""
    inf = mellon().inference
    f = {"plain": inf.compute_conditional, "exp": inf.compute_conditional_explog,
         "time": inf.compute_conditional_times}[variant]
    import jax.numpy as jnp
    j = lambda a: None if a is None else jnp.asarray(a)
    return f(j(x), j(landmarks), j(pre_transformation), j(pre_transformation_std), j(y), mu, cov, j(L), j(Lp),
             sigma=sigma if (sigma is None or np.ndim(sigma) == 0) else jnp.asarray(sigma), jitter=jitter,
             y_is_mean=y_is_mean, with_uncertainty=with_unc)


def noise_matrix(n, sigma, jitter, y_is_mean, ycf=None):
    """The regulariser N the property states: max(sigma^2, jitter) on the diagonal (per entry for vectors),
    jitter when y is the mean or sigma = 0; M M^T with floored diagonal for a supplied factor."""
    if y_is_mean:
        return jitter * np.eye(n)
    if ycf is not None:
        Nn = ycf @ ycf.T
        dg = np.diag(Nn)
        return Nn + np.diag(np.where(dg < jitter, jitter - dg, 0.0))
    s = np.asarray(sigma, float)
    s2 = np.broadcast_to(s ** 2, (n,)).copy()
    return np.diag(np.where(s2 < jitter, jitter, s2))


def kernel_np(cov, A, B):
    return np.asarray(cov(np.asarray(A, float), np.asarray(B, float)), float)


def gen_stationary_tree(rng, d, ls, composite=True, linear_p=0.12):
    """A PSD kernel tree with length scale ~ls (leaf, or a small PSD-preserving composition).  With probability
    `linear_p` the tree contains the (non-stationary) Linear kernel, so that prior variances differ between points."""
    k = STATIONARY[rng.integers(len(STATIONARY))]
    leaf = lambda kk, l: (("RQ", loguniform(rng, 0.5, 5.0), l, ("AN",)) if kk == "RQ" else (kk, l, ("AN",)))
    t = leaf(k, ls)
    if linear_p and rng.random() < linear_p:
        lin = ("LIN", loguniform(rng, 1.0, 10.0), ("AN",))
        return ("ADD", t, lin, ("AN",)) if rng.random() < 0.7 else ("ADD", ("MULC", t, 0.3, ("AN",)), lin, ("AN",))
    if composite and rng.random() < 0.35:
        k2 = STATIONARY[rng.integers(len(STATIONARY))]
        r = rng.random()
        if r < 0.4:
            t = ("ADD", t, leaf(k2, ls * loguniform(rng, 0.5, 2.0)), ("AN",))
        elif r < 0.7:
            t = ("MULC", t, loguniform(rng, 0.3, 3.0), ("AN",))
        else:
            t = ("MUL", t, leaf(k2, ls * loguniform(rng, 1.0, 4.0)), ("AN",))
    return t


def time_tree(kind, ls, ls_time):
    return ("MUL", (kind, ls, ("AS", None, -1, None)), (kind, ls_time, ("AI", -1)), ("AN",))
