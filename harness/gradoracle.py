"""Independent closed-form oracle for kernel GRADIENTS (d k(x_i, y_j) / d y_j), in interval form.

For every pair (x_i, y_j) and every coordinate c it returns [lo, hi] containing
  * the real-number partial derivative of the documented kernel expression, and
  * what the implementation's formula gives in float64 for any summation order of `xx - 2xy + yy + 1e-12`
    (the squared distance is the only ill-conditioned step), including the factor
    gamma = dist / (dist + 1e-12) that `distance_grad` introduces by dividing by `dist + eps`.
The oracle is written from the mathematical definitions (phi'(s)/s * (y - x)), not from the code, and shares
nothing with the Lean model.  `mass` is the sum of absolute contributions (the natural scale of the gradient:
relative statements about a sum of leaves are made against it), `massd` bounds the rounding error that is specific
to forward-mode AD of the kernel VALUE: forming `2y - 2x` from `xx - 2xy + yy`, and the cancellation
`(1 + 2r/3) e^{-r} - (1 + r + r^2/3) e^{-r}` in the Matern profiles at tiny r.

Powers: for a natural-number exponent m >= 1 the base may take ANY sign (e.g. a Linear kernel): `u -> u^m` and the
chain-rule factor `m u^(m-1)` are bounded over an interval [a, b] of any sign by parity (odd powers are monotone,
even powers have their minimum 0 inside an interval that contains 0).  For every other exponent the base must be
positive (the interval is clamped at 0, as in covoracle)."""
import numpy as np
from .common import ad_indices
from . import covoracle as co

EPS = np.finfo(float).eps
GUARD = 1e-12


def imul(a, b):
    c = np.stack(np.broadcast_arrays(a[0] * b[0], a[0] * b[1], a[1] * b[0], a[1] * b[1]))
    return c.min(0), c.max(0)


def widen(iv, rel):
    lo, hi = iv
    a = rel * np.maximum(np.abs(lo), np.abs(hi)) + 1e-300
    return lo - a, hi + a


def psi(kind, ls, alpha, s):
    """phi'(s)/s for the radial profile phi (negative, |psi| decreasing in s) and the size of the exponent."""
    with np.errstate(divide="ignore", over="ignore", invalid="ignore"):
        if kind == "M32":
            f = np.sqrt(3.0) / ls
            return -f * f * np.exp(-f * s), f * s
        if kind == "M52":
            f = np.sqrt(5.0) / ls
            return -(f * f / 3.0) * (1 + f * s) * np.exp(-f * s), f * s
        if kind == "EQ":
            return -(1.0 / ls ** 2) * np.exp(-s * s / (2 * ls * ls)), s * s / (2 * ls * ls)
        if kind == "EX":
            return -(1.0 / (2 * ls * s)) * np.exp(-s / (2 * ls)), s / (2 * ls)
        if kind == "RQ":
            base = 1 + s * s / (2 * alpha * ls * ls)
            return -(1.0 / ls ** 2) * base ** (-alpha - 1), (alpha + 1) * np.log(base)
    raise ValueError(kind)


def is_natural(p):
    """p is a natural number >= 1 (the exponents for which base ** p is defined and smooth for a base of any sign)."""
    p = float(p)
    return 1.0 <= p <= 64.0 and p == np.floor(p)


def ipow_interval(lo, hi, m):
    """{u^m : lo <= u <= hi} for an integer m >= 0 and intervals of any sign."""
    m = int(m)
    lo, hi = np.asarray(lo, float), np.asarray(hi, float)
    if m == 0:
        return np.ones_like(lo), np.ones_like(hi)
    with np.errstate(over="ignore", invalid="ignore"):
        a, b = lo ** m, hi ** m
    if m % 2 == 1:
        return a, b                                   # odd power: increasing
    straddle = (lo < 0) & (hi > 0)
    return np.where(straddle, 0.0, np.minimum(a, b)), np.maximum(a, b)


def _logmag(lo, hi):
    with np.errstate(divide="ignore", invalid="ignore"):
        return np.abs(np.log(np.maximum(np.maximum(np.abs(lo), np.abs(hi)), 1e-300)))


def value_interval(t, X, Y):
    """(lo, hi) arrays (n, m) enclosing the kernel VALUE: covoracle.interval, extended to natural-number powers of
    sub-expressions of any sign (covoracle clamps every power base at 0, which is only right for positive bases)."""
    with np.errstate(all="ignore"):
        return _value_interval(t, X, Y)


def _value_interval(t, X, Y):
    k = t[0]
    if k in ("M32", "M52", "EQ", "EX", "RQ", "LIN"):
        return co.interval(t, X, Y)
    ad = t[-1]
    Xs, Ys = co.sel(ad, X), co.sel(ad, Y)
    l = _value_interval(t[1], Xs, Ys)
    if k == "ADD":
        r = _value_interval(t[2], Xs, Ys)
        return co.widen(l[0] + r[0], l[1] + r[1], 4 * EPS)
    if k == "ADDC":
        return co.widen(l[0] + t[2], l[1] + t[2], 4 * EPS)
    if k == "MUL":
        r = _value_interval(t[2], Xs, Ys)
        c = np.stack([l[0] * r[0], l[0] * r[1], l[1] * r[0], l[1] * r[1]])
        return co.widen(c.min(0), c.max(0), 4 * EPS)
    if k == "MULC":
        c = np.stack([l[0] * t[2], l[1] * t[2]])
        return co.widen(c.min(0), c.max(0), 4 * EPS)
    if k == "POW":
        p = float(t[2])
        if is_natural(p):
            a, b = ipow_interval(l[0], l[1], int(p))
            return co.widen(a, b, 4e-14 * (1 + p * _logmag(l[0], l[1])))
        lo = np.maximum(l[0], 0.0)
        a, b = lo ** p, l[1] ** p
        arg = np.abs(p * np.log(np.maximum(lo, 1e-300)))
        return co.widen(np.minimum(a, b), np.maximum(a, b), 4e-14 * (1 + arg))
    raise ValueError(t)


def scatter(ad, d, arr):
    """zeros(..., d) with arr added at the selected columns (repeated indices accumulate)."""
    if ad[0] == "AN":
        return arr
    idx = np.asarray(ad_indices(ad, d), dtype=int)
    out = np.zeros(arr.shape[:-1] + (d,))
    np.add.at(out, (slice(None), slice(None), idx), arr)
    return out


def grad_interval(t, X, Y):
    with np.errstate(all="ignore"):
        return _grad_interval(t, X, Y)


def _grad_interval(t, X, Y):
    """dict(lo, hi, mass, massd, gmin, wellcond): arrays (n, m, d) except gmin/wellcond (n, m)."""
    k = t[0]
    n, d = X.shape
    m = Y.shape[0]
    if k in ("M32", "M52", "EQ", "EX", "RQ"):
        if k == "RQ":
            alpha, ls, ad = t[1], t[2], t[3]
        else:
            alpha, ls, ad = None, t[1], t[2]
        Xs, Ys = co.sel(ad, X), co.sel(ad, Y)
        slo, shi = co.sq_interval(Xs, Ys)
        well = (shi - slo) <= 0.5 * slo
        dlo, dhi = np.sqrt(np.where(well, slo, shi)), np.sqrt(shi)
        gmin = dlo / (dlo + GUARD)
        p_lo, arg = psi(k, ls, alpha, dlo)           # most negative
        p_hi, _ = psi(k, ls, alpha, dhi)
        P = (p_lo, p_hi * gmin)
        delta = Ys[None, :, :] - Xs[:, None, :]
        derr = 4 * EPS * np.abs(delta)
        D = (delta - derr, delta + derr)
        lo, hi = imul((P[0][..., None], P[1][..., None]), D)
        lo, hi = widen((lo, hi), 1e-13 * (1 + arg[..., None]))
        pm = np.abs(p_lo)[..., None]
        mass = pm * np.abs(delta)
        massd = pm * 8 * EPS * (np.abs(Ys)[None, :, :] + np.abs(Xs)[:, None, :])
        if k in ("M32", "M52"):
            # AD of (1 + r [+ r^2/3]) e^{-r} subtracts two O(1) terms to get the O(r) derivative: abs error ~ eps * |dr|
            f = np.sqrt(3.0 if k == "M32" else 5.0) / ls
            massd = massd + 8 * EPS * f * np.abs(delta) / dlo[..., None]
        return dict(lo=scatter(ad, d, lo), hi=scatter(ad, d, hi), mass=scatter(ad, d, mass),
                    massd=scatter(ad, d, massd), gmin=gmin, wellcond=well)
    if k == "LIN":
        ad = t[2]
        Xs = co.sel(ad, X)
        v = np.repeat(Xs[:, None, :], m, axis=1) / t[1]
        a = 4 * EPS * np.abs(v) + 1e-300
        one = np.ones((n, m))
        return dict(lo=scatter(ad, d, v - a), hi=scatter(ad, d, v + a), mass=scatter(ad, d, np.abs(v)),
                    massd=scatter(ad, d, np.zeros_like(v)), gmin=one, wellcond=one.astype(bool))
    ad = t[-1]
    Xs, Ys = co.sel(ad, X), co.sel(ad, Y)
    L = _grad_interval(t[1], Xs, Ys)
    if k in ("ADD", "MUL"):
        R = _grad_interval(t[2], Xs, Ys)
        gmin = np.minimum(L["gmin"], R["gmin"])
        well = L["wellcond"] & R["wellcond"]
        if k == "ADD":
            lo, hi = widen((L["lo"] + R["lo"], L["hi"] + R["hi"]), 4 * EPS)
            mass, massd = L["mass"] + R["mass"], L["massd"] + R["massd"]
        else:
            lk, rk = _value_interval(t[1], Xs, Ys), _value_interval(t[2], Xs, Ys)
            a = imul((L["lo"], L["hi"]), (rk[0][..., None], rk[1][..., None]))
            b = imul((lk[0][..., None], lk[1][..., None]), (R["lo"], R["hi"]))
            lo, hi = widen((a[0] + b[0], a[1] + b[1]), 8 * EPS)
            lka = np.maximum(np.abs(lk[0]), np.abs(lk[1]))[..., None]
            rka = np.maximum(np.abs(rk[0]), np.abs(rk[1]))[..., None]
            mass = L["mass"] * rka + lka * R["mass"]
            massd = L["massd"] * rka + lka * R["massd"]
    elif k == "ADDC":
        lo, hi, mass, massd, gmin, well = L["lo"], L["hi"], L["mass"], L["massd"], L["gmin"], L["wellcond"]
    elif k == "MULC":
        c = float(t[2])
        lo, hi = widen(imul((L["lo"], L["hi"]), (np.array(c), np.array(c))), 4 * EPS)
        mass, massd, gmin, well = L["mass"] * abs(c), L["massd"] * abs(c), L["gmin"], L["wellcond"]
    elif k == "POW":
        p = float(t[2])
        kl = _value_interval(t[1], Xs, Ys)
        if is_natural(p):
            # d/du u^m = m u^(m-1) for a base value u of any sign (m - 1 >= 0 is an integer: bound by parity)
            a, b = ipow_interval(kl[0], kl[1], int(p) - 1)
            a, b = p * a, p * b
            arg = (p - 1) * _logmag(kl[0], kl[1])
        else:
            klo = np.maximum(kl[0], 0.0)
            with np.errstate(divide="ignore", invalid="ignore", over="ignore"):
                a, b = p * klo ** (p - 1), p * kl[1] ** (p - 1)
                arg = np.abs((p - 1) * np.log(np.maximum(klo, 1e-300)))
        coef = widen((np.minimum(a, b), np.maximum(a, b)), 1e-13 * (1 + arg))
        lo, hi = widen(imul((coef[0][..., None], coef[1][..., None]), (L["lo"], L["hi"])), 4 * EPS)
        ca = np.maximum(np.abs(coef[0]), np.abs(coef[1]))[..., None]
        mass, massd, gmin, well = ca * L["mass"], ca * L["massd"], L["gmin"], L["wellcond"]
    else:
        raise ValueError(t)
    return dict(lo=scatter(ad, d, lo), hi=scatter(ad, d, hi), mass=scatter(ad, d, mass),
                massd=scatter(ad, d, massd), gmin=gmin, wellcond=well)


def inside(v, lo, hi, mass, slack=1e-13):
    a = slack * np.maximum(np.maximum(np.abs(lo), np.abs(hi)), mass) + 1e-300
    with np.errstate(invalid="ignore"):
        return (v >= lo - a) & (v <= hi + a)
