"""Regenerate MANIFEST.json from harness/props/*.py (a property is claimed iff its module exists and
defines CLAIM)."""
import os, json, importlib, re
from .common import VERIF

ALL = [f"C{i:02d}" for i in range(1, 21)]

def main():
    checks, na = [], []
    for pid in ALL:
        path = os.path.join(VERIF, "harness", "props", pid.lower() + ".py")
        if not os.path.exists(path):
            na.append({"property_id": pid, "reason": "check not built yet in this revision (in progress; see DESIGN.md §11)"})
            continue
        mod = importlib.import_module(f"harness.props.{pid.lower()}")
        claim = getattr(mod, "CLAIM", None)
        if claim is None:
            na.append({"property_id": pid, "reason": "check not registered yet in this revision (in progress)"})
            continue
        checks.append({
            "property_id": pid,
            "quick_cmd": f"./check {pid} --tier quick",
            "thorough_cmd": f"./check {pid} --tier thorough",
            "evidence_file": f"evidence/{pid}.json",
            "replay_cmd_template": f"./check {pid} --replay {{path}}",
            "engine": "lean4-model+correspondence",
            "level_claimed": {"category": "proof", "text": claim["text"], "design_ref": claim.get("design_ref", "DESIGN.md §5 " + pid)},
            "level_note": claim["note"],
            "technique": claim.get("technique", "Lean 4 theorems about a hand-written model + differential correspondence check against /repo"),
        })
    man = {
        "version": 1,
        "setup_cmd": "./setup.sh",
        "hooks": {"guard": "MELLON_VERIF", "enable": "no hooks: every observable is public API; checks import mellon from /repo's working tree in-process",
                  "baseline_off_cmd": "cd /repo && /venv/bin/python -m pytest -ra -q -p no:cacheprovider --timeout=900 --continue-on-collection-errors",
                  "source_commits": [], "add_only": True},
        "engines": [
            {"name": "lean4-model+correspondence", "path": "lean/", "serves_properties": [c["property_id"] for c in checks],
             "kind_free_text": "Lean 4.33 + Mathlib: hand-written model (lean/MellonModel, core-only, executable at Float via the compiled driver lean/Main.lean) and theorems over R / exact data (lean/MellonProofs); Python harness (harness/) runs the implementation in-process and the model driver on the same inputs and compares; independent property oracles drive the failing-input search"},
        ],
        "checks": checks,
        "notes": "See DESIGN.md. exit 0 = held; exit 1 + VIOLATION line; exit 2 = infrastructure failure. known_findings.json lists recorded defects.",
        "not_applicable": na,
    }
    with open(os.path.join(VERIF, "MANIFEST.json"), "w") as f:
        json.dump(man, f, indent=1)
    print("claimed:", [c["property_id"] for c in checks])

if __name__ == "__main__":
    main()
