"""Independent closed-form oracle for kernel expressions, in interval form.

For every pair (x_i, y_j) it returns [lo, hi] such that the *real-number* value of the documented
formula lies inside, together with every value any float64 evaluation order of
`xx - 2xy + yy + 1e-12` can produce (the squared distance is the only ill-conditioned step).  On
well-separated points the interval has relative width ~1e-13, so it is a sharp oracle; on
(near-)coincident points it widens exactly as much as the cancellation allows."""
import numpy as np
from .common import ad_indices

EPS = np.finfo(float).eps


def sel(ad, X):
    if ad[0] == "AN":
        return X
    return X[:, ad_indices(ad, X.shape[1])]


def widen(lo, hi, rel):
    a = rel * np.maximum(np.abs(lo), np.abs(hi)) + 1e-300
    return lo - a, hi + a


def sq_interval(X, Y):
    d = X.shape[1]
    diff = X[:, None, :] - Y[None, :, :]
    sq = (diff ** 2).sum(-1) + 1e-12
    nx = (X ** 2).sum(1)[:, None]
    ny = (Y ** 2).sum(1)[None, :]
    delta = 16 * EPS * (d + 2) * (nx + ny + 1e-12)
    return np.maximum(sq - delta, 0.0), sq + delta


def profile(kind, ls, alpha, sq):
    dist = np.sqrt(sq)
    if kind == "M32":
        r = np.sqrt(3.0) * dist / ls
        return (1 + r) * np.exp(-r), r
    if kind == "M52":
        r = np.sqrt(5.0) * dist / ls
        return (1 + r + r * r / 3) * np.exp(-r), r
    if kind == "EQ":
        r = dist / ls
        return np.exp(-r * r / 2), r * r / 2
    if kind == "EX":
        r = dist / ls
        return np.exp(-r / 2), r / 2
    if kind == "RQ":
        r = dist / ls
        base = r * r / (2 * alpha) + 1
        return base ** (-alpha), alpha * np.log(base)
    raise ValueError(kind)


def interval(t, X, Y):
    """(lo, hi) arrays of shape (n, m)."""
    k = t[0]
    if k in ("M32", "M52", "EQ", "EX", "RQ"):
        if k == "RQ":
            alpha, ls, ad = t[1], t[2], t[3]
        else:
            alpha, ls, ad = None, t[1], t[2]
        slo, shi = sq_interval(sel(ad, X), sel(ad, Y))
        khi, _ = profile(k, ls, alpha, slo)
        klo, arg = profile(k, ls, alpha, shi)
        return widen(klo, khi, 4e-14 * (1 + arg))
    if k == "LIN":
        Xs, Ys = sel(t[2], X), sel(t[2], Y)
        v = Xs @ Ys.T / t[1]
        mag = np.abs(Xs) @ np.abs(Ys).T / abs(t[1])
        a = 8 * EPS * (Xs.shape[1] + 2) * mag + 1e-300
        return v - a, v + a
    ad = t[-1]
    Xs, Ys = sel(ad, X), sel(ad, Y)
    if k == "ADD":
        l, r = interval(t[1], Xs, Ys), interval(t[2], Xs, Ys)
        lo, hi = l[0] + r[0], l[1] + r[1]
        return widen(lo, hi, 4 * EPS) if True else None
    if k == "ADDC":
        l = interval(t[1], Xs, Ys)
        return widen(l[0] + t[2], l[1] + t[2], 4 * EPS)
    if k == "MUL":
        l, r = interval(t[1], Xs, Ys), interval(t[2], Xs, Ys)
        c = np.stack([l[0] * r[0], l[0] * r[1], l[1] * r[0], l[1] * r[1]])
        return widen(c.min(0), c.max(0), 4 * EPS)
    if k == "MULC":
        l = interval(t[1], Xs, Ys)
        c = np.stack([l[0] * t[2], l[1] * t[2]])
        return widen(c.min(0), c.max(0), 4 * EPS)
    if k == "POW":
        l = interval(t[1], Xs, Ys)
        p = t[2]
        lo = np.maximum(l[0], 0.0)
        with np.errstate(divide="ignore", invalid="ignore"):
            a, b = lo ** p, l[1] ** p
            arg = np.abs(p * np.log(np.maximum(lo, 1e-300)))
        lo2, hi2 = np.minimum(a, b), np.maximum(a, b)
        return widen(lo2, hi2, 4e-14 * (1 + arg))
    raise ValueError(t)


def inside(v, lo, hi, slack=1e-13):
    a = slack * np.maximum(np.abs(lo), np.abs(hi)) + 1e-300
    with np.errstate(invalid="ignore"):
        ok = (v >= lo - a) & (v <= hi + a)
    return ok


def reachable_columns(t, cols):
    """Original column ids that can influence the value of tree t given it sees `cols`."""
    k = t[0]
    ad = t[-1]
    idx = ad_indices(ad, len(cols))
    sub = [cols[i] for i in idx]
    if k in ("M32", "M52", "EQ", "EX", "RQ", "LIN"):
        return set(sub)
    if k in ("ADD", "MUL"):
        return reachable_columns(t[1], sub) | reachable_columns(t[2], sub)
    return reachable_columns(t[1], sub)
