#!/bin/sh
# run every claimed property's quick (or $1) check in /verif; summary lines only
cd "$(dirname "$0")" || exit 2
tier="${1:-quick}"
for p in C01 C02 C03 C04 C05 C06 C07 C08 C09 C10 C11 C12 C13 C14 C15 C16 C17 C18 C19 C20; do
  ./check $p --tier $tier 2>&1 | grep -E "VIOLATION|INFRA|^\[|KNOWN" | cut -c1-220
done
