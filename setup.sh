#!/bin/sh
# Offline setup: optional python deps into .pydeps, build the Lean model, proofs and driver.
cd "$(dirname "$0")" || exit 2
mkdir -p .pydeps evidence replays
/venv/bin/pip install -q --no-index --find-links /opt/veriftools/wheels --target .pydeps mpmath jsonschema >/dev/null 2>&1 || echo "optional python deps not installed (not required)"
cd lean && lake build 2>&1 | tail -5
